(* C20, tie (T) for the dataset helpers: the definitions translated on this run from the current text of
   reservoirpy/datasets/__init__.py::to_forecasting and datasets/_utils.py::one_hot_encode (gen/Gen_datasets.v, over the
   Python/numpy vocabulary of base/DSPrelude.v) ARE the hand-written models of model/Datasets.v.
   Guards: none for to_forecasting (every forecast >= 0, every test_size, every series); for one_hot_encode the label order
   is transitive and antisymmetric (two of the three hypotheses of C20_one_hot itself). *)
From Coq Require Import List Arith Bool Lia Sorted ZArith QArith Qround Qabs Lqa.
From RV Require Import base.Num base.LA base.ListX base.DSPrelude model.Datasets proofs.Datasets_proofs gen.Gen_datasets.
Import ListNotations.
Close Scope Q_scope.

(* ------------------------------------------------------------------ Python slices = the firstn/skipn forms of the model *)
Section Slices.
Context {B : Type}.

(* a[:-k], INCLUDING k = 0 (empty) *)
Lemma py_slice_upto_neg (k : nat) (l : list B) : py_slice None (Some (- Z.of_nat k)%Z) l = upto_neg k l.
Proof.
  unfold py_slice, py_bound, upto_neg. cbn [skipn]. rewrite Nat.sub_0_r.
  destruct k as [|k].
  - cbn. reflexivity.
  - replace (- Z.of_nat (S k) <? 0)%Z with true by (symmetry; apply Z.ltb_lt; lia).
    replace (S k =? 0) with false by reflexivity.
    f_equal. lia.
Qed.

(* a[k:] *)
Lemma py_slice_from (k : nat) (l : list B) : py_slice (Some (Z.of_nat k)) None l = skipn k l.
Proof.
  unfold py_slice, py_bound.
  replace (Z.of_nat k <? 0)%Z with false by (symmetry; apply Z.ltb_ge; lia).
  rewrite Nat2Z.id.
  destruct (Nat.le_gt_cases k (length l)) as [Hk|Hk].
  - rewrite Nat.min_l by exact Hk. apply firstn_all2. rewrite skipn_length. lia.
  - rewrite Nat.min_r by lia. rewrite !skipn_all2 by lia. destruct (length l - length l); reflexivity.
Qed.

(* a[-k:] for k >= 1  (for k = 0 Python gives the whole array, the model's from_neg the empty one: from_neg is only used
   under test_len > 0) *)
Lemma py_slice_from_neg (k : nat) (l : list B) : 1 <= k -> py_slice (Some (- Z.of_nat k)%Z) None l = from_neg k l.
Proof.
  intros Hk. unfold py_slice, py_bound, from_neg.
  replace (- Z.of_nat k <? 0)%Z with true by (symmetry; apply Z.ltb_lt; lia).
  replace (Z.to_nat (Z.max 0 (- Z.of_nat k + Z.of_nat (length l)))) with (length l - k) by lia.
  apply firstn_all2. rewrite skipn_length. lia.
Qed.

(* a[p:i] and a[p:] for 0 <= p <= i *)
Lemma nat_slice_none (p : nat) (l : list B) : nat_slice p None l = skipn p l.
Proof. unfold nat_slice. cbn [option_map]. apply py_slice_from. Qed.

Lemma nat_slice_some (p i : nat) (l : list B) : p <= i -> nat_slice p (Some i) l = firstn (i - p) (skipn p l).
Proof.
  intros Hpi. unfold nat_slice, py_slice, py_bound. cbn [option_map].
  replace (Z.of_nat p <? 0)%Z with false by (symmetry; apply Z.ltb_ge; lia).
  replace (Z.of_nat i <? 0)%Z with false by (symmetry; apply Z.ltb_ge; lia).
  rewrite !Nat2Z.id.
  destruct (Nat.le_gt_cases p (length l)) as [Hp|Hp].
  - rewrite (Nat.min_l p) by exact Hp.
    destruct (Nat.le_gt_cases i (length l)) as [Hi|Hi].
    + rewrite Nat.min_l by exact Hi. reflexivity.
    + rewrite Nat.min_r by lia. rewrite !firstn_all2 by (rewrite skipn_length; lia). reflexivity.
  - rewrite (Nat.min_r p) by lia. rewrite !skipn_all2 by lia. rewrite !firstn_nil. reflexivity.
Qed.

Lemma py_slice_removelast (l : list B) : py_slice None (Some (- (1))%Z) l = removelast l.
Proof.
  change (- (1))%Z with (- Z.of_nat 1)%Z. rewrite py_slice_upto_neg. unfold upto_neg. cbn [Nat.eqb].
  induction l as [|a l IH]; [reflexivity|].
  destruct l as [|b l']; [reflexivity|].
  cbn [length] in *. replace (S (S (length l')) - 1) with (S (S (length l') - 1)) by lia.
  cbn [firstn]. rewrite IH. reflexivity.
Qed.
End Slices.

(* ------------------------------------------------------------------ round() *)
Lemma py_round_comp (x y : Q) : (x == y)%Q -> py_round x = py_round y.
Proof.
  intros E. unfold py_round. rewrite (Qfloor_comp _ _ E).
  assert (E2 : (x + x == y + y)%Q) by (rewrite E; reflexivity).
  rewrite (Qcompare_comp _ _ E2 _ _ (Qeq_refl _)). reflexivity.
Qed.

Lemma py_round_model (x : Q) : py_round x = round_half_even x.
Proof.
  unfold py_round, round_half_even.
  set (f := Qfloor x).
  assert (Ei : (inject_Z (2 * f + 1) == 2 * inject_Z f + 1)%Q).
  { rewrite inject_Z_plus, inject_Z_mult. reflexivity. }
  assert (Er : (Qred (x - inject_Z f) == x - inject_Z f)%Q) by apply Qred_correct.
  rewrite (Qcompare_comp _ _ Er _ _ (Qeq_refl (1 # 2))).
  rewrite (Qcompare_comp _ _ (Qeq_refl (x + x)%Q) _ _ Ei).
  destruct (Qcompare_spec (x + x) (2 * inject_Z f + 1)) as [E1|E1|E1];
    destruct (Qcompare_spec (x - inject_Z f) (1 # 2)) as [E2|E2|E2]; try reflexivity; exfalso; lra.
Qed.

(* ------------------------------------------------------------------ to_forecasting *)
Definition ts_model (a : py_arg) : test_size :=
  match a with PyNone => TsNone | PyInt k => TsInt k | PyFloat x => TsRatio x end.

Lemma gen_test_len (n : nat) (a : py_arg) :
  (if negb (py_is_none a) then
     if andb (py_is_float a) (andb (Qltb (py_float_val a) (inject_Z 1)) (Qle_bool (inject_Z 0) (py_float_val a)))
     then Some (py_round (inject_Z (Z.of_nat n) * py_float_val a)%Q)
     else if py_is_int a then Some (py_int_val a) else None
   else Some 0%Z) = test_len_of n (ts_model a).
Proof.
  destruct a as [|k|x]; cbn [ts_model test_len_of py_is_none py_is_float py_is_int py_float_val py_int_val negb andb];
    try reflexivity.
  unfold Qltb. change (inject_Z 1) with 1%Q. change (inject_Z 0) with 0%Q.
  rewrite andb_comm. destruct (Qle_bool 0 x && negb (Qle_bool 1 x)); [|reflexivity].
  f_equal. rewrite <- py_round_model. apply py_round_comp. symmetry. apply Qred_correct.
Qed.

Section Forecast.
Context {arr row : Type}.

(* for EVERY axis view, forecast, test_size and array: the generated function slices the time-major series exactly as the
   model does and moves the time axis back on every returned part *)
Theorem gen_to_forecasting_view (ax : axis_view arr row) (a : arr) (f : nat) (ts : py_arg) :
  GenDatasets.to_forecasting a f ax ts
  = option_map (map (mv_out ax a)) (to_forecasting_rows f (ts_model ts) (mv_in ax a)).
Proof.
  unfold GenDatasets.to_forecasting, to_forecasting_rows.
  rewrite gen_test_len.
  destruct (test_len_of (length (mv_in ax a)) (ts_model ts)) as [tl|]; [|reflexivity].
  cbn [py_bind option_map]. unfold forecast_rows.
  rewrite py_slice_upto_neg, py_slice_from.
  rewrite Z.gtb_ltb.
  destruct (0 <? tl)%Z eqn:Etl; [|reflexivity].
  apply Z.ltb_lt in Etl.
  replace (- tl)%Z with (- Z.of_nat (Z.to_nat tl))%Z by lia.
  rewrite !py_slice_upto_neg, !py_slice_from_neg by lia.
  reflexivity.
Qed.
End Forecast.

(* time axis 0 (any number of dimensions, any row type): the model itself *)
Theorem gen_to_forecasting_axis0 {A : Type} (s : list A) (f : nat) (ts : py_arg) :
  GenDatasets.to_forecasting s f (axis0_view A) ts = to_forecasting_rows f (ts_model ts) s.
Proof.
  rewrite gen_to_forecasting_view. cbn [mv_in mv_out axis0_view].
  destruct (to_forecasting_rows f (ts_model ts) s) as [p|]; [|reflexivity].
  cbn [option_map]. rewrite map_id. reflexivity.
Qed.

(* 2-D series, time axis 0 or 1: to_forecasting_2d *)
Theorem gen_to_forecasting_2d {F : Type} `{Num F} (series : list (list F)) (f : nat) (ts : py_arg) :
  GenDatasets.to_forecasting series f (axis0_view (list F)) ts = to_forecasting_2d 0 f (ts_model ts) series
  /\ forall axis, axis <> 0 ->
     GenDatasets.to_forecasting series f (axis1_view F) ts = to_forecasting_2d axis f (ts_model ts) series.
Proof.
  split.
  - apply gen_to_forecasting_axis0.
  - intros axis Hax. rewrite gen_to_forecasting_view. unfold to_forecasting_2d.
    replace (axis =? 0) with false by (symmetry; apply Nat.eqb_neq; exact Hax).
    cbn [mv_in mv_out axis1_view].
    destruct (to_forecasting_rows f (ts_model ts) (transpose series (length (hd [] series)))); reflexivity.
Qed.

(* ------------------------------------------------------------------ one_hot_encode *)
Section OneHot.
Context {A : Type} (leb : A -> A -> bool).
Hypothesis leb_trans : forall a b c, leb a b = true -> leb b c = true -> leb a c = true.
Hypothesis leb_antisym : forall a b, leb a b = true -> leb b a = true -> a = b.

Lemma position_index_of (a : A) (s : list A) : position leb a s = index_of leb a s.
Proof. induction s as [|b s IH]; [reflexivity|]. cbn. unfold lab_eqb, leqb. rewrite IH. reflexivity. Qed.

(* inserting a value not yet present at its place in a sorted duplicate-free list = the model's uinsert *)
Lemma np_unique_step (a : A) (s : list A) : StronglySorted (llt leb) s ->
  (if existsb (lab_eqb leb a) s then s else insert_sorted leb a s) = uinsert leb a s.
Proof.
  induction 1 as [|b s Hs IH Hf]; [reflexivity|].
  cbn [existsb insert_sorted uinsert]. unfold lab_eqb at 1.
  destruct (leb a b) eqn:E1; [destruct (leb b a) eqn:E2|]; cbn [andb orb].
  - reflexivity.
  - assert (Ex : existsb (lab_eqb leb a) s = false).
    { apply not_true_is_false. intros Ex. apply existsb_exists in Ex. destruct Ex as [c [Hc Ec]].
      unfold lab_eqb in Ec. apply andb_prop in Ec. destruct Ec as [_ Eca].
      rewrite Forall_forall in Hf. specialize (Hf c Hc). unfold llt in Hf.
      rewrite (leb_trans c a b Eca E1) in Hf. discriminate. }
    rewrite Ex. reflexivity.
  - rewrite <- IH. destruct (existsb (lab_eqb leb a) s); reflexivity.
Qed.

Lemma np_unique_model (l : list A) : np_unique leb l = unique leb l.
Proof.
  induction l as [|a l IH]; [reflexivity|].
  unfold np_unique, unique in *. cbn [fold_right]. rewrite IH.
  apply np_unique_step. apply (unique_sorted leb leb_trans leb_antisym).
Qed.

Context {F : Type} `{Num F}.

Lemma take_encode (cls : list A) (l : list A) :
  map (fun i => nth i (eye (F:=F) (length cls)) []) (map (fun a => position leb a cls) l) = map (encode_with leb cls) l.
Proof. rewrite map_map. apply map_ext. intros a. unfold encode_with. rewrite position_index_of. reflexivity. Qed.

(* 1-D label array / list of labels *)
Theorem gen_one_hot_1d (labels : list A) :
  GenDatasets.one_hot_encode_arr leb (A1 labels)
  = Some (A1 (fst (one_hot (F:=F) leb labels)), snd (one_hot (F:=F) leb labels)).
Proof.
  unfold GenDatasets.one_hot_encode_arr, one_hot. cbn [nd_ndim Nat.ltb Nat.leb andb py_bind].
  unfold np_unique_inverse. cbn [nd_flat nd_reshape_like nd_take fst snd].
  rewrite np_unique_model, take_encode. reflexivity.
Qed.

Lemma chunks_map {B C} (g : B -> C) (m : nat) : forall n (l : list B),
  map (map g) (chunks n m l) = reshape_rows n m (map g l).
Proof.
  induction n as [|n IH]; intros l; [reflexivity|].
  cbn [chunks reshape_rows map]. rewrite IH, firstn_map, skipn_map. reflexivity.
Qed.

(* 2-D label array (n, m): squeezed when m = 1, element-wise otherwise *)
Theorem gen_one_hot_2d (rows : list (list A)) :
  GenDatasets.one_hot_encode_arr leb (A2 rows)
  = Some (match fst (one_hot_2d (F:=F) leb rows) with inl e => A1 e | inr e => A2 e end,
          snd (one_hot_2d (F:=F) leb rows)).
Proof.
  unfold GenDatasets.one_hot_encode_arr, one_hot_2d, one_hot.
  cbn [nd_ndim nd_shape_last Nat.ltb Nat.leb andb nd_reshape_drop_last].
  destruct (length (hd [] rows) =? 1) eqn:Em; cbn [py_bind].
  - unfold np_unique_inverse. cbn [nd_flat nd_reshape_like nd_take fst snd].
    rewrite np_unique_model, take_encode. reflexivity.
  - unfold np_unique_inverse. cbn [nd_flat nd_reshape_like nd_take fst snd].
    rewrite np_unique_model. rewrite chunks_map, take_encode. reflexivity.
Qed.

(* np.split at non-decreasing indices = the model's relative splitting *)
Fixpoint mono (prev : nat) (idx : list nat) : Prop :=
  match idx with [] => True | i :: r => prev <= i /\ mono i r end.

Lemma skipn_add {C} : forall (y x : nat) (l : list C), skipn x (skipn y l) = skipn (y + x) l.
Proof.
  induction y as [|y IH]; intros x l; [reflexivity|].
  destruct l as [|c l]; [cbn; destruct x; reflexivity|]. cbn [skipn Nat.add]. apply IH.
Qed.

Lemma np_split_from_model {C} : forall (idx : list nat) (prev : nat) (l : list C), mono prev idx ->
  np_split_from prev idx l = np_split prev idx (skipn prev l).
Proof.
  induction idx as [|i idx IH]; intros prev l Hm.
  - cbn [np_split_from np_split]. rewrite nat_slice_none. reflexivity.
  - destruct Hm as [Hp Hm]. cbn [np_split_from np_split]. rewrite nat_slice_some by exact Hp.
    f_equal. rewrite IH by exact Hm. f_equal. rewrite skipn_add. f_equal. lia.
Qed.

Lemma cumsum_model : forall l acc, np_cumsum_from acc l = cumsum acc l.
Proof. induction l as [|x l IH]; intros acc; [reflexivity|]. cbn. rewrite IH. reflexivity. Qed.

Lemma cumsum_mono : forall l acc, mono acc (cumsum acc l).
Proof. induction l as [|x l IH]; intros acc; [exact I|]. cbn. split; [lia|apply IH]. Qed.

Lemma mono_removelast : forall idx prev, mono prev idx -> mono prev (removelast idx).
Proof.
  induction idx as [|i idx IH]; intros prev Hm; [exact I|].
  destruct Hm as [Hp Hm]. destruct idx as [|j idx']; [exact I|].
  change (removelast (i :: j :: idx')) with (i :: removelast (j :: idx')). split; [exact Hp|apply IH; exact Hm].
Qed.

(* Python list of 1-D label arrays *)
Theorem gen_one_hot_seqs (seqs : list (list A)) :
  GenDatasets.one_hot_encode_seqs leb seqs
  = Some (map A1 (fst (one_hot_multi (F:=F) leb seqs)), snd (one_hot_multi (F:=F) leb seqs)).
Proof.
  unfold GenDatasets.one_hot_encode_seqs, np_concatenate. rewrite gen_one_hot_1d. cbn [py_bind].
  unfold one_hot_multi. destruct (one_hot (F:=F) leb (concat seqs)) as [enc cls] eqn:Eo. cbn [fst snd nd_split].
  rewrite py_slice_removelast. unfold np_cumsum. rewrite cumsum_model.
  rewrite np_split_from_model by (apply mono_removelast, cumsum_mono).
  cbn [skipn]. rewrite map_ext with (g := @length A) by reflexivity. reflexivity.
Qed.
End OneHot.
