(* C20: proofs about model/Datasets.v. *)
From Coq Require Import List Arith Bool Lia Sorted ZArith QArith Qround Qabs Lqa.
From RV Require Import base.Num base.LA base.ListX model.Datasets.
Import ListNotations.
Close Scope Q_scope.

(* ------------------------------------------------------------------ generic list facts *)
Section ListFacts.
Context {A : Type}.

Lemma nth_skipn_add (l : list A) : forall k i d, nth i (skipn k l) d = nth (k + i) l d.
Proof.
  induction l as [|a l IH]; intros k i d.
  - rewrite skipn_nil. destruct i, (k + _); reflexivity.
  - destruct k as [|k]; [reflexivity|]. cbn. apply IH.
Qed.

Lemma skipn_length' (l : list A) k : length (skipn k l) = length l - k.
Proof. apply skipn_length. Qed.

Lemma firstn_length_le' (l : list A) k : length (firstn k l) = Nat.min k (length l).
Proof. apply firstn_length. Qed.

Lemma firstn_skipn_seq (l : list A) d : forall s k, s + k <= length l ->
  firstn k (skipn s l) = map (fun j => nth j l d) (seq s k).
Proof.
  intros s k. revert s. induction k as [|k IH]; intros s Hk; [reflexivity|].
  cbn [seq map]. rewrite <- IH by lia.
  assert (Hs : s < length l) by lia.
  clear IH. revert s Hs Hk. induction l as [|a l IHl]; intros s Hs Hk; [cbn in Hs; lia|].
  destruct s as [|s].
  - cbn. reflexivity.
  - cbn [skipn nth]. cbn [length] in *. rewrite IHl by lia. reflexivity.
Qed.
End ListFacts.

Lemma map_nth_d {A B} (f : A -> B) (l : list A) j d d' : f d' = d -> nth j (map f l) d = f (nth j l d').
Proof. intros <-. apply map_nth. Qed.

(* ------------------------------------------------------------------ to_forecasting *)
Section Forecast.
Context {A : Type}.

Lemma upto_neg_length (k : nat) (l : list A) : 1 <= k -> length (upto_neg k l) = length l - k.
Proof. intros Hk. unfold upto_neg. destruct (Nat.eqb_spec k 0); [lia|]. rewrite firstn_length. lia. Qed.

Lemma upto_neg_nth (k : nat) (l : list A) i d : 1 <= k -> i < length l - k -> nth i (upto_neg k l) d = nth i l d.
Proof. intros Hk Hi. unfold upto_neg. destruct (Nat.eqb_spec k 0); [lia|]. apply nth_firstn_lt. exact Hi. Qed.

Lemma from_neg_length (k : nat) (l : list A) : length (from_neg k l) = Nat.min k (length l).
Proof. unfold from_neg. rewrite skipn_length. lia. Qed.

Lemma from_neg_nth (k : nat) (l : list A) i d : nth i (from_neg k l) d = nth (length l - k + i) l d.
Proof. unfold from_neg. apply nth_skipn_add. Qed.

Lemma upto_from_neg (k : nat) (l : list A) : 1 <= k -> upto_neg k l ++ from_neg k l = l.
Proof. intros Hk. unfold upto_neg, from_neg. destruct (Nat.eqb_spec k 0); [lia|]. apply firstn_skipn. Qed.

(* X[i] = series[i], y[i] = series[i + forecast], both of length n - forecast *)
Theorem forecast_alignment (f : nat) (tl : Z) (s : list A) (d : A) : 1 <= f -> (tl <= 0)%Z ->
  exists X y, forecast_rows f tl s = [X; y] /\
    length X = length s - f /\ length y = length s - f /\
    forall i, i < length s - f -> nth i X d = nth i s d /\ nth i y d = nth (i + f) s d.
Proof.
  intros Hf Htl. unfold forecast_rows. destruct (Z.ltb_spec 0 tl); [lia|].
  eexists _, _. split; [reflexivity|]. split; [apply upto_neg_length; exact Hf|].
  split; [apply skipn_length|]. intros i Hi. split; [apply upto_neg_nth; assumption|].
  rewrite nth_skipn_add. f_equal. lia.
Qed.

(* with a test part of k = test_len rows: the four returned pieces *)
Theorem forecast_split (f : nat) (tl : Z) (s : list A) (d : A) : 1 <= f -> (0 < tl)%Z ->
  let k := Z.to_nat tl in let m := length s - f in
  exists Xtr Xte ytr yte, forecast_rows f tl s = [Xtr; Xte; ytr; yte] /\
    (* contiguous, in order, nothing lost or repeated; the same cut for inputs and targets *)
    Xtr ++ Xte = upto_neg f s /\ ytr ++ yte = skipn f s /\
    length Xtr = m - k /\ length ytr = m - k /\ length Xte = Nat.min k m /\ length yte = Nat.min k m /\
    (* row by row *)
    (forall i, i < m - k -> nth i Xtr d = nth i s d /\ nth i ytr d = nth (i + f) s d) /\
    (forall i, i < Nat.min k m -> nth i Xte d = nth (m - k + i) s d /\ nth i yte d = nth (m - k + i + f) s d).
Proof.
  intros Hf Htl k m. unfold forecast_rows. destruct (Z.ltb_spec 0 tl); [|lia]. fold k.
  assert (Hk : 1 <= k) by (subst k; lia).
  assert (HX : length (upto_neg f s) = m) by (apply upto_neg_length; exact Hf).
  assert (Hy : length (skipn f s) = m) by apply skipn_length.
  eexists _, _, _, _. split; [reflexivity|].
  split; [apply upto_from_neg; exact Hk|]. split; [apply upto_from_neg; exact Hk|].
  split; [rewrite upto_neg_length by exact Hk; rewrite HX; reflexivity|].
  split; [rewrite upto_neg_length by exact Hk; rewrite Hy; reflexivity|].
  split; [rewrite from_neg_length, HX; reflexivity|].
  split; [rewrite from_neg_length, Hy; reflexivity|].
  split; intros i Hi; split.
  - rewrite upto_neg_nth by (rewrite ?HX; lia). apply upto_neg_nth; lia.
  - rewrite upto_neg_nth by (rewrite ?Hy; lia). rewrite nth_skipn_add. f_equal. lia.
  - rewrite from_neg_nth, HX. apply upto_neg_nth; lia.
  - rewrite from_neg_nth, Hy. rewrite nth_skipn_add. f_equal. lia.
Qed.
End Forecast.

(* test_len: Python's round(time_len * ratio) is a nearest integer *)
Lemma round_half_even_near (x : Q) : (Qabs (inject_Z (round_half_even x) - x) <= 1 # 2)%Q.
Proof.
  unfold round_half_even.
  pose proof (Qfloor_le x) as H1. pose proof (Qlt_floor x) as H2.
  set (f := Qfloor x) in *.
  assert (Hd : (Qred (x - inject_Z f) == x - inject_Z f)%Q) by apply Qred_correct.
  assert (H3 : (inject_Z (f + 1) == inject_Z f + 1)%Q) by (rewrite inject_Z_plus; reflexivity).
  apply Qabs_Qle_condition.
  destruct (Qcompare (Qred (x - inject_Z f)) (1 # 2)) eqn:E.
  - apply Qeq_alt in E. rewrite Hd in E. destruct (Z.even f); rewrite ?H3; split; lra.
  - apply Qlt_alt in E. rewrite Hd in E. split; lra.
  - apply Qgt_alt in E. rewrite Hd in E. rewrite H3. split; lra.
Qed.

Theorem test_len_spec (n : nat) (ts : test_size) :
  match ts with
  | TsNone => test_len_of n ts = Some 0%Z
  | TsInt k => test_len_of n ts = Some k
  | TsRatio r => (0 <= r)%Q -> (r < 1)%Q ->
      exists z, test_len_of n ts = Some z /\ (Qabs (inject_Z z - inject_Z (Z.of_nat n) * r) <= 1 # 2)%Q
  end.
Proof.
  destruct ts as [|k|r]; try reflexivity. intros H0 H1. cbn [test_len_of].
  assert (E0 : Qle_bool 0 r = true) by (apply Qle_bool_iff; exact H0).
  assert (E1 : Qle_bool 1 r = false).
  { destruct (Qle_bool 1 r) eqn:E; [|reflexivity]. apply Qle_bool_iff in E. lra. }
  rewrite E0, E1. cbn [andb negb]. eexists. split; [reflexivity|].
  pose proof (round_half_even_near (Qred (inject_Z (Z.of_nat n) * r))) as Hr.
  assert (Hq : (Qred (inject_Z (Z.of_nat n) * r) == inject_Z (Z.of_nat n) * r)%Q) by apply Qred_correct.
  rewrite Hq in Hr at 2. exact Hr.
Qed.

(* ------------------------------------------------------------------ transposition (time axis 1) *)
Section Axis.
Context {F : Type} `{Num F}.

Lemma transpose_length (c : nat) : forall (M : list (list F)), length (transpose M c) = c.
Proof. induction c as [|c IH]; intros M; cbn; [reflexivity|]. rewrite IH. reflexivity. Qed.

Lemma transpose_row_length (c : nat) : forall (M : list (list F)) i, i < c -> length (nth i (transpose M c) []) = length M.
Proof.
  induction c as [|c IH]; intros M i Hi; [lia|]. cbn [transpose]. destruct i as [|i]; cbn [nth].
  - apply map_length.
  - rewrite IH by lia. apply map_length.
Qed.

Lemma mget_transpose (c : nat) : forall (M : list (list F)) i j, i < c -> mget (transpose M c) i j = mget M j i.
Proof.
  unfold mget. induction c as [|c IH]; intros M i j Hi; [lia|]. cbn [transpose]. destruct i as [|i]; cbn [nth].
  - rewrite (map_nth_d (fun row => hd n0 row) M j n0 []) by reflexivity. destruct (nth j M []); reflexivity.
  - rewrite IH by lia. rewrite (map_nth_d (@tl F) M j [] []) by reflexivity.
    destruct (nth j M []); [destruct i|]; reflexivity.
Qed.

(* time axis 1: every returned part is the transpose of the part computed on the transposed series *)
Theorem forecast_axis1 (f : nat) (ts : test_size) (series : list (list F)) (parts2 : list (list (list F))) :
  to_forecasting_2d 1 f ts series = Some parts2 ->
  let R := length series in let T := length (hd [] series) in
  exists parts, to_forecasting_rows f ts (transpose series T) = Some parts /\
    length parts2 = length parts /\
    (forall t r, t < T -> mget (transpose series T) t r = mget series r t) /\
    forall k r j, k < length parts -> r < R ->
      mget (nth k parts2 []) r j = mget (nth k parts []) j r /\ length (nth k parts2 []) = R.
Proof.
  intros Hres R T. unfold to_forecasting_2d in Hres. cbn [Nat.eqb] in Hres. fold R T in Hres.
  destruct (to_forecasting_rows f ts (transpose series T)) as [parts|]; [|discriminate].
  injection Hres as <-. exists parts. split; [reflexivity|]. split; [apply map_length|].
  split; [intros t r Ht; apply mget_transpose; exact Ht|].
  intros k r j Hk Hr.
  assert (E : nth k (map (fun p => transpose p R) parts) [] = transpose (nth k parts []) R).
  { rewrite nth_indep with (d' := transpose [] R) by (rewrite map_length; exact Hk).
    apply (map_nth (fun p => transpose p R)). }
  rewrite E. split; [apply mget_transpose; exact Hr|apply transpose_length].
Qed.

(* the direct statement without a test part *)
Theorem forecast_axis1_alignment (f : nat) (series : list (list F)) : 1 <= f ->
  let R := length series in let T := length (hd [] series) in
  exists X y, to_forecasting_2d 1 f TsNone series = Some [X; y] /\ length X = R /\ length y = R /\
    forall r j, r < R -> j < T - f ->
      mget X r j = mget series r j /\ mget y r j = mget series r (j + f).
Proof.
  intros Hf R T. unfold to_forecasting_2d, to_forecasting_rows. cbn [Nat.eqb test_len_of]. fold T.
  destruct (forecast_alignment f 0 (transpose series T) [] Hf (Z.le_refl 0)) as (X & y & E & LX & Ly & Hn).
  rewrite E. cbn [map]. eexists _, _. split; [reflexivity|].
  split; [apply transpose_length|]. split; [apply transpose_length|].
  intros r j Hr Hj. rewrite transpose_length in Hn.
  destruct (Hn j Hj) as [HX Hy].
  rewrite !mget_transpose by exact Hr. unfold mget in *. rewrite HX, Hy.
  split; apply (mget_transpose T series); lia.
Qed.
End Axis.

(* ------------------------------------------------------------------ one_hot_encode *)
Section OneHot.
Context {A : Type} (leb : A -> A -> bool).
Hypothesis leb_total : forall a b, leb a b = true \/ leb b a = true.
Hypothesis leb_trans : forall a b c, leb a b = true -> leb b c = true -> leb a c = true.
Hypothesis leb_antisym : forall a b, leb a b = true -> leb b a = true -> a = b.

Definition llt (a b : A) : Prop := leb b a = false.

Lemma llt_irrefl a : ~ llt a a.
Proof. unfold llt. destruct (leb_total a a) as [E|E]; rewrite E; discriminate. Qed.

Lemma leqb_eq a b : leqb leb a b = true <-> a = b.
Proof.
  unfold leqb. split.
  - intros E. apply andb_prop in E. destruct E. apply leb_antisym; assumption.
  - intros ->. destruct (leb_total b b) as [E|E]; rewrite E; reflexivity.
Qed.

Lemma uinsert_in a l x : In x (uinsert leb a l) <-> x = a \/ In x l.
Proof.
  induction l as [|b l IH]; cbn.
  - intuition.
  - destruct (leb a b) eqn:E1; [destruct (leb b a) eqn:E2|].
    + assert (a = b) by (apply leb_antisym; assumption). subst. cbn. intuition.
    + cbn. intuition.
    + cbn. rewrite IH. intuition.
Qed.

Lemma uinsert_sorted a l : StronglySorted llt l -> StronglySorted llt (uinsert leb a l).
Proof.
  induction 1 as [|b l Hs IH Hf]; cbn.
  - constructor; constructor.
  - destruct (leb a b) eqn:E1; [destruct (leb b a) eqn:E2|].
    + constructor; assumption.
    + constructor; [constructor; assumption|]. constructor; [exact E2|].
      eapply Forall_impl; [|exact Hf]. intros x Hx. unfold llt in *.
      destruct (leb x a) eqn:E3; [|reflexivity]. rewrite (leb_trans x a b E3 E1) in Hx. discriminate.
    + constructor; [exact IH|]. apply Forall_forall. intros x Hx. apply uinsert_in in Hx.
      destruct Hx as [->|Hx]; [exact E1|]. rewrite Forall_forall in Hf. apply Hf. exact Hx.
Qed.

Lemma unique_sorted l : StronglySorted llt (unique leb l).
Proof. induction l as [|a l IH]; cbn; [constructor|]. apply uinsert_sorted. exact IH. Qed.

Lemma unique_in l x : In x (unique leb l) <-> In x l.
Proof. induction l as [|a l IH]; cbn; [tauto|]. rewrite uinsert_in, IH. intuition. Qed.

Lemma sorted_nodup l : StronglySorted llt l -> NoDup l.
Proof.
  induction 1 as [|a l Hs IH Hf]; constructor; auto.
  intros Hin. rewrite Forall_forall in Hf. apply (llt_irrefl a). apply Hf. exact Hin.
Qed.

Lemma index_of_spec a l d : In a l -> index_of leb a l < length l /\ nth (index_of leb a l) l d = a.
Proof.
  induction l as [|b l IH]; intros Hin; [destruct Hin|]. cbn.
  destruct (leqb leb a b) eqn:E.
  - apply leqb_eq in E. subst. split; [lia|reflexivity].
  - destruct Hin as [->|Hin]; [rewrite (proj2 (leqb_eq a a) eq_refl) in E; discriminate|].
    destruct (IH Hin). split; [lia|assumption].
Qed.

Context {F : Type} `{Num F}.

Lemma unitv_length k : forall i, length (unitv (F:=F) k i) = k.
Proof. induction k as [|k IH]; intros i; cbn; [reflexivity|]. destruct i; cbn; [unfold vzeros; rewrite repeat_length|rewrite IH]; reflexivity. Qed.

Lemma unitv_nth k : forall i j, i < k -> nth j (unitv (F:=F) k i) n0 = if j =? i then n1 else n0.
Proof.
  induction k as [|k IH]; intros i j Hi; [lia|]. cbn [unitv]. destruct i as [|i].
  - destruct j as [|j]; cbn; [reflexivity|]. unfold vzeros.
    destruct (Nat.lt_ge_cases j k); [apply nth_repeat_any; assumption|].
    apply nth_overflow. rewrite repeat_length. assumption.
  - destruct j as [|j]; cbn [nth]; [reflexivity|]. rewrite IH by lia. reflexivity.
Qed.

Lemma eye_nth k i : i < k -> nth i (eye (F:=F) k) [] = unitv k i.
Proof.
  intros Hi. unfold eye. rewrite nth_indep with (d' := unitv k 0) by (rewrite map_length, seq_length; exact Hi).
  rewrite (map_nth (unitv k)). rewrite seq_nth by exact Hi. reflexivity.
Qed.

(* the encoded row of a label that occurs in the class list *)
Lemma encode_with_spec cls a d : In a cls ->
  let idx := index_of leb a cls in
  idx < length cls /\ nth idx cls d = a /\ encode_with leb cls a = unitv (F:=F) (length cls) idx.
Proof.
  intros Hin idx. destruct (index_of_spec a cls d Hin) as [H1 H2]. fold idx in H1, H2.
  repeat split; try assumption. unfold encode_with. fold idx. apply eye_nth. exact H1.
Qed.

Theorem one_hot_spec (labels : list A) (d : A) :
  let enc := fst (one_hot (F:=F) leb labels) in let cls := snd (one_hot (F:=F) leb labels) in
  StronglySorted llt cls /\ NoDup cls /\ (forall x, In x cls <-> In x labels) /\
  length enc = length labels /\
  forall i, i < length labels ->
    exists idx, idx < length cls /\ nth idx cls d = nth i labels d /\
      length (nth i enc []) = length cls /\
      forall j, nth j (nth i enc []) n0 = if j =? idx then n1 else n0.
Proof.
  cbn. split; [apply unique_sorted|]. split; [apply sorted_nodup, unique_sorted|].
  split; [apply unique_in|]. split; [apply map_length|].
  intros i Hi. set (cls := unique leb labels). set (a := nth i labels d).
  assert (Hin : In a cls) by (apply unique_in, nth_In; exact Hi).
  destruct (encode_with_spec cls a d Hin) as (H1 & H2 & H3).
  exists (index_of leb a cls). split; [exact H1|]. split; [exact H2|].
  assert (E : nth i (map (encode_with leb cls) labels) [] = encode_with (F:=F) leb cls a).
  { rewrite nth_indep with (d' := encode_with leb cls d) by (rewrite map_length; exact Hi).
    apply (map_nth (encode_with leb cls)). }
  rewrite E, H3. split; [apply unitv_length|]. intros j. apply unitv_nth. exact H1.
Qed.

(* splitting back *)
Lemma np_split_cumsum {B} (g : A -> B) : forall (seqs : list (list A)) (s0 : list A) prev,
  np_split prev (removelast (cumsum prev (map (@length A) (s0 :: seqs)))) (map g (concat (s0 :: seqs)))
  = map (map g) (s0 :: seqs).
Proof.
  induction seqs as [|s1 seqs IH]; intros s0 prev.
  - cbn. rewrite app_nil_r. reflexivity.
  - change (map (@length A) (s0 :: s1 :: seqs)) with (length s0 :: map (@length A) (s1 :: seqs)).
    cbn [cumsum].
    assert (Hne : cumsum (prev + length s0) (map (@length A) (s1 :: seqs)) <> []) by (cbn; discriminate).
    destruct (cumsum (prev + length s0) (map (@length A) (s1 :: seqs))) as [|c0 cs] eqn:Ec; [congruence|].
    cbn [removelast]. cbn [np_split].
    replace (prev + length s0 - prev) with (length s0) by lia.
    change (concat (s0 :: s1 :: seqs)) with (s0 ++ concat (s1 :: seqs)).
    rewrite map_app.
    rewrite firstn_app, firstn_all2 by (rewrite map_length; lia).
    rewrite map_length, Nat.sub_diag. cbn [firstn]. rewrite app_nil_r.
    rewrite skipn_app, skipn_all2 by (rewrite map_length; lia).
    rewrite map_length, Nat.sub_diag. cbn [skipn app].
    change (map (map g) (s0 :: s1 :: seqs)) with (map g s0 :: map (map g) (s1 :: seqs)).
    f_equal. rewrite <- IH with (prev := prev + length s0). rewrite Ec. reflexivity.
Qed.

Theorem one_hot_multi_spec (seqs : list (list A)) : seqs <> [] ->
  let cls := unique leb (concat seqs) in
  one_hot_multi (F:=F) leb seqs = (map (map (encode_with leb cls)) seqs, cls).
Proof.
  intros Hne cls. destruct seqs as [|s0 seqs]; [congruence|].
  unfold one_hot_multi, one_hot. fold cls. f_equal. apply np_split_cumsum.
Qed.

(* 2-D label arrays *)
Lemma reshape_rows_map {B} (g : A -> B) (m : nat) : forall (rows : list (list A)),
  Forall (fun r => length r = m) rows ->
  reshape_rows (length rows) m (map g (concat rows)) = map (map g) rows.
Proof.
  induction rows as [|r rows IH]; intros Hf; [reflexivity|].
  inversion Hf as [|? ? Hr Hf']; subst. cbn [length reshape_rows concat map]. rewrite map_app.
  rewrite firstn_app, firstn_all2 by (rewrite map_length; lia).
  rewrite map_length, Nat.sub_diag. cbn [firstn]. rewrite app_nil_r.
  rewrite skipn_app, skipn_all2 by (rewrite map_length; lia).
  rewrite map_length, Nat.sub_diag. cbn [skipn app]. rewrite IH by exact Hf'. reflexivity.
Qed.

Theorem one_hot_2d_spec (rows : list (list A)) (m : nat) : rows <> [] ->
  Forall (fun r => length r = m) rows ->
  let cls := unique leb (concat rows) in
  one_hot_2d (F:=F) leb rows =
    if m =? 1 then (inl (map (encode_with leb cls) (concat rows)), cls)
    else (inr (map (map (encode_with leb cls)) rows), cls).
Proof.
  intros Hne Hf cls. unfold one_hot_2d, one_hot. fold cls.
  assert (Hm : length (hd [] rows) = m).
  { destruct rows as [|r rows]; [congruence|]. inversion Hf; assumption. }
  rewrite Hm. destruct (m =? 1); [reflexivity|]. rewrite reshape_rows_map by exact Hf. reflexivity.
Qed.
End OneHot.

(* the integer instance *)
Lemma Zleb_total a b : Z.leb a b = true \/ Z.leb b a = true.
Proof. destruct (Z.leb_spec a b); [left; reflexivity|right; apply Z.leb_le; lia]. Qed.
Lemma Zleb_trans a b c : Z.leb a b = true -> Z.leb b c = true -> Z.leb a c = true.
Proof. rewrite !Z.leb_le. lia. Qed.
Lemma Zleb_antisym a b : Z.leb a b = true -> Z.leb b a = true -> a = b.
Proof. rewrite !Z.leb_le. lia. Qed.

Lemma ssorted_impl {A} (P Q : A -> A -> Prop) (l : list A) :
  (forall a b, P a b -> Q a b) -> StronglySorted P l -> StronglySorted Q l.
Proof. intros HPQ. induction 1 as [|a l Hs IH Hf]; constructor; auto. eapply Forall_impl; [|exact Hf]. auto. Qed.

Theorem one_hot_spec_Z {F : Type} `{Num F} (labels : list Z) (d : Z) :
  let enc := fst (one_hot (F:=F) Z.leb labels) in let cls := snd (one_hot (F:=F) Z.leb labels) in
  StronglySorted (fun a b => (a < b)%Z) cls /\ NoDup cls /\ (forall x, In x cls <-> In x labels) /\
  length enc = length labels /\
  forall i, i < length labels ->
    exists idx, idx < length cls /\ nth idx cls d = nth i labels d /\
      length (nth i enc []) = length cls /\
      forall j, nth j (nth i enc []) n0 = if j =? idx then n1 else n0.
Proof.
  destruct (one_hot_spec (F:=F) Z.leb Zleb_total Zleb_trans Zleb_antisym labels d) as (H1 & H2).
  split; [|exact H2]. eapply ssorted_impl; [|exact H1]. unfold llt. intros a b E. apply Z.leb_gt in E. exact E.
Qed.

(* ------------------------------------------------------------------ logistic / Henon *)
Section Orbit.
Context {St : Type} (step : St -> St).
Lemma orbit_length n : forall s, length (orbit step n s) = n.
Proof. induction n as [|n IH]; intros s; cbn; [reflexivity|]. rewrite IH. reflexivity. Qed.
Lemma orbit_nth n : forall s i d, i < n -> nth i (orbit step n s) d = Nat.iter i step s.
Proof.
  induction n as [|n IH]; intros s i d Hi; [lia|]. destruct i as [|i]; [reflexivity|].
  cbn [orbit nth]. rewrite IH by lia. clear. induction i as [|i IHi]; [reflexivity|].
  change (step (Nat.iter i step (step s)) = step (Nat.iter (S i) step s)). f_equal. exact IHi.
Qed.
Lemma orbit_succ n s i d : S i < n -> nth (S i) (orbit step n s) d = step (nth i (orbit step n s) d).
Proof. intros Hi. rewrite !orbit_nth by lia. reflexivity. Qed.
End Orbit.

Section Maps.
Context {F : Type} `{Num F}.

Theorem logistic_spec (n : nat) (r x0 : F) (rows : list (list F)) :
  logistic_map n r x0 = Some rows ->
  length rows = n /\ nth 0 rows [] = [x0] /\
  forall i, S i < n -> exists x, nth i rows [] = [x] /\ nth (S i) rows [] = [nmul (nmul r x) (nsub n1 x)].
Proof.
  unfold logistic_map. destruct (_ && _); [|discriminate]. destruct n as [|n]; [discriminate|].
  intros E. assert (E' : map (fun x : F => [x]) (orbit (logistic_step r) (S n) x0) = rows) by congruence.
  clear E. subst rows. split; [rewrite map_length; apply orbit_length|]. split; [reflexivity|].
  intros i Hi. exists (nth i (orbit (logistic_step r) (S n) x0) n0).
  assert (E : forall k, k < S n -> nth k (map (fun x : F => [x]) (orbit (logistic_step r) (S n) x0)) [] = [nth k (orbit (logistic_step r) (S n) x0) n0]).
  { intros k Hk. rewrite nth_indep with (d' := (fun x : F => [x]) n0) by (rewrite map_length, orbit_length; exact Hk).
    apply (map_nth (fun x : F => [x])). }
  rewrite !E by lia. split; [reflexivity|]. rewrite orbit_succ by exact Hi. reflexivity.
Qed.

Theorem logistic_defined (n : nat) (r x0 : F) :
  1 <= n -> nltb n0 r = true -> nltb n0 x0 = true -> nltb x0 n1 = true -> exists rows, logistic_map n r x0 = Some rows.
Proof.
  intros Hn E1 E2 E3. unfold logistic_map. rewrite E1, E2, E3. cbn [andb].
  destruct n as [|n]; [lia|]. eexists. reflexivity.
Qed.

Theorem henon_spec (n : nat) (a b x0 y0 : F) (rows : list (list F)) :
  henon_map n a b x0 y0 = Some rows ->
  length rows = n /\ nth 0 rows [] = [x0; y0] /\
  forall i, S i < n -> exists x y, nth i rows [] = [x; y] /\
    nth (S i) rows [] = [nadd (nsub n1 (nmul a (nmul x x))) y; nmul b x].
Proof.
  unfold henon_map. destruct n as [|n]; [discriminate|].
  intros E. assert (E' : map (fun s : F * F => [fst s; snd s]) (orbit (henon_step a b) (S n) (x0, y0)) = rows) by congruence.
  clear E. subst rows. split; [rewrite map_length; apply orbit_length|]. split; [reflexivity|].
  intros i Hi. set (o := orbit (henon_step a b) (S n) (x0, y0)).
  exists (fst (nth i o (n0, n0))), (snd (nth i o (n0, n0))).
  assert (E : forall k, k < S n -> nth k (map (fun s : F * F => [fst s; snd s]) o) [] = [fst (nth k o (n0, n0)); snd (nth k o (n0, n0))]).
  { intros k Hk. rewrite nth_indep with (d' := (fun s : F * F => [fst s; snd s]) (n0, n0))
      by (rewrite map_length; subst o; rewrite orbit_length; exact Hk).
    apply (map_nth (fun s : F * F => [fst s; snd s])). }
  rewrite !E by lia. split; [reflexivity|]. subst o. rewrite orbit_succ by exact Hi.
  destruct (nth i (orbit (henon_step a b) (S n) (x0, y0)) (n0, n0)) as [x y]. reflexivity.
Qed.

(* ------------------------------------------------------------------ NARMA *)
Lemma upd_length i v : forall (l : list F), length (upd i v l) = length l.
Proof. induction i as [|i IH]; intros [|x l]; cbn; try reflexivity. rewrite IH. reflexivity. Qed.
Lemma upd_nth_same i v : forall (l : list F) d, i < length l -> nth i (upd i v l) d = v.
Proof. induction i as [|i IH]; intros [|x l] d Hi; cbn in *; try lia; [reflexivity|]. apply IH. lia. Qed.
Lemma upd_nth_other i v : forall (l : list F) j d, j <> i -> nth j (upd i v l) d = nth j l d.
Proof.
  induction i as [|i IH]; intros [|x l] j d Hj; cbn; try reflexivity.
  - destruct j; [lia|reflexivity].
  - destruct j; [reflexivity|]. apply IH. lia.
Qed.

Variables (order : nat) (a1 a2 b c : F) (u : list F).

(* the window y[t-order+1 .. t], in array order *)
Definition window (y : list F) (t : nat) : list F := map (fun j => nth j y n0) (seq (t + 1 - order) order).
(* step t of the loop holds in the array y *)
Definition narma_holds (y : list F) (t : nat) : Prop :=
  nth (t + 1) y n0 = narma_rhs a1 a2 b c (nth t y n0) (vsum (window y t)) (nth (t + 1 - order) u n0) (nth t u n0).

Lemma window_agree (y y' : list F) t : order <= t ->
  (forall j, j <= t -> nth j y' n0 = nth j y n0) -> window y' t = window y t.
Proof.
  intros Ho Hj. unfold window. apply map_ext_in. intros j Hin. apply in_seq in Hin. apply Hj. lia.
Qed.

Lemma narma_loop (m : nat) : forall (s : nat) (y : list F), order <= s -> s + m < length y ->
  let y' := fold_left (narma_body order a1 a2 b c u) (seq s m) y in
  length y' = length y /\ (forall j, j <= s -> nth j y' n0 = nth j y n0) /\
  forall t, s <= t < s + m -> narma_holds y' t.
Proof.
  induction m as [|m IH]; intros s y Hs Hlen; cbn [seq fold_left].
  - repeat split; intros; lia.
  - set (y1 := narma_body order a1 a2 b c u y s).
    assert (L1 : length y1 = length y) by (subst y1; unfold narma_body; apply upd_length).
    destruct (IH (S s) y1) as (Hl & Hpre & Hrec); [lia|lia|].
    set (y' := fold_left (narma_body order a1 a2 b c u) (seq (S s) m) y1) in *.
    assert (O1 : forall j, j <= s -> nth j y1 n0 = nth j y n0).
    { intros j Hj. subst y1. unfold narma_body. apply upd_nth_other. lia. }
    split; [lia|]. split.
    + intros j Hj. rewrite Hpre by lia. apply O1. exact Hj.
    + intros t Ht. destruct (Nat.eq_dec t s) as [->|Hne]; [|apply Hrec; lia].
      unfold narma_holds.
      assert (Hall : forall j, j <= s -> nth j y' n0 = nth j y n0) by (intros j Hj; rewrite Hpre by lia; apply O1; exact Hj).
      rewrite (window_agree y y' s Hs Hall). rewrite (Hall s (le_n s)).
      rewrite Hpre by lia. subst y1. unfold narma_body. rewrite upd_nth_same by lia.
      f_equal. f_equal. unfold window. apply firstn_skipn_seq. lia.
Qed.

Theorem narma_spec (n : nat) (x0 : list F) : length x0 <= n + order ->
  let y := narma_array n order a1 a2 b c x0 u in
  length y = n + order /\
  (forall j, j <= order -> nth j y n0 = nth j (x0 ++ vzeros (n + order - length x0)) n0) /\
  (forall t, order <= t < n + order - 1 -> narma_holds y t) /\
  narma n order a1 a2 b c x0 u = map (fun v => [v]) (skipn order y) /\
  length (narma n order a1 a2 b c x0 u) = n.
Proof.
  intros Hx y.
  assert (Li : length (narma_init n order x0) = n + order).
  { unfold narma_init, vzeros. rewrite app_length, repeat_length. lia. }
  assert (Hy : length y = n + order /\ (forall j, j <= order -> nth j y n0 = nth j (narma_init n order x0) n0) /\
               (forall t, order <= t < order + (n - 1) -> narma_holds y t)).
  { subst y. unfold narma_array. destruct n as [|n].
    - cbn [Nat.sub seq fold_left]. repeat split; try assumption; intros; lia.
    - destruct (narma_loop (S n - 1) order (narma_init (S n) order x0)) as (H1 & H2 & H3); [lia|lia|].
      rewrite Li in H1. repeat split; assumption. }
  destruct Hy as (H1 & H2 & H3).
  split; [exact H1|]. split; [exact H2|]. split; [intros t Ht; apply H3; lia|].
  split; [reflexivity|]. unfold narma. fold y. rewrite map_length, skipn_length, H1. lia.
Qed.
End Maps.

(* ------------------------------------------------------------------ string labels: String.leb is a total order *)
Lemma ascii_compare_N (a b : Ascii.ascii) : Ascii.compare a b = N.compare (Ascii.N_of_ascii a) (Ascii.N_of_ascii b).
Proof. reflexivity. Qed.

Lemma ascii_compare_eq (a b : Ascii.ascii) : Ascii.compare a b = Eq -> a = b.
Proof.
  rewrite ascii_compare_N. intros E. apply N.compare_eq in E.
  rewrite <- (Ascii.ascii_N_embedding a), <- (Ascii.ascii_N_embedding b), E. reflexivity.
Qed.

Lemma string_leb_trans : forall a b c : String.string,
  String.leb a b = true -> String.leb b c = true -> String.leb a c = true.
Proof.
  unfold String.leb.
  induction a as [|x a IH]; intros [|y b] [|z c]; cbn; try reflexivity; try discriminate.
  rewrite !ascii_compare_N.
  destruct (N.compare_spec (Ascii.N_of_ascii x) (Ascii.N_of_ascii y)) as [E1|E1|E1]; try discriminate.
  - rewrite E1. destruct (N.compare_spec (Ascii.N_of_ascii y) (Ascii.N_of_ascii z)); try discriminate; try reflexivity.
    apply IH.
  - destruct (N.compare_spec (Ascii.N_of_ascii y) (Ascii.N_of_ascii z)) as [E2|E2|E2]; try discriminate; intros _ _.
    + rewrite <- E2. apply N.compare_lt_iff in E1. rewrite E1. reflexivity.
    + assert (E3 : (Ascii.N_of_ascii x < Ascii.N_of_ascii z)%N) by lia.
      apply N.compare_lt_iff in E3. rewrite E3. reflexivity.
Qed.

(* ------------------------------------------------------------------ NARMA: the documented form, over R; the pre-fix loop *)
From Coq Require Import Reals Lra.
From RV Require Import base.BSum.
Close Scope R_scope.

Lemma vsum_seq_bsum (g : nat -> R) : forall k s,
  vsum (map g (seq s k)) = bsum k (fun i => g (s + k - 1 - i)).
Proof.
  induction k as [|k IH]; intros s; [reflexivity|].
  cbn [seq map vsum bsum]. rewrite IH. numR.
  replace (s + S k - 1 - k) with s by lia.
  rewrite (bsum_ext k (fun i => g (S s + k - 1 - i)) (fun i => g (s + S k - 1 - i)))
    by (intros i Hi; f_equal; lia).
  lra.
Qed.

(* y[t+1] = a1 y[t] + a2 y[t] sum_{i<order} y[t-i] + b u[t-(order-1)] u[t] + c *)
Definition narma_documented (order : nat) (a1 a2 b c : R) (u y : list R) (t : nat) : Prop :=
  (nth (t + 1) y 0 = a1 * nth t y 0 + a2 * nth t y 0 * bsum order (fun i => nth (t - i) y 0)
                     + b * nth (t - (order - 1)) u 0 * nth t u 0 + c)%R.

Lemma narma_holds_documented (order : nat) (a1 a2 b c : R) (u y : list R) (t : nat) :
  1 <= order -> order <= t -> narma_holds order a1 a2 b c u y t -> narma_documented order a1 a2 b c u y t.
Proof.
  intros Ho Ht Hh. unfold narma_holds, narma_rhs, window in Hh. unfold narma_documented.
  numR. rewrite Hh. rewrite vsum_seq_bsum.
  rewrite (bsum_ext order (fun i => nth (t + 1 - order + order - 1 - i) y 0%R) (fun i => nth (t - i) y 0%R))
    by (intros i Hi; f_equal; lia).
  replace (t + 1 - order) with (t - (order - 1)) by lia. ring.
Qed.

Theorem narma_documented_spec (n order : nat) (a1 a2 b c : R) (x0 u : list R) :
  1 <= order -> length x0 <= n + order ->
  let y := narma_array n order a1 a2 b c x0 u in
  length y = n + order /\
  (forall j, j <= order -> nth j y 0%R = nth j (x0 ++ repeat 0%R (n + order - length x0)) 0%R) /\
  (forall t, order <= t < n + order - 1 -> narma_documented order a1 a2 b c u y t) /\
  length (narma n order a1 a2 b c x0 u) = n /\
  forall k, k < n -> nth k (narma n order a1 a2 b c x0 u) [] = [nth (order + k) y 0%R].
Proof.
  intros Ho Hx y. destruct (narma_spec order a1 a2 b c u n x0 Hx) as (H1 & H2 & H3 & H4 & H5). fold y in H1, H2, H3, H4.
  split; [exact H1|]. split; [exact H2|].
  split; [intros t Ht; apply narma_holds_documented; [exact Ho|lia|apply H3; exact Ht]|].
  split; [exact H5|]. intros k Hk. rewrite H4.
  rewrite nth_indep with (d' := (fun v : R => [v]) 0%R) by (rewrite map_length, skipn_length; lia).
  rewrite (map_nth (fun v : R => [v])). rewrite nth_skipn_add. reflexivity.
Qed.

(* the loop as it was before commit b06336b (window y[t-order..t-1], u[t-order]) does not satisfy the recurrence *)
Open Scope Q_scope.
Definition narma_holds_Q (order : nat) (a1 a2 b c : Q) (u y : list Q) (t : nat) : bool :=
  Qeq_bool (nth (t + 1) y 0)
           (narma_rhs a1 a2 b c (nth t y 0) (vsum (window order y t)) (nth (t + 1 - order) u 0) (nth t u 0)).
Lemma narma_old_witness :
  let n := 4%nat in let order := 2%nat in
  let x0 := [1#2; 1#4; 1#2] in let u := [1#8; 1#4; 1#2; 1#4; 1#8; 1#2] in
  let y := narma_array_old (F:=Q) n order (1#4) (1#4) 1 (1#8) x0 u in
  narma_holds_Q order (1#4) (1#4) 1 (1#8) u y 3 = false /\
  (* the same input on the current loop satisfies it at every step *)
  forallb (narma_holds_Q order (1#4) (1#4) 1 (1#8) u (narma_array (F:=Q) n order (1#4) (1#4) 1 (1#8) x0 u)) [2;3;4]%nat = true.
Proof. vm_compute. split; reflexivity. Qed.
Theorem narma_old_refuted :
  exists (n order : nat) (a1 a2 b c : Q) (x0 u : list Q) (t : nat),
    (1 <= order)%nat /\ (length x0 <= n + order)%nat /\ (order <= t < n + order - 1)%nat /\
    let y := narma_array_old (F:=Q) n order a1 a2 b c x0 u in
    Qeq_bool (nth (t + 1) y 0)
             (narma_rhs a1 a2 b c (nth t y 0) (vsum (map (fun j => nth j y 0) (seq (t + 1 - order) order)))
                        (nth (t + 1 - order) u 0) (nth t u 0)) = false.
Proof.
  exists 4%nat, 2%nat, (1#4), (1#4), 1, (1#8), [1#2; 1#4; 1#2], [1#8; 1#4; 1#2; 1#4; 1#8; 1#2], 3%nat.
  split; [lia|]. split; [cbn; lia|]. split; [lia|]. vm_compute. reflexivity.
Qed.
Close Scope Q_scope.
