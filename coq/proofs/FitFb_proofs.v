(* Proofs about model/FitFb.v (offline fit of models with feedback, ESN.fit), for every Num instance and every family
   of node forward functions; inductions over timesteps and sequences. *)
From Coq Require Import List Arith Bool Lia.
From RV Require Import base.Num base.LA model.ModelSem model.Ridge model.FitSem model.FitFb
     proofs.ModelSem_proofs model.Online model.TrainModel proofs.TrainModel_proofs.
Import ListNotations.

Section Proofs.
Context {F : Type} `{Num F}.
Notation vec := (list F).
Notation mat := (list (list F)).
Notation env := (@env F).
Notation ndesc := (@ndesc F).
Notation model := (@model F).
Notation data := (list (list (list F))).
Notation fmodel := (@fmodel F).
Notation hidden := (@hidden F).
Variable solve : mat -> mat -> mat.

(* ------------------------------------------------------------------ the shifted targets *)
Lemma shifted_length (rows : list vec) : length (shifted rows) = length rows.
Proof. unfold shifted, dispatch_fb. apply shift_with_length. Qed.
Lemma shifted_0 (rows : list vec) d : rows <> [] -> nth 0 (shifted rows) d = vzeros (length (hd [] rows)).
Proof. intros Hne. unfold shifted, dispatch_fb. apply shift_with_0. exact Hne. Qed.
Lemma shifted_S (rows : list vec) t d : S t < length rows -> nth (S t) (shifted rows) d = nth t rows d.
Proof. intros Ht. unfold shifted, dispatch_fb. apply shift_with_S. exact Ht. Qed.

Lemma forced_at_spec Y j t n rows d :
  seq_rows Y j n = Some rows -> t < length rows -> forced_at true Y j t n = Some (nth t (shifted rows) d).
Proof.
  intros Hr Ht. unfold forced_at. rewrite Hr. apply nth_error_nth'. rewrite shifted_length. exact Ht.
Qed.
Lemma forced_at_none Y j t n : seq_rows Y j n = None -> forced_at true Y j t n = None.
Proof. intros Hr. unfold forced_at. rewrite Hr. reflexivity. Qed.

(* ------------------------------------------------------------------ what a receiver is handed during Model.fit *)
(* force_teachers=True: the receiver d of a node sender s that has targets (an offline node of the complete model -- of ANY
   stage) is handed the sender's target of the previous step, zeros at the first step of the sequence; whatever the
   environment (hence whatever the readouts' parameters, the stage being run, the sequences run before). *)
Theorem fit_forced_value (fm : fmodel) Y j t (e : env) (d : ndesc) s rows dflt :
  NoDup (map nid (fm_nodes fm)) -> In d (fm_nodes fm) -> nfb d = Some (FbNode s) ->
  seq_rows Y j (nid d) = None -> seq_rows Y j s = Some rows -> t < length rows ->
  fit_fb_seen fm (forced_at true Y j t) e d = Some (nth t (shifted rows) dflt).
Proof.
  intros Hnd Hin Hfb Hd Hs Ht. unfold fit_fb_seen. eapply fbvalue_forced; [exact Hfb|].
  rewrite (clamps_receiver (full_model fm) _ d (FbNode s) Hnd Hin Hfb). unfold forced_value.
  rewrite (forced_at_none _ _ _ _ Hd), Hfb. apply forced_at_spec; assumption.
Qed.
Corollary fit_forced_value_first (fm : fmodel) Y j (e : env) (d : ndesc) s rows :
  NoDup (map nid (fm_nodes fm)) -> In d (fm_nodes fm) -> nfb d = Some (FbNode s) ->
  seq_rows Y j (nid d) = None -> seq_rows Y j s = Some rows -> rows <> [] ->
  fit_fb_seen fm (forced_at true Y j 0) e d = Some (vzeros (length (hd [] rows))).
Proof.
  intros Hnd Hin Hfb Hd Hs Hne. rewrite (fit_forced_value fm Y j 0 e d s rows [] Hnd Hin Hfb Hd Hs).
  - rewrite shifted_0 by exact Hne. reflexivity.
  - destruct rows; [congruence|cbn; lia].
Qed.
Corollary fit_forced_value_later (fm : fmodel) Y j t (e : env) (d : ndesc) s rows dflt :
  NoDup (map nid (fm_nodes fm)) -> In d (fm_nodes fm) -> nfb d = Some (FbNode s) ->
  seq_rows Y j (nid d) = None -> seq_rows Y j s = Some rows -> S t < length rows ->
  fit_fb_seen fm (forced_at true Y j (S t)) e d = Some (nth t rows dflt).
Proof.
  intros Hnd Hin Hfb Hd Hs Ht. rewrite (fit_forced_value fm Y j (S t) e d s rows dflt Hnd Hin Hfb Hd Hs Ht).
  rewrite shifted_S by exact Ht. reflexivity.
Qed.

(* force_teachers=False (and any sender without targets under forcing): the receiver is handed the sender's state at the
   end of the previous step (node sender), the side-by-side states of the output nodes (sub-model sender) *)
Theorem fit_unforced_value (fm : fmodel) Y j t (e : env) (d : ndesc) s :
  nfb d = Some (FbNode s) -> fit_fb_seen fm (forced_at false Y j t) e d = Some (st (e s)).
Proof.
  intros Hfb. unfold fit_fb_seen. change (forced_at false Y j t) with (fun _ : nat => @None vec).
  rewrite (fbvalue_unforced_node d _ _ s Hfb (clamps_unforced _ _)), proxies_unforced. reflexivity.
Qed.
Theorem fit_unforced_value_model (fm : fmodel) Y j t (e : env) (d : ndesc) outs :
  nfb d = Some (FbModel outs) ->
  fit_fb_seen fm (forced_at false Y j t) e d = Some (concat (map (fun o => st (e o)) outs)).
Proof.
  intros Hfb. unfold fit_fb_seen. change (forced_at false Y j t) with (fun _ : nat => @None vec).
  rewrite (fbvalue_unforced_model d _ _ outs Hfb (clamps_unforced _ _)). f_equal. f_equal.
  apply map_ext. intros o. rewrite proxies_unforced. reflexivity.
Qed.

(* every step of a stage hands exactly [fit_fb_seen] to the receivers it runs *)
Lemma run_sub_step (full sub : model) ext forced rest (e : env) :
  run_sub full sub ((ext, forced) :: rest) e =
    let '(e1, ok) := ModelSem.forward sub (proxies full forced e) (clamps full forced) ext e in
    if ok then let '(e2, es, ok2) := run_sub full sub rest e1 in (e2, e1 :: es, ok2) else (e1, [], false).
Proof. reflexivity. Qed.

(* ------------------------------------------------------------------ ESN.fit *)
Theorem esn_forced_value (dres drd : ndesc) Y j t (e : env) rows dflt :
  nfb dres = Some (FbNode (nid drd)) -> nfb drd = None -> nid dres <> nid drd ->
  seq_rows Y j (nid drd) = Some rows -> t < length rows ->
  esn_fb_seen dres drd (forced_at true Y j t) e = Some (nth t (shifted rows) dflt).
Proof.
  intros Hfb Hfd Hne Hs Ht. unfold esn_fb_seen.
  rewrite (fbvalue_unforced_node dres _ _ (nid drd) Hfb eq_refl). f_equal.
  unfold proxies, esn_full. cbn [order find].
  destruct (Nat.eqb_spec (nid dres) (nid drd)) as [E|_]; [contradiction|]. rewrite Nat.eqb_refl, Hfd.
  rewrite (forced_at_spec Y j t (nid drd) rows dflt Hs Ht). reflexivity.
Qed.

(* one forward pass over a one-node model without parents *)
Lemma forward_single (d : ndesc) par prev clamp ext (e : env) :
  par (nid d) = [] ->
  ModelSem.forward (mkModel [d] par []) prev clamp ext e =
    match nfwd d (st (e (nid d))) (hid (e (nid d))) (match ext (nid d) with Some x => x | None => [] end) (fbvalue d prev clamp) with
    | Some (s', h') => (upd e (nid d) (mkNS s' h'), true)
    | None => (e, false)
    end.
Proof.
  intros Hp. unfold ModelSem.forward. cbn [order forward_from]. unfold call_node, gather. cbn [ModelSem.parents]. rewrite Hp. cbn [map concat app].
  destruct (nfwd d _ _ _ _) as [[s' h']|]; reflexivity.
Qed.

(* two runs of the same single receiver, under the Model.fit machinery and under the ESN.fit machinery, from environments
   that agree on the receiver, when both hand it the same feedback at every step: same receiver states *)
Lemma runs_agree (d drd : ndesc) (full : model) par :
  par (nid d) = [] ->
  forall (steps : list stepdata) (e1 e2 : env),
    e1 (nid d) = e2 (nid d) ->
    (forall sd, In sd steps -> forall a b : env,
        fbvalue d (proxies full (snd sd) a) (clamps full (snd sd)) = fbvalue d (proxies (esn_full d drd) (snd sd) b) (fun _ => None)) ->
    let '(f1, es1, ok1) := run_sub full (mkModel [d] par []) steps e1 in
    let '(f2, es2, ok2) := esn_run (esn_full d drd) (esn_sub d) steps e2 in
    f1 (nid d) = f2 (nid d) /\ map (fun e : env => e (nid d)) es1 = map (fun e : env => e (nid d)) es2 /\ ok1 = ok2.
Proof.
  intros Hp. induction steps as [|[ext forced] rest IH]; intros e1 e2 He Hfb; [cbn; auto|].
  cbn [run_sub esn_run]. unfold esn_sub. rewrite (forward_single d par _ _ ext e1 Hp), (forward_single d (fun _ => []) _ _ ext e2 eq_refl).
  pose proof (Hfb (ext, forced) (or_introl eq_refl) e1 e2) as Hv. cbn [snd] in Hv. rewrite Hv, He.
  destruct (nfwd d _ _ _ _) as [[s' h']|]; [|cbn; auto].
  specialize (IH (upd e1 (nid d) (mkNS s' h')) (upd e2 (nid d) (mkNS s' h'))).
  assert (Hu : upd e1 (nid d) (mkNS s' h') (nid d) = upd e2 (nid d) (mkNS s' h') (nid d)) by (rewrite !upd_same; reflexivity).
  specialize (IH Hu (fun sd Hsd => Hfb sd (or_intror Hsd))).
  fold (esn_sub d) in IH |- *.
  destruct (run_sub full (mkModel [d] par []) rest _) as [[f1 es1] ok1].
  destruct (esn_run (esn_full d drd) (esn_sub d) rest _) as [[f2 es2] ok2].
  destruct IH as (Hf & Hes & Hok). cbn [map]. rewrite !upd_same, Hes. auto.
Qed.

(* hidden memory is left alone by a node whose forward function returns it unchanged *)
Lemma run_sub_hid (d : ndesc) (full : model) par :
  par (nid d) = [] ->
  (forall s h x fb s' h', nfwd d s h x fb = Some (s', h') -> h' = h) ->
  forall (steps : list stepdata) (e1 : env),
    hid (fst (fst (run_sub full (mkModel [d] par []) steps e1)) (nid d)) = hid (e1 (nid d)).
Proof.
  intros Hp Hh. induction steps as [|[ext forced] rest IH]; intros e1; [reflexivity|].
  cbn [run_sub]. rewrite (forward_single d par _ _ ext e1 Hp).
  destruct (nfwd d _ _ _ _) as [[s' h']|] eqn:E; [|reflexivity].
  specialize (IH (upd e1 (nid d) (mkNS s' h'))).
  destruct (run_sub full (mkModel [d] par []) rest _) as [[f1 es1] ok1]. cbn [fst] in *.
  rewrite IH, upd_same. cbn [hid]. exact (Hh _ _ _ _ _ _ E).
Qed.

(* ------------------------------------------------------------------ ESN.fit = Model.fit on the same two nodes *)
Section EsnEqModel.
(* reservoir = node 0, readout = node 1 (names are immaterial) *)
Variable fres : vec -> hidden -> vec -> option vec -> option (vec * hidden).
Variable frd : vec -> hidden -> vec -> option vec -> option (vec * hidden).
Variable has_fb : bool.                    (* reservoir <<= readout, or no feedback at all *)
Variables ores ord : nat.
Variables (rbias : bool) (rlam : F) (rdout : nat).
Definition e_res : ndesc := mkND 0 fres (if has_fb then Some (FbNode 1) else None) ores.
Definition e_rdn : ndesc := mkND 1 frd None ord.
Definition e_rd : @rdesc F := mkRD 1 rbias rlam rdout.
Definition e_fm : fmodel := mkFM [e_res; e_rdn] (mkG [0; 1] [(0, 1)] [1]) [e_rd].
Definition e_stg : list stage := [mkStage [0; 1] [(0, 1)] [(0, [1])]].
(* the reservoir keeps no memory outside its state (Reservoir equation='internal', NVAR excluded) *)
Hypothesis res_no_hidden : forall s h x fb s' h', fres s h x fb = Some (s', h') -> h' = h.
Variables xs ys : data.
Variable lens : list nat.
(* every sequence has a target row for each of its timesteps *)
Hypothesis lens_ok : forall j T, nth_error lens j = Some T -> exists rows, nth_error ys j = Some rows /\ T <= length rows.

Lemma e_fb_agree j T t (a b : env) :
  nth_error lens j = Some T -> t < T ->
  fbvalue e_res (proxies (full_model e_fm) (forced_at true [(1, ys)] j t) a) (clamps (full_model e_fm) (forced_at true [(1, ys)] j t))
  = fbvalue e_res (proxies (esn_full e_res e_rdn) (forced_at true [(1, ys)] j t) b) (fun _ => None).
Proof.
  intros Hj Ht. destruct (lens_ok j T Hj) as (rows & Hr & Hle).
  destruct has_fb eqn:Efb.
  - assert (Eres : nfb e_res = Some (FbNode 1)) by (unfold e_res; cbn; rewrite Efb; reflexivity).
    assert (Hs : seq_rows [(1, ys)] j 1 = Some rows) by exact Hr.
    transitivity (Some (nth t (shifted rows) [])).
    + apply (fit_forced_value e_fm [(1, ys)] j t a e_res 1 rows []);
        [cbn; repeat constructor; cbn; intuition discriminate|left; reflexivity|exact Eres|reflexivity|exact Hs|lia].
    + symmetry. apply (esn_forced_value e_res e_rdn [(1, ys)] j t b rows []);
        [exact Eres|reflexivity|cbn; discriminate|exact Hs|lia].
  - assert (Eres : nfb e_res = None) by (unfold e_res; cbn; rewrite Efb; reflexivity).
    unfold fbvalue. rewrite Eres. reflexivity.
Qed.

Lemma in_fit_steps force fwdn Xs Y j T sd : In sd (fit_steps force fwdn Xs Y j T) -> exists t, t < T /\ sd = (ext_at fwdn Xs j t, forced_at force Y j t).
Proof.
  unfold fit_steps. intros Hin. apply in_map_iff in Hin as (t & <- & Ht). apply in_seq in Ht. exists t. split; [lia|reflexivity].
Qed.

(* the sequences one after the other: Model.fit(reset=True, force_teachers=True) and ESN.fit collect the same reservoir states *)
Lemma e_seqs_agree (e : env) : forall ls j (e1 : env),
  (forall i T, nth_error ls i = Some T -> nth_error lens (j + i) = Some T) ->
  hid (e1 0) = hid (e 0) ->
  let '(_, ess1, ok1) := run_seqs (full_model e_fm) (mkModel [e_res] (parents_in []) []) true true [0] [(0, xs)] [(1, ys)] ls j e1 in
  let '(ess2, ok2) := esn_seqs e_res e_rdn [(0, xs)] [(1, ys)] e ls j in
  traj_of ess1 0 = traj_of ess2 0 /\ ok1 = ok2.
Proof.
  induction ls as [|T rest IH]; intros j e1 Hls Hh; [cbn; auto|].
  cbn [run_seqs esn_seqs]. unfold esn_seq. change (nid e_res) with 0.
  set (steps := fit_steps true [0] [(0, xs)] [(1, ys)] j T).
  set (m0 := start_env (full_model e_fm) true (fun _ => None) e1).
  set (n0 := set_st e 0 (vzeros (odim e_res))).
  assert (H0 : m0 (nid e_res) = n0 (nid e_res)).
  { unfold m0, n0. cbn. rewrite Hh. reflexivity. }
  assert (HT : nth_error lens j = Some T) by (specialize (Hls 0 T eq_refl); rewrite Nat.add_0_r in Hls; exact Hls).
  pose proof (runs_agree e_res e_rdn (full_model e_fm) (parents_in []) eq_refl steps m0 n0 H0) as Hr.
  pose proof (run_sub_hid e_res (full_model e_fm) (parents_in []) eq_refl res_no_hidden steps m0) as Hhid.
  destruct (run_sub (full_model e_fm) (mkModel [e_res] (parents_in []) []) steps m0) as [[f1 es1] ok1].
  destruct (esn_run (esn_full e_res e_rdn) (esn_sub e_res) steps n0) as [[f2 es2] ok2].
  destruct Hr as (Hf & Hes & Hok).
  { intros sd Hsd a b. apply in_fit_steps in Hsd as (t & Ht & ->). cbn [snd]. exact (e_fb_agree j T t a b HT Ht). }
  subst ok2. destruct ok1; [|cbn; auto].
  specialize (IH (S j) f1).
  assert (Hls' : forall i T0, nth_error rest i = Some T0 -> nth_error lens (S j + i) = Some T0).
  { intros i T0 Hi. specialize (Hls (S i) T0 Hi). rewrite Nat.add_succ_r in Hls. exact Hls. }
  assert (Hh' : hid (f1 0) = hid (e 0)).
  { cbn [fst nid e_res] in Hhid. rewrite Hhid. unfold m0. cbn. exact Hh. }
  specialize (IH Hls' Hh').
  destruct (run_seqs (full_model e_fm) (mkModel [e_res] (parents_in []) []) true true [0] [(0, xs)] [(1, ys)] rest (S j) f1) as [[f3 ess1] ok3].
  destruct (esn_seqs e_res e_rdn [(0, xs)] [(1, ys)] e rest (S j)) as [ess2 ok4].
  cbv beta iota in IH |- *. destruct IH as (Htr & Hok). split; [|exact Hok].
  unfold traj_of in *. cbn [map]. rewrite Htr. f_equal.
  cbn [nid e_res] in Hes. clear - Hes. revert es2 Hes. induction es1 as [|a es1 IHe]; intros [|b es2] Hes; try discriminate; [reflexivity|].
  cbn [map] in *. injection Hes as Hab Hes. rewrite Hab. f_equal. apply IHe. exact Hes.
Qed.

(* ESN.fit(X, Y, warmup) = Model.fit(X, Y, warmup, force_teachers=True, reset=True) on reservoir >> readout
   [with reservoir <<= readout or without feedback]: same readout parameters, whatever state the ESN / the model holds *)
Theorem esn_fit_eq_model_fit (w : nat) (e : env) :
  fit_fb_params (fit_fb solve e_fm e_stg [(0, xs)] [(1, ys)] w true true lens e)
  = option_map (fun p => [(1, fst p)]) (esn_fit solve e_res e_rdn e_rd [(0, xs)] [(1, ys)] w lens e).
Proof.
  unfold fit_fb, esn_fit, e_stg. cbn [fold_left]. unfold run_stage_fb.
  cbn [fm_graph e_fm s_nodes s_edges s_rel].
  change (filter (fun n => offline (mkG [0; 1] [(0, 1)] [1]) n && negb (mem n [])) [0; 1]) with [1].
  change (filter (fun n => negb (mem n [1])) [0; 1]) with [0].
  change (filter (fun ed : nat * nat => negb (mem (snd ed) [1])) [(0, 1)]) with (@nil (nat * nat)).
  change (sub_model e_fm [] [0] []) with (mkModel [e_res] (parents_in []) []).
  pose proof (e_seqs_agree e lens 0 e (fun i T Hi => Hi) eq_refl) as Hag.
  destruct (run_seqs (full_model e_fm) (mkModel [e_res] (parents_in []) []) true true [0] [(0, xs)] [(1, ys)] lens 0 e) as [[e1 ess1] ok1].
  destruct (esn_seqs e_res e_rdn [(0, xs)] [(1, ys)] e lens 0) as [ess2 ok2].
  destruct Hag as (Htr & ->). destruct ok2; [|reflexivity].
  cbn [map]. rewrite Htr. reflexivity.
Qed.
End EsnEqModel.
End Proofs.
