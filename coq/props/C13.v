(* C13 — weight initialisers honour shape, density, distribution, scaling and seed.
   Statement-only file: every theorem is closed by [exact <lemma>]; proofs live in proofs/MatGen_proofs.v (dictionaries,
   Initializer.__call__, heap, _random_degree index structure) and proofs/MatGen_proofsR.v (rescaling, ring/line, over R).

   What is NOT a theorem here, because it is a fact about numpy / scipy generators and not about reservoirpy's code:
   density (nnz = int(round(connectivity*m*n))), value support of the distributions, "same seed => same draw".  Those
   parts of the statement are decided on the implementation only (tools/props/c13.py, oracle). *)
From Coq Require Import List Arith Bool Lia Reals QArith.
From Coq Require String.
From RV Require Import base.Num base.LA model.MatGen proofs.MatGen_proofs proofs.MatGen_proofsR.
Import ListNotations.
Import String.StringSyntax.
Delimit Scope string_scope with string.
Close Scope Q_scope.

(* ------------------------------------------------------------------ partial application *)
Section Partial.
Variable V : Type.                (* Python values of keyword arguments *)
Variable is_none : V -> bool.

(* for every history of calls (partial applications or matrix creations, on the original or on any initializer created
   meanwhile, in any order), an existing initializer object — in particular the module-level one — keeps its _kwargs ... *)
Theorem C13_partial_application_pure (ops : list (nat * list V * kwargs V)) (h : heap V) (r : nat) (i : initializer V) :
  nth_error h r = Some i -> nth_error (fst (hrun is_none h ops)) r = Some i.
Proof. exact (heap_pure V is_none ops h r i). Qed.

(* ... hence a later call of the original answers exactly as it would have before that history *)
Theorem C13_partial_application_later_calls (ops : list (nat * list V * kwargs V)) (h : heap V) (r : nat)
        (shape : list V) (kw : kwargs V) :
  r < length h ->
  snd (hcall is_none (fst (hrun is_none h ops)) r shape kw) = snd (hcall is_none h r shape kw).
Proof. exact (call_after_history V is_none ops h r shape kw). Qed.

(* partial application composes like dict.update:  init( **k1)( *shape, **k2) = init( *shape, **(k1 updated by k2)),
   for all keyword dictionaries (outside the deprecated aliases proba/typefloat/N/dim_input), all authorisation flags,
   including the error outcomes *)
Theorem C13_partial_application_composes (i i1 : initializer V) (k1 k2 : kwargs V) (shape : list V) :
  NoDup (keys k1) -> NoDup (keys k2) -> no_deprecated V k1 -> no_deprecated V k2 ->
  (shape <> [] \/ k2 <> []) ->
  (forall v, kw_get "seed"%string k2 = Some v -> is_none v = false) ->   (* a later seed=None keeps the curried seed instead *)
  call is_none i [] k1 = RInit i1 ->
  call is_none i1 shape k2 = call is_none i shape (kw_update k1 k2).
Proof. exact (call_compose V is_none i i1 k1 k2 shape). Qed.

(* the exception: seed=None passed later does not erase the seed given before (the dictionary rule would) *)
Theorem C13_seed_none_keeps_curried_seed (i : initializer V) (kw : kwargs V) (c : V) (shape : list V) :
  not_none is_none (kw_get "seed"%string (i_kwargs i)) = Some c ->
  not_none is_none (kw_get "seed"%string (kw_update (i_kwargs i) kw)) = None ->
  kw_get "seed"%string (keep_seed is_none (i_kwargs i) (kw_update (i_kwargs i) kw)) = Some c.
Proof. exact (keep_seed_restores V is_none (i_kwargs i) (kw_update (i_kwargs i) kw) c). Qed.

(* where "k1 updated by k2" is the dictionary that looks a key up in k2 first *)
Theorem C13_update_is_override (k1 k2 : kwargs V) (k : String.string) :
  NoDup (keys k2) ->
  kw_get k (kw_update k1 k2) = match kw_get k k2 with Some v => Some v | None => kw_get k k1 end.
Proof. exact (kw_get_update V k2 k1 k). Qed.
End Partial.

(* a Generator object stored as [seed] by a partial application (a mutable keyword value).  With the deep copy made by
   every call: after any history of calls and derived partials, an existing partial still draws from the position its
   generator had at the beginning, and the generator it stores — for the first partial, the caller's own object — has not
   moved.  So repeated calls of the original are equal and derived partials do not alter it. *)
Theorem C13_partial_generator_not_shared (ops : list gop) (g : gstate) (r : nat) :
  r < length (g_partials g) -> nth r (g_partials g) 0 < length (g_store g) ->
  let g' := fst (grun true g ops) in
  snd (gstep true g' (GCall r)) = snd (gstep true g (GCall r)) /\
  nth (nth r (g_partials g') 0) (g_store g') 0 = nth (nth r (g_partials g) 0) (g_store g) 0.
Proof. exact (gen_deep_pure ops g r). Qed.

(* the shallow variant (copy.copy(self) and a fresh dict) is refuted: base(shape); child = base(k=v); child(shape);
   base(shape) draws the third matrix from position 2 instead of 0, and the caller's Generator has moved to 3 *)
Theorem C13_shallow_copy_refuted :
  exists ops : list gop,
    snd (grun false g0 ops) = [Some 0; None; Some 1; Some 2] /\ g_store (fst (grun false g0 ops)) = [3] /\
    snd (grun true g0 ops) = [Some 0; None; Some 0; Some 0] /\ nth 0 (g_store (fst (grun true g0 ops))) 9 = 0.
Proof. exists [GCall 0; GPartial 0; GCall 1; GCall 0]. vm_compute. repeat split. Qed.

(* ------------------------------------------------------------------ spectral radius request *)
Section SpectralRadius.
Variable rho : list (list R) -> R.     (* spectral radius: oracle (ARPACK / LAPACK) *)
Hypothesis rho_hom : forall (c : R) (W : list (list R)), rho (mscale c W) = (Rabs c * rho W)%R.

(* a draw whose radius is not null: the result is a positive multiple of the same-seed unscaled draw and its radius is
   the request *)
Theorem C13_sr_scaling (eps sr : R) (W0 : list (list R)) :
  (0 < eps)%R -> (eps <= rho W0)%R -> (0 < sr)%R ->
  let W := scale_sr eps W0 (rho W0) sr in
  W = mscale (sr / rho W0)%R W0 /\ (0 < sr / rho W0)%R /\ rho W = sr.
Proof. exact (sr_scaling rho rho_hom eps sr W0). Qed.
End SpectralRadius.

(* a draw whose (estimated) radius is null is returned as drawn *)
Theorem C13_sr_null_not_blown_up (eps r sr : R) (W0 : list (list R)) :
  (- eps < r < eps)%R -> scale_sr eps W0 r sr = W0.
Proof. exact (sr_null eps r sr W0). Qed.

(* the pre-fix code multiplied such a draw by sr / epsilon ... *)
Theorem C13_sr_prefix_epsilon (eps r sr : R) (W0 : list (list R)) :
  (- eps < r < eps)%R -> scale_sr_prefix eps W0 r sr = mscale (sr / eps)%R W0.
Proof. exact (sr_prefix_null eps r sr W0). Qed.

(* ... i.e. by 9e7 for sr = 0.9 and epsilon = 1e-8: the statement "a null-radius draw is not blown up" is refuted for the
   pre-fix formula by a nilpotent 2x2 draw, and holds for the current one on the same input *)
Theorem C13_sr_prefix_epsilon_refuted :
  exists (W0 : list (list Q)) (sr : Q),
    scale_sr_prefix (F:=Q) (1 # 100000000)%Q W0 0%Q sr = [[0; 90000000]; [0; 0]]%Q /\
    scale_sr (F:=Q) (1 # 100000000)%Q W0 0%Q sr = W0 /\ W0 = [[0; 1]; [0; 0]]%Q.
Proof. exists [[0; 1]; [0; 0]]%Q, (9 # 10)%Q. vm_compute. repeat split. Qed.

(* OPEN DEFECT mirrored by the model: the null test is applied to the *estimate* of the radius.  When ARPACK / LAPACK
   estimate the radius of a nilpotent draw (true radius 0) above epsilon — observed: line(7,7) -> 1.8e-3,
   normal(6,6,connectivity=.1) -> 1.3e-8 .. 4e-5 — the draw is still multiplied by sr / estimate.  So the full statement
   "a draw with zero spectral radius is never blown up" does not follow from the code: *)
Definition C13_sr_null_full_statement : Prop :=
  forall (W0 : list (list Q)) (n : nat) (est sr : Q),
    mm W0 W0 n = mzeros (length W0) n (* W0 is nilpotent *) -> scale_sr (F:=Q) (1 # 100000000)%Q W0 est sr = W0.
Theorem C13_sr_null_misestimated_refuted :
  exists (W0 : list (list Q)) (est sr : Q),
    mm W0 W0 2 = mzeros 2 2 /\ Qle_bool (1 # 100000000)%Q est = true /\
    scale_sr (F:=Q) (1 # 100000000)%Q W0 est sr = [[0; 0]; [875; 0]]%Q /\ W0 = [[0; 0]; [1; 0]]%Q.
Proof. exists [[0; 0]; [1; 0]]%Q, (1 # 1000)%Q, (7 # 8)%Q. vm_compute. repeat split. Qed.

(* ------------------------------------------------------------------ input scaling *)
Section InputScaling.
Context {F : Type} `{Num F}.
Theorem C13_input_scaling (W0 : list (list F)) (i j : nat) :
  i < length W0 -> j < length (nth i W0 []) ->
  (forall s : F, mget (scale_inputs_scalar s W0) i j = nmul (mget W0 i j) s) /\
  (forall s : list F, j < length s -> mget (scale_inputs_cols s W0) i j = nmul (mget W0 i j) (nth j s n0)).
Proof.
  intros Hi Hj. split; intros s; [exact (scale_inputs_scalar_entry s W0 i j Hi Hj)|exact (scale_inputs_cols_entry s W0 i j Hi Hj)].
Qed.
End InputScaling.

(* ------------------------------------------------------------------ ring / line *)
(* ring: entry (i, j) is w_j when i = (j+1) mod n and 0 otherwise; each column j has its weight in row (j+1) mod n and
   each row i in column (i-1) mod n: exactly one per row and per column.  line: entry (i, j) is w_j when i = j+1. *)
Theorem C13_ring_line_shape (n : nat) (i j : nat) :
  i < n -> j < n ->
  (forall w : list R, length w = n -> mget (ring n w) i j = if i =? S j mod n then nth j w 0%R else 0%R) /\
  (i = S j mod n <-> j = (i + n - 1) mod n) /\
  (forall w : list R, length w = n - 1 -> mget (line n w) i j = if i =? S j then nth j w 0%R else 0%R).
Proof.
  intros Hi Hj. split; [|split].
  - intros w Hw. exact (ring_entry n w i j Hw Hi Hj).
  - exact (ring_position_inverse n i j Hi Hj).
  - intros w Hw. exact (line_entry n w i j Hw Hi Hj).
Qed.

(* ------------------------------------------------------------------ degree matrices *)
(* whatever Generator.choice answers, as long as each answer is [d] distinct indices below the bound:
   all stored positions are distinct and inside the matrix, there are n*d (m*d) of them, and every column (out) /
   every row (in) holds exactly d of them *)
Theorem C13_degree_exact (choice : nat -> list nat) (m n d : nat) :
  ((forall c, c < n -> choice_ok m d (choice c)) ->
   let pos := positions_out choice n d in
   NoDup pos /\ length pos = n * d /\ (forall p, In p pos -> fst p < m /\ snd p < n) /\
   (forall c, c < n -> length (filter (fun p => snd p =? c) pos) = d)) /\
  ((forall r, r < m -> choice_ok n d (choice r)) ->
   let pos := positions_in choice m d in
   NoDup pos /\ length pos = m * d /\ (forall p, In p pos -> fst p < m /\ snd p < n) /\
   (forall r, r < m -> length (filter (fun p => fst p =? r) pos) = d)).
Proof. split; [exact (degree_out_exact choice m n d)|exact (degree_in_exact choice m n d)]. Qed.

(* and the matrix handed back (COO -> csr/csc/dense sums colliding entries) shows every drawn value at its position *)
Theorem C13_degree_dense_entries (choice : nat -> list nat) (m n d : nat) (vals : list R) (i j : nat) (v : R) :
  ((forall c, c < n -> choice_ok m d (choice c)) -> length vals = n * d ->
   In ((i, j), v) (degree_coo_out choice n d vals) ->
   i < m /\ j < n /\ mget (coo_dense m n (degree_coo_out choice n d vals)) i j = v) /\
  ((forall r, r < m -> choice_ok n d (choice r)) -> length vals = m * d ->
   In ((i, j), v) (degree_coo_in choice m d vals) ->
   i < m /\ j < n /\ mget (coo_dense m n (degree_coo_in choice m d vals)) i j = v).
Proof. split; [exact (degree_out_dense_entry choice m n d vals i j v)|exact (degree_in_dense_entry choice m n d vals i j v)]. Qed.

(* ------------------------------------------------------------------ non-vacuity *)
Definition ex_none (v : option nat) : bool := match v with None => true | Some _ => false end.
Definition ex_init : initializer (option nat) := mkInit 7 [] true true true.
(* uniform(connectivity=1, seed=3)(seed=5, sr=2)(4, 4): the hypotheses of the composition theorem hold and the result is
   a genuine rescaling request with the overridden seed *)
Example C13_compose_example :
  exists i1, call ex_none ex_init [] [("connectivity", Some 1); ("seed", Some 3)]%string = RInit i1 /\
  call ex_none i1 [Some 4; Some 4] [("seed", Some 5); ("sr", Some 2)]%string
   = RMat (mkDesc 7 [Some 4; Some 4] (PSr (Some 2)) [("connectivity", Some 1); ("seed", Some 5)]%string).
Proof. eexists. split; vm_compute; reflexivity. Qed.

(* the homogeneity hypothesis is satisfiable by a non-trivial radius: on 1x1 matrices rho [[x]] = |x| *)
Example C13_rho_hom_example :
  let rho := fun W : list (list R) => Rabs (mget W 0 0) in
  forall c x, rho (mscale c [[x]]) = (Rabs c * rho [[x]])%R.
Proof. intros rho c x. unfold rho. cbn. apply Rabs_mult. Qed.

(* ring 3 and line 3 at Q are the documented cyclic / plain lower shifts *)
Example C13_ring_line_example :
  ring (F:=Q) 3 [1; 1; 1]%Q = [[0; 0; 1]; [1; 0; 0]; [0; 1; 0]]%Q /\
  line (F:=Q) 3 [1; 1]%Q = [[0; 0; 0]; [1; 0; 0]; [0; 1; 0]]%Q.
Proof. vm_compute. split; reflexivity. Qed.

(* a concrete choice oracle satisfying choice_ok: 3 columns, degree 2, 4 rows *)
Example C13_degree_example :
  let choice := fun c => nth c [[0; 2]; [3; 1]; [2; 0]] [] in
  (forall c, c < 3 -> choice_ok 4 2 (choice c)) /\
  positions_out choice 3 2 = [(0, 0); (2, 0); (3, 1); (1, 1); (2, 2); (0, 2)].
Proof.
  cbn. split; [|reflexivity]. intros c Hc.
  assert (E : c = 0 \/ c = 1 \/ c = 2) by lia.
  destruct E as [-> | [-> | ->]]; cbn; (split; [repeat constructor; cbn; intuition discriminate|split; [|reflexivity]]);
    intros x Hx; cbn in Hx; intuition subst; repeat constructor.
Qed.

Print Assumptions C13_partial_application_pure.
Print Assumptions C13_partial_application_later_calls.
Print Assumptions C13_partial_application_composes.
Print Assumptions C13_update_is_override.
Print Assumptions C13_seed_none_keeps_curried_seed.
Print Assumptions C13_partial_generator_not_shared.
Print Assumptions C13_shallow_copy_refuted.
Print Assumptions C13_sr_scaling.
Print Assumptions C13_sr_null_not_blown_up.
Print Assumptions C13_sr_prefix_epsilon.
Print Assumptions C13_sr_prefix_epsilon_refuted.
Print Assumptions C13_sr_null_misestimated_refuted.
Print Assumptions C13_input_scaling.
Print Assumptions C13_ring_line_shape.
Print Assumptions C13_degree_exact.
Print Assumptions C13_degree_dense_entries.

(* ------------------------------------------------------------------ tie (T): the definitions GENERATED from mat_gen.py *)
(* coq/gen/Gen_matgen.v is re-translated from the current text of reservoirpy/mat_gen.py by tools/vlib/py2coq_mg.py on every run
   (`pregen`); the generated functions are the hand-written model the theorems above are stated about.  V is any type of Python
   values, pynone its None (`None is None` is the only hypothesis), F any Num instance. *)
From RV Require Import base.MGPrelude gen.Gen_matgen proofs.Gen_matgen_eq.

(* Initializer.__call__ (authorisation checks, deprecated aliases through the pinned primitive, deep copy + dict.update, the
   seed=None keep rule, dispatch on shape / kwargs) and Initializer._func_post_process (sr xor input_scaling) *)
Theorem C13_generated_call_is_model (V : Type) (is_none : V -> bool) (pynone : V) (self : initializer V) (shape : list V)
        (kw : kwargs V) :
  is_none pynone = true ->
  GenMatGen.mg_call V is_none pynone self shape kw = call is_none self shape kw.
Proof. intros Hn. exact (gen_call_eq V is_none pynone Hn self shape kw). Qed.

Theorem C13_generated_func_post_process_is_model (V : Type) (is_none : V -> bool) (pynone : V) (i : initializer V)
        (shape : list V) (kw : kwargs V) :
  is_none pynone = true ->
  GenMatGen.mg_func_post_process V is_none pynone i shape kw = post_process is_none (with_kwargs i kw) shape.
Proof. intros Hn. exact (gen_func_post_process_eq V is_none pynone Hn i shape kw). Qed.

(* _scale_spectral_radius: one draw with the same seed (None when absent) and the remaining keyword arguments, its radius asked
   once from the oracle, then MatGen.scale_sr at the module constant _epsilon *)
Theorem C13_generated_scale_spectral_radius_is_model (V : Type) (pynone : V) {F : Type} `{Num F} (rho : list (list F) -> F)
        (w_init : list V -> kwargs V -> list (list F)) (shape : list V) (sr : F) (kw : kwargs V) :
  GenMatGen.mg_scale_spectral_radius V pynone rho w_init shape sr kw
  = let W0 := w_init shape (("seed"%string, kw_get_d pynone "seed"%string kw) :: kw_del "seed"%string kw) in
    scale_sr GenMatGen.mg_epsilon W0 (rho W0) sr.
Proof. exact (gen_scale_spectral_radius_eq V pynone rho w_init shape sr kw). Qed.

(* ... hence, over R with a homogeneous radius: a draw whose radius is at least _epsilon comes back as the positive multiple
   (sr / rho) of the same-seed draw and has radius sr; a draw with a null radius comes back as drawn *)
Theorem C13_generated_sr_request (V : Type) (pynone : V) (rho : list (list R) -> R)
        (rho_hom : forall (c : R) (W : list (list R)), rho (mscale c W) = (Rabs c * rho W)%R)
        (w_init : list V -> kwargs V -> list (list R)) (shape : list V) (sr : R) (kw : kwargs V) :
  let W0 := w_init shape (("seed"%string, kw_get_d pynone "seed"%string kw) :: kw_del "seed"%string kw) in
  let W := GenMatGen.mg_scale_spectral_radius V pynone rho w_init shape sr kw in
  ((GenMatGen.mg_epsilon <= rho W0)%R -> (0 < sr)%R -> W = mscale (sr / rho W0)%R W0 /\ (0 < sr / rho W0)%R /\ rho W = sr) /\
  ((- GenMatGen.mg_epsilon < rho W0 < GenMatGen.mg_epsilon)%R -> W = W0).
Proof. exact (gen_sr_request V pynone rho rho_hom w_init shape sr kw). Qed.

(* _scale_inputs: whatever scipy.sparse.issparse answers (both branches denote the same matrix), a scalar factor multiplies every
   entry and a vector of factors multiplies column j by s_j *)
Theorem C13_generated_scale_inputs_is_model (V : Type) {F : Type} `{Num F} (issparse : list (list F) -> bool)
        (w_init : list V -> kwargs V -> list (list F)) (shape : list V) (kw : kwargs V) :
  (forall s : F, GenMatGen.mg_scale_inputs_scalar V issparse w_init shape s kw = scale_inputs_scalar s (w_init shape kw)) /\
  (forall s : list F, GenMatGen.mg_scale_inputs_cols V issparse w_init shape s kw = scale_inputs_cols s (w_init shape kw)).
Proof. split; intros s; [exact (gen_scale_inputs_scalar_eq V issparse w_init shape s kw)|exact (gen_scale_inputs_cols_eq V issparse w_init shape s kw)]. Qed.

(* _ring / _line: which (row, col) entries are set; weights=None means ones; a shape that is not (units, units) is refused *)
Theorem C13_generated_ring_line_is_model {F : Type} `{Num F} (n : nat) (w : list F) :
  (GenMatGen.mg_ring [n; n] (Some w) = Some (ring n w) /\ GenMatGen.mg_ring [n; n] None = Some (ring n (vones n))) /\
  (GenMatGen.mg_line [n; n] (Some w) = Some (line n w) /\ GenMatGen.mg_line [n; n] None = Some (line n (vones (n - 1)))).
Proof. split; [exact (gen_ring_eq n w)|exact (gen_line_eq n w)]. Qed.

Theorem C13_generated_ring_line_reject {F : Type} `{Num F} (shape : list nat) (w : option (list F)) :
  length shape <> 2 \/ nth 0 shape 0 <> nth 1 shape 0 ->
  GenMatGen.mg_ring shape w = None /\ GenMatGen.mg_line shape w = None.
Proof. exact (gen_ring_line_reject shape w). Qed.

(* the generated code runs: ring(3, 3) with the default weights at Q, and uniform(seed=3)(sr=2)(4, 4) through the generated __call__ *)
Example C13_generated_example :
  GenMatGen.mg_ring (F:=Q) [3; 3] None = Some [[0; 0; 1]; [1; 0; 0]; [0; 1; 0]]%Q /\
  GenMatGen.mg_call (option nat) ex_none None (mkInit 7 [("seed", Some 3)]%string true true true) [Some 4; Some 4] [("sr", Some 2)]%string
   = RMat (mkDesc 7 [Some 4; Some 4] (PSr (Some 2)) [("seed", Some 3)]%string).
Proof. vm_compute. split; reflexivity. Qed.

Print Assumptions C13_generated_call_is_model.
Print Assumptions C13_generated_func_post_process_is_model.
Print Assumptions C13_generated_scale_spectral_radius_is_model.
Print Assumptions C13_generated_sr_request.
Print Assumptions C13_generated_scale_inputs_is_model.
Print Assumptions C13_generated_ring_line_is_model.
Print Assumptions C13_generated_ring_line_reject.

(* ================================================================================================================
   The R-vs-Q instance gap, closed by proof (base/NumHom.v, proofs/QR_bridge_C13.v).
   The kwargs / partial-application part of model/MatGen.v contains no number of the [Num] class: it has no instance gap.
   The rescaling and structured-matrix theorems above are about F := R (or any F); the correspondence run (run/RunC13.v)
   evaluates the SAME terms at F := Q.  [Q2R] is a homomorphism of the [Num] class (opposite and strict comparison included, so
   the null-radius test -eps < rho < eps takes the same branch; division sr / rho included, x/0 = 0 on both sides), hence
   scale_sr, the pre-fix formula, both input scalings, COO assembly with duplicate summation, ring, line and the
   _random_degree entry lists commute with the entry-wise embedding ([qcoo2r]: the values of an entry list embedded, indices
   untouched).  No shape hypothesis and no side condition. *)
From RV Require Import base.NumHom proofs.QR_bridge_C13.

Theorem C13_Qscaling_embed :
  (forall (eps : Q) (W0 : list (list Q)) (rho sr : Q),
     scale_sr (Q2R eps) (qm2r W0) (Q2R rho) (Q2R sr) = qm2r (scale_sr eps W0 rho sr) /\
     scale_sr_prefix (Q2R eps) (qm2r W0) (Q2R rho) (Q2R sr) = qm2r (scale_sr_prefix eps W0 rho sr) /\
     null_radius (Q2R eps) (Q2R rho) = null_radius eps rho) /\
  (forall (s : Q) (W0 : list (list Q)), scale_inputs_scalar (Q2R s) (qm2r W0) = qm2r (scale_inputs_scalar s W0)) /\
  (forall (s : list Q) (W0 : list (list Q)), scale_inputs_cols (qv2r s) (qm2r W0) = qm2r (scale_inputs_cols s W0)).
Proof. exact Qscaling_embed. Qed.

Theorem C13_Qstructured_embed :
  (forall (n : nat) (w : list Q), ring n (qv2r w) = qm2r (ring n w) /\ line n (qv2r w) = qm2r (line n w)) /\
  (forall (m n : nat) (es : coo (F:=Q)), coo_dense m n (qcoo2r es) = qm2r (coo_dense m n es)) /\
  (forall (choice : nat -> list nat) (k d : nat) (vals : list Q),
     degree_coo_out choice k d (qv2r vals) = qcoo2r (degree_coo_out choice k d vals) /\
     degree_coo_in choice k d (qv2r vals) = qcoo2r (degree_coo_in choice k d vals)).
Proof. exact Qstructured_embed. Qed.

(* non-vacuity: a draw of estimated radius 3/2 rescaled to 9/10, a null-radius draw left as drawn, a duplicate COO entry summed *)
Example C13_Qscaling_example :
  scale_sr (Q2R (1 # 100000000)%Q) (qm2r [[(1#2)%Q; (-3#1)%Q]; [(1#4)%Q; (1#1)%Q]]) (Q2R (3#2)%Q) (Q2R (9#10)%Q)
    = qm2r [[(3#10)%Q; (-9#5)%Q]; [(3#20)%Q; (3#5)%Q]] /\
  scale_sr (Q2R (1 # 100000000)%Q) (qm2r [[0%Q; 1%Q]; [0%Q; 0%Q]]) (Q2R 0%Q) (Q2R (9#10)%Q) = qm2r [[0%Q; 1%Q]; [0%Q; 0%Q]] /\
  coo_dense 2 2 (qcoo2r [((0, 1), (1#2)%Q); ((1, 0), (3#1)%Q); ((0, 1), (1#4)%Q)]) = qm2r [[0%Q; (3#4)%Q]; [(3#1)%Q; 0%Q]].
Proof. exact Qscaling_example. Qed.

Print Assumptions C13_Qscaling_embed.
Print Assumptions C13_Qstructured_embed.

(* ---- the verdict of the correspondence runner, read at R ----
   [rclose m o] is |m - o| <= 1e-9 * max(1,|m|) on reals, [mrclose] entry-wise with the same shape.  mat_gen._epsilon is the
   real number 1/100000000.  The index lists of chk_degree are compared exactly (they are naturals). *)
From RV Require Import run.RunC13.

Theorem C13_chk_matgen_is_about_R_model :
  (forall W0 rho sr obs, chk_sr W0 rho sr obs = true ->
     mrclose (scale_sr (1 / 100000000)%R (qm2r W0) (Q2R rho) (Q2R sr)) (qm2r obs)) /\
  (forall W0 s obs, chk_is_scalar W0 s obs = true -> mrclose (scale_inputs_scalar (Q2R s) (qm2r W0)) (qm2r obs)) /\
  (forall W0 s obs, chk_is_cols W0 s obs = true -> mrclose (scale_inputs_cols (qv2r s) (qm2r W0)) (qm2r obs)) /\
  (forall n w obs, chk_ring n w obs = true -> mrclose (ring n (qv2r w)) (qm2r obs)) /\
  (forall n w obs, chk_line n w obs = true -> mrclose (line n (qv2r w)) (qm2r obs)) /\
  (forall out m n d choices vals obs_rows obs_cols obs, chk_degree out m n d choices vals obs_rows obs_cols obs = true ->
     let ch := fun k => nth k choices [] in
     let esR := if out then degree_coo_out (F:=R) ch n d (qv2r vals) else degree_coo_in (F:=R) ch m d (qv2r vals) in
     forallb (choice_okb (if out then m else n) d) choices = true /\
     (length choices =? (if out then n else m)) = true /\
     lnat_eqb (map (fun e => fst (fst e)) esR) obs_rows = true /\
     lnat_eqb (map (fun e => snd (fst e)) esR) obs_cols = true /\
     mrclose (coo_dense m n esR) (qm2r obs)).
Proof. exact chk_matgen_is_about_R_model. Qed.

(* non-vacuity: scenarios on which the runner answers true *)
Example C13_chk_matgen_example :
  chk_sr [[(1#2)%Q; (-3#1)%Q]; [(1#4)%Q; (1#1)%Q]] (3#2)%Q (9#10)%Q [[(3#10)%Q; (-9#5)%Q]; [(3#20)%Q; (3#5)%Q]] = true /\
  chk_is_cols [[(1#2)%Q; (-3#1)%Q]; [(1#4)%Q; (1#1)%Q]] [(2#1)%Q; (1#2)%Q] [[(1#1)%Q; (-3#2)%Q]; [(1#2)%Q; (1#2)%Q]] = true /\
  chk_ring 3 [(1#2)%Q; (1#4)%Q; (1#8)%Q] [[0%Q; 0%Q; (1#8)%Q]; [(1#2)%Q; 0%Q; 0%Q]; [0%Q; (1#4)%Q; 0%Q]] = true /\
  chk_degree true 3 2 2 [[0; 2]; [1; 0]] [(1#2)%Q; (1#4)%Q; (1#8)%Q; (1#1)%Q] [0; 2; 1; 0] [0; 0; 1; 1]
             [[(1#2)%Q; (1#1)%Q]; [0%Q; (1#8)%Q]; [(1#4)%Q; 0%Q]] = true.
Proof. vm_compute. repeat split; reflexivity. Qed.

Print Assumptions C13_chk_matgen_is_about_R_model.
