(* C16 - copies and saved models behave like the original and share nothing with it.
   Statement-only file: proofs are in proofs/Store_proofs.v (object store) and proofs/Legacy_proofs.v (load_compat). *)
From Coq Require Import Reals List Arith Bool QArith Lia.
From Coq Require String.
From RV Require Import base.Num base.LA model.Store proofs.Store_proofs proofs.Legacy_proofs.
Import ListNotations.
Import String.StringSyntax.
Close Scope Q_scope.
Close Scope R_scope.

Section C16_store.
Variables D V : Type.      (* D: everything a node owns (params, hypers, buffers); V: its state *)
Notation store := (store D V).
Notation write := (write D V).

(* copy.deepcopy / pickle round-trip / the deep part of Node.copy, of a set [ids] of objects closed under the feedback links
   ([deepcopy s roots] = [deepcopy_cells s (reach s roots)]; closedness of [reach] is re-checked on every scenario by run/RunC16.v):
   every cell of the copy is fresh, no existing cell is modified, the copy's links stay inside the copy, and ANY sequence of
   in-place modifications of one side leaves every cell of the other side unchanged. *)
Theorem C16_copy_disjoint (s : store) (ids : list nat) (ws : list write) :
  wf D V s -> closedb (hp s) ids = true ->
  let s' := fst (deepcopy_cells s ids) in let ren := snd (deepcopy_cells s ids) in
  (forall i, In i ids -> next s <= ren i < next s' /\ hp s (ren i) = None) /\
  (forall j, j < next s -> hp s' j = hp s j) /\
  (forall i c', In i ids -> hp s' (ren i) = Some c' -> forall j, In j (cfb c') -> next s <= j < next s') /\
  (Forall (fun w => fst w < next s) ws -> forall j, next s <= j -> apply_writes ws (hp s') j = hp s' j) /\
  (Forall (fun w => next s <= fst w) ws -> forall j, j < next s -> apply_writes ws (hp s') j = hp s j).
Proof.
  intros Hwf Hcl s' ren. repeat split; try (intros; apply (copy_fresh D V s ids); assumption); try (apply dc_old).
  - apply (copy_closed D V s ids i c' (closedb_closed D V _ _ Hcl) H H0 j H1).
  - apply (copy_closed D V s ids i c' (closedb_closed D V _ _ Hcl) H H0 j H1).
  - apply (copy_frame D V s ids ws Hwf). - apply (copy_frame D V s ids ws Hwf).
Qed.

(* running nodes only writes the cells that are run: a run of the copy is such a sequence of writes *)
Theorem C16_run_writes_own_cells {X} (fwd : D -> V -> list (option V) -> X -> list (option V) -> D * V) ord outs j xss h :
  ~ In j (map fst ord) -> fst (hrun fwd h ord outs xss) j = h j.
Proof. intros Hn. exact (hrun_frame D V fwd ord outs j Hn xss h). Qed.

(* the copied cells have the contents of the originals; links are redirected into the copy; the name follows __setstate__ *)
Theorem C16_copy_same_contents (s : store) (ids : list nat) i : In i ids ->
  hp (fst (deepcopy_cells s ids)) (snd (deepcopy_cells s ids) i)
  = option_map (copy_cell (reg s) (snd (deepcopy_cells s ids))) (hp s i).
Proof. exact (dc_new D V s ids i). Qed.

(* ... hence, for EVERY forward function that depends only on what the node owns, its parents' states, the input and its
   feedback senders' states (and may update everything the node owns: runs, online training steps, buffers), for every input
   sequence, the copy returns what the original would have returned at copy time - whatever has been done to the original
   since ([ws]); and the original returns what it would have returned - whatever has been done to the copy since. *)
Theorem C16_copy_same_outputs {X} (fwd : D -> V -> list (option V) -> X -> list (option V) -> D * V)
        (s : store) ids (ws : list write) ord outs (xss : list (list X)) :
  wf D V s -> closedb (hp s) ids = true -> Forall (fun w => fst w < next s) ws -> ord_in ids ord -> incl outs ids ->
  snd (hrun fwd (apply_writes ws (hp (fst (deepcopy_cells s ids))))
            (rename_ord (snd (deepcopy_cells s ids)) ord) (map (snd (deepcopy_cells s ids)) outs) xss)
  = snd (hrun fwd (hp s) ord outs xss).
Proof. exact (copy_same_outputs D V fwd s ids ws ord outs xss). Qed.

Theorem C16_original_unaffected {X} (fwd : D -> V -> list (option V) -> X -> list (option V) -> D * V)
        (s : store) ids (ws : list write) ord outs (xss : list (list X)) :
  wf D V s -> closedb (hp s) ids = true -> (forall i, In i ids -> i < next s) ->
  Forall (fun w => next s <= fst w) ws -> ord_in ids ord -> incl outs ids ->
  snd (hrun fwd (apply_writes ws (hp (fst (deepcopy_cells s ids)))) ord outs xss) = snd (hrun fwd (hp s) ord outs xss).
Proof. exact (original_unaffected D V fwd s ids ws ord outs xss). Qed.

(* Node.copy() (copy_feedback=False): one fresh cell with the contents of the original and the requested name; nothing else
   changes; its feedback link is the ORIGINAL's (the documented shared sender: the only cell the two sides have in common) *)
Theorem C16_node_copy (s : store) i c nm s' n : wf D V s -> hp s i = Some c -> node_copy s i nm false = Some (s', n) ->
  n = next s /\ hp s' n = Some (mkCell (ccls c) nm (cdata c) (cstate c) (cfb c)) /\
  (forall j, j < next s -> hp s' j = hp s j) /\ next s' = S (next s) /\ reg s' = (ccls c, nm) :: reg s.
Proof. exact (node_copy_spec D V s i c nm s' n). Qed.

(* a deep-copied / unpickled Model (HEAD): if the model was built by Model.__init__ and the copied nodes have distinct names,
   every node of the copy is found by get_node under its (new) name, i.e. reset / with_state / stateful=False / return_states /
   name-keyed inputs and targets are defined on the copy *)
Theorem C16_copy_supports_ops (s : store) (m : mdl) :
  mreg m = init_registry (hp s) (mnodes m) ->
  let '(s', m', ren) := deepcopy_model s m in
  NoDup (map (name_of (hp s')) (mnodes m')) ->
  (forall n, In n (mnodes m') -> get_node m' (name_of (hp s') n) = Some n) /\ named_ops_defined (hp s') m' = true.
Proof. exact (supports_ops D V s m). Qed.
End C16_store.

(* ---- concrete stores (contents are numbers) ---- *)
Open Scope string_scope.
Definition ex_cell (k : nat) (nm : str) (d : nat) (fb : list nat) : cell nat nat := mkCell k nm d d fb.
(* reservoir 0 <<= readout 1, both registered; an unrelated node 2 *)
Definition ex_store : store nat nat :=
  mkStore (fun j => match j with 0 => Some (ex_cell 1 "res" 10 [1]) | 1 => Some (ex_cell 2 "rd" 20 [])
                                 | 2 => Some (ex_cell 1 "other" 30 []) | _ => None end)
          3 [(1, "res"); (2, "rd"); (1, "other")]%string.
Definition ex_model : mdl := mkMdl 0 "m" [0; 1] (init_registry (hp ex_store) [0; 1]) [(0, 1)].

(* non-vacuity: the hypotheses of the theorems hold on a model with a feedback loop; the copy is {3, 4}, named *-(copy),
   its feedback link points to the copied readout, and the name-keyed operations are defined *)
Example C16_copy_example :
  closedb (hp ex_store) (reach ex_store [0; 1]) = true /\ reach ex_store [0; 1] = [0; 1] /\
  let '(s', m', ren) := deepcopy_model ex_store ex_model in
  mnodes m' = [3; 4] /\ map (name_of (hp s')) (mnodes m') = ["res-(copy)"; "rd-(copy)"]%string /\
  option_map (@cfb nat nat) (hp s' 3) = Some [4] /\ named_ops_defined (hp s') m' = true /\ mname m' = "m"%string.
Proof. vm_compute. repeat split; reflexivity. Qed.
Example C16_wf_example : wf nat nat ex_store.
Proof. intros j Hj. simpl in Hj. do 3 (destruct j as [|j]; [lia|]). reflexivity. Qed.

(* pre-fix Model (no __setstate__): the copied dict keeps the old keys, the copied nodes have new names *)
Theorem C16_registry_prefix_refuted :
  exists (s : store nat nat) (m : mdl), mreg m = init_registry (hp s) (mnodes m) /\
    let '(s', m', ren) := deepcopy_model_prefix s m in
    NoDup (map (name_of (hp s')) (mnodes m')) /\ named_ops_defined (hp s') m' = false /\
    get_node m' (name_of (hp s') 3) = None.
Proof. exists ex_store, ex_model. vm_compute. repeat split; try reflexivity. repeat constructor; simpl; intuition discriminate. Qed.

(* names are renamed per object: a pickled model restored after the Model object was collected (its name released) while its
   nodes are alive keeps its own name, its nodes are renamed, and the rebuilt registry still finds them (C16_copy_supports_ops
   makes no assumption on the model's own name); rebuilding only when the model itself was renamed is refuted *)
Definition ex_store_gc : store nat nat := release (mkStore (hp ex_store) 3 ((0, "m") :: reg ex_store)) 0 "m".
Example C16_model_name_free_nodes_taken :
  let '(s', m', ren) := deepcopy_model ex_store_gc ex_model in
  mname m' = "m" /\ map (name_of (hp s')) (mnodes m') = ["res-(copy)"; "rd-(copy)"] /\ named_ops_defined (hp s') m' = true.
Proof. vm_compute. repeat split; reflexivity. Qed.
(* conversely: the model's name is taken, its nodes' names are free (they are unregistered copies) *)
Definition ex_store_conv : store nat nat :=
  mkStore (fun j => match j with 0 => Some (ex_cell 1 "res-(copy)" 10 [1]) | 1 => Some (ex_cell 2 "rd-(copy)" 20 []) | _ => None end)
          2 [(0, "m")].
Example C16_model_name_taken_nodes_free :
  let '(s', m', ren) := deepcopy_model ex_store_conv (mkMdl 0 "m" [0; 1] (init_registry (hp ex_store_conv) [0; 1]) [(0, 1)]) in
  mname m' = "m-(copy)" /\ map (name_of (hp s')) (mnodes m') = ["res-(copy)"; "rd-(copy)"] /\ named_ops_defined (hp s') m' = true.
Proof. vm_compute. repeat split; reflexivity. Qed.
Theorem C16_registry_conditional_refuted :
  exists (s : store nat nat) (m : mdl), mreg m = init_registry (hp s) (mnodes m) /\
    let '(s', m', ren) := deepcopy_model_cond s m in
    NoDup (map (name_of (hp s')) (mnodes m')) /\ named_ops_defined (hp s') m' = false.
Proof. exists ex_store_gc, ex_model. vm_compute. repeat split; try reflexivity. repeat constructor; simpl; intuition discriminate. Qed.

(* the hypothesis "copied names distinct" of C16_copy_supports_ops is necessary (open finding copy:renamed-name-collision):
   __setstate__ renames a registered name but never registers the new one, so a model holding node "a" (registered) and a
   deep copy of it ("a-(copy)", not registered) is copied to a model with two nodes named "a-(copy)" and one registry key *)
Definition ex_store2 : store nat nat :=
  mkStore (fun j => match j with 0 => Some (ex_cell 1 "a" 10 []) | 1 => Some (ex_cell 1 "a-(copy)" 10 []) | _ => None end)
          2 [(1, "a")].
Theorem C16_name_collision_refuted :
  exists (s : store nat nat) (m : mdl), mreg m = init_registry (hp s) (mnodes m) /\ NoDup (map (name_of (hp s)) (mnodes m)) /\
    let '(s', m', ren) := deepcopy_model s m in
    map (name_of (hp s')) (mnodes m') = ["a-(copy)"; "a-(copy)"] /\ named_ops_defined (hp s') m' = false.
Proof.
  exists ex_store2, (mkMdl 0 "m" [0; 1] (init_registry (hp ex_store2) [0; 1]) [(0, 1)]). vm_compute.
  repeat split; try reflexivity. repeat constructor; simpl; intuition discriminate.
Qed.

(* Node.copy shares the feedback sender: after r2 = r.copy(), cell 1 (the readout) is the sender of both *)
Example C16_node_copy_shares_sender :
  match node_copy ex_store 0 "res2"%string false with
  | Some (s', n) => n = 3 /\ option_map (@cfb nat nat) (hp s' n) = option_map (@cfb nat nat) (hp s' 0) /\ option_map (@cfb nat nat) (hp s' n) = Some [1]
  | None => False
  end /\ node_copy ex_store 0 "other"%string false = None.
Proof. vm_compute. repeat split; reflexivity. Qed.

(* ---- load_compat ---- *)
Close Scope string_scope.
Open Scope R_scope.
(* For every saved v0.2 ESN of consistent shapes (dense or sparse W: the same matrix), with or without input bias, feedback
   and trained readout, every activation f and feedback function g, every start state / initial feedback and every input
   sequence (noise gains 0): the v0.3 ESN built by load_compat (HEAD) goes through the same states and outputs. *)
Theorem C16_load_compat_equiv (L : legacy (F:=R)) (f g : list R -> list R) (x fb : list R) (us : list (list R)) :
  legacy_shaped L -> v3_run (convert L) f g x fb us = legacy_run L f g x fb us.
Proof. intros Hs. exact (convert_run L f g Hs us x fb). Qed.

Theorem C16_load_compat_step (L : legacy (F:=R)) (f g : list R -> list R) (x u fb : list R) :
  legacy_shaped L ->
  v3_step (convert L) f g x u fb = legacy_step L f g x u fb /\
  forall Wo, lWout L = Some Wo -> exists Wb, vWout (convert L) = Some Wb /\ v3_out Wb x = legacy_out Wo x.
Proof. intros Hs. split; [exact (convert_step L f g Hs x u fb)|intros Wo; exact (convert_out L Hs Wo x)]. Qed.

(* the two matrix identities behind it *)
Theorem C16_row_vector_convention (n : nat) (W : list (list R)) (x : list R) :
  (forall row, In row W -> length row = n) ->
  vm x W n = mv (transpose W n) x /\ vm x (transpose W n) (length W) = mv W x.
Proof. intros Hr. split; [exact (vm_transpose n W x Hr)|exact (vm_transpose_r n W x Hr)]. Qed.
Close Scope R_scope.

Example C16_legacy_shaped_example :
  legacy_shaped (mkLegacy 2 [[0;1];[2;0]] [[1;1];[0;1]] true (Some [[1];[1]]) (Some [[1;2;3]]) (1/2))%R.
Proof. repeat split; simpl; intros row Hr; intuition (subst; reflexivity). Qed.

(* pre-fix load_compat at Q: (a) non-symmetric W: the state after one step differs; (b) symmetric W, two outputs: the readout
   differs (Wout reshaped instead of transposed); activation and feedback function = identity *)
Definition idv (v : list Q) : list Q := v.
Theorem C16_load_compat_prefix_refuted :
  (exists L x u, v3_step (convert_prefix L) idv idv x u [] <> legacy_step (F:=Q) L idv idv x u []) /\
  (exists L Wo Wb x, lW L = transpose (lW L) (lN L) /\ lWout L = Some Wo /\ vWout (convert_prefix L) = Some Wb /\
                     v3_out Wb x <> legacy_out Wo x).
Proof.
  split.
  - exists (mkLegacy 2 [[0;1];[0;0]] [[1];[1]] false None None 1)%Q, [1;0]%Q, [0]%Q. vm_compute. discriminate.
  - exists (mkLegacy 2 [[0;1];[1;0]] [[1];[1]] false None (Some [[0;1;2];[0;3;4]]) 1)%Q.
    exists [[0;1;2];[0;3;4]]%Q, ([[1;2];[3;4]], [0;0])%Q, [1;0]%Q. vm_compute. repeat split; discriminate.
Qed.
(* pre-fix load_compat never found the saved fbfunc: the converted reservoir used the identity *)
Theorem C16_load_compat_fbfunc_refuted :
  exists L x u fb, v3_step (convert L) idv idv x u fb <> legacy_step (F:=Q) L idv (map (fun v => v / 2)%Q) x u fb.
Proof.
  exists (mkLegacy 1 [[0]] [[1]] false (Some [[1]]) (Some [[0;1]]) 1)%Q, [0]%Q, [0]%Q, [2]%Q. vm_compute. discriminate.
Qed.
(* and the HEAD conversion agrees on the same instances *)
Example C16_load_compat_head_example :
  v3_run (convert (mkLegacy 2 [[0;1];[0;0]] [[1;1];[2;1]] true (Some [[1];[1]]) (Some [[0;1;2]]) (1#2))%Q) idv idv [1;0]%Q [0]%Q [[1];[2];[3]]%Q
  = legacy_run (F:=Q) (mkLegacy 2 [[0;1];[0;0]] [[1;1];[2;1]] true (Some [[1];[1]]) (Some [[0;1;2]]) (1#2))%Q idv idv [1;0]%Q [0]%Q [[1];[2];[3]]%Q.
Proof. vm_compute. reflexivity. Qed.

Print Assumptions C16_copy_disjoint.
Print Assumptions C16_run_writes_own_cells.
Print Assumptions C16_copy_same_contents.
Print Assumptions C16_copy_same_outputs.
Print Assumptions C16_original_unaffected.
Print Assumptions C16_node_copy.
Print Assumptions C16_copy_supports_ops.
Print Assumptions C16_registry_prefix_refuted.
Print Assumptions C16_name_collision_refuted.
Print Assumptions C16_registry_conditional_refuted.
Print Assumptions C16_load_compat_equiv.
Print Assumptions C16_load_compat_step.
Print Assumptions C16_row_vector_convention.
Print Assumptions C16_load_compat_prefix_refuted.
Print Assumptions C16_load_compat_fbfunc_refuted.

(* ================================================================================================================
   The R-vs-Q instance gap of the load_compat part, closed by proof (base/NumHom.v, proofs/QR_bridge_C16.v).
   [C16_load_compat_equiv] above is about model/Store.v (part 2) at F := R; the correspondence run (run/RunC16.v, chk_legacy)
   evaluates the SAME terms at F := Q.  [Q2R] is a homomorphism of the [Num] class, so [split_win], [convert] (load_compat) and
   the step / readout / whole run of both the saved ESN ([legacy_*]) and the converted ESN ([v3_*]) commute with the entry-wise
   embedding ([legacy2r], [conv2r]: every array and the leak embedded; [pairs2r]: (state, output) rows embedded), from any state
   and any initial feedback, for ANY pair of related activations ([qv2r (f_Q v) = f_R (qv2r v)]).  No shape hypothesis, no side
   condition; the shape predicate is number-free and preserved.
   Activations of the runner: the feedback functions [gfun] (identity, x/2, relu) are related to [gfunR] (real x/2, real
   comparison with 0).  The activation [act_tab tab] is a finite lookup table of (argument, result) pairs recorded from np.tanh
   along the observed run, looked up with the tolerance test; its real counterpart [act_tabR] is the same lookup with the real
   inequality (definable with [Rle_dec], provably related).  So the R-model of the verdict is the ESN whose activation is that
   table; that the table replays np.tanh stays trusted (the theorems above hold for every activation, this one included).
   The store / copy part (chk_copy_model, chk_node_copy) has no numbers: nothing to bridge.  The replayed numeric history of
   copies (run/RunModel.v chk_hist) goes through model/ModelSem.v and is not covered by this block. *)
From RV Require Import base.NumHom proofs.QR_bridge_C16 run.RunC16.

(* load_compat itself: converting at Q then embedding = converting the embedded saved ESN at R *)
Theorem C16_Qconvert_embeds (L : legacy (F:=Q)) : conv2r (convert L) = convert (legacy2r L).
Proof. exact (Qconvert_embeds L). Qed.
Print Assumptions C16_Qconvert_embeds.

(* the shape hypothesis of C16_load_compat_equiv is number-free, and the runner's boolean test implies it *)
Theorem C16_Qlegacy_shaped (L : legacy (F:=Q)) :
  (legacy_shaped (legacy2r L) <-> legacy_shaped L) /\ (shapedb L = true -> legacy_shaped (legacy2r L)).
Proof. split; [exact (Qlegacy_shaped L) | intros Hs; exact (proj2 (Qlegacy_shaped L) (shapedb_shaped L Hs))]. Qed.
Print Assumptions C16_Qlegacy_shaped.

(* one step of the saved ESN and of the converted ESN, any pair of related activations *)
Theorem C16_Qlegacy_step_embeds (L : legacy (F:=Q)) (fQ gQ : list Q -> list Q) (fR gR : list R -> list R) (x u fb : list Q) :
  (forall v, qv2r (fQ v) = fR (qv2r v)) -> (forall v, qv2r (gQ v) = gR (qv2r v)) ->
  qv2r (legacy_step L fQ gQ x u fb) = legacy_step (legacy2r L) fR gR (qv2r x) (qv2r u) (qv2r fb) /\
  qv2r (v3_step (convert L) fQ gQ x u fb) = v3_step (convert (legacy2r L)) fR gR (qv2r x) (qv2r u) (qv2r fb).
Proof. exact (Qlegacy_step_embeds L fQ gQ fR gR x u fb). Qed.
Print Assumptions C16_Qlegacy_step_embeds.

(* whole sequences of (state, output) rows, from any state and any initial feedback *)
Theorem C16_Qlegacy_run_embeds (L : legacy (F:=Q)) (fQ gQ : list Q -> list Q) (fR gR : list R -> list R)
        (x fb : list Q) (us : list (list Q)) :
  (forall v, qv2r (fQ v) = fR (qv2r v)) -> (forall v, qv2r (gQ v) = gR (qv2r v)) ->
  pairs2r (legacy_run L fQ gQ x fb us) = legacy_run (legacy2r L) fR gR (qv2r x) (qv2r fb) (qm2r us).
Proof. exact (Qlegacy_run_embeds L fQ gQ fR gR x fb us). Qed.
Print Assumptions C16_Qlegacy_run_embeds.

Theorem C16_Qconverted_run_embeds (L : legacy (F:=Q)) (fQ gQ : list Q -> list Q) (fR gR : list R -> list R)
        (r y : list Q) (us : list (list Q)) :
  (forall v, qv2r (fQ v) = fR (qv2r v)) -> (forall v, qv2r (gQ v) = gR (qv2r v)) ->
  pairs2r (v3_run (convert L) fQ gQ r y us) = v3_run (convert (legacy2r L)) fR gR (qv2r r) (qv2r y) (qm2r us).
Proof. exact (Qconverted_run_embeds L fQ gQ fR gR r y us). Qed.
Print Assumptions C16_Qconverted_run_embeds.

(* the activations the runner uses are related to real functions: the three feedback functions, and the lookup table *)
Theorem C16_runner_activations_related :
  (forall (g : gkind) (v : list Q), qv2r (gfun g v) = gfunR g (qv2r v)) /\
  (forall (tab : list (list Q * list Q)) (v : list Q), qv2r (act_tab tab v) = act_tabR (pairs2r tab) (qv2r v)).
Proof. split; [exact gfun_rel | exact act_tab_rel]. Qed.
Print Assumptions C16_runner_activations_related.

(* [gfunR] and [act_tabR] spelled out *)
Theorem C16_gfunR_unfold (v : list R) :
  gfunR GId v = v /\ gfunR GHalf v = map (fun a => (a / 2)%R) v /\
  gfunR GRelu v = map (fun a => if Rle_dec a 0 then 0%R else a) v.
Proof. repeat split; reflexivity. Qed.
Print Assumptions C16_gfunR_unfold.
Theorem C16_act_tabR_spec (t : list (list R * list R)) (v : list R) :
  (exists p, In p t /\ vrclose v (fst p) /\ act_tabR t v = snd p) \/
  ((forall p, In p t -> ~ vrclose v (fst p)) /\ act_tabR t v = []).
Proof. exact (act_tabR_spec t v). Qed.
Print Assumptions C16_act_tabR_spec.

(* ---- the verdict of the correspondence runner, read at R ----
   [chk_legacy] is the boolean evaluated at Q by vm_compute for every saved ESN.  [legacy_verdict_R L f g ...] says, of the
   R-INSTANCE of the model on the embedded arrays and inputs, with the real inequality [rclose m o] := |m - o| <= 1e-9*max(1,|m|):
   L has the shapes C16_load_compat_equiv asks for; the arrays of [convert L] are close to the arrays observed on the nodes built
   by load_compat; the rows of [legacy_run L] from the null state are close to the rows observed on the saved ESN and on
   compat.load(dir); the rows of [v3_run (convert L)] are close to the rows observed on compat.load_compat(dir). *)
Theorem C16_legacy_verdict_R_unfold (L : legacy (F:=R)) (f g : list R -> list R) (dout : nat) (us : list (list R))
    (o_saved o_loaded o_conv : list (list R * list R))
    (cW cWin : list (list R)) (cbias : list R) (cWfb : option (list (list R))) (cWout : option (list (list R) * list R)) :
  legacy_verdict_R L f g dout us o_saved o_loaded o_conv cW cWin cbias cWfb cWout
  = (legacy_shaped L /\
     mrclose (vW (convert L)) cW /\ mrclose (vWin (convert L)) cWin /\ vrclose (vbias (convert L)) cbias /\
     omrclose (vWfb (convert L)) cWfb /\ owbrclose (vWout (convert L)) cWout /\
     pairs_close_R (legacy_run L f g (vzeros (lN L)) (vzeros dout) us) o_saved /\
     pairs_close_R (legacy_run L f g (vzeros (lN L)) (vzeros dout) us) o_loaded /\
     pairs_close_R (v3_run (convert L) f g (vzeros (lN L)) (vzeros dout) us) o_conv).
Proof. reflexivity. Qed.
Print Assumptions C16_legacy_verdict_R_unfold.
Theorem C16_pairs_close_R_unfold (a b : list R * list R) (m o : list (list R * list R)) :
  pairs_close_R (a :: m) (b :: o) = (vrclose (fst a) (fst b) /\ vrclose (snd a) (snd b) /\ pairs_close_R m o).
Proof. reflexivity. Qed.
Print Assumptions C16_pairs_close_R_unfold.

(* a verdict [true] implies it, with the table activation read at R ... *)
Theorem C16_chk_legacy_is_about_R_model (L : legacy (F:=Q)) (tab : list (list Q * list Q)) (g : gkind) (dout : nat)
      (us : list (list Q)) (o_saved o_loaded o_conv : list (list Q * list Q))
      (cW cWin : list (list Q)) (cbias : list Q) (cWfb : option (list (list Q))) (cWout : option (list (list Q) * list Q)) :
  chk_legacy L tab g dout us o_saved o_loaded o_conv cW cWin cbias cWfb cWout = true ->
  legacy_verdict_R (legacy2r L) (act_tabR (pairs2r tab)) (gfunR g) dout (qm2r us)
                   (pairs2r o_saved) (pairs2r o_loaded) (pairs2r o_conv)
                   (qm2r cW) (qm2r cWin) (qv2r cbias) (option_map qm2r cWfb) (option_map wb2r cWout).
Proof. exact (chk_legacy_is_about_R_model L tab g dout us o_saved o_loaded o_conv cW cWin cbias cWfb cWout). Qed.
Print Assumptions C16_chk_legacy_is_about_R_model.

(* ... and with ANY real activation that agrees with the table *)
Theorem C16_chk_legacy_is_about_R_model_gen (L : legacy (F:=Q)) (tab : list (list Q * list Q)) (g : gkind) (dout : nat)
      (us : list (list Q)) (o_saved o_loaded o_conv : list (list Q * list Q))
      (cW cWin : list (list Q)) (cbias : list Q) (cWfb : option (list (list Q))) (cWout : option (list (list Q) * list Q))
      (fR : list R -> list R) :
  (forall v, qv2r (act_tab tab v) = fR (qv2r v)) ->
  chk_legacy L tab g dout us o_saved o_loaded o_conv cW cWin cbias cWfb cWout = true ->
  legacy_verdict_R (legacy2r L) fR (gfunR g) dout (qm2r us) (pairs2r o_saved) (pairs2r o_loaded) (pairs2r o_conv)
                   (qm2r cW) (qm2r cWin) (qv2r cbias) (option_map qm2r cWfb) (option_map wb2r cWout).
Proof. exact (chk_legacy_is_about_R_model_gen L tab g dout us o_saved o_loaded o_conv cW cWin cbias cWfb cWout fR). Qed.
Print Assumptions C16_chk_legacy_is_about_R_model_gen.

(* combined with C16_load_compat_equiv (whose shape hypothesis the verdict establishes for the embedded saved ESN): the two
   R-models coincide on the scenario, so the rows observed on load_compat's ESN are close to the run of the R-model of the SAVED
   ESN, and the rows observed on the saved / loaded ESN are close to the run of the converted R-model *)
Theorem C16_chk_legacy_load_compat_R (L : legacy (F:=Q)) (tab : list (list Q * list Q)) (g : gkind) (dout : nat)
      (us : list (list Q)) (o_saved o_loaded o_conv : list (list Q * list Q))
      (cW cWin : list (list Q)) (cbias : list Q) (cWfb : option (list (list Q))) (cWout : option (list (list Q) * list Q)) :
  chk_legacy L tab g dout us o_saved o_loaded o_conv cW cWin cbias cWfb cWout = true ->
  let LR := legacy2r L in let fR := act_tabR (pairs2r tab) in let gR := gfunR g in
  let x0 := vzeros (lN LR) in let fb0 := vzeros dout in
  v3_run (convert LR) fR gR x0 fb0 (qm2r us) = legacy_run LR fR gR x0 fb0 (qm2r us) /\
  pairs_close_R (legacy_run LR fR gR x0 fb0 (qm2r us)) (pairs2r o_conv) /\
  pairs_close_R (v3_run (convert LR) fR gR x0 fb0 (qm2r us)) (pairs2r o_saved) /\
  pairs_close_R (v3_run (convert LR) fR gR x0 fb0 (qm2r us)) (pairs2r o_loaded).
Proof. exact (chk_legacy_load_compat_R L tab g dout us o_saved o_loaded o_conv cW cWin cbias cWfb cWout). Qed.
Print Assumptions C16_chk_legacy_load_compat_R.

(* non-vacuity: N = 2, input bias, feedback through x/2, trained readout, lr = 1/2, two inputs; the table holds the two arguments
   met.  The runner answers true, and the two R-models' runs are the embedded rows *)
Example C16_chk_legacy_example :
  chk_legacy (mkLegacy 2 [[0;1];[0;0]] [[1;1];[2;1]] true (Some [[1];[1]]) (Some [[0;1;2]]) (1#2))%Q
             [([2;3], [(1#2);(3#4)]); ([(7#2);(19#4)], [(7#8);(15#16)])]%Q GHalf 1 [[1]; [2]]%Q
             [([(1#4);(3#8)], [1]); ([(9#16);(21#32)], [(15#8)])]%Q [([(1#4);(3#8)], [1]); ([(9#16);(21#32)], [(15#8)])]%Q
             [([(1#4);(3#8)], [1]); ([(9#16);(21#32)], [(15#8)])]%Q
             [[0;0];[1;0]]%Q [[1];[1]]%Q [1;2]%Q (Some [[1];[1]]%Q) (Some ([[1];[2]]%Q, [0]%Q)) = true.
Proof. exact chk_legacy_example. Qed.
Example C16_Qlegacy_run_example :
  legacy_run (legacy2r exL) (act_tabR (pairs2r extab)) (gfunR GHalf) (qv2r [0;0]%Q) (qv2r [0]%Q) (qm2r exus) = pairs2r exrows /\
  v3_run (convert (legacy2r exL)) (act_tabR (pairs2r extab)) (gfunR GHalf) (qv2r [0;0]%Q) (qv2r [0]%Q) (qm2r exus) = pairs2r exrows.
Proof. exact Qlegacy_run_example. Qed.

(* ================================================================================================================
   Tie (T) for the legacy part: translated v0.2 kernels and the extracted load_compat table (proofs/Gen_legacy_eq.v).
   coq/gen/Gen_legacy.v is regenerated on every run from reservoirpy/compat/_base.py (_ESNBase._get_next_state,
   _ESNBase.compute_outputs; tools/vlib/la_specs_legacy.py + py2coq_la.py) and coq/gen/Gen_compat.v from
   reservoirpy/compat/__init__.py load_compat (tools/vlib/py2coq_compat.py: which saved array / attribute / function, transposed
   or sliced how, is passed as which keyword of Reservoir(...) / Ridge(...) / ESN(...)).  At R, for every saved record of
   rectangular arrays ([legacy_shaped], [legacy_rect]: numpy arrays), every activation, feedback function, state, input, feedback:
   the generated step IS the v0.2 recurrence with its three noise terms, and [legacy_step] when the gains are 0; the generated
   compute_outputs IS [legacy_out] on every row; the extracted keyword table, read through what Reservoir / Ridge do with their
   keywords ([v3_of_kwargs]), IS [convert]; hence C16_load_compat_equiv speaks about the translated step and the extracted
   conversion. *)
From RV Require Import base.GenPrelude gen.Gen_legacy gen.Gen_compat proofs.Gen_legacy_eq.

(* _get_next_state as translated = (1 - lr) x + lr (f((u~ + g_in xi_in) Win^T + x W + (g(y) + g_out xi_fb) Wfb^T) + g_rc xi_rc) *)
Theorem C16_generated_step_noisy (L : legacy (F:=R)) (f g : list R -> list R) (gin grc gout : R) (xin xrc xfb x u fb : list R) :
  legacy_shaped L -> legacy_rect L ->
  GenLegacy.get_next_state (lW L) (lWin L) (c_Wfb L) (lbias L) (llr L) f g gin grc gout (c_has_fb L) xin xrc xfb u fb x
  = legacy_step_noisy L f g gin grc gout xin xrc xfb x u fb.
Proof. intros Hs Hr. exact (gen_step_noisy L f g Hs Hr gin grc gout xin xrc xfb x u fb). Qed.
Print Assumptions C16_generated_step_noisy.

(* noise gains 0, draws of (at least) the shapes numpy gives them: the hand model's legacy step *)
Theorem C16_generated_step (L : legacy (F:=R)) (f g : list R -> list R) (xin xrc xfb x u fb : list R) :
  legacy_shaped L -> legacy_rect L ->
  (length (if lbias L then add_bias u else u) <= length xin)%nat -> (length (g fb) <= length xfb)%nat ->
  (length (f (legacy_pre L g x u fb)) <= length xrc)%nat ->
  GenLegacy.get_next_state (lW L) (lWin L) (c_Wfb L) (lbias L) (llr L) f g 0%R 0%R 0%R (c_has_fb L) xin xrc xfb u fb x
  = legacy_step L f g x u fb.
Proof. intros Hs Hr. exact (gen_step_eq L f g Hs Hr xin xrc xfb x u fb). Qed.
Print Assumptions C16_generated_step.

(* compute_outputs as translated: legacy_out on every state row of every sequence; RuntimeError (None) without a readout *)
Theorem C16_generated_outputs (L : legacy (F:=R)) (seqs : list (list (list R))) (verbose : bool) :
  legacy_shaped L ->
  (forall Wo, lWout L = Some Wo ->
     GenLegacyOut.compute_outputs (c_Wout L) (c_has_wout L) seqs verbose = Some (map (map (legacy_out Wo)) seqs)) /\
  (lWout L = None -> GenLegacyOut.compute_outputs (c_Wout L) (c_has_wout L) seqs verbose = None).
Proof. intros Hs. split; [intros Wo; exact (gen_outputs_eq L Hs Wo seqs verbose) | exact (gen_outputs_none L seqs verbose)]. Qed.
Print Assumptions C16_generated_outputs.

(* the keyword table extracted from load_compat, read through the v0.3 nodes, is the model's conversion map.  [saved_of L e] is the
   saved directory as load_compat reads it: the arrays and attributes of L plus (e) dim_out, the saved functions, the noise gains *)
Theorem C16_generated_load_compat_is_convert (L : legacy (F:=R)) (e : sidecar) :
  legacy_shaped L -> length (lW L) = lN L -> legacy_wout_nonempty L -> extracted_convert (saved_of L e) = convert L.
Proof. exact (extracted_convert_eq L e). Qed.
Print Assumptions C16_generated_load_compat_is_convert.

(* saved functions (identity / tanh when none was saved), noise gains (v0.2 noise_out -> v0.3 noise_fb, 0 when absent), output
   dimension and the feedback flag of the extracted table *)
Theorem C16_generated_load_compat_functions (L : legacy (F:=R)) (e : sidecar) :
  (GenCompat.reservoir_fb_activation (saved_of L e) = match s_fbfunc e with Some h => h | None => s_idf e end /\
   GenCompat.reservoir_activation (saved_of L e) = match s_act e with Some h => h | None => s_tanhf e end) /\
  (GenCompat.reservoir_noise_in (saved_of L e) = default0 (s_gin e) /\
   GenCompat.reservoir_noise_rc (saved_of L e) = default0 (s_grc e) /\
   GenCompat.reservoir_noise_fb (saved_of L e) = default0 (s_gout e)) /\
  (GenCompat.esn_feedback (saved_of L e) = c_has_fb L /\ GenCompat.ridge_input_bias (saved_of L e) = true /\
   GenCompat.ridge_output_dim (saved_of L e) = s_dout e /\ vWfb (extracted_convert (saved_of L e)) = lWfb L).
Proof. exact (conj (extracted_functions L e) (conj (extracted_noise L e) (extracted_feedback L e))). Qed.
Print Assumptions C16_generated_load_compat_functions.

(* C16_load_compat_equiv for the translated step and the extracted conversion: one step of the v0.3 ESN that load_compat's keyword
   table describes (arrays, leak, activation, feedback function) = the translated _get_next_state of the saved ESN (noise 0); its
   readout = the translated compute_outputs; whole runs = the model's legacy run *)
Theorem C16_generated_load_compat_equiv (L : legacy (F:=R)) (e : sidecar) (f g : list R -> list R) :
  legacy_shaped L -> legacy_rect L -> legacy_wout_nonempty L -> s_act e = Some f -> s_fbfunc e = Some g ->
  let E := extracted_convert (saved_of L e) in
  let fE := GenCompat.reservoir_activation (saved_of L e) in let gE := GenCompat.reservoir_fb_activation (saved_of L e) in
  (forall xin xrc xfb x u fb,
     (length (if lbias L then add_bias u else u) <= length xin)%nat -> (length (g fb) <= length xfb)%nat ->
     (length (f (legacy_pre L g x u fb)) <= length xrc)%nat ->
     v3_step E fE gE x u fb
     = GenLegacy.get_next_state (lW L) (lWin L) (c_Wfb L) (lbias L) (llr L) f g 0%R 0%R 0%R (c_has_fb L) xin xrc xfb u fb x) /\
  (forall Wo seqs verbose, lWout L = Some Wo ->
     exists Wb, vWout E = Some Wb /\
                GenLegacyOut.compute_outputs (c_Wout L) (c_has_wout L) seqs verbose = Some (map (map (v3_out Wb)) seqs)) /\
  (forall x fb us, v3_run E fE gE x fb us = legacy_run L f g x fb us).
Proof. exact (gen_load_compat_equiv L e f g). Qed.
Print Assumptions C16_generated_load_compat_equiv.

(* non-vacuity: the saved ESN of C16_legacy_shaped_example is rectangular, its readout has one row; the generated step on it,
   computed at Q, with the noise gains 0 and with noise *)
Example C16_generated_rect_example :
  let L := (mkLegacy 2 [[0;1];[2;0]] [[1;1];[0;1]] true (Some [[1];[1]]) (Some [[1;2;3]]) (1/2))%R in
  legacy_shaped L /\ legacy_rect L /\ legacy_wout_nonempty L.
Proof. exact gen_rect_example. Qed.
Example C16_generated_step_example :
  GenLegacy.get_next_state (F:=Q) [[0;1];[2;0]]%Q [[1;1];[0;1]]%Q [[1];[1]]%Q true (1#2)%Q (fun v => v) (fun v => v) 0%Q 0%Q 0%Q true
                           [1;1]%Q [1;1]%Q [1]%Q [1]%Q [2]%Q [1;0]%Q = [(5#2);2]%Q /\
  GenLegacy.get_next_state (F:=Q) [[0;1];[2;0]]%Q [[1;1];[0;1]]%Q [[1];[1]]%Q true (1#2)%Q (fun v => v) (fun v => v) (1#2)%Q 1%Q (1#4)%Q true
                           [1;1]%Q [1;1]%Q [1]%Q [1]%Q [2]%Q [1;0]%Q = [(29#8);(23#8)]%Q.
Proof. split; vm_compute; reflexivity. Qed.
