(* C16 - copies and saved models behave like the original and share nothing with it.
   Statement-only file: proofs are in proofs/Store_proofs.v (object store) and proofs/Legacy_proofs.v (load_compat). *)
From Coq Require Import Reals List Arith Bool QArith Lia.
From Coq Require String.
From RV Require Import base.Num base.LA model.Store proofs.Store_proofs proofs.Legacy_proofs.
Import ListNotations.
Import String.StringSyntax.
Close Scope Q_scope.
Close Scope R_scope.

Section C16_store.
Variables D V : Type.      (* D: everything a node owns (params, hypers, buffers); V: its state *)
Notation store := (store D V).
Notation write := (write D V).

(* copy.deepcopy / pickle round-trip / the deep part of Node.copy, of a set [ids] of objects closed under the feedback links
   ([deepcopy s roots] = [deepcopy_cells s (reach s roots)]; closedness of [reach] is re-checked on every scenario by run/RunC16.v):
   every cell of the copy is fresh, no existing cell is modified, the copy's links stay inside the copy, and ANY sequence of
   in-place modifications of one side leaves every cell of the other side unchanged. *)
Theorem C16_copy_disjoint (s : store) (ids : list nat) (ws : list write) :
  wf D V s -> closedb (hp s) ids = true ->
  let s' := fst (deepcopy_cells s ids) in let ren := snd (deepcopy_cells s ids) in
  (forall i, In i ids -> next s <= ren i < next s' /\ hp s (ren i) = None) /\
  (forall j, j < next s -> hp s' j = hp s j) /\
  (forall i c', In i ids -> hp s' (ren i) = Some c' -> forall j, In j (cfb c') -> next s <= j < next s') /\
  (Forall (fun w => fst w < next s) ws -> forall j, next s <= j -> apply_writes ws (hp s') j = hp s' j) /\
  (Forall (fun w => next s <= fst w) ws -> forall j, j < next s -> apply_writes ws (hp s') j = hp s j).
Proof.
  intros Hwf Hcl s' ren. repeat split; try (intros; apply (copy_fresh D V s ids); assumption); try (apply dc_old).
  - apply (copy_closed D V s ids i c' (closedb_closed D V _ _ Hcl) H H0 j H1).
  - apply (copy_closed D V s ids i c' (closedb_closed D V _ _ Hcl) H H0 j H1).
  - apply (copy_frame D V s ids ws Hwf). - apply (copy_frame D V s ids ws Hwf).
Qed.

(* running nodes only writes the cells that are run: a run of the copy is such a sequence of writes *)
Theorem C16_run_writes_own_cells {X} (fwd : D -> V -> list (option V) -> X -> list (option V) -> D * V) ord outs j xss h :
  ~ In j (map fst ord) -> fst (hrun fwd h ord outs xss) j = h j.
Proof. intros Hn. exact (hrun_frame D V fwd ord outs j Hn xss h). Qed.

(* the copied cells have the contents of the originals; links are redirected into the copy; the name follows __setstate__ *)
Theorem C16_copy_same_contents (s : store) (ids : list nat) i : In i ids ->
  hp (fst (deepcopy_cells s ids)) (snd (deepcopy_cells s ids) i)
  = option_map (copy_cell (reg s) (snd (deepcopy_cells s ids))) (hp s i).
Proof. exact (dc_new D V s ids i). Qed.

(* ... hence, for EVERY forward function that depends only on what the node owns, its parents' states, the input and its
   feedback senders' states (and may update everything the node owns: runs, online training steps, buffers), for every input
   sequence, the copy returns what the original would have returned at copy time - whatever has been done to the original
   since ([ws]); and the original returns what it would have returned - whatever has been done to the copy since. *)
Theorem C16_copy_same_outputs {X} (fwd : D -> V -> list (option V) -> X -> list (option V) -> D * V)
        (s : store) ids (ws : list write) ord outs (xss : list (list X)) :
  wf D V s -> closedb (hp s) ids = true -> Forall (fun w => fst w < next s) ws -> ord_in ids ord -> incl outs ids ->
  snd (hrun fwd (apply_writes ws (hp (fst (deepcopy_cells s ids))))
            (rename_ord (snd (deepcopy_cells s ids)) ord) (map (snd (deepcopy_cells s ids)) outs) xss)
  = snd (hrun fwd (hp s) ord outs xss).
Proof. exact (copy_same_outputs D V fwd s ids ws ord outs xss). Qed.

Theorem C16_original_unaffected {X} (fwd : D -> V -> list (option V) -> X -> list (option V) -> D * V)
        (s : store) ids (ws : list write) ord outs (xss : list (list X)) :
  wf D V s -> closedb (hp s) ids = true -> (forall i, In i ids -> i < next s) ->
  Forall (fun w => next s <= fst w) ws -> ord_in ids ord -> incl outs ids ->
  snd (hrun fwd (apply_writes ws (hp (fst (deepcopy_cells s ids)))) ord outs xss) = snd (hrun fwd (hp s) ord outs xss).
Proof. exact (original_unaffected D V fwd s ids ws ord outs xss). Qed.

(* Node.copy() (copy_feedback=False): one fresh cell with the contents of the original and the requested name; nothing else
   changes; its feedback link is the ORIGINAL's (the documented shared sender: the only cell the two sides have in common) *)
Theorem C16_node_copy (s : store) i c nm s' n : wf D V s -> hp s i = Some c -> node_copy s i nm false = Some (s', n) ->
  n = next s /\ hp s' n = Some (mkCell (ccls c) nm (cdata c) (cstate c) (cfb c)) /\
  (forall j, j < next s -> hp s' j = hp s j) /\ next s' = S (next s) /\ reg s' = (ccls c, nm) :: reg s.
Proof. exact (node_copy_spec D V s i c nm s' n). Qed.

(* a deep-copied / unpickled Model (HEAD): if the model was built by Model.__init__ and the copied nodes have distinct names,
   every node of the copy is found by get_node under its (new) name, i.e. reset / with_state / stateful=False / return_states /
   name-keyed inputs and targets are defined on the copy *)
Theorem C16_copy_supports_ops (s : store) (m : mdl) :
  mreg m = init_registry (hp s) (mnodes m) ->
  let '(s', m', ren) := deepcopy_model s m in
  NoDup (map (name_of (hp s')) (mnodes m')) ->
  (forall n, In n (mnodes m') -> get_node m' (name_of (hp s') n) = Some n) /\ named_ops_defined (hp s') m' = true.
Proof. exact (supports_ops D V s m). Qed.
End C16_store.

(* ---- concrete stores (contents are numbers) ---- *)
Open Scope string_scope.
Definition ex_cell (k : nat) (nm : str) (d : nat) (fb : list nat) : cell nat nat := mkCell k nm d d fb.
(* reservoir 0 <<= readout 1, both registered; an unrelated node 2 *)
Definition ex_store : store nat nat :=
  mkStore (fun j => match j with 0 => Some (ex_cell 1 "res" 10 [1]) | 1 => Some (ex_cell 2 "rd" 20 [])
                                 | 2 => Some (ex_cell 1 "other" 30 []) | _ => None end)
          3 [(1, "res"); (2, "rd"); (1, "other")]%string.
Definition ex_model : mdl := mkMdl 0 "m" [0; 1] (init_registry (hp ex_store) [0; 1]) [(0, 1)].

(* non-vacuity: the hypotheses of the theorems hold on a model with a feedback loop; the copy is {3, 4}, named *-(copy),
   its feedback link points to the copied readout, and the name-keyed operations are defined *)
Example C16_copy_example :
  closedb (hp ex_store) (reach ex_store [0; 1]) = true /\ reach ex_store [0; 1] = [0; 1] /\
  let '(s', m', ren) := deepcopy_model ex_store ex_model in
  mnodes m' = [3; 4] /\ map (name_of (hp s')) (mnodes m') = ["res-(copy)"; "rd-(copy)"]%string /\
  option_map (@cfb nat nat) (hp s' 3) = Some [4] /\ named_ops_defined (hp s') m' = true /\ mname m' = "m"%string.
Proof. vm_compute. repeat split; reflexivity. Qed.
Example C16_wf_example : wf nat nat ex_store.
Proof. intros j Hj. simpl in Hj. do 3 (destruct j as [|j]; [lia|]). reflexivity. Qed.

(* pre-fix Model (no __setstate__): the copied dict keeps the old keys, the copied nodes have new names *)
Theorem C16_registry_prefix_refuted :
  exists (s : store nat nat) (m : mdl), mreg m = init_registry (hp s) (mnodes m) /\
    let '(s', m', ren) := deepcopy_model_prefix s m in
    NoDup (map (name_of (hp s')) (mnodes m')) /\ named_ops_defined (hp s') m' = false /\
    get_node m' (name_of (hp s') 3) = None.
Proof. exists ex_store, ex_model. vm_compute. repeat split; try reflexivity. repeat constructor; simpl; intuition discriminate. Qed.

(* names are renamed per object: a pickled model restored after the Model object was collected (its name released) while its
   nodes are alive keeps its own name, its nodes are renamed, and the rebuilt registry still finds them (C16_copy_supports_ops
   makes no assumption on the model's own name); rebuilding only when the model itself was renamed is refuted *)
Definition ex_store_gc : store nat nat := release (mkStore (hp ex_store) 3 ((0, "m") :: reg ex_store)) 0 "m".
Example C16_model_name_free_nodes_taken :
  let '(s', m', ren) := deepcopy_model ex_store_gc ex_model in
  mname m' = "m" /\ map (name_of (hp s')) (mnodes m') = ["res-(copy)"; "rd-(copy)"] /\ named_ops_defined (hp s') m' = true.
Proof. vm_compute. repeat split; reflexivity. Qed.
(* conversely: the model's name is taken, its nodes' names are free (they are unregistered copies) *)
Definition ex_store_conv : store nat nat :=
  mkStore (fun j => match j with 0 => Some (ex_cell 1 "res-(copy)" 10 [1]) | 1 => Some (ex_cell 2 "rd-(copy)" 20 []) | _ => None end)
          2 [(0, "m")].
Example C16_model_name_taken_nodes_free :
  let '(s', m', ren) := deepcopy_model ex_store_conv (mkMdl 0 "m" [0; 1] (init_registry (hp ex_store_conv) [0; 1]) [(0, 1)]) in
  mname m' = "m-(copy)" /\ map (name_of (hp s')) (mnodes m') = ["res-(copy)"; "rd-(copy)"] /\ named_ops_defined (hp s') m' = true.
Proof. vm_compute. repeat split; reflexivity. Qed.
Theorem C16_registry_conditional_refuted :
  exists (s : store nat nat) (m : mdl), mreg m = init_registry (hp s) (mnodes m) /\
    let '(s', m', ren) := deepcopy_model_cond s m in
    NoDup (map (name_of (hp s')) (mnodes m')) /\ named_ops_defined (hp s') m' = false.
Proof. exists ex_store_gc, ex_model. vm_compute. repeat split; try reflexivity. repeat constructor; simpl; intuition discriminate. Qed.

(* the hypothesis "copied names distinct" of C16_copy_supports_ops is necessary (open finding copy:renamed-name-collision):
   __setstate__ renames a registered name but never registers the new one, so a model holding node "a" (registered) and a
   deep copy of it ("a-(copy)", not registered) is copied to a model with two nodes named "a-(copy)" and one registry key *)
Definition ex_store2 : store nat nat :=
  mkStore (fun j => match j with 0 => Some (ex_cell 1 "a" 10 []) | 1 => Some (ex_cell 1 "a-(copy)" 10 []) | _ => None end)
          2 [(1, "a")].
Theorem C16_name_collision_refuted :
  exists (s : store nat nat) (m : mdl), mreg m = init_registry (hp s) (mnodes m) /\ NoDup (map (name_of (hp s)) (mnodes m)) /\
    let '(s', m', ren) := deepcopy_model s m in
    map (name_of (hp s')) (mnodes m') = ["a-(copy)"; "a-(copy)"] /\ named_ops_defined (hp s') m' = false.
Proof.
  exists ex_store2, (mkMdl 0 "m" [0; 1] (init_registry (hp ex_store2) [0; 1]) [(0, 1)]). vm_compute.
  repeat split; try reflexivity. repeat constructor; simpl; intuition discriminate.
Qed.

(* Node.copy shares the feedback sender: after r2 = r.copy(), cell 1 (the readout) is the sender of both *)
Example C16_node_copy_shares_sender :
  match node_copy ex_store 0 "res2"%string false with
  | Some (s', n) => n = 3 /\ option_map (@cfb nat nat) (hp s' n) = option_map (@cfb nat nat) (hp s' 0) /\ option_map (@cfb nat nat) (hp s' n) = Some [1]
  | None => False
  end /\ node_copy ex_store 0 "other"%string false = None.
Proof. vm_compute. repeat split; reflexivity. Qed.

(* ---- load_compat ---- *)
Close Scope string_scope.
Open Scope R_scope.
(* For every saved v0.2 ESN of consistent shapes (dense or sparse W: the same matrix), with or without input bias, feedback
   and trained readout, every activation f and feedback function g, every start state / initial feedback and every input
   sequence (noise gains 0): the v0.3 ESN built by load_compat (HEAD) goes through the same states and outputs. *)
Theorem C16_load_compat_equiv (L : legacy (F:=R)) (f g : list R -> list R) (x fb : list R) (us : list (list R)) :
  legacy_shaped L -> v3_run (convert L) f g x fb us = legacy_run L f g x fb us.
Proof. intros Hs. exact (convert_run L f g Hs us x fb). Qed.

Theorem C16_load_compat_step (L : legacy (F:=R)) (f g : list R -> list R) (x u fb : list R) :
  legacy_shaped L ->
  v3_step (convert L) f g x u fb = legacy_step L f g x u fb /\
  forall Wo, lWout L = Some Wo -> exists Wb, vWout (convert L) = Some Wb /\ v3_out Wb x = legacy_out Wo x.
Proof. intros Hs. split; [exact (convert_step L f g Hs x u fb)|intros Wo; exact (convert_out L Hs Wo x)]. Qed.

(* the two matrix identities behind it *)
Theorem C16_row_vector_convention (n : nat) (W : list (list R)) (x : list R) :
  (forall row, In row W -> length row = n) ->
  vm x W n = mv (transpose W n) x /\ vm x (transpose W n) (length W) = mv W x.
Proof. intros Hr. split; [exact (vm_transpose n W x Hr)|exact (vm_transpose_r n W x Hr)]. Qed.
Close Scope R_scope.

Example C16_legacy_shaped_example :
  legacy_shaped (mkLegacy 2 [[0;1];[2;0]] [[1;1];[0;1]] true (Some [[1];[1]]) (Some [[1;2;3]]) (1/2))%R.
Proof. repeat split; simpl; intros row Hr; intuition (subst; reflexivity). Qed.

(* pre-fix load_compat at Q: (a) non-symmetric W: the state after one step differs; (b) symmetric W, two outputs: the readout
   differs (Wout reshaped instead of transposed); activation and feedback function = identity *)
Definition idv (v : list Q) : list Q := v.
Theorem C16_load_compat_prefix_refuted :
  (exists L x u, v3_step (convert_prefix L) idv idv x u [] <> legacy_step (F:=Q) L idv idv x u []) /\
  (exists L Wo Wb x, lW L = transpose (lW L) (lN L) /\ lWout L = Some Wo /\ vWout (convert_prefix L) = Some Wb /\
                     v3_out Wb x <> legacy_out Wo x).
Proof.
  split.
  - exists (mkLegacy 2 [[0;1];[0;0]] [[1];[1]] false None None 1)%Q, [1;0]%Q, [0]%Q. vm_compute. discriminate.
  - exists (mkLegacy 2 [[0;1];[1;0]] [[1];[1]] false None (Some [[0;1;2];[0;3;4]]) 1)%Q.
    exists [[0;1;2];[0;3;4]]%Q, ([[1;2];[3;4]], [0;0])%Q, [1;0]%Q. vm_compute. repeat split; discriminate.
Qed.
(* pre-fix load_compat never found the saved fbfunc: the converted reservoir used the identity *)
Theorem C16_load_compat_fbfunc_refuted :
  exists L x u fb, v3_step (convert L) idv idv x u fb <> legacy_step (F:=Q) L idv (map (fun v => v / 2)%Q) x u fb.
Proof.
  exists (mkLegacy 1 [[0]] [[1]] false (Some [[1]]) (Some [[0;1]]) 1)%Q, [0]%Q, [0]%Q, [2]%Q. vm_compute. discriminate.
Qed.
(* and the HEAD conversion agrees on the same instances *)
Example C16_load_compat_head_example :
  v3_run (convert (mkLegacy 2 [[0;1];[0;0]] [[1;1];[2;1]] true (Some [[1];[1]]) (Some [[0;1;2]]) (1#2))%Q) idv idv [1;0]%Q [0]%Q [[1];[2];[3]]%Q
  = legacy_run (F:=Q) (mkLegacy 2 [[0;1];[0;0]] [[1;1];[2;1]] true (Some [[1];[1]]) (Some [[0;1;2]]) (1#2))%Q idv idv [1;0]%Q [0]%Q [[1];[2];[3]]%Q.
Proof. vm_compute. reflexivity. Qed.

Print Assumptions C16_copy_disjoint.
Print Assumptions C16_run_writes_own_cells.
Print Assumptions C16_copy_same_contents.
Print Assumptions C16_copy_same_outputs.
Print Assumptions C16_original_unaffected.
Print Assumptions C16_node_copy.
Print Assumptions C16_copy_supports_ops.
Print Assumptions C16_registry_prefix_refuted.
Print Assumptions C16_name_collision_refuted.
Print Assumptions C16_registry_conditional_refuted.
Print Assumptions C16_load_compat_equiv.
Print Assumptions C16_load_compat_step.
Print Assumptions C16_row_vector_convention.
Print Assumptions C16_load_compat_prefix_refuted.
Print Assumptions C16_load_compat_fbfunc_refuted.
