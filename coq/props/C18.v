(* C18 — activation functions equal their definitions over the whole (real) range, without overflow.
   Statement-only file.  Every theorem is about the definitions of gen/Gen_activations.v, which ./check C18 regenerates
   from the CURRENT text of reservoirpy/activationsfunc.py (tools/vlib/py2coq_act.py) before this file is compiled.
   Arrays of any shape are flattened (list R): elementwise functions are [map]s, softmax reduces over the whole array
   exactly like np.max / ndarray.sum() without axis.  Proofs: proofs/Act_proofs.v.
   Float facts (rounding to a few ulp, subnormals, signed zeros) are not provable over R: they are decided by the
   implementation oracle of tools/props/c18.py against a 60-digit reference. *)
From Coq Require Import Reals List Lra.
From RV Require Import model.ActPrelude gen.Gen_activations proofs.Act_proofs.
Import ListNotations.
Local Open Scope R_scope.

(* ---------------------------------------------------------------- softmax *)
Theorem C18_softmax_nonneg (x : list R) (beta : R) : Forall (fun y => 0 <= y) (act_softmax x beta).
Proof. exact (softmax_nonneg x beta). Qed.
Print Assumptions C18_softmax_nonneg.

Theorem C18_softmax_sum_one (x : list R) (beta : R) : x <> [] -> lsum (act_softmax x beta) = 1.
Proof. exact (softmax_sum_one x beta). Qed.
Print Assumptions C18_softmax_sum_one.

Theorem C18_softmax_shift_invariant (x : list R) (beta c : R) :
  act_softmax (map (fun t => t + c) x) beta = act_softmax x beta.
Proof. exact (softmax_shift x beta c). Qed.
Print Assumptions C18_softmax_shift_invariant.

(* outputs are ordered like beta times the inputs (beta > 0), in both directions *)
Theorem C18_softmax_order (x : list R) (beta : R) (i j : nat) :
  0 < beta -> (i < length x)%nat -> (j < length x)%nat ->
  (nth i x 0 <= nth j x 0 <-> nth i (act_softmax x beta) 0 <= nth j (act_softmax x beta) 0).
Proof. exact (softmax_order x beta i j). Qed.
Print Assumptions C18_softmax_order.

(* the documented formula  y_k = exp(beta x_k) / sum_i exp(beta x_i)  (beta is not ignored) *)
Theorem C18_softmax_def (x : list R) (beta : R) :
  act_softmax x beta = map (fun t => exp (beta * t) / lsum (map (fun u => exp (beta * u)) x)) x.
Proof. exact (softmax_textbook x beta). Qed.
Print Assumptions C18_softmax_def.

(* the default value of beta in the signature `softmax(x, beta=1.0)` *)
Theorem C18_softmax_default_beta : act_softmax_default_beta = 1.
Proof. exact softmax_default_beta. Qed.
Print Assumptions C18_softmax_default_beta.

(* ---------------------------------------------------------------- sigmoid, softplus, tanh, relu, identity *)
Theorem C18_sigmoid_def (x : R) :
  act_sigmoid_s x = 1 / (1 + exp (- x)) /\
  (x < 0 -> act_sigmoid_s x = exp x / (exp x + 1)) /\ (0 <= x -> act_sigmoid_s x = 1 / (1 + exp (- x))).
Proof. exact (conj (sigmoid_def x) (conj (sigmoid_branch_neg x) (sigmoid_branch_pos x))). Qed.
Print Assumptions C18_sigmoid_def.

Theorem C18_softplus_def (x : R) : act_softplus_s x = ln (1 + exp x).
Proof. exact (softplus_def x). Qed.
Print Assumptions C18_softplus_def.

Theorem C18_tanh_def (x : list R) :
  act_tanh x = map (fun t => (exp t - exp (- t)) / (exp t + exp (- t))) x.
Proof. exact (tanh_def x). Qed.
Print Assumptions C18_tanh_def.

Theorem C18_relu_def (x : R) :
  act_relu_s x = Rmax x 0 /\ (0 < x -> act_relu_s x = x) /\ (x <= 0 -> act_relu_s x = 0).
Proof. exact (conj (relu_def x) (relu_cases x)). Qed.
Print Assumptions C18_relu_def.

Theorem C18_identity_def (x : R) : act_identity_s x = x.
Proof. exact (identity_def x). Qed.
Print Assumptions C18_identity_def.

(* the array versions apply the scalar definitions to every element *)
Theorem C18_elementwise (xs : list R) (i : nat) : (i < length xs)%nat ->
  nth i (act_softplus xs) 0 = ln (1 + exp (nth i xs 0)) /\
  nth i (act_sigmoid xs) 0 = 1 / (1 + exp (- nth i xs 0)) /\
  nth i (act_tanh xs) 0 = tanh (nth i xs 0) /\
  nth i (act_identity xs) 0 = nth i xs 0 /\
  nth i (act_relu xs) 0 = Rmax (nth i xs 0) 0.
Proof. exact (elementwise_nth xs i). Qed.
Print Assumptions C18_elementwise.

(* ---------------------------------------------------------------- shape *)
Theorem C18_shape_preserved (x : list R) (beta : R) :
  length (act_softmax x beta) = length x /\
  length (act_softplus x) = length x /\ length (act_sigmoid x) = length x /\ length (act_tanh x) = length x /\
  length (act_identity x) = length x /\ length (act_relu x) = length x.
Proof. exact (conj (softmax_length x beta) (elementwise_length x)). Qed.
Print Assumptions C18_shape_preserved.

(* ---------------------------------------------------------------- overflow freedom on the real intermediates:
   every argument handed to exp is <= 0 (so exp yields a value in (0,1]), every divisor is >= 1 (and <= n),
   every argument of ln is in [1,2]: the standard sufficient condition for no overflow and no NaN in float64.
   act_*_exp_args / _divisors / _log_args are emitted by the translator from the same source walk. *)
Theorem C18_exp_args_nonpositive (x : list R) (beta t : R) :
  0 <= beta ->
  Forall (fun a => a <= 0) (act_softmax_exp_args x beta) /\
  Forall (fun a => a <= 0) (act_softplus_exp_args t) /\
  Forall (fun a => a <= 0) (act_sigmoid_exp_args t).
Proof.
  intros Hb. exact (conj (softmax_exp_args_nonpos x beta Hb) (conj (softplus_exp_args_nonpos t) (sigmoid_exp_args_nonpos t))).
Qed.
Print Assumptions C18_exp_args_nonpositive.

Theorem C18_divisors_and_log_args (x : list R) (beta t : R) :
  0 <= beta ->
  Forall (fun d => 1 <= d <= INR (length x)) (act_softmax_divisors x beta) /\
  Forall (fun d => 1 <= d <= 2) (act_sigmoid_divisors t) /\
  act_softplus_divisors t = [] /\
  Forall (fun a => 1 <= a <= 2) (act_softplus_log_args t).
Proof.
  intros Hb. exact (conj (softmax_divisors_ge_1 x beta Hb) (conj (sigmoid_divisors_range t)
                   (conj (softplus_divisors_none t) (softplus_log_args_range t)))).
Qed.
Print Assumptions C18_divisors_and_log_args.

(* the instrumentation list really is what softmax exponentiates: softmax is recomputed from it *)
Theorem C18_softmax_exp_args_cover (x : list R) (beta : R) :
  x <> [] -> act_softmax x beta =
    let e := map exp (act_softmax_exp_args x beta) in map (fun t => t / lsum e) e.
Proof. exact (softmax_exp_args_cover x beta). Qed.
Print Assumptions C18_softmax_exp_args_cover.

(* values stay in range: softmax in [0,1], sigmoid in (0,1), tanh in (-1,1), softplus > 0 *)
Theorem C18_ranges (x : list R) (beta t : R) :
  Forall (fun y => y <= 1) (act_softmax x beta) /\ 0 < act_sigmoid_s t < 1 /\ -1 < tanh t < 1 /\ 0 < act_softplus_s t.
Proof. exact (conj (softmax_le_one x beta) (conj (sigmoid_range t) (conj (tanh_range t) (softplus_pos t)))). Qed.
Print Assumptions C18_ranges.

(* get_function: long and short names resolve to the same six functions, anything else to nothing *)
Module C18_table.
Import String.
Theorem C18_get_function_table :
  map ActTable.table_lookup
      ["softmax"; "softplus"; "sigmoid"; "tanh"; "identity"; "relu"; "smax"; "sp"; "sig"; "id"; "re"; "nope"]%string
  = [Some "softmax"; Some "softplus"; Some "sigmoid"; Some "tanh"; Some "identity"; Some "relu";
     Some "softmax"; Some "softplus"; Some "sigmoid"; Some "identity"; Some "relu"; None]%string.
Proof. exact ActTable.table_spec. Qed.
Print Assumptions C18_get_function_table.
End C18_table.

(* ---------------------------------------------------------------- history: the formulas before the fix: commits *)
Theorem C18_softmax_prefix_overflow_refuted :
  exists x beta, 0 < beta /\ In 1000 (prefix_softmax_exp_args x beta).
Proof. exact prefix_softmax_overflow. Qed.
Print Assumptions C18_softmax_prefix_overflow_refuted.

Theorem C18_softplus_prefix_overflow_refuted : exists x, In 1000 (prefix_softplus_exp_args x).
Proof. exact prefix_softplus_overflow. Qed.
Print Assumptions C18_softplus_prefix_overflow_refuted.

Theorem C18_fix_preserves_function (x : list R) (beta t : R) :
  act_softmax x beta = prefix_softmax x beta /\ act_softplus_s t = prefix_softplus t.
Proof. exact (conj (prefix_softmax_same x beta) (prefix_softplus_same t)). Qed.
Print Assumptions C18_fix_preserves_function.

(* ---------------------------------------------------------------- non-vacuity *)
Example C18_ex_softmax_two : act_softmax [1000; 0] 1 = [1 / (1 + exp (-1000)); exp (-1000) / (1 + exp (-1000))].
Proof.
  unfold act_softmax. cbn [lmax map lsum]. rewrite Rmax_left by lra.
  replace (1 * (1000 - 1000)) with 0 by ring. replace (1 * (0 - 1000)) with (-1000) by ring.
  rewrite exp_0. replace (1 + (exp (-1000) + 0)) with (1 + exp (-1000)) by ring. reflexivity.
Qed.

Example C18_ex_exp_args : act_softmax_exp_args [1000; 0] 1 = [1 * (1000 - Rmax 1000 0); 1 * (0 - Rmax 1000 0)].
Proof. reflexivity. Qed.

Example C18_ex_order_hyps : exists (x : list R) (beta : R) (i j : nat),
  0 < beta /\ (i < length x)%nat /\ (j < length x)%nat /\ nth i x 0 <= nth j x 0 /\ i <> j.
Proof. exists [1; 2; 3], (1 / 2), 0%nat, 2%nat. simpl. repeat split; try lra; auto. Qed.

(* the empty-input guard of _elementwise (u.size == 0 -> u[0]) is what map does on the empty list *)
Example C18_ex_elementwise_empty :
  act_softplus [] = [] /\ act_sigmoid [] = [] /\ act_tanh [] = [] /\ act_identity [] = [] /\ act_relu [] = [] /\
  forall beta, act_softmax [] beta = [].
Proof. repeat split. Qed.

Example C18_ex_sigmoid_0 : act_sigmoid_s 0 = 1 / 2.
Proof. destruct (C18_sigmoid_def 0) as [H _]. rewrite H, Ropp_0, exp_0. lra. Qed.

Example C18_ex_relu : act_relu [-1; 2] = [0; 2].
Proof.
  unfold act_relu. simpl. destruct (C18_relu_def (-1)) as [_ [_ H1]]. destruct (C18_relu_def 2) as [_ [H2 _]].
  rewrite H1 by lra. rewrite H2 by lra. reflexivity.
Qed.
