(* C06 — training a model equals the explicit node-by-node procedure.  Statement-only file. *)
From Coq Require Import List Arith Bool Lia.
From RV Require Import model.FitSem proofs.FitSem_proofs.
Import ListNotations.

(* ---- offline: Model.fit ------------------------------------------------------------------------------------- *)
(* For ANY kind of forward nodes (a_run), ANY offline learner (a_fit / a_pred: ridge or otherwise, warm-up included),
   ANY name-keyed datasets X0 / Y0 with distinct keys and ANY staging of the graph: if the staging passes the
   symbolic check valid_stagingb, Model.fit executed with that staging raises nothing and gives every offline node
   exactly the parameters of the explicit procedure (nodes in topological order; a forward node is run over the data
   on its parents' outputs; an offline node is fitted on what reaches it with its targets, and its predictions are
   fed downstream).
   Hypotheses of the model (model/FitSem.v): no feedback; a node's output over the dataset is a function of its own
   sources (state carried or reset between sequences is the node's own business, identically in both procedures). *)
Theorem C06_fit_valid_staging (D P : Type) (a_run : nat -> list D -> D) (a_fit : nat -> list D -> D -> P)
        (a_pred : nat -> P -> list D -> D) (d0 : D) (X0 Y0 : list (nat * D)) (g : graph) (stg : list stage) :
  NoDup (map fst X0) -> NoDup (map fst Y0) ->
  valid_stagingb g (map fst X0) (map fst Y0) stg = true ->
  exists ps, fit_with_staging D P a_run a_fit a_pred g X0 Y0 stg = Some ps /\
             forall v, In v (g_nodes g) -> offline g v = true ->
                       exists p, lookup ps v = Some p /\ lookup (explicit_fit D P a_run a_fit a_pred g X0 Y0) v = Some p.
Proof. exact (fit_valid_staging D P a_run a_fit a_pred d0 X0 Y0 g stg). Qed.

(* The staging computed by get_offline_subgraphs (faithful to the `while trained != offlines` loop, _get_required_nodes
   and _get_links) is valid for EVERY DAG with at most 5 nodes, every fan-in order and every non-empty set of
   single-parent offline nodes, provided the model is in the supported class (supportedb: output readouts trained in
   the last stage; a Concat runs in the stage in which each of its parents runs last).  Bound: 5 nodes (vm_compute).
   The same boolean is evaluated on every scenario of the correspondence run. *)
Theorem C06_staging_valid_bounded n es off :
  1 <= n <= 5 -> In es (edge_lists n) -> In off (labellings n es) ->
  let g := mkG (seq 0 n) es off in
  exists stg, get_offline_subgraphs g = Some stg /\
              (supportedb g stg = true ->
               valid_stagingb g (filter (is_input g) (g_nodes g)) (filter (offline g) (g_nodes g)) stg = true).
Proof. exact (staging_valid_bounded n es off). Qed.

(* not proved: the same for graphs of any size *)
Definition C06_staging_valid_full_statement : Prop :=
  forall g stg, get_offline_subgraphs g = Some stg -> supportedb g stg = true ->
                valid_stagingb g (filter (is_input g) (g_nodes g)) (filter (offline g) (g_nodes g)) stg = true.

(* Outside the supported class the staging of the CURRENT code is not valid (each witness reproduced on the real
   library by the oracle, keys "fit-staging:..."),: Model.fit raises for (A) an output readout trained in an early stage,
   (C) a Concat fed by two nodes of the previous stage, (D) a readout fed directly by the data next to forward nodes;
   (B) for res >> rd1, [res, rd1] >> rd2 the second readout is fitted on (rd1, res) columns although the model
   concatenates (res, rd1) when it runs. *)
Theorem C06_staging_unsupported_refuted :
  Forall (fun g => get_offline_subgraphs g <> None /\ default_valid g = false)
         [g_early_output; g_cross_concat; g_multi_source; g_entry_readout].
Proof. exact staging_invalid_witnesses. Qed.
Theorem C06_staging_failure_modes :
  sym_fit g_early_output = None /\ sym_fit g_multi_source = None /\ sym_fit g_entry_readout = None /\
  (exists ps, sym_fit g_cross_concat = Some ps /\
     lookup ps 3 = Some (s_fit 3 [s_run 2 [s_pred 1 (s_fit 1 [s_run 0 [TExt 0]] (TTgt 1)) [s_run 0 [TExt 0]]; s_run 0 [TExt 0]]] (TTgt 3)) /\
     lookup (explicit_fit tm tm s_run s_fit s_pred g_cross_concat (sym_X [0]) (sym_Y [1; 3])) 3 =
       Some (s_fit 3 [s_run 2 [s_run 0 [TExt 0]; s_pred 1 (s_fit 1 [s_run 0 [TExt 0]] (TTgt 1)) [s_run 0 [TExt 0]]]] (TTgt 3))).
Proof. exact staging_failure_modes. Qed.

(* Arrays and name-keyed mappings: an array is the mapping that gives it to every input / trainable node, so the two
   ways of passing data are the same arguments of fit_with_staging / explicit_fit. *)
Theorem C06_array_eq_mapping (D : Type) (g : graph) (trainable : list nat) (x y : D) :
  input_mapping g (DArray x) = input_mapping g (DMapping (map (fun n => (n, x)) (filter (is_input g) (g_nodes g)))) /\
  target_mapping trainable (DArray y) = target_mapping trainable (DMapping (map (fun n => (n, y)) trainable)).
Proof. exact (array_eq_mapping g trainable x y). Qed.

(* ---- online: Model.train ------------------------------------------------------------------------------------ *)
(* One step of Model.train, for any nodes: forward pass; the states RETURNED are those of the forward pass, i.e.
   predictions made with the parameters before this step's update; every online node is updated once iff
   i mod learn_every = 0 (or the sequence has a single step). *)
Theorem C06_train_step (V NS : Type) vcat ncall nout nlearn (m : tmodel) k single i (e : tenv NS) ext tgt rest :
  ttrain_from V NS vcat ncall nout nlearn m k single i e ((ext, tgt) :: rest) =
    let e1 := tforward V NS vcat ncall nout m ext e in
    let e2 := if (i mod k =? 0) || single then ttrain_nodes V NS vcat nout nlearn m ext tgt e1 else e1 in
    let '(e3, os) := ttrain_from V NS vcat ncall nout nlearn m k single (S i) e2 rest in
    (e3, map (fun o => nout o (e1 o)) (t_outs m) :: os).
Proof. exact (train_step_spec V NS vcat ncall nout nlearn m k single i e ext tgt rest). Qed.

(* Model.train of "any upstream nodes, then one online readout r" IS the explicit per-timestep loop: call the upstream
   nodes, call the readout, then readout.train(x_t, y_t, call=False) on the steps selected by learn_every; same final
   states / parameters of every node, same returned outputs. *)
Theorem C06_train_is_loop (V NS : Type) vcat ncall nout nlearn (m : tmodel) (ups : list nat) (r : nat) k single :
  t_order m = ups ++ [r] -> t_outs m = [r] -> t_online m r = true ->
  (forall v, In v ups -> t_online m v = false) -> ~ In r (t_parents m r) ->
  forall steps i (e : tenv NS),
    ttrain_from V NS vcat ncall nout nlearn m k single i e steps =
      let '(e', ps) := explicit_train_from V NS vcat ncall nout nlearn ups r m k single i e steps in
      (e', map (fun p => [p]) ps).
Proof. exact (train_is_explicit_loop V NS vcat ncall nout nlearn m ups r k single). Qed.

(* Before commit 8cad14c the gate read `len(X) == 1` on the argument: with X a one-key mapping it is always open.
   Witness: 4 timesteps, learn_every = 2, a node counting its updates: 2 updates (steps 0 and 2) now, 4 before. *)
Theorem C06_learn_every_mapping_prefix_refuted : cnt_updates false = 2 /\ cnt_updates true = 4.
Proof. exact learn_every_mapping_prefix_witness. Qed.

(* ---- non-vacuity -------------------------------------------------------------------------------------------- *)
(* deep model res1 >> rd1 >> res2 >> rd2 and input-to-readout shortcut: supported, staging valid; so the hypothesis of
   C06_fit_valid_staging is satisfiable with the staging the code computes *)
Definition ex_deep : graph := mkG [0; 1; 2; 3] [(0, 1); (1, 2); (2, 3)] [1; 3].
Definition ex_shortcut : graph := mkG [0; 1; 2; 3] [(0, 1); (0, 2); (1, 2); (2, 3)] [3].
Example C06_example_staging :
  (exists s1 s2, get_offline_subgraphs ex_deep = Some [s1; s2] /\ supportedb ex_deep [s1; s2] = true) /\
  default_valid ex_deep = true /\ default_valid ex_shortcut = true /\
  In (g_edges ex_deep) (edge_lists 4) /\ In (g_offl ex_deep) (labellings 4 (g_edges ex_deep)).
Proof.
  split; [do 2 eexists; split; [vm_compute; reflexivity|vm_compute; reflexivity]|].
  split; [vm_compute; reflexivity|]. split; [vm_compute; reflexivity|].
  split; vm_compute; tauto.
Qed.
(* a concrete algebra over nat (datasets = numbers): run adds 1 to the sum of the sources, fit records sum + target *)
Example C06_example_concrete :
  fit_with_staging nat nat (fun v l => S (list_sum l)) (fun v l y => list_sum l + y) (fun v p l => p + list_sum l)
                   ex_deep [(0, 5)] [(1, 100); (3, 1000)]
                   (match get_offline_subgraphs ex_deep with Some s => s | None => [] end)
  = Some [(3, 1113); (1, 106)]
  /\ explicit_fit nat nat (fun v l => S (list_sum l)) (fun v l y => list_sum l + y) (fun v p l => p + list_sum l)
                  ex_deep [(0, 5)] [(1, 100); (3, 1000)] = [(3, 1113); (1, 106)].
Proof. split; vm_compute; reflexivity. Qed.

Print Assumptions C06_fit_valid_staging.
Print Assumptions C06_staging_valid_bounded.
Print Assumptions C06_staging_unsupported_refuted.
Print Assumptions C06_staging_failure_modes.
Print Assumptions C06_array_eq_mapping.
Print Assumptions C06_train_step.
Print Assumptions C06_train_is_loop.
Print Assumptions C06_learn_every_mapping_prefix_refuted.

(* ================================================================================================================ *)
(* Offline fit of models WITH feedback connections, and the ESN node (model/FitFb.v: the forward nodes of every stage are
   executed step by step by ModelSem.forward; proxies / clamps range over the complete model).                        *)
From Coq Require Import QArith.
From RV Require Import base.Num base.LA model.ModelSem model.Kinds model.Ridge model.FitFb proofs.FitFb_proofs.
Local Close Scope Q_scope.

Section C06_fit_fb.
Context {F : Type} `{Num F}.
Notation vec := (list F).
Notation mat := (list (list F)).

(* force_teachers=True.  At step t of sequence j, in whatever stage of Model.fit and whatever has been fitted or run
   before (any environment e), a receiver d whose sender s has targets is handed shift(Y_s[j])[t]: zeros at t = 0,
   the sender's TARGET of step t-1 afterwards. *)
Theorem C06_fit_fb_forced_value (fm : @fmodel F) Y j t (e : @env F) (d : @ndesc F) s rows dflt :
  NoDup (map nid (fm_nodes fm)) -> In d (fm_nodes fm) -> nfb d = Some (FbNode s) ->
  seq_rows Y j (nid d) = None -> seq_rows Y j s = Some rows -> t < length rows ->
  fit_fb_seen fm (forced_at true Y j t) e d = Some (nth t (shifted rows) dflt)
  /\ (rows <> [] -> nth 0 (shifted rows) dflt = vzeros (length (hd [] rows)))
  /\ (forall t', S t' < length rows -> nth (S t') (shifted rows) dflt = nth t' rows dflt).
Proof.
  intros Hnd Hin Hfb Hd Hs Ht. split; [exact (fit_forced_value fm Y j t e d s rows dflt Hnd Hin Hfb Hd Hs Ht)|].
  split; [exact (shifted_0 rows dflt)|intros t'; exact (shifted_S rows t' dflt)].
Qed.

(* force_teachers=False: the sender's own state at the end of the previous step (zeros for a readout that has not been
   fitted and run yet; its real prediction once it runs as a forward node of a later stage) *)
Theorem C06_fit_fb_unforced_value (fm : @fmodel F) Y j t (e : @env F) (d : @ndesc F) s :
  nfb d = Some (FbNode s) -> fit_fb_seen fm (forced_at false Y j t) e d = Some (st (e s)).
Proof. exact (fit_unforced_value fm Y j t e d s). Qed.

(* ESN.fit: the reservoir of the per-sequence copy is handed the same shifted targets (through the readout's state proxy) *)
Theorem C06_fit_fb_esn_forced_value (dres drd : @ndesc F) Y j t (e : @env F) rows dflt :
  nfb dres = Some (FbNode (nid drd)) -> nfb drd = None -> nid dres <> nid drd ->
  seq_rows Y j (nid drd) = Some rows -> t < length rows ->
  esn_fb_seen dres drd (forced_at true Y j t) e = Some (nth t (shifted rows) dflt).
Proof. exact (esn_forced_value dres drd Y j t e rows dflt). Qed.

(* ESN.fit(X, Y, warmup) gives the readout exactly the parameters of Model.fit(X, Y, warmup, force_teachers=True,
   reset=True) on reservoir(0) >> readout(1), with reservoir <<= readout or without feedback, for ANY reservoir forward
   function that keeps no hidden memory, any solver, any data (each sequence having a target for each of its steps), and
   whatever states the nodes hold when fit is called.  (With reset=False Model.fit carries the reservoir state from one
   sequence to the next while ESN.fit restarts each sequence from the null state: the condition is exact.) *)
Theorem C06_fit_fb_esn_eq_model (solve : mat -> mat -> mat) fres frd (has_fb : bool) ores ord rbias rlam rdout
        (xs ys : list (list vec)) (lens : list nat) :
  (forall s h x fb s' h', fres s h x fb = Some (s', h') -> h' = h) ->
  (forall j T, nth_error lens j = Some T -> exists rows, nth_error ys j = Some rows /\ T <= length rows) ->
  forall w (e : @env F),
    fit_fb_params (fit_fb solve (e_fm fres frd has_fb ores ord rbias rlam rdout) e_stg [(0, xs)] [(1, ys)] w true true lens e)
    = option_map (fun p => [(1, fst p)])
                 (esn_fit solve (e_res fres has_fb ores) (e_rdn frd ord) (e_rd rbias rlam rdout) [(0, xs)] [(1, ys)] w lens e).
Proof. intros Hh Hl. exact (esn_fit_eq_model_fit solve fres frd has_fb ores ord rbias rlam rdout Hh xs ys lens Hl). Qed.
End C06_fit_fb.

(* non-vacuity at Q: receiver 0 = x + feedback, fed back by its ridge readout 1; two sequences *)
Definition exF_solve (A B : list (list Q)) : list (list Q) := match qsolve A B with Some X => X | None => [] end.
Definition exF_fres := kfwd (F:=Q) (KFbAdd 1%Q).
Definition exF_frd : list Q -> @hidden Q -> list Q -> option (list Q) -> option (list Q * @hidden Q) := fun _ _ _ _ => None.
Definition exF_xs : list (list (list Q)) := [[[1]; [2]; [4]]; [[3]; [5]]]%Q.
Definition exF_ys : list (list (list Q)) := [[[10]; [20]; [30]]; [[40]; [50]]]%Q.
Definition exF_e0 : @env Q := fun _ => mkNS [0%Q] [].
Example C06_fit_fb_example :
  (* the receiver's states collected by Model.fit: x_t + target_{t-1}, zero first in EACH sequence *)
  (match fit_fb exF_solve (e_fm exF_fres exF_frd true 1 1 true 1%Q 1) e_stg [(0, exF_xs)] [(1, exF_ys)] 0 true true [3; 2] exF_e0 with
   | Some (_, _, _, _, log) => map (fun tr => lookup tr 0) log
   | None => []
   end) = [Some [[[1]; [12]; [24]]; [[3]; [45]]]]%Q
  (* both fits succeed and agree *)
  /\ (exists p x, esn_fit exF_solve (e_res exF_fres true 1) (e_rdn exF_frd 1) (e_rd true 1%Q 1) [(0, exF_xs)] [(1, exF_ys)] 0 [3; 2] exF_e0
                  = Some (Some p, x) /\
                  fit_fb_params (fit_fb exF_solve (e_fm exF_fres exF_frd true 1 1 true 1%Q 1) e_stg [(0, exF_xs)] [(1, exF_ys)] 0 true true [3; 2] exF_e0)
                  = Some [(1, Some p)])
  (* the hypotheses of C06_fit_fb_esn_eq_model hold for this reservoir and these data *)
  /\ (forall s h x fb s' h', exF_fres s h x fb = Some (s', h') -> h' = h)
  /\ (forall j T, nth_error [3; 2] j = Some T -> exists rows, nth_error exF_ys j = Some rows /\ T <= length rows).
Proof.
  split; [vm_compute; reflexivity|]. split; [do 2 eexists; split; vm_compute; reflexivity|]. split.
  - intros s h x [y|] s' h'; cbn; intros E; inversion E; reflexivity.
  - intros [|[|j]] T E; cbn in E.
    + inversion E; subst. exists [[10]; [20]; [30]]%Q. split; [reflexivity|cbn; lia].
    + inversion E; subst. exists [[40]; [50]]%Q. split; [reflexivity|cbn; lia].
    + destruct j; discriminate.
Qed.

Print Assumptions C06_fit_fb_forced_value.
Print Assumptions C06_fit_fb_unforced_value.
Print Assumptions C06_fit_fb_esn_forced_value.
Print Assumptions C06_fit_fb_esn_eq_model.

(* ================================================================================================================ *)
(* UNBOUNDED facts about the staging computed by get_offline_subgraphs (proofs/FitSem_staging_proofs.v), for every graph
   of ANY size whose node list is a duplicate-free topological order of its edges:
     wf_dagb g  :=  scanning g_nodes from the left, every node is new and all its parents have been seen already
   (Model.nodes is such an order; feedback connections are not edges).  `train_sets g [] (map s_nodes stg)` are the sets of
   offline nodes that Model.fit / build_forward_sumodels trains stage after stage (the `offl` of run_stage).
   C06_staging_valid_full_statement above stays open; these are the structural parts of it. *)
From RV Require Import proofs.FitSem_staging_proofs.

(* the `while trained != offlines` loop stops within the fuel of the model (one more than the number of nodes; it needs at
   most one iteration per offline node), and a staging is returned exactly when the model has an offline node *)
Theorem C06_staging_terminates (g : graph) :
  wf_dagb g = true ->
  (exists subs, stages_loop g (S (length (g_nodes g))) (g_nodes g) [] [] [] = Some subs) /\
  (get_offline_subgraphs g = None <-> filter (offline g) (g_nodes g) = []).
Proof. exact (staging_terminates g). Qed.

(* every offline node of the model is trained in exactly one stage, nothing else is, and no node is trained twice *)
Theorem C06_staging_trains_each_once (g : graph) (stg : list stage) :
  wf_dagb g = true -> get_offline_subgraphs g = Some stg ->
  let T := train_sets g [] (map s_nodes stg) in
  NoDup (concat T) /\ (forall v, In v (concat T) <-> (In v (g_nodes g) /\ offline g v = true)).
Proof. exact (fun H => staging_trains_each_once g H stg). Qed.

(* stage monotonicity: an offline (strict) ancestor of a node trained in stage j is trained in a stage i < j *)
Theorem C06_staging_respects_ancestors (g : graph) (stg : list stage) :
  wf_dagb g = true -> get_offline_subgraphs g = Some stg ->
  let T := train_sets g [] (map s_nodes stg) in
  forall j Tb a b, nth_error T j = Some Tb -> In b Tb -> anc g a b -> offline g a = true ->
    exists i Ta, (i < j)%nat /\ nth_error T i = Some Ta /\ In a Ta.
Proof. exact (fun H => staging_respects_ancestors g H stg). Qed.

(* every (strict) ancestor of a node trained in stage j is listed, and not trained, in some stage i <= j: it runs there as
   a forward node (an offline one with the parameters fitted earlier, by the previous theorem) *)
Theorem C06_staging_ancestors_run (g : graph) (stg : list stage) :
  wf_dagb g = true -> get_offline_subgraphs g = Some stg ->
  let T := train_sets g [] (map s_nodes stg) in
  forall j Tb a b, nth_error T j = Some Tb -> In b Tb -> anc g a b ->
    exists i s Ti, (i <= j)%nat /\ nth_error stg i = Some s /\ nth_error T i = Some Ti /\ In a (s_nodes s) /\ ~ In a Ti.
Proof. exact (fun H => staging_ancestors_run g H stg). Qed.

(* non-vacuity: 7 nodes, two readouts, a shortcut and a fan-in; the hypotheses hold and the two stages are as expected *)
Example C06_example_staging_unbounded :
  wf_dagb g_seven = true /\
  (exists stg, get_offline_subgraphs g_seven = Some stg /\
               map s_nodes stg = [[0; 1; 2; 4]; [2; 3; 5; 6]] /\ train_sets g_seven [] (map s_nodes stg) = [[2]; [6]]) /\
  anc g_seven 2 6 /\ anc g_seven 4 6.
Proof.
  split; [vm_compute; reflexivity|]. split; [eexists; split; [vm_compute; reflexivity|split; vm_compute; reflexivity]|].
  split.
  - apply (anc_step _ 2 5 6); [apply (anc_step _ 2 3 5); [apply anc_edge|]|]; simpl; tauto.
  - apply (anc_step _ 4 5 6); [apply anc_edge|]; simpl; tauto.
Qed.

(* B. chains n0 >> n1 >> ... >> nk of ANY length k with ANY set of offline nodes among n1..nk (deep ESNs
   reservoir >> ridge >> reservoir >> ridge ...): the staging in closed form -- one stage per offline node b, listing the
   nodes from the previous offline node (or the entry node) up to b, the edges among them, and the single relation b-1 -> b *)
Theorem C06_staging_chain_closed_form (k : nat) (off : list nat) :
  mem 0 off = false -> chain_offs k off <> [] ->
  get_offline_subgraphs (chain k off) = Some (chain_staging k off).
Proof. exact (chain_get_offline_subgraphs k off). Qed.
Example C06_example_chain :
  wf_dagb (chain 6 [2; 3; 5]) = true /\ chain_offs 6 [2; 3; 5] = [2; 3; 5] /\
  map s_nodes (chain_staging 6 [2; 3; 5]) = [[0; 1; 2]; [2; 3]; [3; 4; 5]] /\
  map s_rel (chain_staging 6 [2; 3; 5]) = [[(1, [2])]; [(2, [3])]; [(4, [5])]].
Proof. repeat split; vm_compute; reflexivity. Qed.

(* ... and that staging is VALID: the full statement C06_staging_valid_full_statement restricted to the family of chains, for
   every length k and every labelling (the entry node n0 is fed by the data, so it is not a readout; at least one of
   n1..nk is offline).  Proof: Model.fit is executed symbolically stage by stage, by induction over the offline nodes. *)
Theorem C06_staging_valid_chains (k : nat) (off : list nat) :
  mem 0 off = false -> chain_offs k off <> [] ->
  let g := chain k off in
  exists stg, get_offline_subgraphs g = Some stg /\
              valid_stagingb g (filter (is_input g) (g_nodes g)) (filter (offline g) (g_nodes g)) stg = true.
Proof. exact (chain_valid k off). Qed.

(* with C06_fit_valid_staging: on a chain of any length, for ANY forward nodes, ANY offline learners and ANY data given to
   the entry node / targets given to the offline nodes, Model.fit with the staging the code computes raises nothing and
   gives every offline node exactly the parameters of the explicit node-by-node procedure *)
Theorem C06_fit_chains (D P : Type) (a_run : nat -> list D -> D) (a_fit : nat -> list D -> D -> P)
        (a_pred : nat -> P -> list D -> D) (d0 : D) (k : nat) (off : list nat) (X0 Y0 : list (nat * D)) :
  let g := chain k off in
  mem 0 off = false -> chain_offs k off <> [] ->
  map fst X0 = filter (is_input g) (g_nodes g) -> map fst Y0 = filter (offline g) (g_nodes g) ->
  exists stg ps, get_offline_subgraphs g = Some stg /\
                 fit_with_staging D P a_run a_fit a_pred g X0 Y0 stg = Some ps /\
                 forall v, In v (g_nodes g) -> offline g v = true ->
                           exists p, lookup ps v = Some p /\ lookup (explicit_fit D P a_run a_fit a_pred g X0 Y0) v = Some p.
Proof. exact (chain_fit_explicit D P a_run a_fit a_pred d0 k off X0 Y0). Qed.
(* non-vacuity: a 9-node deep ESN with 4 readouts, two of them adjacent; hypotheses hold; 4 stages *)
Example C06_example_chain_valid :
  mem 0 [2; 3; 5; 8] = false /\ chain_offs 8 [2; 3; 5; 8] = [2; 3; 5; 8] /\
  filter (is_input (chain 8 [2; 3; 5; 8])) (g_nodes (chain 8 [2; 3; 5; 8])) = [0] /\
  map s_nodes (chain_staging 8 [2; 3; 5; 8]) = [[0; 1; 2]; [2; 3]; [3; 4; 5]; [5; 6; 7; 8]] /\
  default_valid (chain 8 [2; 3; 5; 8]) = true.
Proof. repeat split; vm_compute; reflexivity. Qed.

Print Assumptions C06_staging_terminates.
Print Assumptions C06_staging_trains_each_once.
Print Assumptions C06_staging_respects_ancestors.
Print Assumptions C06_staging_ancestors_run.
Print Assumptions C06_staging_chain_closed_form.
Print Assumptions C06_staging_valid_chains.
Print Assumptions C06_fit_chains.

(* ================================================================================================================ *)
(* Tie (T) for the offline staging: get_offline_subgraphs, _get_required_nodes and _get_links are TRANSLATED on every run from
   the current text of reservoirpy/utils/graphflow.py (tools/vlib/py2coq_staging.py -> coq/gen/Gen_staging.v, vocabulary
   base/PyColl.v + base/PyColl2.v) and proved equal to the hand-written model the theorems above are about
   (proofs/Gen_staging_eq.v).  Parameters of the generated code: ord_n k s = the order in which Python iterates over the set s
   at conversion site k (only assumed to be a permutation; site 2 is `for n in previous` of _get_links), srt = the name sort of
   find_parents_and_children (the edge list of the model is listed in that order, FitSem.v's convention), off / onl = the node
   attributes is_trained_offline / is_trained_online (no node carries both: open finding offline-and-online-node-hangs),
   fuel = S (S |nodes|).  Exceptions of the generated code: IndexError (`subgraphs[-1]`, no offline node), TypeError
   (`for p in parents.get(node)`, proved unreachable), OutOfFuel (proved unreachable on a DAG). *)
From Coq Require Import Permutation.
From RV Require Import base.PyColl base.PyColl2 gen.Gen_staging proofs.Gen_staging_eq.

(* whatever the iteration order of the Python sets: the generated code returns the stages of the model -- same node lists, same
   edge lists, and for each stage a `links` dictionary with the entries of the model's relations in some order *)
Theorem C06_generated_staging_is_model_up_to_dict_order
        (ord_n : nat -> list nat -> list nat) (srt : list (nat * nat) -> list (nat * nat)) (off onl : nat -> bool) (g : graph) :
  (forall k s, Permutation (ord_n k s) s) -> srt (g_edges g) = g_edges g ->
  (forall n, off n = offline g n) -> (forall n, In n (g_nodes g) -> off n = true -> onl n = false) -> NoDup (g_nodes g) ->
  let gen := GenStaging.get_offline_subgraphs ord_n srt off onl (S (S (length (g_nodes g)))) (g_nodes g) (g_edges g) in
  match FitSem.get_offline_subgraphs g with
  | Some stg => exists out, gen = Val out /\
                  map (fun x => fst (fst x)) out = map s_nodes stg /\ map (fun x => snd (fst x)) out = map s_edges stg /\
                  Forall2 (fun x s => Permutation (snd x) (s_rel s)) out stg
  | None => gen = OutOfFuel \/ gen = Exc IndexError
  end.
Proof. exact (fun H1 H2 H3 H4 H5 => gen_staging_is_model_perm ord_n srt off onl H1 g H2 H3 H4 H5). Qed.

(* ... and it IS the model's staging when `previous` is iterated in its representation order *)
Theorem C06_generated_staging_is_model
        (ord_n : nat -> list nat -> list nat) (srt : list (nat * nat) -> list (nat * nat)) (off onl : nat -> bool) (g : graph) :
  (forall k s, Permutation (ord_n k s) s) -> srt (g_edges g) = g_edges g ->
  (forall n, off n = offline g n) -> (forall n, In n (g_nodes g) -> off n = true -> onl n = false) -> NoDup (g_nodes g) ->
  (forall s, ord_n 2 s = s) ->
  let gen := GenStaging.get_offline_subgraphs ord_n srt off onl (S (S (length (g_nodes g)))) (g_nodes g) (g_edges g) in
  match FitSem.get_offline_subgraphs g with
  | Some stg => gen = Val (map unstage stg)
  | None => gen = OutOfFuel \/ gen = Exc IndexError
  end.
Proof. exact (fun H1 H2 H3 H4 H5 H6 => gen_staging_is_model ord_n srt off onl H1 g H2 H3 H4 H5 H6). Qed.

(* C06_staging_terminates, about the generated code: on a DAG it never runs out of fuel and never raises TypeError; it raises
   IndexError exactly when there is no offline node and returns a staging otherwise *)
Theorem C06_generated_staging_terminates
        (ord_n : nat -> list nat -> list nat) (srt : list (nat * nat) -> list (nat * nat)) (off onl : nat -> bool) (g : graph) :
  (forall k s, Permutation (ord_n k s) s) -> srt (g_edges g) = g_edges g ->
  (forall n, off n = offline g n) -> (forall n, In n (g_nodes g) -> off n = true -> onl n = false) ->
  wf_dagb g = true ->
  let gen := GenStaging.get_offline_subgraphs ord_n srt off onl (S (S (length (g_nodes g)))) (g_nodes g) (g_edges g) in
  (filter (offline g) (g_nodes g) = [] /\ gen = Exc IndexError) \/
  (filter (offline g) (g_nodes g) <> [] /\ exists out, gen = Val out).
Proof. exact (fun H1 H2 H3 H4 H5 => gen_staging_terminates ord_n srt off onl H1 g H2 H3 H4 (topo_okb_NoDup _ _ _ H5) H5). Qed.

(* C06_staging_trains_each_once, about the staging the generated code returns *)
Theorem C06_generated_staging_trains_each_once
        (ord_n : nat -> list nat -> list nat) (srt : list (nat * nat) -> list (nat * nat)) (off onl : nat -> bool) (g : graph) out :
  (forall k s, Permutation (ord_n k s) s) -> srt (g_edges g) = g_edges g ->
  (forall n, off n = offline g n) -> (forall n, In n (g_nodes g) -> off n = true -> onl n = false) ->
  wf_dagb g = true ->
  GenStaging.get_offline_subgraphs ord_n srt off onl (S (S (length (g_nodes g)))) (g_nodes g) (g_edges g) = Val out ->
  let T := train_sets g [] (map (fun x => fst (fst x)) out) in
  NoDup (concat T) /\ (forall v, In v (concat T) <-> (In v (g_nodes g) /\ offline g v = true)).
Proof. exact (fun H1 H2 H3 H4 H5 => gen_staging_trains_each_once ord_n srt off onl H1 g H2 H3 H4 (topo_okb_NoDup _ _ _ H5) H5 out). Qed.

(* non-vacuity: the 7-node example above, sets iterated in representation order, edges already in name order *)
Example C06_example_generated_staging :
  let ord_n := fun (_ : nat) (s : list nat) => s in
  let srt := fun l : list (nat * nat) => l in
  (forall k s, Permutation (ord_n k s) s) /\ srt (g_edges g_seven) = g_edges g_seven /\ wf_dagb g_seven = true /\
  GenStaging.get_offline_subgraphs ord_n srt (offline g_seven) (fun _ => false) 9 (g_nodes g_seven) (g_edges g_seven)
  = Val [([0; 1; 2; 4], [(0, 1); (0, 4); (1, 2)], [(1, [2]); (4, [5])]); ([2; 3; 5; 6], [(2, 3); (3, 5); (5, 6)], [(5, [6])])].
Proof. cbv zeta. split; [intros; apply Permutation_refl|]. repeat split; vm_compute; reflexivity. Qed.

Print Assumptions C06_generated_staging_is_model_up_to_dict_order.
Print Assumptions C06_generated_staging_is_model.
Print Assumptions C06_generated_staging_terminates.
Print Assumptions C06_generated_staging_trains_each_once.

(* ================================================================================================================
   The R-vs-Q instance gap, closed by proof (base/NumHom.v, proofs/QR_bridge_C06.v).
   The theorems above hold for EVERY value algebra / node algebra (C06_fit_valid_staging, C06_train_is_explicit, ...), in
   particular for the one built at F := R from model/Kinds.v (forward nodes), model/Ridge.v (offline readout) and
   model/Online.v (RLS / LMS readouts).  The correspondence run (run/RunC06.v: chk_fit, chk_train, chk_train_explicit,
   chk_train_calls) evaluates the algebra built from the SAME generic terms at F := Q ([g_run], [g_fit], [g_pred], [g_ncall],
   [g_nlearn], [g_env0] of proofs/QR_bridge_C06.v are RunC06's q_* re-stated over any [Num F], solver as a parameter:
   C06_Qtwins).  Model.fit / Model.train themselves are number-free and FUNCTORIAL in the algebra (C06_fit_functorial,
   C06_train_functorial); [Q2R] is a homomorphism of the [Num] class, every node kind of Kinds.v, the run of a node over a
   dataset (state carried or reset), hstack, the ridge fit / prediction and the online call / learn / initial environment
   commute with the entry-wise embedding.  Hence: evaluating Model.fit / Model.train at Q and embedding = evaluating the R
   instance on the embedded data, failures included.  Environments (functions of the node id) are related POINT-WISE: no
   functional extensionality.  No shape hypothesis; no activation side condition ([actk] enumerates exactly computable ones).
   WHAT STAYS TRUSTED (offline side only): the hypothesis [forall A B, qm2r (qsolve_tot A B) = solveR (qm2r A) (qm2r B)] relating
   the runner's Gauss-Jordan routine to the solver of the R instance (as in C04); the online theorems have no hypothesis. *)
From Coq Require Import Reals Qreals.
From RV Require Import base.NumHom model.Online proofs.QR_bridge_C10 proofs.QR_bridge_C06 run.RunC06.
Local Close Scope Q_scope.

(* Model.fit with ANY staging and the explicit procedure commute with any map of value algebras (no numbers involved) *)
Theorem C06_fit_functorial (D1 P1 D2 P2 : Type) (eD : D1 -> D2) (eP : P1 -> P2)
        (run1 : nat -> list D1 -> D1) (fit1 : nat -> list D1 -> D1 -> P1) (pred1 : nat -> P1 -> list D1 -> D1)
        (run2 : nat -> list D2 -> D2) (fit2 : nat -> list D2 -> D2 -> P2) (pred2 : nat -> P2 -> list D2 -> D2) :
  (forall v ins, eD (run1 v ins) = run2 v (map eD ins)) ->
  (forall v ins y, eP (fit1 v ins y) = fit2 v (map eD ins) (eD y)) ->
  (forall v p ins, eD (pred1 v p ins) = pred2 v (eP p) (map eD ins)) ->
  forall (g : graph) (X0 Y0 : list (nat * D1)) (stg : list stage),
    option_map (emap eP) (fit_with_staging D1 P1 run1 fit1 pred1 g X0 Y0 stg)
    = fit_with_staging D2 P2 run2 fit2 pred2 g (emap eD X0) (emap eD Y0) stg /\
    emap eP (explicit_fit D1 P1 run1 fit1 pred1 g X0 Y0) = explicit_fit D2 P2 run2 fit2 pred2 g (emap eD X0) (emap eD Y0).
Proof.
  intros Hr Hf Hp g X0 Y0 stg. split.
  - exact (f_fit_with_staging D1 P1 D2 P2 eD eP run1 fit1 pred1 run2 fit2 pred2 Hr Hf Hp g X0 Y0 stg).
  - exact (f_explicit_fit D1 P1 D2 P2 eD eP run1 fit1 pred1 run2 fit2 pred2 Hr Hf Hp g X0 Y0).
Qed.

(* Model.train and the explicit per-timestep loop commute with any map of node algebras: point-wise related environments and
   steps give point-wise related final environments and mapped returned rows *)
Theorem C06_train_functorial (V1 NS1 V2 NS2 : Type) (eV : V1 -> V2) (eN : NS1 -> NS2)
        (vcat1 : list V1 -> V1) (ncall1 : nat -> NS1 -> V1 -> NS1) (nout1 : nat -> NS1 -> V1) (nlearn1 : nat -> NS1 -> V1 -> V1 -> NS1)
        (vcat2 : list V2 -> V2) (ncall2 : nat -> NS2 -> V2 -> NS2) (nout2 : nat -> NS2 -> V2) (nlearn2 : nat -> NS2 -> V2 -> V2 -> NS2) :
  (forall l, eV (vcat1 l) = vcat2 (map eV l)) ->
  (forall v s x, eN (ncall1 v s x) = ncall2 v (eN s) (eV x)) ->
  (forall v s, eV (nout1 v s) = nout2 v (eN s)) ->
  (forall v s x y, eN (nlearn1 v s x y) = nlearn2 v (eN s) (eV x) (eV y)) ->
  forall (m : tmodel) (k : nat) steps1 steps2 (e1 : nat -> NS1) (e2 : nat -> NS2),
    Forall2 (step_rel V1 V2 eV) steps1 steps2 -> (forall v, eN (e1 v) = e2 v) ->
    ((forall v, eN (fst (model_train V1 NS1 vcat1 ncall1 nout1 nlearn1 m k e1 steps1) v)
                = fst (model_train V2 NS2 vcat2 ncall2 nout2 nlearn2 m k e2 steps2) v) /\
     map (map eV) (snd (model_train V1 NS1 vcat1 ncall1 nout1 nlearn1 m k e1 steps1))
     = snd (model_train V2 NS2 vcat2 ncall2 nout2 nlearn2 m k e2 steps2)) /\
    forall ups r,
      (forall v, eN (fst (explicit_train V1 NS1 vcat1 ncall1 nout1 nlearn1 ups r m k e1 steps1) v)
                 = fst (explicit_train V2 NS2 vcat2 ncall2 nout2 nlearn2 ups r m k e2 steps2) v) /\
      map eV (snd (explicit_train V1 NS1 vcat1 ncall1 nout1 nlearn1 ups r m k e1 steps1))
      = snd (explicit_train V2 NS2 vcat2 ncall2 nout2 nlearn2 ups r m k e2 steps2).
Proof.
  intros Hc Hn Ho Hl m k steps1 steps2 e1 e2 Hs He. split.
  - exact (r_model_train V1 NS1 V2 NS2 eV eN vcat1 ncall1 nout1 nlearn1 vcat2 ncall2 nout2 nlearn2 Hc Hn Ho Hl m k steps1 steps2 e1 e2 Hs He).
  - intros ups r. exact (r_explicit_train V1 NS1 V2 NS2 eV eN vcat1 ncall1 nout1 nlearn1 vcat2 ncall2 nout2 nlearn2 Hc Hn Ho Hl ups r m k steps1 steps2 e1 e2 Hs He).
Qed.

(* the generic twins at F := Q (with qsolve_tot) ARE the definitions of run/RunC06.v *)
Theorem C06_Qtwins :
  hcat2 = hcat2P (A:=Q) /\ hcats = hcatsP (A:=Q) /\ run_seq = run_seqF (F:=Q) /\ run_data = run_dataF (F:=Q) /\
  (forall nodes reset init v ins, q_run nodes reset init v ins = g_run (emap to_g nodes) reset init v ins) /\
  (forall nodes w v ins y, q_fit nodes w v ins y = g_fit qsolve_tot (emap to_g nodes) w v ins y) /\
  (forall nodes v p ins, q_pred nodes v p ins = g_pred (emap to_g nodes) v p ins) /\
  (forall tnodes v s x, to_gns (q_ncall tnodes v s x) = g_ncall (emap to_gt tnodes) v (to_gns s) x) /\
  (forall tnodes v s x y, to_gns (q_nlearn tnodes v s x y) = g_nlearn (emap to_gt tnodes) v (to_gns s) x y) /\
  (forall tnodes v, to_gns (q_env0 tnodes v) = g_env0 (emap to_gt tnodes) v).
Proof.
  exact (conj hcat2_twin (conj hcats_twin (conj run_seq_twin (conj run_data_twin (conj q_run_twin (conj q_fit_twin
        (conj q_pred_twin (conj q_ncall_twin (conj q_nlearn_twin q_env0_twin))))))))).
Qed.

(* every node kind of model/Kinds.v: state, hidden memory, input, feedback |-> result (None of a failing node included) *)
Theorem C06_Qkinds_embed (k : kind (F:=Q)) (s : list Q) (h : hidden (F:=Q)) (x : list Q) (fb : option (list Q)) :
  kfwd (ekind Q2R k) (qv2r s) (qm2r h) (qv2r x) (option_map qv2r fb)
  = option_map (fun p => (qv2r (fst p), qm2r (snd p))) (kfwd k s h x fb).
Proof. exact (e_kfwd Q2R k s h x fb). Qed.

(* the value algebra of Model.fit and the node algebra of Model.train, operation by operation *)
Theorem C06_Qalgebra_embeds (solveR : list (list R) -> list (list R) -> list (list R)) :
  (forall A B, qm2r (qsolve_tot A B) = solveR (qm2r A) (qm2r B)) ->
  (forall nodes reset init v ins, qd2r (q_run nodes reset init v ins) = r_run nodes reset init v (map qd2r ins)) /\
  (forall nodes w v ins y, par2r (q_fit nodes w v ins y) = r_fit solveR nodes w v (map qd2r ins) (qd2r y)) /\
  (forall nodes v p ins, qd2r (q_pred nodes v p ins) = r_pred nodes v (par2r p) (map qd2r ins)) /\
  (forall tnodes v s x, ns2r (q_ncall tnodes v s x) = r_ncall tnodes v (ns2r s) (qv2r x)) /\
  (forall tnodes v s x y, ns2r (q_nlearn tnodes v s x y) = r_nlearn tnodes v (ns2r s) (qv2r x) (qv2r y)) /\
  (forall tnodes v, ns2r (q_env0 tnodes v) = r_env0 tnodes v).
Proof.
  exact (fun Hs => conj Qrun_embeds (conj (fun nodes w v ins y => Qnodefit_embeds solveR nodes w v ins y Hs)
        (conj Qpred_embeds (conj Qncall_embeds (conj Qnlearn_embeds Qenv0_embeds))))).
Qed.

(* Model.fit with any staging: same success flag, every readout's (Wout, bias) embedded; and the explicit procedure *)
Theorem C06_Qfit_embeds (solveR : list (list R) -> list (list R) -> list (list R)) (nodes : list (nat * nkind)) (w : nat) (reset : bool)
        (init : list (nat * qv)) (g : graph) (X0 Y0 : list (nat * qd)) (stg : list stage) :
  (forall A B, qm2r (qsolve_tot A B) = solveR (qm2r A) (qm2r B)) ->
  option_map (emap par2r) (fit_with_staging qd (option (qm * qv)) (q_run nodes reset init) (q_fit nodes w) (q_pred nodes) g X0 Y0 stg)
  = fit_with_staging (list (list (list R))) (option (list (list R) * list R)) (r_run nodes reset init) (r_fit solveR nodes w) (r_pred nodes)
                     g (emap qd2r X0) (emap qd2r Y0) stg.
Proof. exact (Qfit_embeds solveR nodes w reset init g X0 Y0 stg). Qed.
Theorem C06_Qexplicit_fit_embeds (solveR : list (list R) -> list (list R) -> list (list R)) (nodes : list (nat * nkind)) (w : nat)
        (reset : bool) (init : list (nat * qv)) (g : graph) (X0 Y0 : list (nat * qd)) :
  (forall A B, qm2r (qsolve_tot A B) = solveR (qm2r A) (qm2r B)) ->
  emap par2r (explicit_fit qd (option (qm * qv)) (q_run nodes reset init) (q_fit nodes w) (q_pred nodes) g X0 Y0)
  = explicit_fit (list (list (list R))) (option (list (list R) * list R)) (r_run nodes reset init) (r_fit solveR nodes w) (r_pred nodes)
                 g (emap qd2r X0) (emap qd2r Y0).
Proof. exact (Qexplicit_fit_embeds solveR nodes w reset init g X0 Y0). Qed.

(* Model.train (any learn_every, any starting environment) and the explicit loop: NO hypothesis *)
Theorem C06_Qtrain_embeds (tnodes : list (nat * tkind)) (m : tmodel) (k : nat) (e : nat -> qns) (eR : nat -> gns (F:=R))
        (steps : list (list (nat * qv) * list (nat * qv))) :
  (forall v, ns2r (e v) = eR v) ->
  let rQ := model_train qv qns (@concat Q) (q_ncall tnodes) (fun _ s => ns_st s) (q_nlearn tnodes) m k e (to_st steps) in
  let rR := model_train (list R) (gns (F:=R)) (@concat R) (r_ncall tnodes) r_nout (r_nlearn tnodes) m k eR (to_st (steps2r steps)) in
  (forall v, ns2r (fst rQ v) = fst rR v) /\ map qm2r (snd rQ) = snd rR.
Proof. exact (Qtrain_embeds tnodes m k e eR steps). Qed.
Theorem C06_Qexplicit_train_embeds (tnodes : list (nat * tkind)) (ups : list nat) (r : nat) (m : tmodel) (k : nat) (e : nat -> qns)
        (eR : nat -> gns (F:=R)) (steps : list (list (nat * qv) * list (nat * qv))) :
  (forall v, ns2r (e v) = eR v) ->
  let rQ := explicit_train qv qns (@concat Q) (q_ncall tnodes) (fun _ s => ns_st s) (q_nlearn tnodes) ups r m k e (to_st steps) in
  let rR := explicit_train (list R) (gns (F:=R)) (@concat R) (r_ncall tnodes) r_nout (r_nlearn tnodes) ups r m k eR (to_st (steps2r steps)) in
  (forall v, ns2r (fst rQ v) = fst rR v) /\ qm2r (snd rQ) = snd rR.
Proof. exact (Qexplicit_train_embeds tnodes ups r m k e eR steps). Qed.

Print Assumptions C06_fit_functorial.
Print Assumptions C06_train_functorial.
Print Assumptions C06_Qtwins.
Print Assumptions C06_Qkinds_embed.
Print Assumptions C06_Qalgebra_embeds.
Print Assumptions C06_Qfit_embeds.
Print Assumptions C06_Qexplicit_fit_embeds.
Print Assumptions C06_Qtrain_embeds.
Print Assumptions C06_Qexplicit_train_embeds.

(* ---- the verdicts of the correspondence runner, read at R ----
   The graph parts of chk_fit (staging, valid_stagingb) contain no number and are kept; the numeric parts become statements
   about the R instance (r_run / r_fit solveR / r_pred; r_ncall / r_nlearn / r_env0) on the embedded data, with the real
   inequality |model - observed| <= 1e-9 * max(1,|model|) entry-wise ([mrclose], [vrclose]; [param_closeR], [rdo_closeR],
   [mmrclose], [calls_closeR] are their obvious liftings).  chk_fit_raises is purely symbolic: nothing to bridge. *)
Theorem C06_chk_fit_is_about_R_model (solveR : list (list R) -> list (list R) -> list (list R))
      (nodes : list (nat * nkind)) (g : graph) (X0 Y0 : list (nat * qd)) (w : nat) (reset : bool)
      (init : list (nat * qv)) (obs_stg : list stage) (expect_valid : bool) (obs : list (nat * (qm * qv))) :
  (forall A B, qm2r (qsolve_tot A B) = solveR (qm2r A) (qm2r B)) ->
  chk_fit nodes g X0 Y0 w reset init obs_stg expect_valid obs = true ->
  (exists stg, get_offline_subgraphs g = Some stg /\ stages_eqb stg obs_stg = true) /\
  valid_stagingb g (map fst X0) (map fst Y0) obs_stg = expect_valid /\
  (exists psR, fit_with_staging (list (list (list R))) (option (list (list R) * list R)) (r_run nodes reset init) (r_fit solveR nodes w)
                 (r_pred nodes) g (emap qd2r X0) (emap qd2r Y0) obs_stg = Some psR /\
               forall o, In o obs -> param_closeR (lookup psR (fst o)) (fst (snd o)) (snd (snd o))) /\
  (expect_valid = true -> forall o, In o obs ->
     param_closeR (lookup (explicit_fit (list (list (list R))) (option (list (list R) * list R)) (r_run nodes reset init)
                                        (r_fit solveR nodes w) (r_pred nodes) g (emap qd2r X0) (emap qd2r Y0)) (fst o))
                  (fst (snd o)) (snd (snd o))).
Proof. exact (chk_fit_is_about_R_model solveR nodes g X0 Y0 w reset init obs_stg expect_valid obs). Qed.

Theorem C06_chk_train_is_about_R_model (tnodes : list (nat * tkind)) (order : list nat) (es : list (nat * nat)) (online outs : list nat)
      (k : nat) (steps : list (list (nat * qv) * list (nat * qv))) (obs_outs : list (list qv)) (obs_par : list (nat * (qm * qv * qm))) :
  chk_train tnodes order es online outs k steps obs_outs obs_par = true ->
  let rR := r_train tnodes (to_tmodel order es online outs) k (r_env0 tnodes) steps in
  mmrclose (snd rR) (map qm2r obs_outs) /\ forall p, In p obs_par -> rdo_closeR (fst rR (fst p)) (snd p).
Proof. exact (chk_train_is_about_R_model tnodes order es online outs k steps obs_outs obs_par). Qed.

Theorem C06_chk_train_explicit_is_about_R_model (tnodes : list (nat * tkind)) (ups : list nat) (r : nat) (es : list (nat * nat))
      (k : nat) (steps : list (list (nat * qv) * list (nat * qv))) (obs_outs : list qv) (obs_par : qm * qv * qm) :
  chk_train_explicit tnodes ups r es k steps obs_outs obs_par = true ->
  let rR := r_explicit_train_of tnodes ups r (to_tmodel (ups ++ [r]) es [r] [r]) k (r_env0 tnodes) steps in
  mrclose (snd rR) (qm2r obs_outs) /\ rdo_closeR (fst rR r) obs_par.
Proof. exact (chk_train_explicit_is_about_R_model tnodes ups r es k steps obs_outs obs_par). Qed.

Theorem C06_chk_train_calls_is_about_R_model (tnodes : list (nat * tkind)) (order : list nat) (es : list (nat * nat))
      (online outs : list nat) (k : nat) (expl : option (list nat * nat))
      (calls : list (list (list (nat * qv) * list (nat * qv)) * list (list qv) * list (nat * (qm * qv * qm)))) :
  chk_train_calls tnodes order es online outs k expl calls = true ->
  calls_closeR tnodes (to_tmodel order es online outs) k expl (r_env0 tnodes) calls.
Proof. exact (chk_train_calls_is_about_R_model tnodes order es online outs k expl calls). Qed.

(* what the Props of the verdicts say, spelled out *)
Theorem C06_verdict_vocabulary :
  (forall p W b, param_closeR p W b <-> exists Wm bm, p = Some (Some (Wm, bm)) /\ mrclose Wm (qm2r W) /\ vrclose bm (qv2r b)) /\
  (forall s o, rdo_closeR s o <-> mrclose (Wout (gs_rdo s)) (qm2r (fst (fst o))) /\ vrclose (bias (gs_rdo s)) (qv2r (snd (fst o))) /\
                                  mrclose (Pm (gs_rdo s)) (qm2r (snd o))) /\
  (forall m o : R, rclose m o -> (Rabs (m - o) <= 1 / 1000000000 * Rmax 1 (Rabs m))%R).
Proof. exact verdict_vocabulary. Qed.

(* non-vacuity: an affine forward node feeding an RLS readout (two timesteps) / a Ridge readout (one sequence of three rows);
   the runner answers true, and the R instance returns exactly the embedded rows of the Q run *)
Example C06_chk_train_example :
  chk_train exC06_tnodes [0; 1] [(0, 1)] [1] [1] 1 exC06_steps [[[0%Q]]; [[(-15#68)%Q]]]
            [(1, ([[(3#22)%Q]], [(1#3)%Q], [[(1#3)%Q; 0%Q]; [0%Q; (2#11)%Q]]))] = true.
Proof. exact chk_train_example. Qed.
Example C06_Qtrain_example :
  snd (r_train exC06_tnodes (to_tmodel [0; 1] [(0, 1)] [1] [1]) 1 (r_env0 exC06_tnodes) exC06_steps)
  = map qm2r [[[0%Q]]; [[(-15#68)%Q]]].
Proof. exact Qtrain_example. Qed.
Example C06_chk_fit_example :
  chk_fit exC06_nodes exC06_g exC06_X0 exC06_Y0 0 false [] [mkStage [0; 1] [(0, 1)] [(0, [1])]] true
          [(1, ([[(122#265)%Q]], [(28#53)%Q]))] = true.
Proof. exact chk_fit_example. Qed.

Print Assumptions C06_chk_fit_is_about_R_model.
Print Assumptions C06_chk_train_is_about_R_model.
Print Assumptions C06_chk_train_explicit_is_about_R_model.
Print Assumptions C06_chk_train_calls_is_about_R_model.
Print Assumptions C06_verdict_vocabulary.

(* ---- offline fit of models WITH FEEDBACK and ESN.fit (model/FitFb.v; run/RunC06.v chk_fit_fb, chk_esn_fit) ----
   FitFb executes the forward nodes of every stage timestep by timestep through ModelSem.forward (proxies, clamps, start_env,
   dispatch_fb); proofs/QR_bridge_C06.v relates that part of ModelSem for any homomorphism of the class (environments and
   per-step data point-wise; models node by node: same ids, feedback sources, dimensions, related forward functions), then
   run_sub / run_seqs / traj_of / rd_fit / run_stage_fb / fit_fb and esn_run / esn_seqs / esn_fit.  Same trusted hypothesis on
   the solver as above.  [ofb_rel Q2R o o']: both None, or both Some with the final environment related point-wise and the
   datasets, parameters, trained set and per-stage trajectories embedded (C06_fb_vocabulary). *)
From RV Require Import model.FitFb.

Theorem C06_Qfit_fb_embeds (solveR : list (list R) -> list (list R) -> list (list R)) (nodes : list fbnode) (rds : list (rdesc (F:=Q)))
      (g : graph) (stg : list stage) (X Y : list (nat * qd)) (w : nat) (force reset : bool) (lens : list nat) :
  (forall A B, qm2r (qsolve_tot A B) = solveR (qm2r A) (qm2r B)) ->
  ofb_rel Q2R (fit_fb qsolve_tot (mkFM (map fn_nd nodes) g rds) stg X Y w force reset lens (fb_env0 nodes))
              (fit_fb solveR (fmR nodes g rds) stg (emap qd2r X) (emap qd2r Y) w force reset lens (fb_env0R nodes)).
Proof. exact (Qfit_fb_embeds solveR nodes rds g stg X Y w force reset lens). Qed.

Theorem C06_Qesn_fit_embeds (solveR : list (list R) -> list (list R) -> list (list R)) (res rdn : fbnode) (r : rdesc (F:=Q))
      (X Y : list (nat * qd)) (w : nat) (lens : list nat) :
  (forall A B, qm2r (qsolve_tot A B) = solveR (qm2r A) (qm2r B)) ->
  option_map (fun p => (par2r (fst p), qd2r (snd p))) (esn_fit qsolve_tot (fn_nd res) (fn_nd rdn) r X Y w lens (fb_env0 [res; rdn]))
  = esn_fit solveR (fn_ndR res) (fn_ndR rdn) (erd Q2R r) (emap qd2r X) (emap qd2r Y) w lens (fb_env0R [res; rdn]).
Proof. exact (Qesn_fit_embeds solveR res rdn r X Y w lens). Qed.

Theorem C06_fb_vocabulary (o : option (fbstate (F:=Q))) (o' : option (fbstate (F:=R))) :
  ofb_rel Q2R o o' <->
  match o, o' with
  | Some (e, Xs, ps, tr, log), Some (e', Xs', ps', tr', log') =>
      (forall n, e' n = mkNS (qv2r (st (e n))) (qm2r (hid (e n)))) /\ Xs' = emap qd2r Xs /\ ps' = emap par2r ps /\ tr' = tr /\
      log' = map (emap qd2r) log
  | None, None => True
  | _, _ => False
  end.
Proof. exact (fb_vocabulary o o'). Qed.

Theorem C06_chk_fit_fb_is_about_R_model (solveR : list (list R) -> list (list R) -> list (list R))
      (nodes : list fbnode) (rds : list (rdesc (F:=Q))) (g : graph) (X Y : list (nat * qd)) (w : nat)
      (force reset : bool) (lens : list nat) (obs_stg : list stage) (obs_traj : list (nat * qm)) (obs : list (nat * (qm * qv))) :
  (forall A B, qm2r (qsolve_tot A B) = solveR (qm2r A) (qm2r B)) ->
  chk_fit_fb nodes rds g X Y w force reset lens obs_stg obs_traj obs = true ->
  (exists stg, get_offline_subgraphs g = Some stg /\ stages_eqb stg obs_stg = true) /\
  exists eR XsR psR trR logR,
    fit_fb solveR (fmR nodes g rds) obs_stg (emap qd2r X) (emap qd2r Y) w force reset lens (fb_env0R nodes) = Some (eR, XsR, psR, trR, logR) /\
    (forall o, In o obs -> param_closeR (lookup psR (fst o)) (fst (snd o)) (snd (snd o))) /\
    (forall o, In o obs_traj -> mrclose (flat_trajP logR (fst o)) (qm2r (snd o))).
Proof. exact (chk_fit_fb_is_about_R_model solveR nodes rds g X Y w force reset lens obs_stg obs_traj obs). Qed.

Theorem C06_chk_esn_fit_is_about_R_model (solveR : list (list R) -> list (list R) -> list (list R))
      (res rdn : fbnode) (r : rdesc (F:=Q)) (X Y : list (nat * qd)) (w : nat) (lens : list nat) (obs_traj : qm) (W : qm) (b : qv) :
  (forall A B, qm2r (qsolve_tot A B) = solveR (qm2r A) (qm2r B)) ->
  chk_esn_fit res rdn r X Y w lens obs_traj W b = true ->
  let g := mkG [fn_id res; fn_id rdn] [(fn_id res, fn_id rdn)] [fn_id rdn] in
  (exists pR xR, esn_fit solveR (fn_ndR res) (fn_ndR rdn) (erd Q2R r) (emap qd2r X) (emap qd2r Y) w lens (fb_env0R [res; rdn]) = Some (pR, xR) /\
                 param_closeR (Some pR) W b /\ mrclose (concat xR) (qm2r obs_traj)) /\
  (exists stg eR XsR psR trR logR,
     get_offline_subgraphs g = Some stg /\
     fit_fb solveR (fmR [res; rdn] g [r]) stg (emap qd2r X) (emap qd2r Y) w true true lens (fb_env0R [res; rdn]) = Some (eR, XsR, psR, trR, logR) /\
     param_closeR (lookup psR (fn_id rdn)) W b /\ mrclose (flat_trajP logR (fn_id res)) (qm2r obs_traj)).
Proof. exact (chk_esn_fit_is_about_R_model solveR res rdn r X Y w lens obs_traj W b). Qed.

(* non-vacuity: a one-unit reservoir with a feedback connection from its Ridge readout, teacher forcing, three timesteps *)
Example C06_chk_fit_fb_example :
  chk_fit_fb [exC06_res; exC06_rd] [exC06_r] exC06_g exC06_X0 exC06_Y0 0 true false [3] [mkStage [0; 1] [(0, 1)] [(0, [1])]]
             [(0, [[(3#8)%Q]; [(11#16)%Q]; [(41#64)%Q]])] [(1, ([[(1664#3985)%Q]], [(2606#3985)%Q]))] = true.
Proof. exact chk_fit_fb_example. Qed.
Example C06_chk_esn_fit_example :
  chk_esn_fit exC06_res exC06_rd exC06_r exC06_X0 exC06_Y0 0 [3] [[(3#8)%Q]; [(11#16)%Q]; [(41#64)%Q]] [[(1664#3985)%Q]] [(2606#3985)%Q] = true.
Proof. exact chk_esn_fit_example. Qed.

Print Assumptions C06_Qfit_fb_embeds.
Print Assumptions C06_Qesn_fit_embeds.
Print Assumptions C06_fb_vocabulary.
Print Assumptions C06_chk_fit_fb_is_about_R_model.
Print Assumptions C06_chk_esn_fit_is_about_R_model.

(* ---- the staging loop is GREEDY on every DAG of ANY size (proofs/FitSem_dag_proofs.v) -------------------------------------
   Converse of C06_staging_respects_ancestors, for every graph with wf_dagb (duplicate-free topological order):
   after k+1 rounds of `while trained != offlines`, every offline node all of whose offline strict ancestors were trained in
   the rounds 0..k-1 has been trained (k = 0: a readout without offline ancestors is trained in the first stage).  With
   C06_staging_respects_ancestors the stage of a readout is EXACTLY its offline depth (C06_staging_stage_exact): the
   staging is a function of the graph alone.  Every round trains at least one node, so the loop makes at most one round per
   offline node (C06_staging_rounds_bound).  `offline g v` is "v is in `offlines`" AND "v is put in `trained` by the scan";
   the two differ in the real code for a node carrying both rules (open finding fit-staging:offline-and-online-node-hangs).
   C06_staging_valid_full_statement (validity of Model.fit's symbolic execution for general DAGs) stays open. *)
From RV Require Import proofs.FitSem_dag_proofs.

Theorem C06_staging_earliest (g : graph) (stg : list stage) :
  wf_dagb g = true -> get_offline_subgraphs g = Some stg ->
  let T := train_sets g [] (map s_nodes stg) in
  forall k b, In b (g_nodes g) -> offline g b = true ->
    (forall a, anc g a b -> offline g a = true -> exists i Ta, (i < k)%nat /\ nth_error T i = Some Ta /\ In a Ta) ->
    exists j Tb, (j <= k)%nat /\ nth_error T j = Some Tb /\ In b Tb.
Proof. exact (fun H => staging_earliest g H stg). Qed.

Theorem C06_staging_stage_exact (g : graph) (stg : list stage) :
  wf_dagb g = true -> get_offline_subgraphs g = Some stg ->
  let T := train_sets g [] (map s_nodes stg) in
  forall j Tb b, nth_error T j = Some Tb -> In b Tb ->
    (forall a, anc g a b -> offline g a = true -> exists i Ta, (i < j)%nat /\ nth_error T i = Some Ta /\ In a Ta) /\
    (forall k, (forall a, anc g a b -> offline g a = true -> exists i Ta, (i < k)%nat /\ nth_error T i = Some Ta /\ In a Ta) ->
               (j <= k)%nat).
Proof. exact (fun H => staging_stage_exact g H stg). Qed.

Theorem C06_staging_rounds_bound (g : graph) (stg : list stage) :
  wf_dagb g = true -> get_offline_subgraphs g = Some stg ->
  (forall Tb, In Tb (train_sets g [] (map s_nodes stg)) -> Tb <> []) /\
  (length stg <= length (filter (offline g) (g_nodes g)))%nat.
Proof. exact (fun H H' => conj (staging_stage_nonempty g H stg H') (staging_rounds_bound g H stg H')). Qed.

(* non-vacuity: a 7-node DAG that is not a chain (diamond 0 -> {1 >> 3, 2 >> 4} -> 5 >> 6; readouts 3, 4, 6): the hypotheses
   hold, 3 has no offline ancestor (stage 0), 6 has the offline ancestors 3 and 4 (stage 1) *)
Example C06_example_dag7 :
  wf_dagb g_dag7 = true /\
  (exists stg, get_offline_subgraphs g_dag7 = Some stg /\
               map s_nodes stg = [[0; 1; 2; 3; 4]; [3; 4; 5; 6]] /\ train_sets g_dag7 [] (map s_nodes stg) = [[3; 4]; [6]]) /\
  anc g_dag7 3 6 /\ anc g_dag7 4 6 /\ (forall a, anc g_dag7 a 3 -> offline g_dag7 a = true -> False).
Proof. exact g_dag7_example. Qed.

Print Assumptions C06_staging_earliest.
Print Assumptions C06_staging_stage_exact.
Print Assumptions C06_staging_rounds_bound.

(* C06_staging_valid_full_statement above, AS WRITTEN (no hypothesis on the order of g_nodes), is false: witness g_unsorted =
   nodes [1; 0], edge 0 -> 1, readout 1 -- not a topological order (Model.nodes always is one): the loop still stages [0], [1]
   and Model.fit trains 1 on the output of 0, while the explicit procedure, which follows g_nodes, fits 1 before 0 has run.
   The statement that stays open is the one with wf_dagb (proofs/FitSem_dag_proofs.v: staging_valid_dag_statement, with the
   list of what is missing); g_dag7 and g_seven are instances of its conclusion. *)
Theorem C06_staging_valid_full_statement_needs_topo_order : ~ C06_staging_valid_full_statement.
Proof. exact staging_full_statement_needs_topo_order. Qed.
Example C06_example_dag7_valid :
  wf_dagb g_unsorted = false /\ default_valid g_dag7 = true /\ default_valid g_seven = true.
Proof. split; [vm_compute; reflexivity|exact staging_valid_dag_instances]. Qed.
Print Assumptions C06_staging_valid_full_statement_needs_topo_order.

(* bounded evidence for the open statement beyond 5 nodes (vm_compute sweeps, proofs/FitSem_dag_proofs.v): every 6-node DAG in
   topological order whose fan-ins are listed in increasing order of the parents (edge_lists_s), and every FOREST (each node
   has at most one parent, edge_lists_f) with 6 or 7 nodes, with every non-empty set of single-parent offline nodes *)
Theorem C06_staging_valid_sorted_6 es off :
  In es (edge_lists_s 6) -> In off (labellings 6 es) ->
  let g := mkG (seq 0 6) es off in
  exists stg, get_offline_subgraphs g = Some stg /\
              (supportedb g stg = true ->
               valid_stagingb g (filter (is_input g) (g_nodes g)) (filter (offline g) (g_nodes g)) stg = true).
Proof. exact (staging_valid_sorted_6 es off). Qed.
Theorem C06_staging_valid_forest_7 n es off :
  6 <= n <= 7 -> In es (edge_lists_f n) -> In off (labellings n es) ->
  let g := mkG (seq 0 n) es off in
  exists stg, get_offline_subgraphs g = Some stg /\
              (supportedb g stg = true ->
               valid_stagingb g (filter (is_input g) (g_nodes g)) (filter (offline g) (g_nodes g)) stg = true).
Proof. exact (staging_valid_forest_7 n es off). Qed.
Print Assumptions C06_staging_valid_sorted_6.
Print Assumptions C06_staging_valid_forest_7.

(* where a round of the staging loop stops, for every DAG of any size: one `for node in _nodes:` pass started from
   (included, trained) = (incl0, trn0) defers a node only behind a node it did not include -- a node all of whose parents are
   included at the end of the pass has itself been included or trained in that pass; conversely (C06_staging_pass_complete)
   the pass reaches every node all of whose strict ancestors are forward nodes or readouts trained before the pass.  The
   stage boundaries are therefore exactly the readouts trained in the round. *)
Theorem C06_staging_pass_no_defer (g : graph) (incl0 trn0 sub incl trn : list nat) :
  wf_dagb g = true ->
  fold_left (scan_step g) (todo_of g incl0) ([], incl0, trn0) = (sub, incl, trn) ->
  forall v, In v (g_nodes g) -> (forall p, In p (FitSem.parents g v) -> In p incl) -> In v incl \/ In v trn.
Proof. exact (fun H => scan_no_defer g H incl0 trn0 sub incl trn). Qed.
Theorem C06_staging_pass_complete (g : graph) (incl0 trn0 sub incl trn : list nat) :
  wf_dagb g = true ->
  fold_left (scan_step g) (todo_of g incl0) ([], incl0, trn0) = (sub, incl, trn) ->
  forall v, In v (g_nodes g) -> ~ In v incl0 ->
    (forall a, anc g a v -> offline g a = false \/ In a trn0) ->
    ((offline g v = false \/ In v trn0) -> In v incl) /\ (offline g v = true -> In v trn).
Proof. exact (fun H => scan_complete g H incl0 trn0 sub incl trn). Qed.
Print Assumptions C06_staging_pass_no_defer.
Print Assumptions C06_staging_pass_complete.
