(* C06 — training a model equals the explicit node-by-node procedure.  Statement-only file. *)
From Coq Require Import List Arith Bool Lia.
From RV Require Import model.FitSem proofs.FitSem_proofs.
Import ListNotations.

(* ---- offline: Model.fit ------------------------------------------------------------------------------------- *)
(* For ANY kind of forward nodes (a_run), ANY offline learner (a_fit / a_pred: ridge or otherwise, warm-up included),
   ANY name-keyed datasets X0 / Y0 with distinct keys and ANY staging of the graph: if the staging passes the
   symbolic check valid_stagingb, Model.fit executed with that staging raises nothing and gives every offline node
   exactly the parameters of the explicit procedure (nodes in topological order; a forward node is run over the data
   on its parents' outputs; an offline node is fitted on what reaches it with its targets, and its predictions are
   fed downstream).
   Hypotheses of the model (model/FitSem.v): no feedback; a node's output over the dataset is a function of its own
   sources (state carried or reset between sequences is the node's own business, identically in both procedures). *)
Theorem C06_fit_valid_staging (D P : Type) (a_run : nat -> list D -> D) (a_fit : nat -> list D -> D -> P)
        (a_pred : nat -> P -> list D -> D) (d0 : D) (X0 Y0 : list (nat * D)) (g : graph) (stg : list stage) :
  NoDup (map fst X0) -> NoDup (map fst Y0) ->
  valid_stagingb g (map fst X0) (map fst Y0) stg = true ->
  exists ps, fit_with_staging D P a_run a_fit a_pred g X0 Y0 stg = Some ps /\
             forall v, In v (g_nodes g) -> offline g v = true ->
                       exists p, lookup ps v = Some p /\ lookup (explicit_fit D P a_run a_fit a_pred g X0 Y0) v = Some p.
Proof. exact (fit_valid_staging D P a_run a_fit a_pred d0 X0 Y0 g stg). Qed.

(* The staging computed by get_offline_subgraphs (faithful to the `while trained != offlines` loop, _get_required_nodes
   and _get_links) is valid for EVERY DAG with at most 5 nodes, every fan-in order and every non-empty set of
   single-parent offline nodes, provided the model is in the supported class (supportedb: output readouts trained in
   the last stage; a Concat runs in the stage in which each of its parents runs last).  Bound: 5 nodes (vm_compute).
   The same boolean is evaluated on every scenario of the correspondence run. *)
Theorem C06_staging_valid_bounded n es off :
  1 <= n <= 5 -> In es (edge_lists n) -> In off (labellings n es) ->
  let g := mkG (seq 0 n) es off in
  exists stg, get_offline_subgraphs g = Some stg /\
              (supportedb g stg = true ->
               valid_stagingb g (filter (is_input g) (g_nodes g)) (filter (offline g) (g_nodes g)) stg = true).
Proof. exact (staging_valid_bounded n es off). Qed.

(* not proved: the same for graphs of any size *)
Definition C06_staging_valid_full_statement : Prop :=
  forall g stg, get_offline_subgraphs g = Some stg -> supportedb g stg = true ->
                valid_stagingb g (filter (is_input g) (g_nodes g)) (filter (offline g) (g_nodes g)) stg = true.

(* Outside the supported class the staging of the CURRENT code is not valid (each witness reproduced on the real
   library by the oracle, keys "fit-staging:..."),: Model.fit raises for (A) an output readout trained in an early stage,
   (C) a Concat fed by two nodes of the previous stage, (D) a readout fed directly by the data next to forward nodes;
   (B) for res >> rd1, [res, rd1] >> rd2 the second readout is fitted on (rd1, res) columns although the model
   concatenates (res, rd1) when it runs. *)
Theorem C06_staging_unsupported_refuted :
  Forall (fun g => get_offline_subgraphs g <> None /\ default_valid g = false)
         [g_early_output; g_cross_concat; g_multi_source; g_entry_readout].
Proof. exact staging_invalid_witnesses. Qed.
Theorem C06_staging_failure_modes :
  sym_fit g_early_output = None /\ sym_fit g_multi_source = None /\ sym_fit g_entry_readout = None /\
  (exists ps, sym_fit g_cross_concat = Some ps /\
     lookup ps 3 = Some (s_fit 3 [s_run 2 [s_pred 1 (s_fit 1 [s_run 0 [TExt 0]] (TTgt 1)) [s_run 0 [TExt 0]]; s_run 0 [TExt 0]]] (TTgt 3)) /\
     lookup (explicit_fit tm tm s_run s_fit s_pred g_cross_concat (sym_X [0]) (sym_Y [1; 3])) 3 =
       Some (s_fit 3 [s_run 2 [s_run 0 [TExt 0]; s_pred 1 (s_fit 1 [s_run 0 [TExt 0]] (TTgt 1)) [s_run 0 [TExt 0]]]] (TTgt 3))).
Proof. exact staging_failure_modes. Qed.

(* Arrays and name-keyed mappings: an array is the mapping that gives it to every input / trainable node, so the two
   ways of passing data are the same arguments of fit_with_staging / explicit_fit. *)
Theorem C06_array_eq_mapping (D : Type) (g : graph) (trainable : list nat) (x y : D) :
  input_mapping g (DArray x) = input_mapping g (DMapping (map (fun n => (n, x)) (filter (is_input g) (g_nodes g)))) /\
  target_mapping trainable (DArray y) = target_mapping trainable (DMapping (map (fun n => (n, y)) trainable)).
Proof. exact (array_eq_mapping g trainable x y). Qed.

(* ---- online: Model.train ------------------------------------------------------------------------------------ *)
(* One step of Model.train, for any nodes: forward pass; the states RETURNED are those of the forward pass, i.e.
   predictions made with the parameters before this step's update; every online node is updated once iff
   i mod learn_every = 0 (or the sequence has a single step). *)
Theorem C06_train_step (V NS : Type) vcat ncall nout nlearn (m : tmodel) k single i (e : tenv NS) ext tgt rest :
  ttrain_from V NS vcat ncall nout nlearn m k single i e ((ext, tgt) :: rest) =
    let e1 := tforward V NS vcat ncall nout m ext e in
    let e2 := if (i mod k =? 0) || single then ttrain_nodes V NS vcat nout nlearn m ext tgt e1 else e1 in
    let '(e3, os) := ttrain_from V NS vcat ncall nout nlearn m k single (S i) e2 rest in
    (e3, map (fun o => nout o (e1 o)) (t_outs m) :: os).
Proof. exact (train_step_spec V NS vcat ncall nout nlearn m k single i e ext tgt rest). Qed.

(* Model.train of "any upstream nodes, then one online readout r" IS the explicit per-timestep loop: call the upstream
   nodes, call the readout, then readout.train(x_t, y_t, call=False) on the steps selected by learn_every; same final
   states / parameters of every node, same returned outputs. *)
Theorem C06_train_is_loop (V NS : Type) vcat ncall nout nlearn (m : tmodel) (ups : list nat) (r : nat) k single :
  t_order m = ups ++ [r] -> t_outs m = [r] -> t_online m r = true ->
  (forall v, In v ups -> t_online m v = false) -> ~ In r (t_parents m r) ->
  forall steps i (e : tenv NS),
    ttrain_from V NS vcat ncall nout nlearn m k single i e steps =
      let '(e', ps) := explicit_train_from V NS vcat ncall nout nlearn ups r m k single i e steps in
      (e', map (fun p => [p]) ps).
Proof. exact (train_is_explicit_loop V NS vcat ncall nout nlearn m ups r k single). Qed.

(* Before commit 8cad14c the gate read `len(X) == 1` on the argument: with X a one-key mapping it is always open.
   Witness: 4 timesteps, learn_every = 2, a node counting its updates: 2 updates (steps 0 and 2) now, 4 before. *)
Theorem C06_learn_every_mapping_prefix_refuted : cnt_updates false = 2 /\ cnt_updates true = 4.
Proof. exact learn_every_mapping_prefix_witness. Qed.

(* ---- non-vacuity -------------------------------------------------------------------------------------------- *)
(* deep model res1 >> rd1 >> res2 >> rd2 and input-to-readout shortcut: supported, staging valid; so the hypothesis of
   C06_fit_valid_staging is satisfiable with the staging the code computes *)
Definition ex_deep : graph := mkG [0; 1; 2; 3] [(0, 1); (1, 2); (2, 3)] [1; 3].
Definition ex_shortcut : graph := mkG [0; 1; 2; 3] [(0, 1); (0, 2); (1, 2); (2, 3)] [3].
Example C06_example_staging :
  (exists s1 s2, get_offline_subgraphs ex_deep = Some [s1; s2] /\ supportedb ex_deep [s1; s2] = true) /\
  default_valid ex_deep = true /\ default_valid ex_shortcut = true /\
  In (g_edges ex_deep) (edge_lists 4) /\ In (g_offl ex_deep) (labellings 4 (g_edges ex_deep)).
Proof.
  split; [do 2 eexists; split; [vm_compute; reflexivity|vm_compute; reflexivity]|].
  split; [vm_compute; reflexivity|]. split; [vm_compute; reflexivity|].
  split; vm_compute; tauto.
Qed.
(* a concrete algebra over nat (datasets = numbers): run adds 1 to the sum of the sources, fit records sum + target *)
Example C06_example_concrete :
  fit_with_staging nat nat (fun v l => S (list_sum l)) (fun v l y => list_sum l + y) (fun v p l => p + list_sum l)
                   ex_deep [(0, 5)] [(1, 100); (3, 1000)]
                   (match get_offline_subgraphs ex_deep with Some s => s | None => [] end)
  = Some [(3, 1113); (1, 106)]
  /\ explicit_fit nat nat (fun v l => S (list_sum l)) (fun v l y => list_sum l + y) (fun v p l => p + list_sum l)
                  ex_deep [(0, 5)] [(1, 100); (3, 1000)] = [(3, 1113); (1, 106)].
Proof. split; vm_compute; reflexivity. Qed.

Print Assumptions C06_fit_valid_staging.
Print Assumptions C06_staging_valid_bounded.
Print Assumptions C06_staging_unsupported_refuted.
Print Assumptions C06_staging_failure_modes.
Print Assumptions C06_array_eq_mapping.
Print Assumptions C06_train_step.
Print Assumptions C06_train_is_loop.
Print Assumptions C06_learn_every_mapping_prefix_refuted.
