(* C19 — metrics follow their formulas (mse, rmse, nrmse, R^2; globally or per feature; shape mismatch rejected) and the
   effective spectral radius is taken of lr*W + (1-lr)*I.
   Statement-only file: proofs live in proofs/Metrics_proofs.v.  Everything is stated about model/Metrics.v at F := R;
   rmse / nrmse are  sqrt (model mse)  and  sqrt (model mse) / model norm  with sqrt from Coq's Reals.
   The equality "sparse spectral radius = dense spectral radius = largest eigenvalue modulus" concerns ARPACK / LAPACK and
   is NOT stated here (decided by the implementation oracle only). *)
From Coq Require Import List Arith Reals Lra QArith.
From RV Require Import base.Num base.LA base.BSum model.Metrics proofs.Metrics_proofs.
Import ListNotations.
Close Scope Q_scope.
Open Scope R_scope.

Notation vec := (list R).
Notation mat := (list (list R)).

(* ---- formulas ---- *)
(* mse = (1/n) sum_i (y_i - p_i)^2, for every length n *)
Theorem C19_mse_def (y p : vec) : length y = length p ->
  mse1 y p = / INR (length y) * bsum (length y) (fun i => (nth i y 0 - nth i p 0) * (nth i y 0 - nth i p 0)).
Proof. exact (mse1_def y p). Qed.

(* rmse^2 = mse and rmse >= 0 *)
Theorem C19_rmse_sq (y p : vec) : rmseR y p * rmseR y p = mse1 y p /\ 0 <= rmseR y p.
Proof. exact (rmseR_sq y p). Qed.

(* nrmse^2 = mse / norm^2 (what the runner compares), for each of the four norms *)
Theorem C19_nrmse_sq (k : normk) (y p : vec) : norm1 k y <> 0 ->
  nrmseR k y p * nrmseR k y p = mse1 y p / (norm1 k y * norm1 k y).
Proof. exact (nrmseR_sq k y p). Qed.

(* ---- R^2 ---- *)
Theorem C19_rsquare_perfect (y : vec) : sstot y <> 0 -> rsquare1 y y = 1.
Proof. exact (rsquare1_perfect y). Qed.
Theorem C19_rsquare_mean_predictor (y : vec) : sstot y <> 0 -> rsquare1 y (repeat (mean y) (length y)) = 0.
Proof. exact (rsquare1_mean_predictor y). Qed.
(* invariant under a common affine map x |-> a x + b of both arrays, any a <> 0 *)
Theorem C19_rsquare_affine_invariant (a b : R) (y p : vec) : a <> 0 -> sstot y <> 0 ->
  rsquare1 (map (aff a b) y) (map (aff a b) p) = rsquare1 y p.
Proof. exact (rsquare1_aff a b y p). Qed.
Theorem C19_rsquare_le_1 (y p : vec) : 0 < sstot y -> rsquare1 y p <= 1.
Proof. exact (rsquare1_le_1 y p). Qed.

(* ---- scaling and shifting ---- *)
Theorem C19_mse_scale (a b : R) (y p : vec) : mse1 (map (aff a b) y) (map (aff a b) p) = a * a * mse1 y p.
Proof. exact (mse1_aff a b y p). Qed.
Theorem C19_rmse_scale (a b : R) (y p : vec) : rmseR (map (aff a b) y) (map (aff a b) p) = Rabs a * rmseR y p.
Proof. exact (rmseR_aff a b y p). Qed.
(* norm = max - min : invariant under a common positive affine map *)
Theorem C19_nrmse_minmax_affine_invariant (a b : R) (y p : vec) : 0 < a -> ptp y <> 0 ->
  nrmseR Minmax (map (aff a b) y) (map (aff a b) p) = nrmseR Minmax y p.
Proof. exact (nrmse_minmax_aff a b y p). Qed.
(* norm = variance (not the standard deviation): the variance scales by a^2, the error by a *)
Theorem C19_nrmse_var_scale (a b : R) (y p : vec) : 0 < a -> var1 y <> 0 ->
  nrmseR Var (map (aff a b) y) (map (aff a b) p) = nrmseR Var y p / a.
Proof. exact (nrmse_var_aff a b y p). Qed.
(* norm = mean: scale-invariant (b = 0) but NOT shift-invariant: the denominator moves with the shift *)
Theorem C19_nrmse_mean_shift (a b : R) (y p : vec) : 0 < a -> y <> [] ->
  nrmseR Mean (map (aff a b) y) (map (aff a b) p) = a * rmseR y p / (a * mean y + b).
Proof. exact (nrmse_mean_aff a b y p). Qed.

(* ---- axis selection ---- *)
(* dimensionwise=False: the 1-D formula on all the entries, whatever the depth *)
Theorem C19_global_is_flat (y p : arr R) : shape y = shape p ->
  mse false y p = Some (RS (mse1 (flat y) (flat p))) /\
  rsquare false y p = Some (RS (rsquare1 (flat y) (flat p))) /\
  (forall k, nrmse_parts false k y p = Some (inl (mse1 (flat y) (flat p), norm1 k (flat y)))).
Proof. exact (global_metrics y p). Qed.
(* dimensionwise=True on a 2-D (rows = timesteps) or 3-D (rows = all timesteps of all sequences) array:
   numpy's row-by-row axis-0 accumulation is the 1-D metric of every feature column *)
Theorem C19_dimensionwise_is_columnwise (y p : arr R) (my mp : mat) (c : nat) :
  shape y = shape p -> rows2 y = Some my -> rows2 p = Some mp -> nfeat y = c ->
  rect c my -> rect c mp -> my <> [] ->
  mse true y p = Some (RV (map (fun j => mse1 (col j my) (col j mp)) (seq 0 c))) /\
  rsquare true y p = Some (RV (map (fun j => rsquare1 (col j my) (col j mp)) (seq 0 c))) /\
  (forall k, nrmse_parts true k y p =
             Some (inr (map (fun j => (mse1 (col j my) (col j mp), norm1 k (col j my))) (seq 0 c)))).
Proof. exact (dimwise_columnwise y p my mp c). Qed.
Theorem C19_dimensionwise_1d (y p : vec) : length y = length p ->
  mse true (A1 y) (A1 p) = Some (RS (mse1 y p)) /\ rsquare true (A1 y) (A1 p) = Some (RS (rsquare1 y p)).
Proof. exact (dimwise_1d y p). Qed.

(* ---- _check_arrays ---- *)
Theorem C19_shape_mismatch_rejected (y p : arr R) : shape y <> shape p -> forall dw,
  mse dw y p = None /\ rmse_sq dw y p = None /\ rsquare dw y p = None /\
  (forall k, nrmse_parts dw k y p = None) /\ (forall nv, nrmse_parts_nv dw nv y p = None).
Proof. exact (mismatch_rejected y p). Qed.
Theorem C19_rejected_only_on_mismatch (y p : arr R) : check_arrays y p = None <-> shape y <> shape p.
Proof. exact (check_iff y p). Qed.

(* ---- effective spectral radius: the matrix whose spectral radius is taken ---- *)
Theorem C19_effective_matrix (lr : R) (W : mat) (n i j : nat) :
  length W = n -> rect n W -> (i < n)%nat -> (j < n)%nat ->
  mget (eff_matrix lr W) i j = lr * mget W i j + (1 - lr) * (if Nat.eqb i j then 1 else 0).
Proof. exact (eff_matrix_entry lr W n i j). Qed.

(* ---- q1q3 norm: invariance needs "a monotone map commutes with the sort" ---- *)
Theorem C19_quantile_equivariant (a b : R) (v : vec) : 0 < a -> v <> [] ->
  quantile 1 4 (map (aff a b) v) = aff a b (quantile 1 4 v) /\
  quantile 3 4 (map (aff a b) v) = aff a b (quantile 3 4 v).
Proof. exact (quantile_aff a b v). Qed.
Theorem C19_nrmse_q1q3_affine_invariant (a b : R) (y p : vec) : 0 < a -> q1q3 y <> 0 ->
  nrmseR Q1Q3 (map (aff a b) y) (map (aff a b) p) = nrmseR Q1Q3 y p.
Proof. exact (nrmse_q1q3_aff a b y p). Qed.

(* ---- non-vacuity: the guards are satisfiable, the model computes ---- *)
Example C19_guards_satisfiable :
  sstot [1; 2; 4] <> 0 /\ ptp [1; 2; 4] <> 0 /\ var1 [1; 2; 4] <> 0 /\ rsquare1 [1; 2; 4] [1; 2; 5] < 1.
Proof.
  unfold rsquare1, ptp, var1, sstot, center, mean, sqdiff, sq; simpl; numR.
  unfold nmax, nmin; numR. repeat (destruct (Rlt_dec _ _); try lra).
Qed.
Example C19_model_computes :
  mse (F:=Q) true (A2 [[1;2];[3;5]]%Q) (A2 [[1;1];[1;1]]%Q) = Some (RV [2;(17#2)]%Q) /\
  rsquare (F:=Q) false (A1 [1;2;3]%Q) (A1 [1;2;4]%Q) = Some (RS (1#2)%Q) /\
  nrmse_parts (F:=Q) true Q1Q3 (A3 [[[1];[2]];[[4];[8]]]%Q) (A3 [[[1];[2]];[[4];[6]]]%Q) = Some (inr [(1, (13#4))%Q]) /\
  mse (F:=Q) false (A2 [[1;2];[3;5]]%Q) (A1 [1;2]%Q) = None /\
  eff_matrix (F:=Q) (1#4)%Q [[4;8];[0;(-4)]]%Q = [[(7#4);2];[0;(-1#4)]]%Q.
Proof. vm_compute. repeat split; reflexivity. Qed.
Example C19_dimensionwise_instance :
  let y := A3 [[[1;2];[3;4]];[[5;6];[7;9]]] in let p := A3 [[[1;0];[3;4]];[[5;6];[7;8]]] in
  shape y = shape p /\ rows2 y = Some [[1;2];[3;4];[5;6];[7;9]] /\ nfeat y = 2%nat /\ rect 2 [[1;2];[3;4];[5;6];[7;9]].
Proof. simpl. repeat split; try reflexivity. repeat constructor. Qed.

Print Assumptions C19_mse_def.
Print Assumptions C19_rmse_sq.
Print Assumptions C19_nrmse_sq.
Print Assumptions C19_rsquare_perfect.
Print Assumptions C19_rsquare_mean_predictor.
Print Assumptions C19_rsquare_affine_invariant.
Print Assumptions C19_rsquare_le_1.
Print Assumptions C19_mse_scale.
Print Assumptions C19_rmse_scale.
Print Assumptions C19_nrmse_minmax_affine_invariant.
Print Assumptions C19_nrmse_var_scale.
Print Assumptions C19_nrmse_mean_shift.
Print Assumptions C19_global_is_flat.
Print Assumptions C19_dimensionwise_is_columnwise.
Print Assumptions C19_dimensionwise_1d.
Print Assumptions C19_shape_mismatch_rejected.
Print Assumptions C19_rejected_only_on_mismatch.
Print Assumptions C19_effective_matrix.
Print Assumptions C19_quantile_equivariant.
Print Assumptions C19_nrmse_q1q3_affine_invariant.

(* ================================================================================================================ *)
(* Tie (T): _check_arrays, mse, rmse, nrmse, rsquare and the matrix effective_spectral_radius hands to spectral_radius, as
   translated on this run from the current source text of reservoirpy/observables.py (coq/gen/Gen_metrics.v: one definition
   per function, rank of the arrays and value of `dimensionwise`, in the numpy vocabulary of base/NDPrelude.v where a
   reduction along an axis is the 1-D reduction of every lane) ARE the model the theorems above are about.
   rmse / nrmse are translated through their radicand / (radicand, norm) pairs, as in the model (no sqrt over Q).           *)
From RV Require Import base.NDPrelude gen.Gen_metrics proofs.Gen_metrics_eq.

(* _check_arrays, for any two arrays (equal or different ranks): every Num instance *)
Theorem C19_generated_check_arrays {F : Type} `{Num F} (y p : arr F) :
  GenMetrics.check_arrays shp shp y p = check_arrays y p.
Proof. exact (gen_check_arrays_eq y p). Qed.

(* rank 1, every Num instance, every input (hence also at Q, where the correspondence runs) *)
Theorem C19_generated_mse_1d {F : Type} `{Num F} (y p : list F) :
  option_map RS (GenMetrics.mse_r1_g y p) = mse false (A1 y) (A1 p) /\
  option_map RS (GenMetrics.mse_r1_dw y p) = mse true (A1 y) (A1 p).
Proof. exact (gen_mse_r1_eq y p). Qed.
Theorem C19_generated_rmse_1d {F : Type} `{Num F} (y p : list F) :
  option_map RS (GenMetrics.rmse_sq_r1_g y p) = rmse_sq false (A1 y) (A1 p) /\
  option_map RS (GenMetrics.rmse_sq_r1_dw y p) = rmse_sq true (A1 y) (A1 p).
Proof. exact (gen_rmse_sq_r1_eq y p). Qed.
Theorem C19_generated_rsquare_1d {F : Type} `{Num F} (y p : list F) :
  option_map RS (GenMetrics.rsquare_r1_g y p) = rsquare false (A1 y) (A1 p) /\
  option_map RS (GenMetrics.rsquare_r1_dw y p) = rsquare true (A1 y) (A1 p) /\
  option_map inl (GenMetrics.rsquare_parts_r1_g y p) = rsquare_parts false (A1 y) (A1 p) /\
  option_map inl (GenMetrics.rsquare_parts_r1_dw y p) = rsquare_parts true (A1 y) (A1 p).
Proof. exact (gen_rsquare_r1_eq y p). Qed.
(* nk maps the model's four norms to the keys of the `norms` table of the source *)
Theorem C19_generated_nrmse_1d {F : Type} `{Num F} (k : normk) (nv : F) (y p : list F) :
  option_map inl (GenMetrics.nrmse_parts_r1_g y p (nk k)) = nrmse_parts false k (A1 y) (A1 p) /\
  option_map inl (GenMetrics.nrmse_parts_r1_dw y p (nk k)) = nrmse_parts true k (A1 y) (A1 p) /\
  option_map inl (GenMetrics.nrmse_parts_nv_r1_g y p nv) = nrmse_parts_nv false nv (A1 y) (A1 p) /\
  option_map inl (GenMetrics.nrmse_parts_nv_r1_dw y p nv) = nrmse_parts_nv true nv (A1 y) (A1 p).
Proof. exact (gen_nrmse_r1_eq k nv y p). Qed.

(* lr * W + (1 - lr) * np.eye(W.shape[0]): every Num instance, every W *)
Theorem C19_generated_effective_matrix {F : Type} `{Num F} (lr : F) (W : list (list F)) :
  GenMetrics.effective_matrix W lr = eff_matrix lr W.
Proof. exact (gen_effective_matrix_eq lr W). Qed.

(* rank 2 and rank 3 at R, rectangular arrays: a reduction along axis 0 / axes (0,1) taken lane by lane (the numpy meaning of
   NDPrelude) is the row-by-row accumulation of the model.  [rect c m]: every row of m has c entries; [rect3 n c t]: every
   sequence of t has n rows of c entries.  The number of features is read off the first row, as ndarray.shape does. *)
Theorem C19_generated_mse (y2 p2 : mat) (y3 p3 : list mat) :
  rect (length (hd [] y2)) y2 -> rect (length (hd [] y2)) p2 ->
  rect3 (length (hd [] y3)) (length (hd [] (hd [] y3))) y3 -> rect3 (length (hd [] y3)) (length (hd [] (hd [] y3))) p3 ->
  (option_map RS (GenMetrics.mse_r2_g y2 p2) = mse false (A2 y2) (A2 p2) /\
   option_map RV (GenMetrics.mse_r2_dw y2 p2) = mse true (A2 y2) (A2 p2)) /\
  (option_map RS (GenMetrics.mse_r3_g y3 p3) = mse false (A3 y3) (A3 p3) /\
   option_map RV (GenMetrics.mse_r3_dw y3 p3) = mse true (A3 y3) (A3 p3)).
Proof. intros; split; [apply gen_mse_r2_eq | apply gen_mse_r3_eq]; assumption. Qed.
Theorem C19_generated_rmse (y2 p2 : mat) (y3 p3 : list mat) :
  rect (length (hd [] y2)) y2 -> rect (length (hd [] y2)) p2 ->
  rect3 (length (hd [] y3)) (length (hd [] (hd [] y3))) y3 -> rect3 (length (hd [] y3)) (length (hd [] (hd [] y3))) p3 ->
  (option_map RS (GenMetrics.rmse_sq_r2_g y2 p2) = rmse_sq false (A2 y2) (A2 p2) /\
   option_map RV (GenMetrics.rmse_sq_r2_dw y2 p2) = rmse_sq true (A2 y2) (A2 p2)) /\
  (option_map RS (GenMetrics.rmse_sq_r3_g y3 p3) = rmse_sq false (A3 y3) (A3 p3) /\
   option_map RV (GenMetrics.rmse_sq_r3_dw y3 p3) = rmse_sq true (A3 y3) (A3 p3)).
Proof. intros; split; [apply gen_rmse_sq_r2_eq | apply gen_rmse_sq_r3_eq]; assumption. Qed.
Theorem C19_generated_rsquare (y2 p2 : mat) (y3 p3 : list mat) :
  rect (length (hd [] y2)) y2 -> rect (length (hd [] y2)) p2 ->
  rect3 (length (hd [] y3)) (length (hd [] (hd [] y3))) y3 -> rect3 (length (hd [] y3)) (length (hd [] (hd [] y3))) p3 ->
  (option_map RS (GenMetrics.rsquare_r2_g y2 p2) = rsquare false (A2 y2) (A2 p2) /\
   option_map RV (GenMetrics.rsquare_r2_dw y2 p2) = rsquare true (A2 y2) (A2 p2) /\
   option_map inl (GenMetrics.rsquare_parts_r2_g y2 p2) = rsquare_parts false (A2 y2) (A2 p2) /\
   option_map inr (GenMetrics.rsquare_parts_r2_dw y2 p2) = rsquare_parts true (A2 y2) (A2 p2)) /\
  (option_map RS (GenMetrics.rsquare_r3_g y3 p3) = rsquare false (A3 y3) (A3 p3) /\
   option_map RV (GenMetrics.rsquare_r3_dw y3 p3) = rsquare true (A3 y3) (A3 p3) /\
   option_map inl (GenMetrics.rsquare_parts_r3_g y3 p3) = rsquare_parts false (A3 y3) (A3 p3) /\
   option_map inr (GenMetrics.rsquare_parts_r3_dw y3 p3) = rsquare_parts true (A3 y3) (A3 p3)).
Proof. intros; split; [apply gen_rsquare_r2_eq | apply gen_rsquare_r3_eq]; assumption. Qed.
Theorem C19_generated_nrmse (k : normk) (nv : R) (y2 p2 : mat) (y3 p3 : list mat) :
  rect (length (hd [] y2)) y2 -> rect (length (hd [] y2)) p2 ->
  rect3 (length (hd [] y3)) (length (hd [] (hd [] y3))) y3 -> rect3 (length (hd [] y3)) (length (hd [] (hd [] y3))) p3 ->
  (option_map inl (GenMetrics.nrmse_parts_r2_g y2 p2 (nk k)) = nrmse_parts false k (A2 y2) (A2 p2) /\
   option_map inr (GenMetrics.nrmse_parts_r2_dw y2 p2 (nk k)) = nrmse_parts true k (A2 y2) (A2 p2) /\
   option_map inl (GenMetrics.nrmse_parts_nv_r2_g y2 p2 nv) = nrmse_parts_nv false nv (A2 y2) (A2 p2) /\
   option_map inr (GenMetrics.nrmse_parts_nv_r2_dw y2 p2 nv) = nrmse_parts_nv true nv (A2 y2) (A2 p2)) /\
  (option_map inl (GenMetrics.nrmse_parts_r3_g y3 p3 (nk k)) = nrmse_parts false k (A3 y3) (A3 p3) /\
   option_map inr (GenMetrics.nrmse_parts_r3_dw y3 p3 (nk k)) = nrmse_parts true k (A3 y3) (A3 p3) /\
   option_map inl (GenMetrics.nrmse_parts_nv_r3_g y3 p3 nv) = nrmse_parts_nv false nv (A3 y3) (A3 p3) /\
   option_map inr (GenMetrics.nrmse_parts_nv_r3_dw y3 p3 nv) = nrmse_parts_nv true nv (A3 y3) (A3 p3)).
Proof. intros; split; [apply gen_nrmse_r2_eq | apply gen_nrmse_r3_eq]; assumption. Qed.

(* non-vacuity: the generated definitions compute (at Q), the shape hypotheses are satisfiable *)
Example C19_generated_computes :
  GenMetrics.mse_r2_dw (F:=Q) [[1;2];[3;5]]%Q [[1;1];[1;1]]%Q = Some [2;(17#2)]%Q /\
  GenMetrics.rsquare_r1_g (F:=Q) [1;2;3]%Q [1;2;4]%Q = Some (1#2)%Q /\
  GenMetrics.nrmse_parts_r3_dw (F:=Q) [[[1];[2]];[[4];[8]]]%Q [[[1];[2]];[[4];[6]]]%Q GenMetrics.Nm_q1q3 = Some [(1, (13#4))%Q] /\
  GenMetrics.mse_r2_g (F:=Q) [[1;2];[3;5]]%Q [[1;2]]%Q = None /\
  GenMetrics.effective_matrix (F:=Q) [[4;8];[0;(-4)]]%Q (1#4)%Q = [[(7#4);2];[0;(-1#4)]]%Q.
Proof. vm_compute. repeat split; reflexivity. Qed.
Example C19_generated_shapes_instance :
  let y := [[[1;2];[3;4]];[[5;6];[7;9]]] in rect3 (length (hd [] y)) (length (hd [] (hd [] y))) y /\ rect (length (hd [] (hd [] y))) (hd [] y).
Proof. cbn. split; repeat constructor. Qed.

Print Assumptions C19_generated_check_arrays.
Print Assumptions C19_generated_mse_1d.
Print Assumptions C19_generated_rmse_1d.
Print Assumptions C19_generated_rsquare_1d.
Print Assumptions C19_generated_nrmse_1d.
Print Assumptions C19_generated_effective_matrix.
Print Assumptions C19_generated_mse.
Print Assumptions C19_generated_rmse.
Print Assumptions C19_generated_rsquare.
Print Assumptions C19_generated_nrmse.

(* ================================================================================================================
   The R-vs-Q instance gap, closed by proof (base/NumHom.v, proofs/QR_bridge_C19.v).
   The theorems above are about model/Metrics.v at F := R; the correspondence run (run/RunC19.v) evaluates the SAME term at
   F := Q.  [Q2R] is a homomorphism of the [Num] class (division included: x/0 = 0 on both sides; both boolean comparisons are
   reflected, so max / min / the insertion sort behind np.quantile take the same branches), hence every metric commutes with the
   entry-wise embedding of 1-D / 2-D / 3-D arrays [qarr := earr Q2R] ([qres]: a scalar or one value per feature, embedded;
   [qpair]: both components of a (numerator, denominator) pair embedded; [esum g]: g applied to a scalar result or to every
   per-feature result; None = the shape mismatch, on both sides).  No shape hypothesis and no side condition. *)
From RV Require Import base.NumHom proofs.QR_bridge_C19.

(* mse, rsquare, the R^2 parts, the nrmse parts for the four norms (minmax / var / mean / q1q3) and for a given norm_value,
   dimensionwise on or off, arrays of any rank; the matrix handed to spectral_radius *)
Theorem C19_Qmetrics_embed :
  (forall (dw : bool) (y p : arr Q), mse dw (qarr y) (qarr p) = option_map qres (mse dw y p)) /\
  (forall (dw : bool) (y p : arr Q), rsquare dw (qarr y) (qarr p) = option_map qres (rsquare dw y p)) /\
  (forall (dw : bool) (y p : arr Q), rsquare_parts dw (qarr y) (qarr p) = esum qpair (rsquare_parts dw y p)) /\
  (forall (dw : bool) (k : normk) (y p : arr Q), nrmse_parts dw k (qarr y) (qarr p) = esum qpair (nrmse_parts dw k y p)) /\
  (forall (dw : bool) (nv : Q) (y p : arr Q), nrmse_parts_nv dw (Q2R nv) (qarr y) (qarr p) = esum qpair (nrmse_parts_nv dw nv y p)) /\
  (forall (lr : Q) (W : list (list Q)), eff_matrix (Q2R lr) (qm2r W) = qm2r (eff_matrix lr W)).
Proof. exact Qmetrics_embed. Qed.

(* the 1-D functions the theorems above are stated about *)
Theorem C19_Qmetrics_1d_embed :
  (forall y p : list Q, Q2R (mse1 y p) = mse1 (qv2r y) (qv2r p)) /\
  (forall y p : list Q, Q2R (rsquare1 y p) = rsquare1 (qv2r y) (qv2r p)) /\
  (forall y : list Q, Q2R (sstot y) = sstot (qv2r y)) /\
  (forall (k : normk) (y : list Q), Q2R (norm1 k y) = norm1 k (qv2r y)) /\
  (forall (a b : nat) (v : list Q), Q2R (quantile a b v) = quantile a b (qv2r v)) /\
  (forall v : list Q, qv2r (isort v) = isort (qv2r v)) /\
  (forall v : list Q, Q2R (vmax v) = vmax (qv2r v) /\ Q2R (vmin v) = vmin (qv2r v)).
Proof. exact Qmetrics_1d_embed. Qed.

(* non-vacuity: 5 x 2 arrays, per-feature (mse, q1q3 norm) -- sort and interpolation included -- evaluated at R *)
Example C19_Qmetrics_nrmse_example :
  nrmse_parts true Q1Q3 (qarr c19_exy) (qarr c19_exp)
  = Some (inr [(Q2R (1#8)%Q, Q2R (1#1)%Q); (Q2R (1#5)%Q, Q2R (5#2)%Q)]).
Proof. exact Qmetrics_nrmse_example. Qed.

Print Assumptions C19_Qmetrics_embed.
Print Assumptions C19_Qmetrics_1d_embed.

(* ---- the verdict of the correspondence runner, read at R ----
   [rclose m o] is |m - o| <= 1e-9 * max(1,|m|) on reals.  Per output entry (a scalar, or every feature: [cmpP]; the model
   rejects iff a ValueError was observed):  close_to m ox: the observed float is finite and rclose m it;  sq_close_to: finite,
   >= 0 and its square rclose;  nrmse_okR (mse, norm) ox: norm = 0 and not finite, or norm <> 0, finite, observed^2 rclose to
   mse / norm^2 and observed * norm >= 0;  rsq_okR (d, D) ox: D = 0 and not finite, or D <> 0 and observed rclose to 1 - d / D.
   A verdict [true] of the C19 runner IS a statement about the R-instance of model/Metrics.v on the embedded arrays. *)
From RV Require Import run.RunC19.

Theorem C19_chk_metrics_are_about_R_model :
  (forall dw y p o, chk_mse dw y p o = true -> cmpP close_to (ofresF (mse dw (qarr y) (qarr p))) o) /\
  (forall dw y p o, chk_rmse dw y p o = true -> cmpP sq_close_to (ofresF (rmse_sq dw (qarr y) (qarr p))) o) /\
  (forall dw k y p o, chk_nrmse dw k y p o = true -> cmpP nrmse_okR (nrmse_parts dw k (qarr y) (qarr p)) o) /\
  (forall dw nv y p o, chk_nrmse_nv dw nv y p o = true -> cmpP nrmse_okR (nrmse_parts_nv dw (Q2R nv) (qarr y) (qarr p)) o) /\
  (forall dw y p o, chk_rsquare dw y p o = true ->
     cmpP rsq_okR (rsquare_parts dw (qarr y) (qarr p)) o /\ cmpP close_if_finite (ofresF (rsquare dw (qarr y) (qarr p))) o) /\
  (forall lr W M, chk_effmat lr W M = true -> mrclose (eff_matrix (Q2R lr) (qm2r W)) (qm2r M)) /\
  (forall a b v o, chk_quantile a b v o = true -> rclose (quantile a b (qv2r v)) (Q2R o)).
Proof. exact chk_metrics_are_about_R_model. Qed.

(* non-vacuity: scenarios on which the runner answers true (per-feature nrmse with the q1q3 norm; a rejected shape mismatch) *)
Example C19_chk_nrmse_example :
  chk_nrmse true Q1Q3 c19_exy c19_exp (OV [Some (3535533905932738#10000000000000000)%Q; Some (17888543819998318#100000000000000000)%Q]) = true /\
  chk_mse false c19_exy (A1 [(1#1)%Q]) OErr = true.
Proof. vm_compute. split; reflexivity. Qed.

Print Assumptions C19_chk_metrics_are_about_R_model.
