(* C03 — linking and merging build exactly the intended acyclic graph.
   Statement-only file: proofs are in proofs/Graph_proofs.v (Kahn) and proofs/Graph_ops_proofs.v (the rest).
   Model: model/Graph.v (graphflow.py: find_parents_and_children, find_entries_and_exits, topological_sort;
   ops.py: concat_multi_inputs, _link_1to1, link, merge; model.py: Model.__init__, update_graph).

   Conventions.  Python sets are lists: every statement below quantifies over ALL duplicate-free lists, i.e. over every
   iteration order (of the entry list given to Kahn's algorithm, of the name-sorted edge list that fixes the order of
   children).  [isc] is `type(node) is Concat`; [nm v] is the (arbitrary, fresh) identity of the Concat inserted in front
   of [v].  [wf V E]: both ends of every edge are listed in V. *)
From Coq Require Import List Arith Lia Bool Permutation QArith.
From RV Require Import base.Num model.Graph proofs.Graph_proofs proofs.Graph_ops_proofs proofs.Graph_assoc_proofs.
From RV Require model.ModelSem proofs.ModelSem_proofs proofs.Graph_exec_proofs.
Import ListNotations.
Close Scope Q_scope.

(* ---- execution order = a valid topological order (graphflow.topological_sort) -------------------------------- *)
Theorem C03_kahn_sound (V : list node) (E : list edge) (ents l : list node) :
  NoDup V -> NoDup E -> wf V E ->
  NoDup ents -> (forall v, In v ents <-> In v V /\ has_in v E = false) ->      (* any order of the entry set *)
  topo ents V E = Sorted l ->
  Permutation l V /\ (forall u v, In (u, v) E -> before l u v).
Proof. intros HV HE Hwf Hn He. exact (topo_sound_perm V E HE Hwf ents Hn He l HV). Qed.

(* the boolean evaluated by the correspondence runner on the order OBSERVED on the real Model *)
Theorem C03_is_topo_sound (l : list node) (E : list edge) : is_topo l E = true ->
  NoDup l /\ forall u v, In (u, v) E -> In u l /\ In v l /\ idx u l < idx v l.
Proof. exact (is_topo_sound l E). Qed.

(* ---- any graph containing a directed cycle is rejected (RuntimeError), for every order of the entries -------- *)
Theorem C03_cycle_rejected (V : list node) (E : list edge) (ents : list node) :
  NoDup E -> wf V E ->
  NoDup ents -> (forall v, In v ents <-> In v V /\ has_in v E = false) ->
  (exists v, reach E v v) -> topo ents V E = Cycle.
Proof. intros HE Hwf. exact (topo_cycle_rejected V E HE Hwf ents). Qed.

(* ---- every graph admitting a rank function (every DAG) is accepted; the fuelled definition is total ---------- *)
Theorem C03_dag_accepted (V : list node) (E : list edge) (ents : list node) (rank : node -> nat) :
  NoDup E -> wf V E ->
  NoDup ents -> (forall v, In v ents <-> In v V /\ has_in v E = false) ->
  (forall u v, In (u, v) E -> rank u < rank v) -> exists l, topo ents V E = Sorted l.
Proof. intros HE Hwf Hn He. exact (topo_dag_accepted V E HE Hwf ents Hn He rank). Qed.

Theorem C03_kahn_total (V : list node) (E : list edge) (ents : list node) :
  NoDup E -> wf V E ->
  NoDup ents -> (forall v, In v ents <-> In v V /\ has_in v E = false) ->
  topo ents V E <> OutOfFuel.
Proof. intros HE Hwf. exact (topo_total V E HE Hwf ents). Qed.

(* ---- entry / exit nodes are exactly the nodes without predecessors / successors (find_entries_and_exits) ----- *)
Theorem C03_entries_exits (V : list node) (E : list edge) : wf V E ->
  (NoDup (entries V E) /\ forall v, In v (entries V E) <-> In v V /\ ~ exists u, In (u, v) E) /\
  (NoDup (exits V E) /\ forall v, In v (exits V E) <-> In v V /\ ~ exists w, In (v, w) E).
Proof. intros H. split; split; [apply entries_nodup | apply (entries_spec V E H) | apply exits_nodup | apply (exits_spec V E H)]. Qed.

(* ---- link: union of the operands + outputs(left) x inputs(right), nothing twice ------------------------------ *)
Theorem C03_link_edges (ls rs : list value) :
  (forall n, In n (fst (link_graph ls rs)) <->
     exists l r, In l ls /\ In r rs /\ (In n (v_nodes l) \/ In n (v_nodes r))) /\
  (forall e, In e (snd (link_graph ls rs)) <->
     exists l r, In l ls /\ In r rs /\
       (In e (v_edges l) \/ In e (v_edges r) \/ (In (fst e) (v_outs l) /\ In (snd e) (v_ins r)))) /\
  NoDup (fst (link_graph ls rs)) /\ NoDup (snd (link_graph ls rs)).
Proof. split; [intros n; apply link_graph_nodes | split; [intros e; apply link_graph_edges | apply link_graph_nodup]]. Qed.

(* the 1-to-1 case  a >> b  spelled out *)
Corollary C03_link_1to1 (a b : value) (u v : node) :
  In (u, v) (snd (link_graph [a] [b])) <->
  In (u, v) (v_edges a) \/ In (u, v) (v_edges b) \/ (In u (v_outs a) /\ In v (v_ins b)).
Proof. rewrite link_graph_edges. split.
  - intros [l [r [[<-|[]] [[<-|[]] H]]]]. exact H.
  - intros H. exists a, b. simpl. auto. Qed.

Theorem C03_merge_edges (a b : value) :
  (forall n, In n (fst (merge_graph a b)) <-> In n (v_nodes a) \/ In n (v_nodes b)) /\
  (forall e, In e (snd (merge_graph a b)) <-> In e (v_edges a) \/ In e (v_edges b)) /\
  NoDup (fst (merge_graph a b)) /\ NoDup (snd (merge_graph a b)).
Proof. exact (merge_graph_spec a b). Qed.


(* merge with list operands (`x & [y, z]`, `m &= [y, z]`, `merge(x, y, [z, w])`; [bs] = the flattened operands):
   every operand node once, every pre-existing edge, nothing else *)
Theorem C03_merge_list_edges (a : value) (bs : list value) :
  (forall n, In n (fst (merge_graph_l a bs)) <-> In n (v_nodes a) \/ exists b, In b bs /\ In n (v_nodes b)) /\
  (forall e, In e (snd (merge_graph_l a bs)) <-> In e (v_edges a) \/ exists b, In b bs /\ In e (v_edges b)) /\
  NoDup (fst (merge_graph_l a bs)) /\ NoDup (snd (merge_graph_l a bs)).
Proof. exact (merge_graph_l_spec a bs). Qed.

(* in-place merge `m &= bs` (Model.update_graph): a rejected update leaves the model object exactly as it was; an
   accepted one makes it the out-of-place merge; an update that closes a directed cycle is rejected *)
Theorem C03_update_rejected_is_identity isc nm (m : model) (bs : list value) :
  fst (update_graph isc nm m bs) = ErrCycle -> snd (update_graph isc nm m bs) = m.
Proof. exact (update_graph_rejected isc nm m bs). Qed.

Theorem C03_update_accepted_is_merge isc nm (m : model) (bs : list value) (m' : model) :
  (merge_l isc nm (VModel m) bs = Ok m' <-> fst (update_graph isc nm m bs) = Ok m') /\
  (merge_l isc nm (VModel m) bs = Ok m' -> update_graph isc nm m bs = (Ok m', m')).
Proof. exact (update_graph_accepted isc nm m bs m'). Qed.

Theorem C03_update_cycle_rejected isc nm (m : model) (bs : list value) :
  wf (fst (merge_graph_l (VModel m) bs)) (snd (merge_graph_l (VModel m) bs)) ->
  (exists v, reach (snd (merge_graph_l (VModel m) bs)) v v) -> update_graph isc nm m bs = (ErrCycle, m).
Proof. exact (update_graph_cycle isc nm m bs). Qed.

(* m = p >> q >> r (0,1,2);  m &= (r >> p)  is rejected and m is unchanged;  x & [y, z] holds the three nodes *)
Example C03_update_example :
  let isc := fun n => 100 <=? n in let nm := fun v => 100 + v in
  match mk_model isc nm [0; 1; 2] [(0, 1); (1, 2)], mk_model isc nm [2; 0] [(2, 0)] with
  | Ok m, Ok r => update_graph isc nm m [VModel r] = (ErrCycle, m)
  | _, _ => False
  end /\
  match eval (fun n => 100 <=? n) 100 (EMergeL [] (ENode 0) [ENode 1; ENode 2]) with
  | Ok v => set_eqb (v_nodes v) [0; 1; 2] = true
  | _ => False
  end.
Proof. split; vm_compute; reflexivity. Qed.

(* ---- what Model(nodes, edges) — hence link and merge, which end with it — returns ---------------------------- *)
Theorem C03_model_sound isc nm (V : list node) (E : list edge) (m : model) : wf V E ->
  mk_model isc nm V E = Ok m ->
  mEdges m = snd (cmi isc nm V E) /\
  NoDup (mNodes m) /\ (forall x, In x (mNodes m) <-> In x (fst (cmi isc nm V E))) /\
  (forall u v, In (u, v) (mEdges m) -> before (mNodes m) u v) /\
  (NoDup (mIn m) /\ forall v, In v (mIn m) <-> In v (mNodes m) /\ ~ exists u, In (u, v) (mEdges m)) /\
  (NoDup (mOut m) /\ forall v, In v (mOut m) <-> In v (mNodes m) /\ ~ exists w, In (v, w) (mEdges m)).
Proof. intros H. exact (mk_model_sound isc nm V E H m). Qed.

Theorem C03_model_cycle_rejected isc nm (V : list node) (E : list edge) : wf V E ->
  (exists v, reach E v v) -> mk_model isc nm V E = ErrCycle.
Proof. exact (mk_model_cycle_rejected isc nm V E). Qed.

Theorem C03_model_dag_accepted isc nm (V : list node) (E : list edge) (rank : node -> nat) : wf V E ->
  (forall v, In v V -> ~ In (nm v) V) -> (forall u v, In u V -> In v V -> nm u = nm v -> u = v) ->
  (forall u v, In (u, v) E -> rank u < rank v) -> exists m, mk_model isc nm V E = Ok m.
Proof. intros H Hf Hi. exact (mk_model_dag_accepted isc nm V E H Hf Hi rank). Qed.

Corollary C03_link_cycle_rejected isc nm (ls rs : list value) :
  wf (fst (link_graph ls rs)) (snd (link_graph ls rs)) ->
  (exists v, reach (snd (link_graph ls rs)) v v) -> link isc nm ls rs = ErrCycle.
Proof. unfold link. destruct (link_graph ls rs) as [V E]. exact (mk_model_cycle_rejected isc nm V E). Qed.

Corollary C03_merge_cycle_rejected isc nm (a b : value) :
  wf (fst (merge_graph a b)) (snd (merge_graph a b)) ->
  (exists v, reach (snd (merge_graph a b)) v v) -> merge isc nm a b = ErrCycle.
Proof. unfold merge. destruct (merge_graph a b) as [V E]. exact (mk_model_cycle_rejected isc nm V E). Qed.

(* ---- automatic concatenation (ops.concat_multi_inputs) -------------------------------------------------------- *)
Section Fanin.
Variables (isc : node -> bool) (nm : node -> node) (V : list node) (E : list edge).
Hypothesis Hwf : wf V E.
Hypothesis Hfresh : forall v, In v V -> ~ In (nm v) V.                               (* Concat() is a new object *)
Hypothesis Hinj : forall u v, In u V -> In v V -> nm u = nm v -> u = v.              (* one new object per node  *)
Let V' := fst (cmi isc nm V E).
Let E' := snd (cmi isc nm V E).

(* a non-Concat node with in-degree > 1 has exactly one parent, a fresh Concat, which has exactly one child and whose
   parents are exactly the former parents, each once *)
Theorem C03_fanin_once v : In v V -> isc v = false -> 1 < indeg E v ->
  In (nm v) V' /\ parents E' v = [nm v] /\ children E' (nm v) = [v] /\
  NoDup (parents E' (nm v)) /\ (forall p, In p (parents E' (nm v)) <-> In (p, v) E).
Proof. exact (cmi_fanin_once isc nm V E Hwf Hfresh Hinj v). Qed.

(* no other edge changed *)
Theorem C03_fanin_others_unchanged v p : In v V -> (isc v = true \/ indeg E v <= 1) -> (In (p, v) E' <-> In (p, v) E).
Proof. exact (cmi_other_edges_unchanged isc nm V E Hfresh Hinj v p). Qed.

Theorem C03_fanin_nodes x : In x V' <-> In x V \/ exists v, In v V /\ wrapped isc E v = true /\ x = nm v.
Proof. exact (cmi_V'_In isc nm V E x). Qed.

Theorem C03_fanin_no_duplicates : NoDup V' /\ NoDup E'.
Proof. split; [exact (cmi_nodup_nodes isc nm V E) | exact (cmi_nodup_edges isc nm V E)]. Qed.

(* afterwards only Concat nodes have several parents *)
Theorem C03_fanin_indegree x : (forall v, In v V -> isc (nm v) = true) -> In x V' -> isc x = false -> indeg E' x <= 1.
Proof. intros Hc. exact (cmi_indeg_le_1 isc nm V E Hfresh Hinj Hc x). Qed.

(* "receives each of its predecessors exactly once" — when none of the former parents is itself an automatically
   inserted Concat ([auto]); without that hypothesis the statement is FALSE for the implementation: see below *)
Theorem C03_fanin_received_once (auto : node -> bool) v : In v V -> isc v = false -> 1 < indeg E v ->
  auto (nm v) = true -> (forall p, In (p, v) E -> auto p = false) ->
  NoDup (feeds 2 auto E' v) /\ forall p, In p (feeds 2 auto E' v) <-> In (p, v) E.
Proof. exact (cmi_feeds_once isc nm V E Hwf Hfresh Hinj auto v). Qed.
End Fanin.

(* OPEN FINDING fanin:predecessor-delivered-twice, mirrored by the model:
   (s >> [p1, p2] >> c) & (s >> p1 >> c)   with s=0, p1=1, p2=2, c=3; inserted Concats 100 (by the first link) and 101
   (by the merge).  The model built is accepted and node c finally receives p1 twice. *)
Definition twice_expr : expr :=
  EMerge [(3, 101)]
    (ELink [(3, 100)] [ELink [] [ENode 0] [ENode 1; ENode 2]] [ENode 3])
    (ELink [] [ELink [] [ENode 0] [ENode 1]] [ENode 3]).

Theorem C03_fanin_twice_refuted :
  exists m, eval (fun n => 100 <=? n) 1000 twice_expr = Ok (VModel m) /\
            feeds 3 (fun n => 100 <=? n) (mEdges m) 3 = [1; 1; 2] /\
            ~ NoDup (feeds 3 (fun n => 100 <=? n) (mEdges m) 3).
Proof. eexists. split; [vm_compute; reflexivity|]. split; [vm_compute; reflexivity|].
  vm_compute. intros H. inversion H as [|? ? Hn _]. apply Hn. simpl. auto. Qed.


(* ---- algebraic laws, up to the names of the inserted Concat nodes ------------------------------------------------ *)
(* a & b  vs  b & a : for ANY two namings nm1 (fresh, injective) and nm2 there is a renaming [rho] of the inserted
   Concats, fixing every operand node, that maps the graph of  a & b  onto the graph of  b & a  *)
Theorem C03_merge_comm isc nm1 nm2 (a b : value) :
  let G1 := merge_graph a b in let G2 := merge_graph b a in
  wf (fst G1) (snd G1) ->
  (forall v, In v (fst G1) -> ~ In (nm1 v) (fst G1)) ->
  (forall u v, In u (fst G1) -> In v (fst G1) -> nm1 u = nm1 v -> u = v) ->
  exists rho : node -> node,
    (forall p, In p (fst G1) -> rho p = p) /\
    (forall x, In x (fst (cmi isc nm2 (fst G2) (snd G2))) <-> exists y, In y (fst (cmi isc nm1 (fst G1) (snd G1))) /\ x = rho y) /\
    (forall p c, In (p, c) (snd (cmi isc nm2 (fst G2) (snd G2))) <->
                 exists p0 c0, In (p0, c0) (snd (cmi isc nm1 (fst G1) (snd G1))) /\ p = rho p0 /\ c = rho c0).
Proof. exact (merge_comm isc nm1 nm2 a b). Qed.

(* ... and  b & a  is accepted whenever  a & b  is (so, by symmetry, they are accepted / rejected together) *)
Theorem C03_merge_comm_accept isc nm1 nm2 (a b : value) :
  let G1 := merge_graph a b in let G2 := merge_graph b a in
  wf (fst G1) (snd G1) ->
  (forall v, In v (fst G2) -> ~ In (nm2 v) (fst G2)) ->
  (forall u v, In u (fst G2) -> In v (fst G2) -> nm2 u = nm2 v -> u = v) ->
  (exists m, merge isc nm1 a b = Ok m) -> exists m', merge isc nm2 b a = Ok m'.
Proof. exact (merge_comm_status isc nm1 nm2 a b). Qed.

(* m & m : a model in which only Concat nodes have several parents (true of every model built by Model(...), see
   C03_fanin_indegree) is reproduced exactly, with no new Concat, whatever the naming *)
Theorem C03_merge_idem isc nm (m : model) :
  let V := mNodes m in let E := mEdges m in
  NoDup E -> wf V E -> (forall x, In x V -> isc x = false -> indeg E x <= 1) ->
  let G := merge_graph (VModel m) (VModel m) in
  (forall x, In x (fst (cmi isc nm (fst G) (snd G))) <-> In x V) /\
  (forall e, In e (snd (cmi isc nm (fst G) (snd G))) <-> In e E).
Proof. exact (merge_idem isc nm m). Qed.

(* chaining: (a >> b) >> c  vs  a >> (b >> c), for operands on pairwise disjoint node sets.
   Side conditions (definitions in proofs/Graph_assoc_proofs.v):
     gvalid x      : x's edges stay inside x's nodes, and its declared inputs / outputs are exactly its nodes without
                     predecessors / successors — true of every bare node and of every model returned by Model(...)
                     (C03_operands_valid);
     disjoint x y  : no node of x is a node of y;   nonempty l : l has an element (a has an output, b an input and an
                     output, c an input — true of every node and every non-empty accepted model);
     namings       : the Concats created by the two inner links (nm1 for a >> b, nm3 for b >> c) are Concat-typed new
                     objects — not nodes of a, b or c — one per node; those created by the two outer links (nm2, nm4) are new
                     w.r.t. everything present in that link, one per node.
   Conclusion: a renaming [rho] of the inserted Concats, fixing every operand node, maps the nodes and the edges of
   (a >> b) >> c  onto those of  a >> (b >> c); both have the entries of a as entries and the exits of c as exits. *)
Theorem C03_operands_valid :
  (forall n, gvalid (VNode n)) /\
  (forall isc nm V E m, wf V E -> mk_model isc nm V E = Ok m -> gvalid (VModel m)).
Proof. split; [exact gvalid_node | exact mk_model_gvalid]. Qed.

Theorem C03_chain_assoc (isc : node -> bool) (nm1 nm2 nm3 nm4 : node -> node) (a b c : value) (m1 m2 m3 m4 : model) :
  gvalid a -> gvalid b -> gvalid c -> disjoint a b -> disjoint a c -> disjoint b c ->
  nonempty (v_outs a) -> nonempty (v_ins b) -> nonempty (v_outs b) -> nonempty (v_ins c) ->
  link isc nm1 [a] [b] = Ok m1 -> link isc nm2 [VModel m1] [c] = Ok m2 ->          (* (a >> b) >> c = m2 *)
  link isc nm3 [b] [c] = Ok m3 -> link isc nm4 [a] [VModel m3] = Ok m4 ->          (* a >> (b >> c) = m4 *)
  (forall v, In v (fst (link_graph [a] [b])) ->
     ~ In (nm1 v) (v_nodes a ++ v_nodes b ++ v_nodes c) /\ isc (nm1 v) = true) ->
  (forall u v, In u (fst (link_graph [a] [b])) -> In v (fst (link_graph [a] [b])) -> nm1 u = nm1 v -> u = v) ->
  (forall v, In v (fst (link_graph [b] [c])) ->
     ~ In (nm3 v) (v_nodes a ++ v_nodes b ++ v_nodes c) /\ isc (nm3 v) = true) ->
  (forall u v, In u (fst (link_graph [b] [c])) -> In v (fst (link_graph [b] [c])) -> nm3 u = nm3 v -> u = v) ->
  (forall v, In v (fst (link_graph [VModel m1] [c])) -> ~ In (nm2 v) (fst (link_graph [VModel m1] [c]))) ->
  (forall u v, In u (fst (link_graph [VModel m1] [c])) -> In v (fst (link_graph [VModel m1] [c])) -> nm2 u = nm2 v -> u = v) ->
  (forall v, In v (fst (link_graph [a] [VModel m3])) -> ~ In (nm4 v) (fst (link_graph [a] [VModel m3]))) ->
  (forall u v, In u (fst (link_graph [a] [VModel m3])) -> In v (fst (link_graph [a] [VModel m3])) -> nm4 u = nm4 v -> u = v) ->
  exists rho : node -> node,
    (forall p, In p (v_nodes a ++ v_nodes b ++ v_nodes c) -> rho p = p) /\
    (forall x, In x (mNodes m4) <-> exists y, In y (mNodes m2) /\ x = rho y) /\
    (forall p q, In (p, q) (mEdges m4) <-> exists p0 q0, In (p0, q0) (mEdges m2) /\ p = rho p0 /\ q = rho q0) /\
    (forall v, In v (mIn m4) <-> In v (mIn m2)) /\ (forall v, In v (mOut m4) <-> In v (mOut m2)) /\
    (forall v, In v (mIn m2) <-> In v (v_ins a)) /\ (forall v, In v (mOut m2) <-> In v (v_outs c)).
Proof. exact (chain_assoc isc nm1 nm2 nm3 nm4 a b c m1 m2 m3 m4). Qed.

(* Not covered by C03_chain_assoc: that the two sides are accepted / rejected TOGETHER (it assumes both were built).
   The exhaustive sweep below checks that too (same_model demands Ok/Ok or ErrCycle/ErrCycle): operands drawn from six
   shapes (node; chain; fan-out with two outputs; fan-in with an inner Concat; two isolated nodes; chain + isolated
   node) on disjoint ids — 216 triples — with the canonical naming "Concat in front of v is 1000+v", under which both
   sides must be literally the same sets. *)
Definition shapes (o : nat) : list expr :=
  [ ENode o;
    ELink [] [ENode o] [ENode (o + 1)];
    ELink [] [ENode o] [ENode (o + 1); ENode (o + 2)];
    ELink [] [ENode o; ENode (o + 1)] [ENode (o + 2)];
    EMerge [] (ENode o) (ENode (o + 1));
    EMerge [] (ELink [] [ENode o] [ENode (o + 1)]) (ENode (o + 2)) ].
Definition assoc_ok (a b c : expr) : bool :=
  let ev := eval (fun n => 1000 <=? n) 1000 in
  same_model (ev (ELink [] [ELink [] [a] [b]] [c])) (ev (ELink [] [a] [ELink [] [b] [c]])).

Example C03_chain_assoc_sweep :
  forallb (fun a => forallb (fun b => forallb (fun c => assoc_ok a b c) (shapes 20)) (shapes 10)) (shapes 0) = true.
Proof. vm_compute. reflexivity. Qed.

(* non-vacuity of C03_chain_assoc: a = node 0, b = the model 10 >> [11, 12] (two outputs), c = node 20; the namings are
   "Concat in front of v is 100+v" (200+v for the outer link of a >> (b >> c), where 120 already exists).  All hypotheses hold and a Concat (120) really is inserted in front of c. *)
Example C03_chain_assoc_example :
  let isc := fun n => 100 <=? n in let nm := fun v => 100 + v in let nm' := fun v => 200 + v in
  exists mb m1 m2 m3 m4,
    mk_model isc nm [10; 11; 12] [(10, 11); (10, 12)] = Ok mb /\
    let a := VNode 0 in let b := VModel mb in let c := VNode 20 in
    gvalid a /\ gvalid b /\ gvalid c /\ disjoint a b /\ disjoint a c /\ disjoint b c /\
    nonempty (v_outs a) /\ nonempty (v_ins b) /\ nonempty (v_outs b) /\ nonempty (v_ins c) /\
    link isc nm [a] [b] = Ok m1 /\ link isc nm [VModel m1] [c] = Ok m2 /\
    link isc nm [b] [c] = Ok m3 /\ link isc nm' [a] [VModel m3] = Ok m4 /\
    (forall v, In v (fst (link_graph [a] [b])) -> ~ In (nm v) (v_nodes a ++ v_nodes b ++ v_nodes c) /\ isc (nm v) = true) /\
    (forall v, In v (fst (link_graph [b] [c])) -> ~ In (nm v) (v_nodes a ++ v_nodes b ++ v_nodes c) /\ isc (nm v) = true) /\
    (forall v, In v (fst (link_graph [VModel m1] [c])) -> ~ In (nm v) (fst (link_graph [VModel m1] [c]))) /\
    (forall v, In v (fst (link_graph [a] [VModel m3])) -> ~ In (nm' v) (fst (link_graph [a] [VModel m3]))) /\
    (forall u v : node, nm u = nm v -> u = v) /\ (forall u v : node, nm' u = nm' v -> u = v) /\
    In 120 (mNodes m2) /\ In 120 (mNodes m4).
Proof. cbv zeta. do 5 eexists. split; [vm_compute; reflexivity|].
  split; [apply gvalid_node|]. split.
  { apply (mk_model_gvalid (fun n => 100 <=? n) (fun v => 100 + v) [10; 11; 12] [(10, 11); (10, 12)]); [|vm_compute; reflexivity].
    intros e He. simpl in He. intuition (subst; simpl; auto). }
  split; [apply gvalid_node|].
  split; [intros n Hn Hc; vm_compute in Hn, Hc; intuition lia|].
  split; [intros n Hn Hc; vm_compute in Hn, Hc; intuition lia|].
  split; [intros n Hn Hc; vm_compute in Hn, Hc; intuition lia|].
  split; [exists 0; simpl; auto|]. split; [exists 10; vm_compute; auto|]. split; [exists 11; vm_compute; auto|].
  split; [exists 20; simpl; auto|].
  split; [vm_compute; reflexivity|]. split; [vm_compute; reflexivity|].
  split; [vm_compute; reflexivity|]. split; [vm_compute; reflexivity|].
  split; [intros v Hv; vm_compute in Hv; intuition (subst; try (vm_compute; reflexivity); match goal with H : In _ _ |- _ => vm_compute in H; intuition (try discriminate; try lia) end)|].
  split; [intros v Hv; vm_compute in Hv; intuition (subst; try (vm_compute; reflexivity); match goal with H : In _ _ |- _ => vm_compute in H; intuition (try discriminate; try lia) end)|].
  split; [intros v Hv; vm_compute in Hv; intuition (subst; try (vm_compute; reflexivity); match goal with H : In _ _ |- _ => vm_compute in H; intuition (try discriminate; try lia) end)|].
  split; [intros v Hv; vm_compute in Hv; intuition (subst; try (vm_compute; reflexivity); match goal with H : In _ _ |- _ => vm_compute in H; intuition (try discriminate; try lia) end)|].
  split; [intros u v; lia|]. split; [intros u v; lia|]. split; vm_compute; auto 10. Qed.

(* ---- integration with the execution model of C02 ------------------------------------------------------------------
   The order computed by topological_sort (any entry order, any edge-list order) is an order on which the execution
   model (model/ModelSem.v) is proved to compute the unique solution of the graph equations: for every execution-model
   [m] whose node descriptors are listed in that order and whose fan-in lists only contain predecessors in the graph,
   ModelSem's hypothesis [well_formed m] holds. *)
Theorem C03_order_is_executable {F : Type} `{Num F} (V : list node) (E : list edge) (ents l : list node)
    (m : @ModelSem.model F) :
  NoDup E -> wf V E ->
  NoDup ents -> (forall v, In v ents <-> In v V /\ has_in v E = false) ->
  topo ents V E = Sorted l ->
  map (@ModelSem.nid F) (ModelSem.order m) = l ->
  (forall n p, In p (ModelSem.parents m n) -> In (p, n) E) ->
  ModelSem_proofs.well_formed m.
Proof. exact (Graph_exec_proofs.kahn_order_well_formed V E ents l m). Qed.

(* hence C02_forward_is_solution / C02_solution_unique apply to the order the implementation's algorithm computes *)
Corollary C03_computed_order_executes {F : Type} `{Num F} (V : list node) (E : list edge) (ents l : list node)
    (m : @ModelSem.model F) prev clamp ext (e0 e' : @ModelSem.env F) :
  NoDup E -> wf V E ->
  NoDup ents -> (forall v, In v ents <-> In v V /\ has_in v E = false) ->
  topo ents V E = Sorted l ->
  map (@ModelSem.nid F) (ModelSem.order m) = l ->
  (forall n p, In p (ModelSem.parents m n) -> In (p, n) E) ->
  ModelSem.forward m prev clamp ext e0 = (e', true) ->
  ModelSem_proofs.is_solution m prev clamp ext e0 e' /\
  (forall e2, ModelSem_proofs.is_solution m prev clamp ext e0 e2 -> forall n, e' n = e2 n).
Proof. intros HE Hwf Hn He Ht Ho Hp Hf.
  pose proof (Graph_exec_proofs.kahn_order_well_formed V E ents l m HE Hwf Hn He Ht Ho Hp) as W.
  pose proof (ModelSem_proofs.forward_is_solution m prev clamp ext e0 e' W Hf) as S.
  split; [exact S | intros e2 S2; exact (ModelSem_proofs.solution_unique m prev clamp ext e0 e' e2 W S S2)]. Qed.

(* non-vacuity: the execution model laid out on the order computed for 0 -> {1,2}, 1 -> 2 (at F := Q) *)
Example C03_order_is_executable_example :
  let V := [0; 1; 2] in let E := [(0, 1); (0, 2); (1, 2)] in
  match topo (entries V E) V E with
  | Sorted l =>
      l = [0; 1; 2] /\
      let m := @ModelSem.mkModel Q (map (fun i => ModelSem.mkND i (fun _ _ _ _ => None) None 0) l) (Graph.parents E) [2] in
      map (@ModelSem.nid Q) (ModelSem.order m) = l /\ (forall n p, In p (ModelSem.parents m n) -> In (p, n) E) /\
      ModelSem_proofs.well_formed m
  | _ => False
  end.
Proof. vm_compute topo. cbv zeta. split; [reflexivity|]. split; [reflexivity|]. split.
  - intros n p Hp. apply parents_In. exact Hp.
  - split; simpl.
    + repeat constructor; simpl; intuition discriminate.
    + repeat split; try tauto; simpl in *; intuition (try discriminate; try lia). Qed.

(* ---- non-vacuity ------------------------------------------------------------------------------------------------ *)
(* a diamond 0 -> {1,2} -> 3 given as Model(nodes, edges): Concat 100 inserted before 3; entries [0], exits [3] *)
Example C03_diamond_example :
  match mk_model (fun n => 100 <=? n) (fun v => 100 + v - 3) [0; 1; 2; 3] [(0, 1); (0, 2); (1, 3); (2, 3)] with
  | Ok m => mNodes m = [0; 2; 1; 100; 3] /\ mIn m = [0] /\ mOut m = [3] /\ parents (mEdges m) 3 = [100]
            /\ is_topo (mNodes m) (mEdges m) = true
  | _ => False
  end.
Proof. vm_compute. repeat split; reflexivity. Qed.

Example C03_hypotheses_satisfiable :
  let V := [0; 1; 2; 3] in let E := [(0, 1); (0, 2); (1, 3); (2, 3)] in let nm := fun v => 100 + v in
  wf V E /\ NoDup V /\ NoDup E /\ (forall v, In v V -> ~ In (nm v) V) /\
  (forall u v, In u V -> In v V -> nm u = nm v -> u = v) /\ 1 < indeg E 3 /\
  (forall u v, In (u, v) E -> u < v).
Proof. cbv zeta. repeat split.
  - simpl in H. intuition (subst; simpl; auto).
  - simpl in H. intuition (subst; simpl; auto 6).
  - repeat constructor; simpl; intuition congruence.
  - repeat constructor; simpl; intuition congruence.
  - intros v Hv. simpl in *. intuition lia.
  - intros u v _ _ Hq. lia.
  - vm_compute. lia.
  - intros u v Hi. simpl in Hi. intuition (inversion H; lia) || (inversion H0; lia). Qed.

(* a 3-cycle hidden behind an entry node is rejected; a cycle with no entry node at all is rejected too *)
Example C03_cycle_example :
  mk_model (fun n => 100 <=? n) (fun v => 100 + v) [0; 1; 2; 3] [(0, 1); (1, 2); (2, 3); (3, 1)] = ErrCycle /\
  mk_model (fun n => 100 <=? n) (fun v => 100 + v) [0; 1] [(0, 1); (1, 0)] = ErrCycle /\
  reach [(0, 1); (1, 2); (2, 3); (3, 1)] 1 1.
Proof. split; [vm_compute; reflexivity|]. split; [vm_compute; reflexivity|].
  eapply reachS; [simpl; eauto|]. eapply reachS; [simpl; eauto 6|]. apply reach1. simpl; auto 6. Qed.

Print Assumptions C03_kahn_sound.
Print Assumptions C03_is_topo_sound.
Print Assumptions C03_cycle_rejected.
Print Assumptions C03_dag_accepted.
Print Assumptions C03_kahn_total.
Print Assumptions C03_entries_exits.
Print Assumptions C03_link_edges.
Print Assumptions C03_link_1to1.
Print Assumptions C03_merge_edges.
Print Assumptions C03_merge_list_edges.
Print Assumptions C03_update_rejected_is_identity.
Print Assumptions C03_update_accepted_is_merge.
Print Assumptions C03_update_cycle_rejected.
Print Assumptions C03_model_sound.
Print Assumptions C03_model_cycle_rejected.
Print Assumptions C03_model_dag_accepted.
Print Assumptions C03_link_cycle_rejected.
Print Assumptions C03_merge_cycle_rejected.
Print Assumptions C03_fanin_once.
Print Assumptions C03_fanin_others_unchanged.
Print Assumptions C03_fanin_nodes.
Print Assumptions C03_fanin_no_duplicates.
Print Assumptions C03_fanin_indegree.
Print Assumptions C03_fanin_received_once.
Print Assumptions C03_fanin_twice_refuted.
Print Assumptions C03_merge_comm.
Print Assumptions C03_merge_comm_accept.
Print Assumptions C03_merge_idem.
Print Assumptions C03_operands_valid.
Print Assumptions C03_chain_assoc.
Print Assumptions C03_order_is_executable.
Print Assumptions C03_computed_order_executes.

(* ================================================================================================================ *)
(* Tie (T): find_entries_and_exits, find_parents_and_children and topological_sort as translated on this run from the
   current source text of reservoirpy/utils/graphflow.py (coq/gen/Gen_graphflow.v, by tools/vlib/py2coq_graph.py; the
   meaning of set / defaultdict / deque / list / for / while / raise is base/PyColl.v).  Parameters of the generated code:
   [ord_n k s] = the order in which Python iterates over the set s at conversion site k, [srt l] = `sorted(list(edges),
   key=parent.name + child.name)`; ALL that is assumed about them is that they return a permutation of their argument. *)
From RV Require base.PyColl gen.Gen_graphflow proofs.Gen_graphflow_eq.

Section Generated.
Variable ord_n : nat -> list node -> list node.
Variable srt : list edge -> list edge.
Hypothesis Hord : forall k s, Permutation (ord_n k s) s.
Hypothesis Hsrt : forall l, Permutation (srt l) l.

(* the generated find_entries_and_exits returns the model's entries / exits (as duplicate-free lists of the same elements),
   hence -- with C03_entries_exits -- exactly the nodes without predecessors / successors *)
Theorem C03_generated_entries_exits (V : list node) (E : list edge) :
  let r := Gen_graphflow.GenGraphflow.find_entries_and_exits ord_n V E in
  (NoDup (fst r) /\ forall v, In v (fst r) <-> In v (entries V E)) /\
  (NoDup (snd r) /\ forall v, In v (snd r) <-> In v (exits V E)).
Proof. exact (Gen_graphflow_eq.gen_entries_exits ord_n Hord V E). Qed.

(* the generated find_parents_and_children: the dictionaries hold, at every key, the model's parents / children LISTS of
   the name-sorted edge list (`d[v]` and `d.get(v, ())`) *)
Theorem C03_generated_parents_children (E : list edge) (v : node) :
  let r := Gen_graphflow.GenGraphflow.find_parents_and_children srt E in
  PyColl.dd_getitem (fst r) v = parents (srt E) v /\ PyColl.dd_getitem (snd r) v = children (srt E) v /\
  PyColl.dd_get (fst r) v [] = parents (srt E) v /\ PyColl.dd_get (snd r) v [] = children (srt E) v.
Proof. exact (Gen_graphflow_eq.gen_parents_children srt E v). Qed.

(* the generated topological_sort.  [inputs] is the optional third argument: None (the entry list is computed by the
   generated find_entries_and_exits, in the order of site 0) or the entry nodes, each once, in ANY order (what Model passes);
   [fuel] bounds the iterations of `while len(inputs) > 0` ([enough_fuel]: 1 + |V| + 2|E|).
   Outcomes: [Val l] = `return ordered_nodes`, [Exc RuntimeError] = "Model has a cycle", [Exc KeyError | ValueError |
   IndexError] = a failing `edges.remove` / `parents[m].remove` / `inputs.pop`, [OutOfFuel] = loop cut. *)
Definition C03_good_inputs (V : list node) (E : list edge) (inputs : option (list node)) : Prop :=
  match inputs with
  | None => True
  | Some ents => NoDup ents /\ forall v, In v ents <-> In v V /\ has_in v E = false
  end.
Definition C03_enough_fuel (V : list node) (E : list edge) (fuel : nat) : Prop := S (length V + length E + length E) <= fuel.
Definition C03_conv (r : res) : PyColl.py (list node) :=
  match r with Sorted l => PyColl.Val l | Cycle => PyColl.Exc PyColl.RuntimeError | OutOfFuel => PyColl.OutOfFuel end.

(* it IS the model's Kahn loop (same result, same order, for every fuel) on the name-sorted edge list: deque = reversed
   stack, `parents[m]` = senders of the remaining edges into m, `edges` = the remaining edges *)
Theorem C03_generated_toposort_is_model (V : list node) (E : list edge) (inputs : option (list node)) (fuel : nat) :
  NoDup E -> wf V E -> C03_good_inputs V E inputs ->
  let ents := match inputs with None => fst (Gen_graphflow.GenGraphflow.find_entries_and_exits ord_n V E) | Some i => i end in
  Gen_graphflow.GenGraphflow.topological_sort ord_n srt fuel V E inputs = C03_conv (kahn fuel (srt E) (rev ents) (srt E) []) /\
  (C03_enough_fuel V E fuel ->
   Gen_graphflow.GenGraphflow.topological_sort ord_n srt fuel V E inputs = C03_conv (topo ents V (srt E))).
Proof. intros HE Hwf Hin. split; [exact (Gen_graphflow_eq.gen_toposort_is_kahn ord_n srt Hord Hsrt V E inputs HE Hwf Hin fuel)
  | exact (Gen_graphflow_eq.gen_toposort_is_topo ord_n srt Hord Hsrt V E inputs HE Hwf Hin fuel)]. Qed.

(* sound: whatever it returns is a permutation of the nodes in which every edge goes forward *)
Theorem C03_generated_toposort_sound (V : list node) (E : list edge) (inputs : option (list node)) (fuel : nat) (l : list node) :
  NoDup V -> NoDup E -> wf V E -> C03_good_inputs V E inputs ->
  Gen_graphflow.GenGraphflow.topological_sort ord_n srt fuel V E inputs = PyColl.Val l ->
  Permutation l V /\ (forall u v, In (u, v) E -> before l u v).
Proof. intros HV HE Hwf Hin. exact (Gen_graphflow_eq.gen_toposort_sound ord_n srt Hord Hsrt V E inputs HE Hwf Hin fuel l HV). Qed.

(* every graph containing a directed cycle raises the RuntimeError *)
Theorem C03_generated_toposort_rejects_cycles (V : list node) (E : list edge) (inputs : option (list node)) (fuel : nat) :
  NoDup E -> wf V E -> C03_good_inputs V E inputs -> C03_enough_fuel V E fuel ->
  (exists v, reach E v v) ->
  Gen_graphflow.GenGraphflow.topological_sort ord_n srt fuel V E inputs = PyColl.Exc PyColl.RuntimeError.
Proof. intros HE Hwf Hin. exact (Gen_graphflow_eq.gen_toposort_rejects_cycles ord_n srt Hord Hsrt V E inputs HE Hwf Hin fuel). Qed.

(* every graph admitting a rank function (every DAG) is accepted *)
Theorem C03_generated_toposort_accepts_dags (V : list node) (E : list edge) (inputs : option (list node)) (fuel : nat)
    (rank : node -> nat) :
  NoDup E -> wf V E -> C03_good_inputs V E inputs -> C03_enough_fuel V E fuel ->
  (forall u v, In (u, v) E -> rank u < rank v) ->
  exists l, Gen_graphflow.GenGraphflow.topological_sort ord_n srt fuel V E inputs = PyColl.Val l.
Proof. intros HE Hwf Hin. exact (Gen_graphflow_eq.gen_toposort_accepts_dags ord_n srt Hord Hsrt V E inputs HE Hwf Hin fuel rank). Qed.

(* no other outcome: never KeyError / ValueError / IndexError, never out of fuel *)
Theorem C03_generated_toposort_total (V : list node) (E : list edge) (inputs : option (list node)) (fuel : nat) :
  NoDup E -> wf V E -> C03_good_inputs V E inputs -> C03_enough_fuel V E fuel ->
  (exists l, Gen_graphflow.GenGraphflow.topological_sort ord_n srt fuel V E inputs = PyColl.Val l) \/
  Gen_graphflow.GenGraphflow.topological_sort ord_n srt fuel V E inputs = PyColl.Exc PyColl.RuntimeError.
Proof. intros HE Hwf Hin. exact (Gen_graphflow_eq.gen_toposort_total ord_n srt Hord Hsrt V E inputs HE Hwf Hin fuel). Qed.
End Generated.

(* non-vacuity: the generated code run on the diamond 0 -> {1,2} -> 3 and on a 2-cycle behind an entry node, with the
   identity for both parameters (they satisfy the two hypotheses) *)
Example C03_generated_example :
  let idn := fun (_ : nat) (s : list node) => s in let ide := fun l : list edge => l in
  (forall k s, Permutation (idn k s) s) /\ (forall l, Permutation (ide l) l) /\
  Gen_graphflow.GenGraphflow.topological_sort idn ide 13 [0; 1; 2; 3] [(0, 1); (0, 2); (1, 3); (2, 3)] None = PyColl.Val [0; 2; 1; 3] /\
  Gen_graphflow.GenGraphflow.topological_sort idn ide 13 [0; 1; 2; 3] [(0, 1); (0, 2); (1, 3); (2, 3)] (Some [0]) = PyColl.Val [0; 2; 1; 3] /\
  C03_good_inputs [0; 1; 2; 3] [(0, 1); (0, 2); (1, 3); (2, 3)] (Some [0]) /\
  Gen_graphflow.GenGraphflow.topological_sort idn ide 10 [0; 1; 2] [(0, 1); (1, 2); (2, 1)] None = PyColl.Exc PyColl.RuntimeError /\
  Gen_graphflow.GenGraphflow.find_entries_and_exits idn [0; 1; 2; 3] [(0, 1); (0, 2); (1, 3); (2, 3)] = ([0], [3]).
Proof. cbv zeta. split; [intros; apply Permutation_refl|]. split; [intros; apply Permutation_refl|].
  split; [vm_compute; reflexivity|]. split; [vm_compute; reflexivity|]. split.
  - split; [repeat constructor; simpl; tauto|]. intros v. simpl. split.
    + intros [<-|[]]. split; [auto | reflexivity].
    + intros [[<-|[<-|[<-|[<-|[]]]]] Hh]; vm_compute in Hh; try discriminate; auto.
  - split; vm_compute; reflexivity. Qed.

Print Assumptions C03_generated_entries_exits.
Print Assumptions C03_generated_parents_children.
Print Assumptions C03_generated_toposort_is_model.
Print Assumptions C03_generated_toposort_sound.
Print Assumptions C03_generated_toposort_rejects_cycles.
Print Assumptions C03_generated_toposort_accepts_dags.
Print Assumptions C03_generated_toposort_total.

(* ================================================================================================================ *)
(* Tie (T), second unit: concat_multi_inputs as translated on this run from the current source text of reservoirpy/ops.py
   (coq/gen/Gen_ops.v, by tools/vlib/py2coq_ops.py on top of py2coq_graph.py; it calls the generated
   find_parents_and_children of coq/gen/Gen_graphflow.v).  Parameters of the generated code: [ord_n k s] / [ord_e k s] = the
   order in which `list(new_nodes)` / `list(new_edges)` enumerate a set, [srt] = `sorted(edges, key=names)` -- ALL that is
   assumed about them is that they return a permutation of their argument; [isc x] = `type(x) in _MULTI_INPUTS_OPS`
   (= (Concat,), pinned); [new_concat 0 v] = the object created by `Concat()` in the loop iteration for node v, playing the
   role of [nm v] (the Fanin hypotheses: it is new, and different for different nodes). *)
From RV Require gen.Gen_ops proofs.Gen_ops_eq.

Section GeneratedOps.
Variable ord_n : nat -> list node -> list node.
Variable ord_e : nat -> list edge -> list edge.
Variable srt : list edge -> list edge.
Variable isc : node -> bool.
Variable new_concat : nat -> node -> node.
Hypothesis Hord_n : forall k s, Permutation (ord_n k s) s.
Hypothesis Hord_e : forall k s, Permutation (ord_e k s) s.
Hypothesis Hsrt : forall l, Permutation (srt l) l.
Let gen := Gen_ops.GenOps.concat_multi_inputs ord_n ord_e srt isc new_concat.
Let nm := new_concat 0.

(* the generated concat_multi_inputs returns the model's node set and edge set (both sides duplicate-free, same elements;
   the order of `list(<set>)` is not claimed) -- for EVERY nodes / edges arguments *)
Theorem C03_generated_concat_is_model (V : list node) (E : list edge) :
  (NoDup (fst (gen V E)) /\ NoDup (fst (cmi isc nm V E)) /\ forall x, In x (fst (gen V E)) <-> In x (fst (cmi isc nm V E))) /\
  (NoDup (snd (gen V E)) /\ NoDup (snd (cmi isc nm V E)) /\ forall e, In e (snd (gen V E)) <-> In e (snd (cmi isc nm V E))).
Proof. exact (Gen_ops_eq.gen_cmi_is_model ord_n ord_e srt isc new_concat Hord_n Hord_e Hsrt V E). Qed.

(* C03_fanin_once, about the translated code: a non-Concat node with in-degree > 1 gets exactly one parent, the new
   Concat, which has exactly one child and whose parents are exactly the former parents, each once *)
Theorem C03_generated_concat_insertion (V : list node) (E : list edge) (v : node) :
  wf V E -> (forall v, In v V -> ~ In (nm v) V) -> (forall u v, In u V -> In v V -> nm u = nm v -> u = v) ->
  In v V -> isc v = false -> 1 < indeg E v ->
  In (nm v) (fst (gen V E)) /\ parents (snd (gen V E)) v = [nm v] /\ children (snd (gen V E)) (nm v) = [v] /\
  NoDup (parents (snd (gen V E)) (nm v)) /\ (forall p, In p (parents (snd (gen V E)) (nm v)) <-> In (p, v) E).
Proof. intros Hwf Hfresh Hinj.
  exact (Gen_ops_eq.gen_cmi_fanin_once ord_n ord_e srt isc new_concat Hord_n Hord_e Hsrt V E Hwf Hfresh Hinj v). Qed.

(* C03_fanin_others_unchanged, about the translated code *)
Theorem C03_generated_concat_others_unchanged (V : list node) (E : list edge) (v p : node) :
  (forall v, In v V -> ~ In (nm v) V) -> (forall u v, In u V -> In v V -> nm u = nm v -> u = v) ->
  In v V -> (isc v = true \/ indeg E v <= 1) -> (In (p, v) (snd (gen V E)) <-> In (p, v) E).
Proof. intros Hfresh Hinj.
  exact (Gen_ops_eq.gen_cmi_others_unchanged ord_n ord_e srt isc new_concat Hord_n Hord_e Hsrt V E Hfresh Hinj v p). Qed.
End GeneratedOps.

(* non-vacuity: the generated code run on the diamond 0 -> {1,2} -> 3 (3 is wrapped by the Concat 103) and on a graph
   whose fan-in node 3 is itself a Concat (nothing inserted), identity for the three order parameters *)
Example C03_generated_concat_example :
  let idn := fun (_ : nat) (s : list node) => s in let ide := fun (_ : nat) (s : list edge) => s in
  let srt := fun l : list edge => l in let nc := fun (_ : nat) v => 100 + v in
  Gen_ops.GenOps.concat_multi_inputs idn ide srt (fun _ => false) nc [0; 1; 2; 3] [(0, 1); (0, 2); (1, 3); (2, 3)]
    = ([0; 1; 2; 103; 3], [(0, 1); (0, 2); (1, 103); (2, 103); (103, 3)]) /\
  Gen_ops.GenOps.concat_multi_inputs idn ide srt (Nat.eqb 3) nc [0; 1; 2; 3] [(0, 1); (0, 2); (1, 3); (2, 3)]
    = ([0; 1; 2; 3], [(0, 1); (0, 2); (1, 3); (2, 3)]) /\
  wf [0; 1; 2; 3] [(0, 1); (0, 2); (1, 3); (2, 3)] /\ 1 < indeg [(0, 1); (0, 2); (1, 3); (2, 3)] 3.
Proof. cbv zeta. split; [vm_compute; reflexivity|]. split; [vm_compute; reflexivity|]. split.
  - intros e He. simpl in He. repeat (destruct He as [<-|He]; [simpl; auto 10|]). destruct He.
  - vm_compute. auto. Qed.

Print Assumptions C03_generated_concat_is_model.
Print Assumptions C03_generated_concat_insertion.
Print Assumptions C03_generated_concat_others_unchanged.

(* ---- tie (T), second unit, continued: ops._link_1to1 as translated on this run (same generated file).  An operand (Node or
   Model) is the identity [n] of the Python object; [is_model n] / [is_frozen_model n] = isinstance(n, Model / FrozenModel);
   [attr_nodes n] ... = the property reads n.nodes, n.edges, n.input_nodes, n.output_nodes; [is_initialized], [output_dim],
   [input_dim], [dim_eqb] = the attributes and the `==` used by the dimension check.  [C03_repr n a]: the object n is what the
   hand model calls the operand [a] (a bare node, or a non-frozen Model with those four fields). *)
Section GeneratedLink.
Variables is_model is_frozen_model is_initialized : node -> bool.
Variables attr_nodes attr_input_nodes attr_output_nodes : node -> list node.
Variable attr_edges : node -> list edge.
Variable dim : Type.
Variables output_dim input_dim : node -> dim.
Variable dim_eqb : dim -> dim -> bool.
Let gen_link := Gen_ops.GenOps._link_1to1 is_model is_frozen_model is_initialized attr_nodes attr_input_nodes attr_output_nodes
  attr_edges dim output_dim input_dim dim_eqb.

Definition C03_repr (n : node) (a : value) : Prop :=
  match a with
  | VNode k => n = k /\ is_model n = false /\ is_frozen_model n = false
  | VModel m => is_model n = true /\ is_frozen_model n = false /\ attr_nodes n = mNodes m /\ attr_edges n = mEdges m /\
                attr_input_nodes n = mIn m /\ attr_output_nodes n = mOut m
  end.
(* both ends initialised and sender.output_dim != receiver.input_dim *)
Definition C03_dim_clash (e : edge) : bool :=
  is_initialized (fst e) && (is_initialized (snd e) && negb (dim_eqb (output_dim (fst e)) (input_dim (snd e)))).

(* the generated _link_1to1 returns EXACTLY the two lists of the model's link_1to1 (same order, same duplicates), unless a new
   edge joins two initialised nodes of different dimensions: then (and only then) it raises ValueError *)
Theorem C03_generated_link_1to1_is_model (n1 n2 : node) (a b : value) : C03_repr n1 a -> C03_repr n2 b ->
  gen_link n1 n2 = if existsb C03_dim_clash (list_prod (v_outs a) (v_ins b)) then PyColl.Exc PyColl.ValueError
                   else PyColl.Val (link_1to1 a b).
Proof. exact (Gen_ops_eq.gen_link_1to1_is_model is_model is_frozen_model is_initialized attr_nodes attr_input_nodes
  attr_output_nodes attr_edges dim output_dim input_dim dim_eqb n1 n2 a b). Qed.

Theorem C03_generated_link_1to1_ok (n1 n2 : node) (a b : value) : C03_repr n1 a -> C03_repr n2 b ->
  (forall s r, In s (v_outs a) -> In r (v_ins b) -> C03_dim_clash (s, r) = false) ->
  gen_link n1 n2 = PyColl.Val (link_1to1 a b).
Proof. exact (Gen_ops_eq.gen_link_1to1_ok is_model is_frozen_model is_initialized attr_nodes attr_input_nodes
  attr_output_nodes attr_edges dim output_dim input_dim dim_eqb n1 n2 a b). Qed.
End GeneratedLink.

(* non-vacuity: object 10 is the Model {0 -> 1} (entry 0, exit 1), object 2 a bare node; nothing initialised: 10 >> 2 gives
   nodes [0; 1; 2], edges [(0, 1); (1, 2)];  with 1 and 2 initialised and different dimensions: ValueError *)
Example C03_generated_link_example :
  let is_model := Nat.eqb 10 in let frozen := fun _ : node => false in
  let an := fun n => if Nat.eqb n 10 then [0; 1] else [] in let ai := fun n => if Nat.eqb n 10 then [0] else [] in
  let ao := fun n => if Nat.eqb n 10 then [1] else [] in let ae := fun n => if Nat.eqb n 10 then [(0, 1)] else [] in
  let m := {| mNodes := [0; 1]; mEdges := [(0, 1)]; mIn := [0]; mOut := [1] |} in
  C03_repr is_model frozen an ai ao ae 10 (VModel m) /\ C03_repr is_model frozen an ai ao ae 2 (VNode 2) /\
  Gen_ops.GenOps._link_1to1 is_model frozen (fun _ => false) an ai ao ae nat (fun n => n) (fun n => n) Nat.eqb 10 2
    = PyColl.Val ([0; 1; 2], [(0, 1); (1, 2)]) /\
  Gen_ops.GenOps._link_1to1 is_model frozen (fun _ => true) an ai ao ae nat (fun n => n) (fun n => n) Nat.eqb 10 2
    = PyColl.Exc PyColl.ValueError.
Proof. cbv zeta. repeat split; vm_compute; reflexivity. Qed.

Print Assumptions C03_generated_link_1to1_is_model.
Print Assumptions C03_generated_link_1to1_ok.

(* ---- tie (T), second unit, continued: ops.merge as translated on this run (same generated file; vocabulary base/PyColl4.v:
   [py4] = a result that may also be TypeError, [operand] = one element of `*models` (an object, or a list / tuple of objects),
   [MNew V E] = `Model(nodes=V, edges=E, name=name)`, [MUpdate m V E] = `m.update_graph(V, E)`; the two CALLS are not
   translated: Model.__init__ / update_graph stay tied by the hand model Graph.mk_model / Graph.update_graph and the
   correspondence run).  [is_node n] = isinstance(n, _Node).  [C03_mrepr n a]: the object n is a _Node and is what the hand
   model calls the operand [a]; the hand model's operand list [bs] corresponds to the FLATTENED `*models`. *)
From RV Require base.PyColl4.

Section GeneratedMerge.
Variable ord_n : nat -> list node -> list node.
Variable ord_e : nat -> list edge -> list edge.
Hypothesis Hord_n : forall k s, Permutation (ord_n k s) s.
Hypothesis Hord_e : forall k s, Permutation (ord_e k s) s.
Variables is_model is_frozen_model is_node : node -> bool.
Variables attr_nodes attr_input_nodes attr_output_nodes : node -> list node.
Variable attr_edges : node -> list edge.
Let gen_merge := Gen_ops.GenOps.merge ord_n ord_e is_model is_frozen_model is_node attr_nodes attr_edges.

Definition C03_mrepr (n : node) (a : value) : Prop :=
  C03_repr is_model is_frozen_model attr_nodes attr_input_nodes attr_output_nodes attr_edges n a /\ is_node n = true.
Definition C03_same_set {A} (l m : list A) : Prop := NoDup l /\ NoDup m /\ forall x, In x l <-> In x m.

(* merge(model, *models) / `model & other`: the generated merge asks for a NEW Model whose node list / edge list enumerate,
   without duplicates, exactly the node set / edge set of the model's merge_graph_l (the order of `list(<set>)` is not claimed) *)
Theorem C03_generated_merge_is_model (model : node) (models : list PyColl4.operand) (name : unit) (a : value) (bs : list value) :
  C03_mrepr model a -> Forall2 C03_mrepr (flat_map PyColl4.opnd_flat models) bs ->
  exists V E, gen_merge model models false name = PyColl4.Val4 (PyColl4.MNew V E) /\
    C03_same_set V (fst (merge_graph_l a bs)) /\ C03_same_set E (snd (merge_graph_l a bs)).
Proof. exact (Gen_ops_eq.gen_merge_is_model ord_n ord_e Hord_n Hord_e is_model is_frozen_model is_node attr_nodes
  attr_input_nodes attr_output_nodes attr_edges model models name a bs). Qed.

(* merge(.., inplace=True) / `model &= other` on a non-frozen Model: model.update_graph receives the union over the OPERANDS *)
Theorem C03_generated_merge_inplace (model : node) (models : list PyColl4.operand) (name : unit) (m : Graph.model) (bs : list value) :
  C03_mrepr model (VModel m) -> Forall2 C03_mrepr (flat_map PyColl4.opnd_flat models) bs ->
  exists V E, gen_merge model models true name = PyColl4.Val4 (PyColl4.MUpdate model V E) /\
    C03_same_set V (nodup Nat.eq_dec (flat_map v_nodes bs)) /\ C03_same_set E (nodup edge_eq_dec (flat_map v_edges bs)).
Proof. exact (Gen_ops_eq.gen_merge_inplace ord_n ord_e is_model is_frozen_model is_node attr_nodes
  attr_input_nodes attr_output_nodes attr_edges model models name m bs). Qed.

(* in place on a bare node: ValueError;  a left operand that is not a _Node: TypeError *)
Theorem C03_generated_merge_inplace_node (model : node) (models : list PyColl4.operand) (name : unit) (k : node) (bs : list value) :
  C03_mrepr model (VNode k) -> Forall2 C03_mrepr (flat_map PyColl4.opnd_flat models) bs ->
  gen_merge model models true name = PyColl4.Exc4 (PyColl4.Py PyColl.ValueError).
Proof. exact (Gen_ops_eq.gen_merge_inplace_node ord_n ord_e is_model is_frozen_model is_node attr_nodes
  attr_input_nodes attr_output_nodes attr_edges model models name k bs). Qed.

Theorem C03_generated_merge_not_node (model : node) (models : list PyColl4.operand) (inplace : bool) (name : unit) :
  is_node model = false -> gen_merge model models inplace name = PyColl4.Exc4 PyColl4.TypeError.
Proof. exact (Gen_ops_eq.gen_merge_not_node ord_n ord_e is_model is_frozen_model is_node attr_nodes attr_edges
  model models inplace name). Qed.
End GeneratedMerge.

(* non-vacuity: object 10 is the Model {0 -> 1}, objects 1, 2 bare nodes, object 7 not a _Node:
   merge(10, 2, [1, 2]) asks for Model(nodes=[2; 1; 0], edges=[(0, 1)]);  merge(10, 7): TypeError *)
Example C03_generated_merge_example :
  let idn := fun (_ : nat) (s : list node) => s in let ide := fun (_ : nat) (s : list edge) => s in
  let is_model := Nat.eqb 10 in let frozen := fun _ : node => false in let is_node := fun n => negb (Nat.eqb n 7) in
  let an := fun n => if Nat.eqb n 10 then [0; 1] else [] in let ae := fun n => if Nat.eqb n 10 then [(0, 1)] else [] in
  Gen_ops.GenOps.merge idn ide is_model frozen is_node an ae 10 [PyColl4.ONode 2; PyColl4.OSeq [1; 2]] false tt
    = PyColl4.Val4 (PyColl4.MNew [2; 1; 0] [(0, 1)]) /\
  Gen_ops.GenOps.merge idn ide is_model frozen is_node an ae 10 [PyColl4.ONode 7] false tt = PyColl4.Exc4 PyColl4.TypeError.
Proof. cbv zeta. split; vm_compute; reflexivity. Qed.

Print Assumptions C03_generated_merge_is_model.
Print Assumptions C03_generated_merge_inplace.
Print Assumptions C03_generated_merge_inplace_node.
Print Assumptions C03_generated_merge_not_node.

(* ---- tie (T), second unit, continued: ops.link (the many-to-many wrapper behind `>>`) as translated on this run (py2coq_ops v3,
   same generated file; `_check_all_nodes` is pinned by its exact source text, the callee `_link_1to1` is the generated one,
   lifted from py into py4 by [PyColl4.py4_lift]).  node1 / node2 are [operand]s: an object, or a Sequence of objects ([OSeq];
   a str / another Iterable is outside the representation); the hand model's lists [ls] / [rs] correspond to
   [opnd_flat node1] / [opnd_flat node2] (a non-sequence operand is the one-element list).  [MNew V E] =
   `Model(nodes=V, edges=E, name=name)`: the constructor call is not translated (Graph.mk_model, tie H). *)
Section GeneratedLinkN.
Variable ord_n : nat -> list node -> list node.
Variable ord_e : nat -> list edge -> list edge.
Hypothesis Hord_n : forall k s, Permutation (ord_n k s) s.
Hypothesis Hord_e : forall k s, Permutation (ord_e k s) s.
Variables is_model is_frozen_model is_initialized is_node : node -> bool.
Variables attr_nodes attr_input_nodes attr_output_nodes : node -> list node.
Variable attr_edges : node -> list edge.
Variable dim : Type.
Variables output_dim input_dim : node -> dim.
Variable dim_eqb : dim -> dim -> bool.
Let gen_linkN := Gen_ops.GenOps.link ord_n ord_e is_model is_frozen_model is_initialized is_node attr_nodes attr_input_nodes
  attr_output_nodes attr_edges dim output_dim input_dim dim_eqb.
Let lrepr := C03_mrepr is_model is_frozen_model is_node attr_nodes attr_input_nodes attr_output_nodes attr_edges.
Let clash := C03_dim_clash is_initialized dim output_dim input_dim dim_eqb.

(* link(node1, node2) / `a >> b`, `[a, ..] >> b`, `a >> [b, ..]`, link([..], [..]): when every element is a _Node that is a bare
   node or a non-frozen Model and no new edge joins two initialised nodes of different dimensions, the generated link asks for
   a NEW Model whose node list / edge list enumerate, without duplicates, exactly the node set / edge set of the model's
   link_graph (the order of `list(<set>)` is not claimed) *)
Theorem C03_generated_link_is_model (o1 o2 : PyColl4.operand) (name : unit) (ls rs : list value) :
  Forall2 lrepr (PyColl4.opnd_flat o1) ls -> Forall2 lrepr (PyColl4.opnd_flat o2) rs ->
  (forall a b, In a ls -> In b rs -> forall s r, In s (v_outs a) -> In r (v_ins b) -> clash (s, r) = false) ->
  exists V E, gen_linkN o1 o2 name = PyColl4.Val4 (PyColl4.MNew V E) /\
    C03_same_set V (fst (link_graph ls rs)) /\ C03_same_set E (snd (link_graph ls rs)).
Proof. exact (Gen_ops_eq.gen_link_is_model ord_n ord_e Hord_n Hord_e is_model is_frozen_model is_initialized is_node attr_nodes
  attr_input_nodes attr_output_nodes attr_edges dim output_dim input_dim dim_eqb o1 o2 name ls rs). Qed.

(* the same error cases as the source: an element that is not a _Node: TypeError (whatever else holds);  a FrozenModel among
   the operands / elements: TypeError *)
Theorem C03_generated_link_not_node (o1 o2 : PyColl4.operand) (name : unit) :
  forallb is_node (PyColl4.opnd_flat o1 ++ PyColl4.opnd_flat o2) = false -> gen_linkN o1 o2 name = PyColl4.Exc4 PyColl4.TypeError.
Proof. exact (Gen_ops_eq.gen_link_not_node ord_n ord_e is_model is_frozen_model is_initialized is_node attr_nodes
  attr_input_nodes attr_output_nodes attr_edges dim output_dim input_dim dim_eqb o1 o2 name). Qed.

Theorem C03_generated_link_frozen (o1 o2 : PyColl4.operand) (name : unit) :
  existsb is_frozen_model (PyColl4.opnd_flat o1 ++ PyColl4.opnd_flat o2) = true -> gen_linkN o1 o2 name = PyColl4.Exc4 PyColl4.TypeError.
Proof. exact (Gen_ops_eq.gen_link_frozen ord_n ord_e is_model is_frozen_model is_initialized is_node attr_nodes
  attr_input_nodes attr_output_nodes attr_edges dim output_dim input_dim dim_eqb o1 o2 name). Qed.
End GeneratedLinkN.

(* non-vacuity: object 10 is the Model {0 -> 1} (entry 0, exit 1), objects 2, 3 bare nodes, object 7 not a _Node, object 8 a
   FrozenModel; nothing initialised: link([10, 2], 3) asks for Model(nodes=[0; 1; 3; 2], edges=[(0, 1); (1, 3); (2, 3)]);
   link(10, [2, 7]) and link(8, 2): TypeError;  with 1 and 3 initialised and of different dimensions: ValueError *)
Example C03_generated_linkN_example :
  let idn := fun (_ : nat) (s : list node) => s in let ide := fun (_ : nat) (s : list edge) => s in
  let is_model := fun n => Nat.eqb n 10 || Nat.eqb n 8 in let frozen := Nat.eqb 8 in let is_node := fun n => negb (Nat.eqb n 7) in
  let an := fun n => if Nat.eqb n 10 then [0; 1] else [] in let ae := fun n => if Nat.eqb n 10 then [(0, 1)] else [] in
  let ai := fun n => if Nat.eqb n 10 then [0] else [] in let ao := fun n => if Nat.eqb n 10 then [1] else [] in
  let lk := fun init => Gen_ops.GenOps.link idn ide is_model frozen init is_node an ai ao ae nat (fun n => n) (fun _ => 0) Nat.eqb in
  lk (fun _ => false) (PyColl4.OSeq [10; 2]) (PyColl4.ONode 3) tt = PyColl4.Val4 (PyColl4.MNew [0; 1; 3; 2] [(0, 1); (1, 3); (2, 3)]) /\
  lk (fun _ => false) (PyColl4.ONode 10) (PyColl4.OSeq [2; 7]) tt = PyColl4.Exc4 PyColl4.TypeError /\
  lk (fun _ => false) (PyColl4.ONode 8) (PyColl4.ONode 2) tt = PyColl4.Exc4 PyColl4.TypeError /\
  lk (fun _ => true) (PyColl4.OSeq [10; 2]) (PyColl4.ONode 3) tt = PyColl4.Exc4 (PyColl4.Py PyColl.ValueError).
Proof. cbv zeta. repeat split; vm_compute; reflexivity. Qed.

Print Assumptions C03_generated_link_is_model.
Print Assumptions C03_generated_link_not_node.
Print Assumptions C03_generated_link_frozen.

(* the ValueError case of the generated link, in general (not only by computation): under the same correspondence (every element
   a _Node that is a bare node or a non-frozen Model), the generated link raises ValueError IF AND ONLY IF some pair
   (left element a, right element b) visited by the nested loops has a new edge (s in the outputs of a, r in the inputs of b)
   joining two initialised nodes of different dimensions; in every other case it asks for a new Model
   ([C03_generated_link_is_model]) *)
Section GeneratedLinkNClash.
Variable ord_n : nat -> list node -> list node.
Variable ord_e : nat -> list edge -> list edge.
Variables is_model is_frozen_model is_initialized is_node : node -> bool.
Variables attr_nodes attr_input_nodes attr_output_nodes : node -> list node.
Variable attr_edges : node -> list edge.
Variable dim : Type.
Variables output_dim input_dim : node -> dim.
Variable dim_eqb : dim -> dim -> bool.
Let gen_linkN := Gen_ops.GenOps.link ord_n ord_e is_model is_frozen_model is_initialized is_node attr_nodes attr_input_nodes
  attr_output_nodes attr_edges dim output_dim input_dim dim_eqb.
Let lrepr := C03_mrepr is_model is_frozen_model is_node attr_nodes attr_input_nodes attr_output_nodes attr_edges.
Let clash := C03_dim_clash is_initialized dim output_dim input_dim dim_eqb.

Theorem C03_generated_link_dim_clash (o1 o2 : PyColl4.operand) (name : unit) (ls rs : list value) :
  Forall2 lrepr (PyColl4.opnd_flat o1) ls -> Forall2 lrepr (PyColl4.opnd_flat o2) rs ->
  (gen_linkN o1 o2 name = PyColl4.Exc4 (PyColl4.Py PyColl.ValueError) <->
   exists a b s r, In a ls /\ In b rs /\ In s (v_outs a) /\ In r (v_ins b) /\ clash (s, r) = true).
Proof. exact (Gen_ops_eq.gen_link_dim_clash ord_n ord_e is_model is_frozen_model is_initialized is_node attr_nodes
  attr_input_nodes attr_output_nodes attr_edges dim output_dim input_dim dim_eqb o1 o2 name ls rs). Qed.
End GeneratedLinkNClash.

Print Assumptions C03_generated_link_dim_clash.

(* ------------------------------------------------------------------------------------------------------------------
   tie (T) for `Model.update_graph` (reservoirpy/model.py): gen/Gen_update.v is re-translated from the source on every run by
   tools/vlib/py2coq_upd.py (graph part translated statement by statement, bookkeeping tail pinned).  The generated
   update_graph, called as `m &= bs` calls it, unites the node / edge SETS of [merge_graph_l], inserts the Concats of [cmi],
   computes the [entries] / [exits] and returns (order, edges, entries, exits) with the order produced by the generated
   topological_sort (the C03_generated_toposort theorems) on exactly these. *)
From RV Require gen.Gen_update proofs.Gen_update_eq.

Section GeneratedUpdate.
Variable ord_n : nat -> list node -> list node.
Variable ord_e : nat -> list edge -> list edge.
Variable ord_c_n : nat -> list node -> list node.
Variable ord_c_e : nat -> list edge -> list edge.
Variable ord_g : nat -> list node -> list node.
Variable srt : list edge -> list edge.
Variable isc : node -> bool.
Variable new_concat : nat -> node -> node.
Hypothesis Hord_n : forall k s, Permutation (ord_n k s) s.
Hypothesis Hord_e : forall k s, Permutation (ord_e k s) s.
Hypothesis Hord_c_n : forall k s, Permutation (ord_c_n k s) s.
Hypothesis Hord_c_e : forall k s, Permutation (ord_c_e k s) s.
Hypothesis Hord_g : forall k s, Permutation (ord_g k s) s.
Hypothesis Hsrt : forall l, Permutation (srt l) l.

Theorem C03_generated_update_graph_is_model (m : model) (bs : list value) (fuel : nat) :
  let nn := flat_map v_nodes bs in let ne := flat_map v_edges bs in
  let V0 := ord_n 0 (PyColl.set_union (PyColl.py_set nn) (PyColl.py_set (mNodes m))) in
  let E0 := ord_e 0 (PyColl.set_union (PyColl.py_set ne) (PyColl.py_set (mEdges m))) in
  C03_same_set V0 (fst (merge_graph_l (VModel m) bs)) /\ C03_same_set E0 (snd (merge_graph_l (VModel m) bs)) /\
  exists V' E' ins outs,
    C03_same_set V' (fst (cmi isc (new_concat 0) V0 E0)) /\ C03_same_set E' (snd (cmi isc (new_concat 0) V0 E0)) /\
    (NoDup ins /\ forall v, In v ins <-> In v (entries V' E')) /\
    (NoDup outs /\ forall v, In v outs <-> In v (exits V' E')) /\
    Gen_update.GenUpdate.update_graph ord_n ord_e ord_c_n ord_c_e ord_g srt isc new_concat (mNodes m) (mEdges m) fuel nn ne =
      PyColl.py_bind (Gen_graphflow.GenGraphflow.topological_sort ord_g srt fuel V' E' (Some ins))
                     (fun l => PyColl.Val (l, E', ins, outs)).
Proof. exact (Gen_update_eq.gen_update_graph_is_model ord_n ord_e ord_c_n ord_c_e ord_g srt isc new_concat
  Hord_n Hord_e Hord_c_n Hord_c_e Hord_g Hsrt m bs fuel). Qed.
End GeneratedUpdate.

Print Assumptions C03_generated_update_graph_is_model.
