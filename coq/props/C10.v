(* C10 — iterative learning rules follow their recurrences exactly.
   Statement-only file: every theorem is closed by [exact <lemma>]; the proofs live in proofs/Online_loop_proofs.v
   (loop, gate, cursor, IP order: every Num instance) and proofs/Online_proofs.v (real numbers). *)
From Coq Require Import Reals List Arith Bool QArith.
From RV Require Import base.Num base.LA base.BSum model.Online proofs.Online_loop_proofs proofs.Online_proofs.
Import ListNotations.
Close Scope Q_scope.
Close Scope R_scope.

(* ------------------------------------------------------------------ RLS *)
(* A fresh RLS / FORCE(rls) readout (Wout = 0, bias = 0, P = I/alpha, alpha > 0) is trained by any number of successive
   train calls with any learn_every = k, on samples of the right dimensions.  With x~ = the input with the constant 1
   prepended when input_bias is on, [samples] = the steps selected by learn_every in each call,
       A = alpha I + sum x~ x~^T   and   B = sum x~ y^T :
   P is symmetric, P A = A P = I (P is the inverse of the regularised covariance), A W = B and W = P B
   (the stacked weights [bias; Wout] are THE solution of the ridge normal equations with lambda = alpha).
   No hypothesis on the denominators 1 + r^T P r: they are proved positive. *)
Theorem C10_rls_invariant (hb : bool) (idim odim k : nat) (alpha : R) (calls : list (list (list R * list R))) :
  (0 < alpha)%R ->
  Forall (Forall (fun p => length (fst p) = idim /\ length (snd p) = odim)) calls ->
  let samples := concat (map (selected k) calls) in
  let s := fst (train_calls (readout_forward odim) (rls_update hb) k (rls_init hb idim odim alpha) calls) in
  let n := adim hb idim in
  let P := Mof (Pm s) in let W := Mof (assemble hb s) in
  let A := (fun i j => alpha * delta i j +
              lsum (map (fun p : list R * list R => vget (augment hb (fst p)) i * vget (augment hb (fst p)) j) samples))%R in
  let B := (fun i j => lsum (map (fun p : list R * list R => vget (augment hb (fst p)) i * vget (snd p) j) samples))%R in
  (forall i j, i < n -> j < n -> P i j = P j i) /\
  (forall i j, i < n -> j < n -> bsum n (fun l => P i l * A l j)%R = delta i j) /\
  (forall i j, i < n -> j < n -> bsum n (fun l => A i l * P l j)%R = delta i j) /\
  (forall i j, i < n -> j < odim -> bsum n (fun l => A i l * W l j)%R = B i j) /\
  (forall i j, i < n -> j < odim -> W i j = bsum n (fun l => P i l * B l j)%R).
Proof. exact (rls_train_calls_invariant hb idim odim k alpha calls). Qed.

(* the same after a plain sequence of updates (no loop) *)
Theorem C10_rls_updates (hb : bool) (idim odim : nat) (alpha : R) (samples : list (list R * list R)) :
  (0 < alpha)%R -> Forall (fun p => length (fst p) = idim /\ length (snd p) = odim) samples ->
  let s := fold_left (learn1 (readout_forward odim) (rls_update hb)) samples (rls_init hb idim odim alpha) in
  let n := adim hb idim in
  let P := Mof (Pm s) in let W := Mof (assemble hb s) in
  let A := covA hb alpha samples in let B := crossB hb samples in
  (forall i j, i < n -> j < n -> P i j = P j i) /\
  (forall i j, i < n -> j < n -> bsum n (fun l => P i l * A l j)%R = delta i j) /\
  (forall i j, i < n -> j < n -> bsum n (fun l => A i l * P l j)%R = delta i j) /\
  (forall i j, i < n -> j < odim -> bsum n (fun l => A i l * W l j)%R = B i j) /\
  (forall i j, i < n -> j < odim -> W i j = bsum n (fun l => P i l * B l j)%R).
Proof. exact (rls_invariant hb idim odim alpha samples). Qed.

(* ------------------------------------------------------------------ LMS *)
(* one update is exactly  w <- w - alpha_k (prediction - target) x~^T  on the stacked weights, alpha_k being the
   schedule value under the cursor, and the cursor advances by one *)
Theorem C10_lms_step (sc : list R * R) (hb : bool) (idim odim : nat) (s : rdo (F:=R)) (x y : list R) :
  wfm idim odim (Wout s) -> length (bias s) = odim -> length x = idim -> length y = odim ->
  let s' := learn1 (readout_forward odim) (lms_update sc hb) s (x, y) in
  let a := sched_at sc (cursor s) in
  let r := augment hb x in
  let pred := readout_forward odim s x in
  cursor s' = S (cursor s) /\
  wfm idim odim (Wout s') /\ length (bias s') = odim /\ (hb = false -> bias s' = bias s) /\
  forall i j, i < (if hb then S idim else idim) -> j < odim ->
    mget (assemble hb s') i j = (mget (assemble hb s) i j - a * (vget pred j - vget y j) * vget r i)%R.
Proof. exact (lms_step sc hb idim odim s x y). Qed.

Section AnyNum.
Context {F : Type} `{Num F}.
Notation vec := (list F).

(* the schedule is consumed once per UPDATE: after a train call the cursor has advanced by the number of selected
   steps (never by the number of steps), and the j-th update of the call reads schedule entry cursor+j *)
Theorem C10_lms_cursor (sc : sched) (hb : bool) (odim k : nat) (s : rdo) (xy : list (vec * vec)) :
  cursor (fst (lms_train sc hb odim k s xy)) = cursor s + length (selected k xy) /\
  forall j, j < length (selected k xy) ->
    sched_at sc (cursor (fold_left (learn1 (readout_forward odim) (lms_update sc hb)) (firstn j (selected k xy)) s))
    = sched_at sc (cursor s + j).
Proof. split; [exact (lms_train_cursor sc hb odim k s xy) | exact (lms_rate_of_update sc hb odim (selected k xy) s)]. Qed.

(* ------------------------------------------------------------------ the online loop, any learner *)
Context {St : Type} (fwd : St -> vec -> vec) (upd : St -> vec -> vec -> vec -> St).

(* the learner after a train call = the learning step folded over the samples at the selected positions, in order;
   the selected positions are exactly { i < len | i mod learn_every = 0 } (position 0 of a one-step sequence included) *)
Theorem C10_gate (k : nat) (s : St) (xy : list (vec * vec)) :
  fst (train fwd upd k s xy) = fold_left (learn1 fwd upd) (selected k xy) s /\
  forall i p d, In (i, p) (filter (fun q => fst q mod k =? 0) (combine (seq 0 (length xy)) xy)) <->
                (i < length xy /\ i mod k = 0 /\ nth i xy d = p).
Proof. split; [exact (train_gate fwd upd k s xy) | exact (selected_positions k xy)]. Qed.

(* the i-th returned row is the forward pass of the learner as it is after exactly the first i steps,
   i.e. BEFORE step i's update *)
Theorem C10_output_pre_update (k : nat) (s : St) (xy : list (vec * vec)) (i : nat) (d : vec) (dx : vec * vec) :
  i < length xy ->
  nth i (snd (train fwd upd k s xy)) d =
    fwd (fst (train_loop fwd upd k (length xy =? 1) 0 s (firstn i xy))) (fst (nth i xy dx)).
Proof. exact (train_output_pre_update fwd upd k (length xy =? 1) s xy i d dx). Qed.

(* ------------------------------------------------------------------ intrinsic plasticity: order and count *)
(* a, b after fit(X, warmup) with [epochs]: warm-up calls first (no learning), then exactly one ip step per timestep,
   timesteps in order inside each sequence, sequences in order, the whole repeated [epochs] times *)
Theorem C10_ip_count (f : F -> F) (c : ipcfg) (epochs warmup : nat) (st : ipst) (seqs : list (list vec)) :
  ip_fit f c epochs warmup st seqs =
    fold_left (ip_step f c) (concat (repeat (concat (map (skipn warmup) seqs)) epochs))
      (fold_left (ip_call f c) (concat (map (firstn warmup) seqs)) st) /\
  length (concat (repeat (concat (map (skipn warmup) seqs)) epochs)) =
    epochs * list_sum (map (@length vec) (map (skipn warmup) seqs)).
Proof. split; [exact (ip_fit_flat f c epochs warmup st seqs) | exact (ip_step_count epochs (map (skipn warmup) seqs))]. Qed.

(* each unit is updated from its own pre-activation x_i, output y_i, gain a_i and bias b_i only *)
Theorem C10_ip_per_unit (tr : bool) (mu sigma eta : F) (xs ys a b : vec) (i : nat) :
  i < length xs -> length ys = length xs -> length a = length xs -> length b = length xs ->
  nth i (fst (ip_units tr mu sigma eta xs ys a b)) n0 = fst (ip_unit tr mu sigma eta (nth i xs n0) (nth i ys n0) (nth i a n0) (nth i b n0)) /\
  nth i (snd (ip_units tr mu sigma eta xs ys a b)) n0 = snd (ip_unit tr mu sigma eta (nth i xs n0) (nth i ys n0) (nth i a n0) (nth i b n0)).
Proof. exact (ip_units_nth tr mu sigma eta xs ys a b i). Qed.
End AnyNum.

(* ------------------------------------------------------------------ intrinsic plasticity: the gradient step *)
(* tanh rule (Gaussian target):  db = -eta(-mu/sigma^2 + y/sigma^2 (2 sigma^2 + 1 - y^2 + mu y)),
   sigmoid rule (exponential target): db = eta(1 - (2 + 1/mu) y + y^2/mu);  both: a <- a + eta/a + db x,  b <- b + db *)
Theorem C10_ip_step (x y a b mu sigma eta : R) :
  let dbt := (- eta * (- (mu / (sigma * sigma)) + (y / (sigma * sigma)) * (2 * (sigma * sigma) + 1 - y * y + mu * y)))%R in
  let dbs := (eta * (1 - (2 + 1 / mu) * y + (y * y) / mu))%R in
  ip_unit true mu sigma eta x y a b = (a + (eta / a + dbt * x), b + dbt)%R /\
  ip_unit false mu sigma eta x y a b = (a + (eta / a + dbs * x), b + dbs)%R.
Proof. split; [exact (ip_unit_tanh x y a b mu sigma eta) | exact (ip_unit_sigmoid x y a b mu sigma eta)]. Qed.

(* ------------------------------------------------------------------ non-vacuity (model run at Q) *)
Open Scope Q_scope.
(* learn_every = 2 on five steps selects steps 0, 2, 4 *)
Example C10_selected_example :
  selected (F:=Q) 2 [([1],[1]); ([2],[2]); ([3],[3]); ([4],[4]); ([5],[5])] = [([1],[1]); ([3],[3]); ([5],[5])].
Proof. vm_compute. reflexivity. Qed.
(* RLS, alpha = 1/2, bias on, learn_every = 2: after the call, [bias; Wout] solves (alpha I + sum x~ x~^T) W = sum x~ y^T
   exactly (Gauss-Jordan over Q), P is its inverse, and the outputs are the pre-update predictions *)
Definition ex_xy : list (list Q * list Q) := [([1; 2], [1]); ([1#2; -1], [2]); ([2; 1#4], [1#2]); ([1; 1], [-1]); ([-1; 3], [1#4])].
Example C10_rls_example :
  let '(s, outs) := rls_train (F:=Q) true 1 2 (rls_init true 2 1 (1#2)) ex_xy in
  let A := [[7#2; 2; 21#4]; [2; 13#2; -1#2]; [21#4; -1#2; 217#16]] in
  qsolve A [[7#4]; [7#4]; [23#8]] = Some (bias s :: Wout s) /\
  qsolve A [[1;0;0];[0;1;0];[0;0;1]] = Some (Pm s) /\
  nth 0 outs [] = [0] /\ nth 1 outs [] <> [0].
Proof. vm_compute. repeat split; try reflexivity. discriminate. Qed.
(* LMS with the schedule 1/2, 1/4, 1/8 and learn_every = 2 on five steps: exactly three rates are consumed *)
Example C10_lms_example :
  cursor (fst (lms_train (F:=Q) ([1#2; 1#4; 1#8; 1], 0) true 1 2 (lms_init 2 1) ex_xy)) = 3%nat.
Proof. vm_compute. reflexivity. Qed.
(* one tanh-rule step at mu = 1/4, sigma = 1/2, eta = 1/8 on (x, y, a, b) = (1/2, 1/4, 1, 0) *)
Example C10_ip_example : ip_unit (F:=Q) true (1#4) (1#2) (1#8) (1#2) (1#4) 1 0 = (35#32, (-1)#16).
Proof. vm_compute. reflexivity. Qed.
Close Scope Q_scope.
Close Scope R_scope.

Print Assumptions C10_rls_invariant.
Print Assumptions C10_rls_updates.
Print Assumptions C10_lms_step.
Print Assumptions C10_lms_cursor.
Print Assumptions C10_gate.
Print Assumptions C10_output_pre_update.
Print Assumptions C10_ip_count.
Print Assumptions C10_ip_per_unit.
Print Assumptions C10_ip_step.

(* ================================================================================================================ *)
(* Tie (T): the update rules GENERATED on this run from the current source text of nodes/readouts/rls.py, lms.py and base.py
   (coq/gen/Gen_online.v) ARE the model the theorems above are about: for every weight matrix, bias, P, sample and
   prediction (the target being non-empty and as wide as the prediction), with and without input_bias.                *)
From RV Require Import base.GenPrelude gen.Gen_online proofs.Gen_online_eq.

(* rls.train returns the new (Wout, bias, P) *)
Theorem C10_generated_rls_train_is_model (hb : bool) (s : rdo (F:=R)) (x y pred : list R) : length pred = length y -> y <> [] ->
  GenOnline.rls_train (Wout s) (bias s) hb pred (Pm s) x y
  = (Wout (rls_update hb s x y pred), bias (rls_update hb s x y pred), Pm (rls_update hb s x y pred)).
Proof. exact (gen_rls_train_eq hb s x y pred). Qed.

(* lms.train returns the new (Wout, bias); next(alpha) yields the schedule value under the cursor *)
Theorem C10_generated_lms_train_is_model (sc : sched (F:=R)) (hb : bool) (s : rdo (F:=R)) (x y pred : list R) :
  length pred = length y -> y <> [] ->
  GenOnline.lms_train (Wout s) (bias s) hb pred (sched_at sc (cursor s)) x y
  = (Wout (lms_update sc hb s x y pred), bias (lms_update sc hb s x y pred)).
Proof. exact (gen_lms_train_eq sc hb s x y pred). Qed.

(* readout_forward: (Wout.T @ x + bias.T).T *)
Theorem C10_generated_readout_forward_is_model (odim : nat) (s : rdo (F:=R)) (x : list R) :
  Wout s <> [] -> (forall row, In row (Wout s) -> length row = odim) ->
  GenOnline.readout_forward (Wout s) (bias s) x = readout_forward odim s x.
Proof. exact (gen_readout_forward_eq odim s x). Qed.

Print Assumptions C10_generated_rls_train_is_model.
Print Assumptions C10_generated_lms_train_is_model.
Print Assumptions C10_generated_readout_forward_is_model.

(* intrinsic plasticity: gaussian_gradients / exp_gradients / apply_gradients / ip as translated from the current source text of
   nodes/reservoirs/intrinsic_plasticity.py (coq/gen/Gen_ip.v) ARE the per-unit rule of C10_ip_per_unit / C10_ip_step, for every
   number of units; ip_activation is f(a * state + b) *)
From RV Require Import gen.Gen_ip proofs.Gen_ip_eq.

Theorem C10_generated_ip_is_model (tr : bool) (mu sigma eta : R) (xs ys a b : list R) :
  length ys = length xs -> length a = length xs -> length b = length xs ->
  GenIP.ip a b mu sigma eta tr xs ys = ip_units tr mu sigma eta xs ys a b.
Proof. exact (gen_ip_eq tr mu sigma eta xs ys a b). Qed.

Theorem C10_generated_ip_activation_is_model (f : list R -> list R) (st : ipst (F:=R)) (x : list R) :
  GenIP.ip_activation (ia st) (ib st) x f = f (ip_arg st x).
Proof. exact (gen_ip_activation_eq f st x). Qed.

Print Assumptions C10_generated_ip_is_model.
Print Assumptions C10_generated_ip_activation_is_model.

(* ================================================================================================================
   The R-vs-Q instance gap, closed by proof (base/NumHom.v, proofs/QR_bridge_C10.v).
   The theorems above are about model/Online.v at F := R; the correspondence run (run/RunC10.v: chk_rls, chk_lms, chk_ip)
   evaluates the SAME term at F := Q.  [Q2R] is a homomorphism of the [Num] class, so every function of the model commutes with
   the entry-wise embedding ([qv2r], [qm2r]; [rdo2r]: Wout, bias, P embedded, cursor unchanged; [xy2r]: a sample;
   [sched2r]: the learning-rate schedule): running at Q and embedding = running at R on the embedded data.
   Hence [chk_rls / chk_lms ... = true] says that the learned state and the outputs of the R-MODEL OF THE THEOREMS on those
   rational samples are within 1e-9 of what reservoirpy's node holds and returned.
   Division by 1 + r'Pr: NO side condition is needed.  The class division is total with x/0 = 0 at both instances
   (Qinv 0 = 0, and Rinv_0 in Coq 8.16), so Q2R (a / b) = Q2R a / Q2R b unconditionally; that the denominator is in fact
   positive on the runs is C10_rls_invariant's business (alpha > 0), not the embedding's. *)
From RV Require Import base.NumHom proofs.QR_bridge_C10.

Theorem C10_Qforward_embeds (odim : nat) (s : rdo (F:=Q)) (x : list Q) :
  qv2r (readout_forward odim s x) = readout_forward odim (rdo2r s) (qv2r x).
Proof. exact (Qforward_embeds odim s x). Qed.

(* one RLS step: the gain 1/(1 + r'Pr) and the whole update (P, stacked weights, bias split) *)
Theorem C10_Qrls_embeds (hb : bool) (s : rdo (F:=Q)) (x y p : list Q) :
  Q2R (rls_gain (Pm s) (augment hb x)) = rls_gain (Pm (rdo2r s)) (augment hb (qv2r x)) /\
  rdo2r (rls_update hb s x y p) = rls_update hb (rdo2r s) (qv2r x) (qv2r y) (qv2r p).
Proof. exact (Qrls_embeds hb s x y p). Qed.

(* one LMS step, with the schedule value under the cursor *)
Theorem C10_Qlms_embeds (sc : sched (F:=Q)) (hb : bool) (s : rdo (F:=Q)) (x y p : list Q) :
  rdo2r (lms_update sc hb s x y p) = lms_update (sched2r sc) hb (rdo2r s) (qv2r x) (qv2r y) (qv2r p).
Proof. exact (Qlms_embeds sc hb s x y p). Qed.

(* the whole online loop from the fresh node (exactly the term chk_rls / chk_lms evaluate): any learn_every, any list of
   successive train calls; the final learned state and every returned row *)
Theorem C10_Qrls_train_calls_embed (hb : bool) (idim odim : nat) (alpha : Q) (k : nat) (calls : list (list (list Q * list Q))) :
  let rQ := train_calls (readout_forward odim) (rls_update hb) k (rls_init hb idim odim alpha) calls in
  (rdo2r (fst rQ), map qm2r (snd rQ))
  = train_calls (readout_forward odim) (rls_update hb) k (rls_init hb idim odim (Q2R alpha)) (map (map xy2r) calls).
Proof. exact (Qrls_train_calls_embed hb idim odim alpha k calls). Qed.

Theorem C10_Qlms_train_calls_embed (sc : sched (F:=Q)) (hb : bool) (idim odim k : nat) (calls : list (list (list Q * list Q))) :
  let rQ := train_calls (readout_forward odim) (lms_update sc hb) k (lms_init idim odim) calls in
  (rdo2r (fst rQ), map qm2r (snd rQ))
  = train_calls (readout_forward odim) (lms_update (sched2r sc) hb) k (lms_init idim odim) (map (map xy2r) calls).
Proof. exact (Qlms_train_calls_embed sc hb idim odim k calls). Qed.

(* intrinsic plasticity: one learning step given the activation value (the term chk_ip evaluates) *)
Theorem C10_Qip_step_embeds (c : ipcfg (F:=Q)) (st : ipst (F:=Q)) (u y : list Q) :
  eipst Q2R (ip_step_y c st u y) = ip_step_y (eipcfg Q2R c) (eipst Q2R st) (qv2r u) (qv2r y).
Proof. exact (Qip_step_embeds c st u y). Qed.

(* non-vacuity: RLS with bias, 2 inputs, alpha = 1/2, two samples: the R-model's learned state is the embedded Q result *)
Example C10_Qrls_train_calls_example :
  train_calls (readout_forward 1) (rls_update true) 1 (rls_init true 2 1 (Q2R (1#2)%Q)) (map (map xy2r) excalls)
  = (rdo2r {| Wout := [[(18#155)%Q]; [(-331#930)%Q]]; bias := [(193#930)%Q];
              Pm := [[(286#465)%Q; (-88#155)%Q; (-52#465)%Q]; [(-88#155)%Q; (272#155)%Q; (16#155)%Q];
                     [(-52#465)%Q; (16#155)%Q; (94#465)%Q]]; cursor := 0 |},
     map qm2r [[[0%Q]; [(-21#88)%Q]]]).
Proof. exact Qrls_train_calls_example. Qed.

Print Assumptions C10_Qforward_embeds.
Print Assumptions C10_Qrls_embeds.
Print Assumptions C10_Qlms_embeds.
Print Assumptions C10_Qrls_train_calls_embed.
Print Assumptions C10_Qlms_train_calls_embed.
Print Assumptions C10_Qip_step_embeds.

(* ---- the verdict of the correspondence runner, read at R ----
   [chk_rls] / [chk_lms] (run/RunC10.v) are the booleans evaluated at Q by vm_compute for every scenario (a list of successive
   train calls, some of which raise and must leave the node unchanged).  [calls_close fwd upd k s calls os] walks the same calls
   with the R-INSTANCE of the model on the embedded samples ([calls2r]) and compares, with the real inequality
   [rclose m o] := |m - o| <= 1e-9 * max(1,|m|), the returned rows and the learned (Wout, bias, P, cursor) after each call with
   the embedded observations.  A verdict [true] implies it: the correspondence run is a statement about the model of the
   theorems above. *)
From RV Require Import run.RunC10.

Theorem C10_chk_rls_is_about_R_model (hb : bool) (idim odim : nat) (alpha : Q) (k : nat)
      (calls : list (bool * list (list Q * list Q))) (os : list obs) :
  chk_rls hb idim odim alpha k calls os = true ->
  calls_close (readout_forward odim) (rls_update hb) k (rls_init hb idim odim (Q2R alpha)) (calls2r calls) os.
Proof. exact (chk_rls_is_about_R_model hb idim odim alpha k calls os). Qed.

Theorem C10_chk_lms_is_about_R_model (sc : list Q * Q) (hb : bool) (idim odim k : nat)
      (calls : list (bool * list (list Q * list Q))) (os : list obs) :
  chk_lms sc hb idim odim k calls os = true ->
  calls_close (readout_forward odim) (lms_update (sched2r sc) hb) k (lms_init idim odim) (calls2r calls) os.
Proof. exact (chk_lms_is_about_R_model sc hb idim odim k calls os). Qed.

(* what [calls_close] says, unfolded once (definitional) *)
Theorem C10_calls_close_unfold fwd upd k s (raises : bool) c cs o os :
  calls_close fwd upd k s ((raises, c) :: cs) (o :: os)
  = if raises then same_rdo_R s o /\ calls_close fwd upd k s cs os
    else mrclose (snd (train fwd upd k s c)) (qm2r (o_out o)) /\ same_rdo_R (fst (train fwd upd k s c)) o /\
         calls_close fwd upd k (fst (train fwd upd k s c)) cs os.
Proof. destruct raises; reflexivity. Qed.

(* non-vacuity: a scenario on which the runner answers true *)
Example C10_chk_rls_example :
  chk_rls true 2 1 (1#2)%Q 1 [(false, [([(1#2)%Q; (-1#1)%Q], [(3#4)%Q]); ([(1#4)%Q; (2#1)%Q], [(-1#2)%Q])])]
    [{| o_out := [[0%Q]; [(-21#88)%Q]]; o_W := [[(18#155)%Q]; [(-331#930)%Q]]; o_b := [(193#930)%Q];
        o_P := [[(286#465)%Q; (-88#155)%Q; (-52#465)%Q]; [(-88#155)%Q; (272#155)%Q; (16#155)%Q]; [(-52#465)%Q; (16#155)%Q; (94#465)%Q]];
        o_cur := None |}] = true.
Proof. exact chk_rls_example. Qed.

Print Assumptions C10_chk_rls_is_about_R_model.
Print Assumptions C10_chk_lms_is_about_R_model.

(* ================================================================================================================
   Tie (T) for the LOOP around the kernels: reservoirpy/_base.py :: train, translated on this run from the current source text
   (coq/gen/Gen_trainloop.v, translator tools/vlib/py2coq_loop.py, vocabulary base/LoopPrelude.v), IS the train loop of model/Online.v.
   The generated function is generic in the operations on the node; [gtrain fwd upd odim WS] (proofs/Gen_trainloop_eq.v) is the generated
   function on the node the hand model describes -- [world]: learned state [w_st] (forward [fwd]; learning step [upd], whose prediction is the
   node's current state), current state [w_cur], the log [w_proxy] of set_state_proxy calls, the values [w_teach] a registered teacher
   node will deliver -- under the context manager WS ([ws_plain]: from_state=None, stateful=True, reset=False).
   learn_every >= 1 (Python's i % 0 raises).                                                                                      *)
From RV Require Import base.LoopPrelude gen.Gen_trainloop proofs.Gen_trainloop_eq.
Close Scope Q_scope.
Close Scope R_scope.

Section GeneratedLoop.
Context {F : Type} `{Num F} {St : Type} (fwd : St -> list F -> list F) (upd : St -> list F -> list F -> list F -> St).
Notation vec := (list F).

(* every sequence X, targets from the teacher node / Y / absent, call_node on or off ([fwdc]: the forward function of the loop is the
   node's, or the never-changing current state), teachers forced or not: the learned state and the returned rows are Online.v's [train]
   on the samples the loop reads ([xy_of]: x = X[i], y = teacher value | Y[i] | nothing); the node's state is the last row;
   set_state_proxy has been called with every step's target iff force_teachers; the teacher has advanced by one value per step *)
Theorem C10_generated_train_loop_is_model (odim : nat) (w : world) (X : list vec) (Y : option (list vec)) (call_node force_teachers : bool)
      (learn_every : nat) (from_state : option vec) (stateful reset : bool) :
  (1 <= learn_every)%nat ->
  let T := w_teach w in
  let xy := xy_of X Y T 0 (length X) in
  let R := train (fwdc fwd call_node (w_cur w)) upd learn_every (w_st w) xy in
  gtrain fwd upd odim ws_plain w X Y call_node force_teachers learn_every from_state stateful reset =
    ({| w_st := fst R; w_cur := last (snd R) (w_cur w);
        w_proxy := w_proxy w ++ (if force_teachers then map (y_at Y T 0) (seq 0 (length X)) else []);
        w_teach := option_map (skipn (length X)) T |},
     snd R).
Proof. intros _. exact (gen_train_eq fwd upd odim w X Y call_node force_teachers learn_every from_state stateful reset). Qed.

(* targets given as an array: the samples are the rows of X and Y, paired *)
Theorem C10_generated_train_loop_arrays (odim : nat) (s : St) (c : vec) (pr : list (option vec)) (xy : list (vec * vec))
      (call_node force_teachers : bool) (learn_every : nat) (from_state : option vec) (stateful reset : bool) :
  (1 <= learn_every)%nat ->
  let w := {| w_st := s; w_cur := c; w_proxy := pr; w_teach := None |} in
  let R := train (fwdc fwd call_node c) upd learn_every s xy in
  gtrain fwd upd odim ws_plain w (map fst xy) (Some (map snd xy)) call_node force_teachers learn_every from_state stateful reset =
    ({| w_st := fst R; w_cur := last (snd R) c;
        w_proxy := pr ++ (if force_teachers then map (fun p => Some (snd p)) xy else []); w_teach := None |}, snd R).
Proof. intros _. exact (gen_train_arrays_eq fwd upd odim s c pr xy call_node force_teachers learn_every from_state stateful reset). Qed.

(* a registered teacher node (delivering ys, then more): its values are the targets WHATEVER Y is *)
Theorem C10_generated_train_loop_teacher (odim : nat) (s : St) (c : vec) (pr : list (option vec)) (xs ys more : list vec) (Y : option (list vec))
      (call_node force_teachers : bool) (learn_every : nat) (from_state : option vec) (stateful reset : bool) :
  (1 <= learn_every)%nat -> length ys = length xs ->
  let w := {| w_st := s; w_cur := c; w_proxy := pr; w_teach := Some (ys ++ more) |} in
  let R := train (fwdc fwd call_node c) upd learn_every s (combine xs ys) in
  gtrain fwd upd odim ws_plain w xs Y call_node force_teachers learn_every from_state stateful reset =
    ({| w_st := fst R; w_cur := last (snd R) c; w_proxy := pr ++ (if force_teachers then map Some ys else []); w_teach := Some more |}, snd R).
Proof. intros _. exact (gen_train_teacher_eq fwd upd odim s c pr xs ys more Y call_node force_teachers learn_every from_state stateful reset). Qed.

(* under ANY context manager WS (from_state / stateful / reset: C08's subject) that depends only on what its body computes, the generated
   train is WS applied to the loop above *)
Theorem C10_generated_train_loop_with_state (odim : nat)
      (WS : forall A : Type, world (St:=St) -> option vec -> bool -> bool -> (world -> world * A) -> world * A) :
  (forall A w fs sf rs (b1 b2 : world -> world * A), (forall w', b1 w' = b2 w') -> WS A w fs sf rs b1 = WS A w fs sf rs b2) ->
  forall w X Y call_node force_teachers learn_every from_state stateful reset,
  gtrain fwd upd odim WS w X Y call_node force_teachers learn_every from_state stateful reset =
  WS (list vec) w from_state stateful reset (fun w' => gtrain fwd upd odim ws_plain w' X Y call_node force_teachers learn_every None true false).
Proof. exact (gen_train_under_with_state fwd upd odim WS). Qed.

(* C10_gate for the generated loop: the learner after the call = the learning step folded over the samples at positions i mod learn_every = 0 *)
Theorem C10_generated_train_loop_gate (odim : nat) (s : St) (c : vec) (pr : list (option vec)) (xy : list (vec * vec))
      (call_node force_teachers : bool) (learn_every : nat) (from_state : option vec) (stateful reset : bool) :
  (1 <= learn_every)%nat ->
  let w := {| w_st := s; w_cur := c; w_proxy := pr; w_teach := None |} in
  w_st (fst (gtrain fwd upd odim ws_plain w (map fst xy) (Some (map snd xy)) call_node force_teachers learn_every from_state stateful reset))
  = fold_left (learn1 (fwdc fwd call_node c) upd) (selected learn_every xy) s.
Proof. intros _. exact (gen_train_gate fwd upd odim s c pr xy call_node force_teachers learn_every from_state stateful reset). Qed.

(* C10_output_pre_update for the generated loop: row i is the forward pass of the learner as it is BEFORE step i's update *)
Theorem C10_generated_train_loop_output_pre_update (odim : nat) (s : St) (c : vec) (pr : list (option vec)) (xy : list (vec * vec))
      (call_node force_teachers : bool) (learn_every : nat) (from_state : option vec) (stateful reset : bool) (i : nat) (d : vec) (dx : vec * vec) :
  (1 <= learn_every)%nat -> (i < length xy)%nat ->
  let w := {| w_st := s; w_cur := c; w_proxy := pr; w_teach := None |} in
  nth i (snd (gtrain fwd upd odim ws_plain w (map fst xy) (Some (map snd xy)) call_node force_teachers learn_every from_state stateful reset)) d
  = fwdc fwd call_node c (fst (train_loop (fwdc fwd call_node c) upd learn_every (length xy =? 1) 0 s (firstn i xy))) (fst (nth i xy dx)).
Proof. intros _. exact (gen_train_output_pre_update fwd upd odim s c pr xy call_node force_teachers learn_every from_state stateful reset i d dx). Qed.

(* set_state_proxy: once per step with that step's target when teachers are forced, never otherwise *)
Theorem C10_generated_train_loop_proxy (odim : nat) (s : St) (c : vec) (pr : list (option vec)) (xy : list (vec * vec))
      (call_node force_teachers : bool) (learn_every : nat) (from_state : option vec) (stateful reset : bool) :
  (1 <= learn_every)%nat ->
  let w := {| w_st := s; w_cur := c; w_proxy := pr; w_teach := None |} in
  w_proxy (fst (gtrain fwd upd odim ws_plain w (map fst xy) (Some (map snd xy)) call_node force_teachers learn_every from_state stateful reset))
  = pr ++ (if force_teachers then map (fun p => Some (snd p)) xy else []).
Proof. intros _. exact (gen_train_proxy fwd upd odim s c pr xy call_node force_teachers learn_every from_state stateful reset). Qed.
End GeneratedLoop.

(* non-vacuity: the GENERATED loop run at Q on the RLS node of C10_rls_example (alpha = 1/2, bias, learn_every = 2, five steps) returns the rows
   and learns the weights of the hand model's rls_train; with call_node off every row is the unchanged current state *)
Example C10_generated_train_loop_example :
  let w0 := {| w_st := rls_init (F:=Q) true 2 1 (1#2)%Q; w_cur := [0%Q]; w_proxy := []; w_teach := None |} in
  let g := gtrain (readout_forward 1) (rls_update true) 1 ws_plain w0 (map fst ex_xy) (Some (map snd ex_xy)) true false 2 None true false in
  let g' := gtrain (readout_forward 1) (rls_update true) 1 ws_plain w0 (map fst ex_xy) (Some (map snd ex_xy)) false true 2 None true false in
  (w_st (fst g), snd g) = rls_train true 1 2 (rls_init true 2 1 (1#2)%Q) ex_xy /\ nth 1 (snd g) [] <> [0%Q] /\ w_proxy (fst g) = [] /\
  snd g' = repeat [0%Q] 5 /\ length (w_proxy (fst g')) = 5%nat.
Proof. vm_compute. repeat split; try reflexivity. discriminate. Qed.

Print Assumptions C10_generated_train_loop_is_model.
Print Assumptions C10_generated_train_loop_arrays.
Print Assumptions C10_generated_train_loop_teacher.
Print Assumptions C10_generated_train_loop_with_state.
Print Assumptions C10_generated_train_loop_gate.
Print Assumptions C10_generated_train_loop_output_pre_update.
Print Assumptions C10_generated_train_loop_proxy.

(* ---- the wrapper reservoirpy/node.py :: Node.train (translated on this run into the `outcome` monad of base/LoopPrelude.v: a computation
   finishes with a value or raises, and leaves a world behind in both cases).  There is no hand model of it: the statements are about the
   GENERATED definition [gnode ...] = GenTrainLoop.node_method_train on ARBITRARY operations (every operation on the node, check_xy, initialize,
   the context manager: Section variables, nothing assumed).  [run_loop] = the generated loop with call_node := Node.train's `call` and
   force_teachers := force_teachers, followed by the un-registration of the teacher. *)
Section GeneratedNodeTrain.
Context {F : Type} `{Num F} {W UX UY : Type}.
Notation vec := (list F).
Notation mat := (list (list F)).
Variables (output_dim : W -> nat) (has_teacher : W -> bool) (teacher_call : W -> W * vec) (bcall : W -> vec -> W * vec) (nstate : W -> vec)
          (set_proxy : W -> option vec -> W) (ntrain : W -> vec -> option vec -> W)
          (WS : forall A : Type, W -> option vec -> bool -> bool -> (W -> W * A) -> W * A).
Variables (online : W -> bool) (check_xy : W -> UX -> UY -> outcome W (mat * option mat)) (initialized : W -> bool) (has_iter : UY -> bool)
          (initialize : W -> vec -> option vec -> outcome W unit) (init_buffers : W -> outcome W unit) (unregister : W -> W).
Notation gnode := (gnode output_dim has_teacher teacher_call bcall nstate set_proxy ntrain WS online check_xy initialized has_iter initialize init_buffers unregister).
Notation run_loop := (run_loop output_dim has_teacher teacher_call bcall nstate set_proxy ntrain WS unregister).
Notation init_then_loop := (init_then_loop output_dim has_teacher teacher_call bcall nstate set_proxy ntrain WS initialize init_buffers unregister).

(* no online rule: TypeError and nothing is touched; data refused by check_xy: its exception, the world as check_xy left it *)
Theorem C10_generated_node_train_refusals (w : W) (X : UX) (Y : UY) (force_teachers call : bool) (learn_every : nat) (fs : option vec) (sf rs : bool) :
  (online w = false -> gnode w X Y force_teachers call learn_every fs sf rs = Raised w TypeError) /\
  (forall w1 e, online w = true -> check_xy w X Y = Raised w1 e -> gnode w X Y force_teachers call learn_every fs sf rs = Raised w1 e).
Proof.
  split; [exact (gnode_refuses _ _ _ _ _ _ _ _ _ _ _ _ _ _ _ w X Y force_teachers call learn_every fs sf rs)
         | intros w1 e; exact (gnode_check_raises _ _ _ _ _ _ _ _ _ _ _ _ _ _ _ w X Y force_teachers call learn_every fs sf rs w1 e)].
Qed.

(* an initialised node: exactly the loop on the arrays check_xy returned (call_node = `call`), then the teacher is un-registered *)
Theorem C10_generated_node_train_runs_loop (w : W) (X : UX) (Y : UY) (force_teachers call : bool) (learn_every : nat) (fs : option vec) (sf rs : bool)
      (w1 : W) (X_ : mat) (Y_ : option mat) :
  online w = true -> check_xy w X Y = Done w1 (X_, Y_) -> initialized w1 = true ->
  gnode w X Y force_teachers call learn_every fs sf rs = run_loop w1 X_ Y_ force_teachers call learn_every fs sf rs.
Proof. exact (gnode_initialized _ _ _ _ _ _ _ _ _ _ _ _ _ _ _ w X Y force_teachers call learn_every fs sf rs w1 X_ Y_). Qed.

(* first use: initialize(x = X_[0], y = Y_[0] when Y is iterable, None otherwise), initialize_buffers, the loop, un-registration;
   an initialisation that raises still un-registers the teacher ([init_then_loop]) *)
Theorem C10_generated_node_train_first_use (w : W) (X : UX) (Y : UY) (force_teachers call : bool) (learn_every : nat) (fs : option vec) (sf rs : bool)
      (w1 : W) (x0 : vec) (Xr : mat) :
  online w = true -> initialized w1 = false ->
  (forall r Yr, check_xy w X Y = Done w1 (x0 :: Xr, Some (r :: Yr)) -> has_iter Y = true ->
     gnode w X Y force_teachers call learn_every fs sf rs = init_then_loop w1 x0 (Some r) (x0 :: Xr) (Some (r :: Yr)) force_teachers call learn_every fs sf rs) /\
  (forall Y_, check_xy w X Y = Done w1 (x0 :: Xr, Y_) -> has_iter Y = false ->
     gnode w X Y force_teachers call learn_every fs sf rs = init_then_loop w1 x0 None (x0 :: Xr) Y_ force_teachers call learn_every fs sf rs).
Proof.
  intros E I. split; [intros r Yr C HI; exact (gnode_first_use_with_target _ _ _ _ _ _ _ _ _ _ _ _ _ _ _ w X Y _ _ _ _ _ _ w1 x0 Xr r Yr E C I HI)
                     | intros Y_ C HI; exact (gnode_first_use_without_target _ _ _ _ _ _ _ _ _ _ _ _ _ _ _ w X Y _ _ _ _ _ _ w1 x0 Xr Y_ E C I HI)].
Qed.

(* once check_xy has accepted the data, every path of the call -- finishing or raising -- ends with the un-registration of the teacher *)
Theorem C10_generated_node_train_always_unregisters (w : W) (X : UX) (Y : UY) (force_teachers call : bool) (learn_every : nat) (fs : option vec)
      (sf rs : bool) (w1 : W) (p : mat * option mat) :
  online w = true -> check_xy w X Y = Done w1 p ->
  exists w', world_of (gnode w X Y force_teachers call learn_every fs sf rs) = unregister w'.
Proof. exact (gnode_always_unregisters _ _ _ _ _ _ _ _ _ _ _ _ _ _ _ w X Y force_teachers call learn_every fs sf rs w1 p). Qed.
End GeneratedNodeTrain.

Print Assumptions C10_generated_node_train_refusals.
Print Assumptions C10_generated_node_train_runs_loop.
Print Assumptions C10_generated_node_train_first_use.
Print Assumptions C10_generated_node_train_always_unregisters.
