(* C10 — iterative learning rules follow their recurrences exactly.
   Statement-only file: every theorem is closed by [exact <lemma>]; the proofs live in proofs/Online_loop_proofs.v
   (loop, gate, cursor, IP order: every Num instance) and proofs/Online_proofs.v (real numbers). *)
From Coq Require Import Reals List Arith Bool QArith.
From RV Require Import base.Num base.LA base.BSum model.Online proofs.Online_loop_proofs proofs.Online_proofs.
Import ListNotations.
Close Scope Q_scope.
Close Scope R_scope.

(* ------------------------------------------------------------------ RLS *)
(* A fresh RLS / FORCE(rls) readout (Wout = 0, bias = 0, P = I/alpha, alpha > 0) is trained by any number of successive
   train calls with any learn_every = k, on samples of the right dimensions.  With x~ = the input with the constant 1
   prepended when input_bias is on, [samples] = the steps selected by learn_every in each call,
       A = alpha I + sum x~ x~^T   and   B = sum x~ y^T :
   P is symmetric, P A = A P = I (P is the inverse of the regularised covariance), A W = B and W = P B
   (the stacked weights [bias; Wout] are THE solution of the ridge normal equations with lambda = alpha).
   No hypothesis on the denominators 1 + r^T P r: they are proved positive. *)
Theorem C10_rls_invariant (hb : bool) (idim odim k : nat) (alpha : R) (calls : list (list (list R * list R))) :
  (0 < alpha)%R ->
  Forall (Forall (fun p => length (fst p) = idim /\ length (snd p) = odim)) calls ->
  let samples := concat (map (selected k) calls) in
  let s := fst (train_calls (readout_forward odim) (rls_update hb) k (rls_init hb idim odim alpha) calls) in
  let n := adim hb idim in
  let P := Mof (Pm s) in let W := Mof (assemble hb s) in
  let A := (fun i j => alpha * delta i j +
              lsum (map (fun p : list R * list R => vget (augment hb (fst p)) i * vget (augment hb (fst p)) j) samples))%R in
  let B := (fun i j => lsum (map (fun p : list R * list R => vget (augment hb (fst p)) i * vget (snd p) j) samples))%R in
  (forall i j, i < n -> j < n -> P i j = P j i) /\
  (forall i j, i < n -> j < n -> bsum n (fun l => P i l * A l j)%R = delta i j) /\
  (forall i j, i < n -> j < n -> bsum n (fun l => A i l * P l j)%R = delta i j) /\
  (forall i j, i < n -> j < odim -> bsum n (fun l => A i l * W l j)%R = B i j) /\
  (forall i j, i < n -> j < odim -> W i j = bsum n (fun l => P i l * B l j)%R).
Proof. exact (rls_train_calls_invariant hb idim odim k alpha calls). Qed.

(* the same after a plain sequence of updates (no loop) *)
Theorem C10_rls_updates (hb : bool) (idim odim : nat) (alpha : R) (samples : list (list R * list R)) :
  (0 < alpha)%R -> Forall (fun p => length (fst p) = idim /\ length (snd p) = odim) samples ->
  let s := fold_left (learn1 (readout_forward odim) (rls_update hb)) samples (rls_init hb idim odim alpha) in
  let n := adim hb idim in
  let P := Mof (Pm s) in let W := Mof (assemble hb s) in
  let A := covA hb alpha samples in let B := crossB hb samples in
  (forall i j, i < n -> j < n -> P i j = P j i) /\
  (forall i j, i < n -> j < n -> bsum n (fun l => P i l * A l j)%R = delta i j) /\
  (forall i j, i < n -> j < n -> bsum n (fun l => A i l * P l j)%R = delta i j) /\
  (forall i j, i < n -> j < odim -> bsum n (fun l => A i l * W l j)%R = B i j) /\
  (forall i j, i < n -> j < odim -> W i j = bsum n (fun l => P i l * B l j)%R).
Proof. exact (rls_invariant hb idim odim alpha samples). Qed.

(* ------------------------------------------------------------------ LMS *)
(* one update is exactly  w <- w - alpha_k (prediction - target) x~^T  on the stacked weights, alpha_k being the
   schedule value under the cursor, and the cursor advances by one *)
Theorem C10_lms_step (sc : list R * R) (hb : bool) (idim odim : nat) (s : rdo (F:=R)) (x y : list R) :
  wfm idim odim (Wout s) -> length (bias s) = odim -> length x = idim -> length y = odim ->
  let s' := learn1 (readout_forward odim) (lms_update sc hb) s (x, y) in
  let a := sched_at sc (cursor s) in
  let r := augment hb x in
  let pred := readout_forward odim s x in
  cursor s' = S (cursor s) /\
  wfm idim odim (Wout s') /\ length (bias s') = odim /\ (hb = false -> bias s' = bias s) /\
  forall i j, i < (if hb then S idim else idim) -> j < odim ->
    mget (assemble hb s') i j = (mget (assemble hb s) i j - a * (vget pred j - vget y j) * vget r i)%R.
Proof. exact (lms_step sc hb idim odim s x y). Qed.

Section AnyNum.
Context {F : Type} `{Num F}.
Notation vec := (list F).

(* the schedule is consumed once per UPDATE: after a train call the cursor has advanced by the number of selected
   steps (never by the number of steps), and the j-th update of the call reads schedule entry cursor+j *)
Theorem C10_lms_cursor (sc : sched) (hb : bool) (odim k : nat) (s : rdo) (xy : list (vec * vec)) :
  cursor (fst (lms_train sc hb odim k s xy)) = cursor s + length (selected k xy) /\
  forall j, j < length (selected k xy) ->
    sched_at sc (cursor (fold_left (learn1 (readout_forward odim) (lms_update sc hb)) (firstn j (selected k xy)) s))
    = sched_at sc (cursor s + j).
Proof. split; [exact (lms_train_cursor sc hb odim k s xy) | exact (lms_rate_of_update sc hb odim (selected k xy) s)]. Qed.

(* ------------------------------------------------------------------ the online loop, any learner *)
Context {St : Type} (fwd : St -> vec -> vec) (upd : St -> vec -> vec -> vec -> St).

(* the learner after a train call = the learning step folded over the samples at the selected positions, in order;
   the selected positions are exactly { i < len | i mod learn_every = 0 } (position 0 of a one-step sequence included) *)
Theorem C10_gate (k : nat) (s : St) (xy : list (vec * vec)) :
  fst (train fwd upd k s xy) = fold_left (learn1 fwd upd) (selected k xy) s /\
  forall i p d, In (i, p) (filter (fun q => fst q mod k =? 0) (combine (seq 0 (length xy)) xy)) <->
                (i < length xy /\ i mod k = 0 /\ nth i xy d = p).
Proof. split; [exact (train_gate fwd upd k s xy) | exact (selected_positions k xy)]. Qed.

(* the i-th returned row is the forward pass of the learner as it is after exactly the first i steps,
   i.e. BEFORE step i's update *)
Theorem C10_output_pre_update (k : nat) (s : St) (xy : list (vec * vec)) (i : nat) (d : vec) (dx : vec * vec) :
  i < length xy ->
  nth i (snd (train fwd upd k s xy)) d =
    fwd (fst (train_loop fwd upd k (length xy =? 1) 0 s (firstn i xy))) (fst (nth i xy dx)).
Proof. exact (train_output_pre_update fwd upd k (length xy =? 1) s xy i d dx). Qed.

(* ------------------------------------------------------------------ intrinsic plasticity: order and count *)
(* a, b after fit(X, warmup) with [epochs]: warm-up calls first (no learning), then exactly one ip step per timestep,
   timesteps in order inside each sequence, sequences in order, the whole repeated [epochs] times *)
Theorem C10_ip_count (f : F -> F) (c : ipcfg) (epochs warmup : nat) (st : ipst) (seqs : list (list vec)) :
  ip_fit f c epochs warmup st seqs =
    fold_left (ip_step f c) (concat (repeat (concat (map (skipn warmup) seqs)) epochs))
      (fold_left (ip_call f c) (concat (map (firstn warmup) seqs)) st) /\
  length (concat (repeat (concat (map (skipn warmup) seqs)) epochs)) =
    epochs * list_sum (map (@length vec) (map (skipn warmup) seqs)).
Proof. split; [exact (ip_fit_flat f c epochs warmup st seqs) | exact (ip_step_count epochs (map (skipn warmup) seqs))]. Qed.

(* each unit is updated from its own pre-activation x_i, output y_i, gain a_i and bias b_i only *)
Theorem C10_ip_per_unit (tr : bool) (mu sigma eta : F) (xs ys a b : vec) (i : nat) :
  i < length xs -> length ys = length xs -> length a = length xs -> length b = length xs ->
  nth i (fst (ip_units tr mu sigma eta xs ys a b)) n0 = fst (ip_unit tr mu sigma eta (nth i xs n0) (nth i ys n0) (nth i a n0) (nth i b n0)) /\
  nth i (snd (ip_units tr mu sigma eta xs ys a b)) n0 = snd (ip_unit tr mu sigma eta (nth i xs n0) (nth i ys n0) (nth i a n0) (nth i b n0)).
Proof. exact (ip_units_nth tr mu sigma eta xs ys a b i). Qed.
End AnyNum.

(* ------------------------------------------------------------------ intrinsic plasticity: the gradient step *)
(* tanh rule (Gaussian target):  db = -eta(-mu/sigma^2 + y/sigma^2 (2 sigma^2 + 1 - y^2 + mu y)),
   sigmoid rule (exponential target): db = eta(1 - (2 + 1/mu) y + y^2/mu);  both: a <- a + eta/a + db x,  b <- b + db *)
Theorem C10_ip_step (x y a b mu sigma eta : R) :
  let dbt := (- eta * (- (mu / (sigma * sigma)) + (y / (sigma * sigma)) * (2 * (sigma * sigma) + 1 - y * y + mu * y)))%R in
  let dbs := (eta * (1 - (2 + 1 / mu) * y + (y * y) / mu))%R in
  ip_unit true mu sigma eta x y a b = (a + (eta / a + dbt * x), b + dbt)%R /\
  ip_unit false mu sigma eta x y a b = (a + (eta / a + dbs * x), b + dbs)%R.
Proof. split; [exact (ip_unit_tanh x y a b mu sigma eta) | exact (ip_unit_sigmoid x y a b mu sigma eta)]. Qed.

(* ------------------------------------------------------------------ non-vacuity (model run at Q) *)
Open Scope Q_scope.
(* learn_every = 2 on five steps selects steps 0, 2, 4 *)
Example C10_selected_example :
  selected (F:=Q) 2 [([1],[1]); ([2],[2]); ([3],[3]); ([4],[4]); ([5],[5])] = [([1],[1]); ([3],[3]); ([5],[5])].
Proof. vm_compute. reflexivity. Qed.
(* RLS, alpha = 1/2, bias on, learn_every = 2: after the call, [bias; Wout] solves (alpha I + sum x~ x~^T) W = sum x~ y^T
   exactly (Gauss-Jordan over Q), P is its inverse, and the outputs are the pre-update predictions *)
Definition ex_xy : list (list Q * list Q) := [([1; 2], [1]); ([1#2; -1], [2]); ([2; 1#4], [1#2]); ([1; 1], [-1]); ([-1; 3], [1#4])].
Example C10_rls_example :
  let '(s, outs) := rls_train (F:=Q) true 1 2 (rls_init true 2 1 (1#2)) ex_xy in
  let A := [[7#2; 2; 21#4]; [2; 13#2; -1#2]; [21#4; -1#2; 217#16]] in
  qsolve A [[7#4]; [7#4]; [23#8]] = Some (bias s :: Wout s) /\
  qsolve A [[1;0;0];[0;1;0];[0;0;1]] = Some (Pm s) /\
  nth 0 outs [] = [0] /\ nth 1 outs [] <> [0].
Proof. vm_compute. repeat split; try reflexivity. discriminate. Qed.
(* LMS with the schedule 1/2, 1/4, 1/8 and learn_every = 2 on five steps: exactly three rates are consumed *)
Example C10_lms_example :
  cursor (fst (lms_train (F:=Q) ([1#2; 1#4; 1#8; 1], 0) true 1 2 (lms_init 2 1) ex_xy)) = 3%nat.
Proof. vm_compute. reflexivity. Qed.
(* one tanh-rule step at mu = 1/4, sigma = 1/2, eta = 1/8 on (x, y, a, b) = (1/2, 1/4, 1, 0) *)
Example C10_ip_example : ip_unit (F:=Q) true (1#4) (1#2) (1#8) (1#2) (1#4) 1 0 = (35#32, (-1)#16).
Proof. vm_compute. reflexivity. Qed.
Close Scope Q_scope.
Close Scope R_scope.

Print Assumptions C10_rls_invariant.
Print Assumptions C10_rls_updates.
Print Assumptions C10_lms_step.
Print Assumptions C10_lms_cursor.
Print Assumptions C10_gate.
Print Assumptions C10_output_pre_update.
Print Assumptions C10_ip_count.
Print Assumptions C10_ip_per_unit.
Print Assumptions C10_ip_step.

(* ================================================================================================================ *)
(* Tie (T): the update rules GENERATED on this run from the current source text of nodes/readouts/rls.py, lms.py and base.py
   (coq/gen/Gen_online.v) ARE the model the theorems above are about: for every weight matrix, bias, P, sample and
   prediction (the target being non-empty and as wide as the prediction), with and without input_bias.                *)
From RV Require Import base.GenPrelude gen.Gen_online proofs.Gen_online_eq.

(* rls.train returns the new (Wout, bias, P) *)
Theorem C10_generated_rls_train_is_model (hb : bool) (s : rdo (F:=R)) (x y pred : list R) : length pred = length y -> y <> [] ->
  GenOnline.rls_train (Wout s) (bias s) hb pred (Pm s) x y
  = (Wout (rls_update hb s x y pred), bias (rls_update hb s x y pred), Pm (rls_update hb s x y pred)).
Proof. exact (gen_rls_train_eq hb s x y pred). Qed.

(* lms.train returns the new (Wout, bias); next(alpha) yields the schedule value under the cursor *)
Theorem C10_generated_lms_train_is_model (sc : sched (F:=R)) (hb : bool) (s : rdo (F:=R)) (x y pred : list R) :
  length pred = length y -> y <> [] ->
  GenOnline.lms_train (Wout s) (bias s) hb pred (sched_at sc (cursor s)) x y
  = (Wout (lms_update sc hb s x y pred), bias (lms_update sc hb s x y pred)).
Proof. exact (gen_lms_train_eq sc hb s x y pred). Qed.

(* readout_forward: (Wout.T @ x + bias.T).T *)
Theorem C10_generated_readout_forward_is_model (odim : nat) (s : rdo (F:=R)) (x : list R) :
  Wout s <> [] -> (forall row, In row (Wout s) -> length row = odim) ->
  GenOnline.readout_forward (Wout s) (bias s) x = readout_forward odim s x.
Proof. exact (gen_readout_forward_eq odim s x). Qed.

Print Assumptions C10_generated_rls_train_is_model.
Print Assumptions C10_generated_lms_train_is_model.
Print Assumptions C10_generated_readout_forward_is_model.

(* intrinsic plasticity: gaussian_gradients / exp_gradients / apply_gradients / ip as translated from the current source text of
   nodes/reservoirs/intrinsic_plasticity.py (coq/gen/Gen_ip.v) ARE the per-unit rule of C10_ip_per_unit / C10_ip_step, for every
   number of units; ip_activation is f(a * state + b) *)
From RV Require Import gen.Gen_ip proofs.Gen_ip_eq.

Theorem C10_generated_ip_is_model (tr : bool) (mu sigma eta : R) (xs ys a b : list R) :
  length ys = length xs -> length a = length xs -> length b = length xs ->
  GenIP.ip a b mu sigma eta tr xs ys = ip_units tr mu sigma eta xs ys a b.
Proof. exact (gen_ip_eq tr mu sigma eta xs ys a b). Qed.

Theorem C10_generated_ip_activation_is_model (f : list R -> list R) (st : ipst (F:=R)) (x : list R) :
  GenIP.ip_activation (ia st) (ib st) x f = f (ip_arg st x).
Proof. exact (gen_ip_activation_eq f st x). Qed.

Print Assumptions C10_generated_ip_is_model.
Print Assumptions C10_generated_ip_activation_is_model.

(* ================================================================================================================
   The R-vs-Q instance gap, closed by proof (base/NumHom.v, proofs/QR_bridge_C10.v).
   The theorems above are about model/Online.v at F := R; the correspondence run (run/RunC10.v: chk_rls, chk_lms, chk_ip)
   evaluates the SAME term at F := Q.  [Q2R] is a homomorphism of the [Num] class, so every function of the model commutes with
   the entry-wise embedding ([qv2r], [qm2r]; [rdo2r]: Wout, bias, P embedded, cursor unchanged; [xy2r]: a sample;
   [sched2r]: the learning-rate schedule): running at Q and embedding = running at R on the embedded data.
   Hence [chk_rls / chk_lms ... = true] says that the learned state and the outputs of the R-MODEL OF THE THEOREMS on those
   rational samples are within 1e-9 of what reservoirpy's node holds and returned.
   Division by 1 + r'Pr: NO side condition is needed.  The class division is total with x/0 = 0 at both instances
   (Qinv 0 = 0, and Rinv_0 in Coq 8.16), so Q2R (a / b) = Q2R a / Q2R b unconditionally; that the denominator is in fact
   positive on the runs is C10_rls_invariant's business (alpha > 0), not the embedding's. *)
From RV Require Import base.NumHom proofs.QR_bridge_C10.

Theorem C10_Qforward_embeds (odim : nat) (s : rdo (F:=Q)) (x : list Q) :
  qv2r (readout_forward odim s x) = readout_forward odim (rdo2r s) (qv2r x).
Proof. exact (Qforward_embeds odim s x). Qed.

(* one RLS step: the gain 1/(1 + r'Pr) and the whole update (P, stacked weights, bias split) *)
Theorem C10_Qrls_embeds (hb : bool) (s : rdo (F:=Q)) (x y p : list Q) :
  Q2R (rls_gain (Pm s) (augment hb x)) = rls_gain (Pm (rdo2r s)) (augment hb (qv2r x)) /\
  rdo2r (rls_update hb s x y p) = rls_update hb (rdo2r s) (qv2r x) (qv2r y) (qv2r p).
Proof. exact (Qrls_embeds hb s x y p). Qed.

(* one LMS step, with the schedule value under the cursor *)
Theorem C10_Qlms_embeds (sc : sched (F:=Q)) (hb : bool) (s : rdo (F:=Q)) (x y p : list Q) :
  rdo2r (lms_update sc hb s x y p) = lms_update (sched2r sc) hb (rdo2r s) (qv2r x) (qv2r y) (qv2r p).
Proof. exact (Qlms_embeds sc hb s x y p). Qed.

(* the whole online loop from the fresh node (exactly the term chk_rls / chk_lms evaluate): any learn_every, any list of
   successive train calls; the final learned state and every returned row *)
Theorem C10_Qrls_train_calls_embed (hb : bool) (idim odim : nat) (alpha : Q) (k : nat) (calls : list (list (list Q * list Q))) :
  let rQ := train_calls (readout_forward odim) (rls_update hb) k (rls_init hb idim odim alpha) calls in
  (rdo2r (fst rQ), map qm2r (snd rQ))
  = train_calls (readout_forward odim) (rls_update hb) k (rls_init hb idim odim (Q2R alpha)) (map (map xy2r) calls).
Proof. exact (Qrls_train_calls_embed hb idim odim alpha k calls). Qed.

Theorem C10_Qlms_train_calls_embed (sc : sched (F:=Q)) (hb : bool) (idim odim k : nat) (calls : list (list (list Q * list Q))) :
  let rQ := train_calls (readout_forward odim) (lms_update sc hb) k (lms_init idim odim) calls in
  (rdo2r (fst rQ), map qm2r (snd rQ))
  = train_calls (readout_forward odim) (lms_update (sched2r sc) hb) k (lms_init idim odim) (map (map xy2r) calls).
Proof. exact (Qlms_train_calls_embed sc hb idim odim k calls). Qed.

(* intrinsic plasticity: one learning step given the activation value (the term chk_ip evaluates) *)
Theorem C10_Qip_step_embeds (c : ipcfg (F:=Q)) (st : ipst (F:=Q)) (u y : list Q) :
  eipst Q2R (ip_step_y c st u y) = ip_step_y (eipcfg Q2R c) (eipst Q2R st) (qv2r u) (qv2r y).
Proof. exact (Qip_step_embeds c st u y). Qed.

(* non-vacuity: RLS with bias, 2 inputs, alpha = 1/2, two samples: the R-model's learned state is the embedded Q result *)
Example C10_Qrls_train_calls_example :
  train_calls (readout_forward 1) (rls_update true) 1 (rls_init true 2 1 (Q2R (1#2)%Q)) (map (map xy2r) excalls)
  = (rdo2r {| Wout := [[(18#155)%Q]; [(-331#930)%Q]]; bias := [(193#930)%Q];
              Pm := [[(286#465)%Q; (-88#155)%Q; (-52#465)%Q]; [(-88#155)%Q; (272#155)%Q; (16#155)%Q];
                     [(-52#465)%Q; (16#155)%Q; (94#465)%Q]]; cursor := 0 |},
     map qm2r [[[0%Q]; [(-21#88)%Q]]]).
Proof. exact Qrls_train_calls_example. Qed.

Print Assumptions C10_Qforward_embeds.
Print Assumptions C10_Qrls_embeds.
Print Assumptions C10_Qlms_embeds.
Print Assumptions C10_Qrls_train_calls_embed.
Print Assumptions C10_Qlms_train_calls_embed.
Print Assumptions C10_Qip_step_embeds.

(* ---- the verdict of the correspondence runner, read at R ----
   [chk_rls] / [chk_lms] (run/RunC10.v) are the booleans evaluated at Q by vm_compute for every scenario (a list of successive
   train calls, some of which raise and must leave the node unchanged).  [calls_close fwd upd k s calls os] walks the same calls
   with the R-INSTANCE of the model on the embedded samples ([calls2r]) and compares, with the real inequality
   [rclose m o] := |m - o| <= 1e-9 * max(1,|m|), the returned rows and the learned (Wout, bias, P, cursor) after each call with
   the embedded observations.  A verdict [true] implies it: the correspondence run is a statement about the model of the
   theorems above. *)
From RV Require Import run.RunC10.

Theorem C10_chk_rls_is_about_R_model (hb : bool) (idim odim : nat) (alpha : Q) (k : nat)
      (calls : list (bool * list (list Q * list Q))) (os : list obs) :
  chk_rls hb idim odim alpha k calls os = true ->
  calls_close (readout_forward odim) (rls_update hb) k (rls_init hb idim odim (Q2R alpha)) (calls2r calls) os.
Proof. exact (chk_rls_is_about_R_model hb idim odim alpha k calls os). Qed.

Theorem C10_chk_lms_is_about_R_model (sc : list Q * Q) (hb : bool) (idim odim k : nat)
      (calls : list (bool * list (list Q * list Q))) (os : list obs) :
  chk_lms sc hb idim odim k calls os = true ->
  calls_close (readout_forward odim) (lms_update (sched2r sc) hb) k (lms_init idim odim) (calls2r calls) os.
Proof. exact (chk_lms_is_about_R_model sc hb idim odim k calls os). Qed.

(* what [calls_close] says, unfolded once (definitional) *)
Theorem C10_calls_close_unfold fwd upd k s (raises : bool) c cs o os :
  calls_close fwd upd k s ((raises, c) :: cs) (o :: os)
  = if raises then same_rdo_R s o /\ calls_close fwd upd k s cs os
    else mrclose (snd (train fwd upd k s c)) (qm2r (o_out o)) /\ same_rdo_R (fst (train fwd upd k s c)) o /\
         calls_close fwd upd k (fst (train fwd upd k s c)) cs os.
Proof. destruct raises; reflexivity. Qed.

(* non-vacuity: a scenario on which the runner answers true *)
Example C10_chk_rls_example :
  chk_rls true 2 1 (1#2)%Q 1 [(false, [([(1#2)%Q; (-1#1)%Q], [(3#4)%Q]); ([(1#4)%Q; (2#1)%Q], [(-1#2)%Q])])]
    [{| o_out := [[0%Q]; [(-21#88)%Q]]; o_W := [[(18#155)%Q]; [(-331#930)%Q]]; o_b := [(193#930)%Q];
        o_P := [[(286#465)%Q; (-88#155)%Q; (-52#465)%Q]; [(-88#155)%Q; (272#155)%Q; (16#155)%Q]; [(-52#465)%Q; (16#155)%Q; (94#465)%Q]];
        o_cur := None |}] = true.
Proof. exact chk_rls_example. Qed.

Print Assumptions C10_chk_rls_is_about_R_model.
Print Assumptions C10_chk_lms_is_about_R_model.
