(* C07 — time-compositionality: one run = successive calls = any chunking.  Statement-only file. *)
From Coq Require Import List Arith Bool QArith Lia.
From RV Require Import base.Num base.LA model.ModelSem model.Kinds model.Windows proofs.ModelSem_proofs proofs.Windows_proofs.
Import ListNotations.
Close Scope Q_scope.

Section C07.
Context {F : Type} `{Num F}.
Notation vec := (list F).
Notation env := (@env F).
Notation model := (@model F).

(* For every model (a node is a one-node model), with or without feedback loops, hidden memory included:
   running xs ++ ys is running xs, then ys from the environment reached; outputs are concatenated;
   a failure in the first part stops there. *)
Theorem C07_run_app (m : model) xs ys (e : env) :
  run_steps m (xs ++ ys) e =
    let '(e1, o1, ok1) := run_steps m xs e in
    if ok1 then let '(e2, o2, ok2) := run_steps m ys e1 in (e2, o1 ++ o2, ok2) else (e1, o1, false).
Proof. exact (run_steps_app m xs ys e). Qed.

(* Any cutting into consecutive chunks (pieces of length one = successive single-step calls included). *)
Theorem C07_chunking (m : model) chunks (e : env) : run_chunks m chunks e = run_steps m (concat chunks) e.
Proof. exact (run_chunks_concat m chunks e). Qed.

(* The public operation with default flags is that run from the node's current state. *)
Theorem C07_run_op_plain (m : model) steps (e : env) : run_op m true false (fun _ => None) steps e = run_steps m steps e.
Proof. exact (run_op_plain m steps e). Qed.
End C07.

(* Online training as a fold with the learn_every gate restarting at each call: cutting the sequence at a multiple
   of learn_every (always, for learn_every = 1) leaves the same learned state and the same outputs. *)
Theorem C07_train_app (S X O : Type) (fwd : S -> X -> S * O) (learn : S -> X -> S) k xs ys s :
  0 < k -> (length xs) mod k = 0 ->
  train fwd learn k (xs ++ ys) s =
    let '(s1, o1) := train fwd learn k xs s in let '(s2, o2) := train fwd learn k ys s1 in (s2, o1 ++ o2).
Proof. exact (train_app_aligned fwd learn k xs ys s). Qed.

(* ... and the hypothesis is needed: with learn_every = 2, cutting after one step moves the gate *)
Example C07_train_gate_restarts :
  let fwd := fun (s x : nat) => (s, s) in let learn := fun (s x : nat) => s + x in
  fst (train fwd learn 2 ([1] ++ [10]) 0) <> fst (train fwd learn 2 [10] (fst (train fwd learn 2 [1] 0))).
Proof. vm_compute. discriminate. Qed.

(* non-vacuity: the feedback loop of C05's example, cut 1 + 2 *)
Example C07_example :
  let steps := map (fun x => ((fun n => match n with 0 => Some [x] | _ => None end), (fun _ : nat => @None (list Q)))) [1%Q; 2%Q; 3%Q] in
  let m := mkModel [mkND 0 (kfwd (KFun 2 0)) None 1; mkND 1 (kfwd (KFbAdd 100)) (Some (FbNode 0)) 1]%Q
                   (fun n => match n with 1 => [0] | _ => [] end) [1] in
  let e0 : @env Q := fun _ => mkNS [0%Q] [] in
  (let '(_, o, ok) := run_chunks m [firstn 1 steps; skipn 1 steps] e0 in (o, ok)) = ([[[2%Q]]; [[204%Q]]; [[406%Q]]], true).
Proof. vm_compute. reflexivity. Qed.

Print Assumptions C07_run_app.
Print Assumptions C07_chunking.
Print Assumptions C07_run_op_plain.
Print Assumptions C07_train_app.


(* ---- the same on the LOW-LEVEL model (model/ProxySem.v: explicit `_state_proxy` / clamp management) ----
   Model._run over xs ++ ys from a state at rest is Model._run over xs followed by Model._run over ys: the first run
   cleans its proxies (`finally: _clean_proxys`), the second reloads them from the states it finds
   (`_load_proxys(keep=True)`), and that is what the uninterrupted run holds at that point (`_load_proxys()` after each
   step).  Outputs are concatenated, the final environments agree node by node - proxies and clamps included - and a
   failure in the first part stops there.  Proved through the refinement to ModelSem (proofs/Refine_proofs.v). *)
From RV Require Import model.ProxySem proofs.Refine_proofs.
Theorem C07_lowlevel_chunking {F : Type} `{Num F} (m : @model F) xs ys (el : @lenv F) :
  NoDup (ids_of m) -> at_rest el ->
  let '(e12, o12, ok12) := run_ll m (xs ++ ys) el in
  let '(e1, o1, ok1) := run_ll m xs el in
  if ok1 then let '(e2, o2, ok2) := run_ll m ys e1 in o12 = o1 ++ o2 /\ ok12 = ok2 /\ (forall n, e12 n = e2 n)
  else o12 = o1 /\ ok12 = false /\ (forall n, e12 n = e1 n).
Proof. exact (run_ll_app m xs ys el). Qed.

Example C07_lowlevel_example :
  let steps := map (fun x => ((fun n => match n with 0 => Some [x] | _ => None end), (fun _ : nat => @None (list Q)))) [1%Q; 2%Q; 3%Q] in
  let m := mkModel [mkND 0 (kfwd (KFun 2 0)) None 1; mkND 1 (kfwd (KFbAdd 100)) (Some (FbNode 0)) 1]%Q
                   (fun n => match n with 1 => [0] | _ => [] end) [1] in
  let e0 : @lenv Q := inject (fun _ => mkNS [0%Q] []) in
  (let '(e1, o1, _) := run_ll m (firstn 1 steps) e0 in let '(_, o2, ok) := run_ll m (skipn 1 steps) e1 in (o1 ++ o2, ok))
  = ([[[2%Q]]; [[204%Q]]; [[406%Q]]], true).
Proof. vm_compute. reflexivity. Qed.

Print Assumptions C07_lowlevel_chunking.
