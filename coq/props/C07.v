(* C07 — time-compositionality: one run = successive calls = any chunking.  Statement-only file. *)
From Coq Require Import List Arith Bool QArith Lia.
From RV Require Import base.Num base.LA model.ModelSem model.Kinds model.Windows proofs.ModelSem_proofs proofs.Windows_proofs.
Import ListNotations.
Close Scope Q_scope.

Section C07.
Context {F : Type} `{Num F}.
Notation vec := (list F).
Notation env := (@env F).
Notation model := (@model F).

(* For every model (a node is a one-node model), with or without feedback loops, hidden memory included:
   running xs ++ ys is running xs, then ys from the environment reached; outputs are concatenated;
   a failure in the first part stops there. *)
Theorem C07_run_app (m : model) xs ys (e : env) :
  run_steps m (xs ++ ys) e =
    let '(e1, o1, ok1) := run_steps m xs e in
    if ok1 then let '(e2, o2, ok2) := run_steps m ys e1 in (e2, o1 ++ o2, ok2) else (e1, o1, false).
Proof. exact (run_steps_app m xs ys e). Qed.

(* Any cutting into consecutive chunks (pieces of length one = successive single-step calls included). *)
Theorem C07_chunking (m : model) chunks (e : env) : run_chunks m chunks e = run_steps m (concat chunks) e.
Proof. exact (run_chunks_concat m chunks e). Qed.

(* The public operation with default flags is that run from the node's current state. *)
Theorem C07_run_op_plain (m : model) steps (e : env) : run_op m true false (fun _ => None) steps e = run_steps m steps e.
Proof. exact (run_op_plain m steps e). Qed.
End C07.

(* Online training as a fold with the learn_every gate restarting at each call: cutting the sequence at a multiple
   of learn_every (always, for learn_every = 1) leaves the same learned state and the same outputs. *)
Theorem C07_train_app (S X O : Type) (fwd : S -> X -> S * O) (learn : S -> X -> S) k xs ys s :
  0 < k -> (length xs) mod k = 0 ->
  train fwd learn k (xs ++ ys) s =
    let '(s1, o1) := train fwd learn k xs s in let '(s2, o2) := train fwd learn k ys s1 in (s2, o1 ++ o2).
Proof. exact (train_app_aligned fwd learn k xs ys s). Qed.

(* ... and the hypothesis is needed: with learn_every = 2, cutting after one step moves the gate *)
Example C07_train_gate_restarts :
  let fwd := fun (s x : nat) => (s, s) in let learn := fun (s x : nat) => s + x in
  fst (train fwd learn 2 ([1] ++ [10]) 0) <> fst (train fwd learn 2 [10] (fst (train fwd learn 2 [1] 0))).
Proof. vm_compute. discriminate. Qed.

(* non-vacuity: the feedback loop of C05's example, cut 1 + 2 *)
Example C07_example :
  let steps := map (fun x => ((fun n => match n with 0 => Some [x] | _ => None end), (fun _ : nat => @None (list Q)))) [1%Q; 2%Q; 3%Q] in
  let m := mkModel [mkND 0 (kfwd (KFun 2 0)) None 1; mkND 1 (kfwd (KFbAdd 100)) (Some (FbNode 0)) 1]%Q
                   (fun n => match n with 1 => [0] | _ => [] end) [1] in
  let e0 : @env Q := fun _ => mkNS [0%Q] [] in
  (let '(_, o, ok) := run_chunks m [firstn 1 steps; skipn 1 steps] e0 in (o, ok)) = ([[[2%Q]]; [[204%Q]]; [[406%Q]]], true).
Proof. vm_compute. reflexivity. Qed.

Print Assumptions C07_run_app.
Print Assumptions C07_chunking.
Print Assumptions C07_run_op_plain.
Print Assumptions C07_train_app.


(* ---- the same on the LOW-LEVEL model (model/ProxySem.v: explicit `_state_proxy` / clamp management) ----
   Model._run over xs ++ ys from a state at rest is Model._run over xs followed by Model._run over ys: the first run
   cleans its proxies (`finally: _clean_proxys`), the second reloads them from the states it finds
   (`_load_proxys(keep=True)`), and that is what the uninterrupted run holds at that point (`_load_proxys()` after each
   step).  Outputs are concatenated, the final environments agree node by node - proxies and clamps included - and a
   failure in the first part stops there.  Proved through the refinement to ModelSem (proofs/Refine_proofs.v). *)
From RV Require Import model.ProxySem proofs.Refine_proofs.
Theorem C07_lowlevel_chunking {F : Type} `{Num F} (m : @model F) xs ys (el : @lenv F) :
  NoDup (ids_of m) -> at_rest el ->
  let '(e12, o12, ok12) := run_ll m (xs ++ ys) el in
  let '(e1, o1, ok1) := run_ll m xs el in
  if ok1 then let '(e2, o2, ok2) := run_ll m ys e1 in o12 = o1 ++ o2 /\ ok12 = ok2 /\ (forall n, e12 n = e2 n)
  else o12 = o1 /\ ok12 = false /\ (forall n, e12 n = e1 n).
Proof. exact (run_ll_app m xs ys el). Qed.

Example C07_lowlevel_example :
  let steps := map (fun x => ((fun n => match n with 0 => Some [x] | _ => None end), (fun _ : nat => @None (list Q)))) [1%Q; 2%Q; 3%Q] in
  let m := mkModel [mkND 0 (kfwd (KFun 2 0)) None 1; mkND 1 (kfwd (KFbAdd 100)) (Some (FbNode 0)) 1]%Q
                   (fun n => match n with 1 => [0] | _ => [] end) [1] in
  let e0 : @lenv Q := inject (fun _ => mkNS [0%Q] []) in
  (let '(e1, o1, _) := run_ll m (firstn 1 steps) e0 in let '(_, o2, ok) := run_ll m (skipn 1 steps) e1 in (o1 ++ o2, ok))
  = ([[[2%Q]]; [[204%Q]]; [[406%Q]]], true).
Proof. vm_compute. reflexivity. Qed.

Print Assumptions C07_lowlevel_chunking.


(* ================================================================================================================
   ONLINE TRAINING OF A MODEL IN CHUNKS (Model.train called on consecutive pieces), inside the formal model:
   model/TrainModel.v - feedback loops, one or more RLS / LMS readouts, array or teacher-node targets - tied to /repo by
   run/RunTrain.v (tools/props/trainmodel.py).  [train_call tm k force reset steps (e, P)] is
   Model.train(X, Y, force_teachers=force, learn_every=k, reset=reset) from node states e and readout parameters P; it returns
   the states and parameters reached, the states of all nodes after each step, and the success flag. *)
From RV Require Import model.Online model.TrainModel proofs.TrainModel_proofs.

Section C07_modeltrain.
Context {F : Type} `{Num F}.
Notation vec := (list F).
Notation env := (@env F).
Notation tmodel := (@tmodel F).
Notation tstep := (@tstep F).
Notation tstate := (@tstate F).
Notation params := (@params F).

(* force_teachers = False (the case the property is about): training on xs ++ ys = training on xs, then on ys from the states
   AND parameters reached - same final states, same learned Wout / bias / P / learning-rate cursor, outputs concatenated -
   for any cut when learn_every = 1, for cuts at multiples of learn_every otherwise; for every model, feedback loops through
   the readouts included, every forward function, RLS and LMS, array or teacher-node targets. *)
Theorem C07_modeltrain_app (tm : tmodel) k reset xs ys (eP : env * params) :
  0 < k -> length xs mod k = 0 ->
  TrainModel.train_call tm k false reset (xs ++ ys) eP =
    let '(e1, P1, o1, ok1) := TrainModel.train_call tm k false reset xs eP in
    if ok1 then let '(e2, P2, o2, ok2) := TrainModel.train_call tm k false false ys (e1, P1) in (e2, P2, o1 ++ o2, ok2)
    else (e1, P1, o1, false).
Proof. exact (train_call_app_unforced tm k reset xs ys eP). Qed.

(* any number of consecutive pieces, all but the last of a length that is a multiple of learn_every *)
Theorem C07_modeltrain_chunking (tm : tmodel) k chunks (eP : env * params) :
  0 < k -> Forall (fun c => length c mod k = 0) (removelast chunks) ->
  train_chunks tm k chunks eP = TrainModel.train_call tm k false false (concat chunks) eP.
Proof. intros Hk Hall. exact (train_chunks_concat tm k Hk chunks eP Hall). Qed.

(* force_teachers = True is excluded by the property, and rightly so.  What does hold: the whole call is the first chunk
   followed by the second chunk CONTINUED (step counter, previous targets and frozen proxies carried over) ... *)
Theorem C07_modeltrain_forced_continuation (tm : tmodel) k xs ys (S : tstate) :
  TrainModel.train_from tm k false true 0 None (xs ++ ys) S =
    let '(S1, o1, ok1) := TrainModel.train_from tm k false true 0 None xs S in
    if ok1 then let '(S2, o2, ok2) := TrainModel.train_from tm k false true (length xs) (last_opt None xs) ys S1 in (S2, o1 ++ o2, ok2)
    else (S1, o1, false).
Proof. exact (train_forced_continuation tm k xs ys S). Qed.
(* ... and a FRESH call on the second chunk gives the same result under exactly one more condition, [cut_agrees]: at the cut
   every node is handed the same feedback value by the fresh call (which forces zeros: dispatch for array targets, the zero proxy
   for teacher-node targets) as by the uninterrupted one (which forces the last targets of the first chunk). *)
Theorem C07_modeltrain_forced_app_when_cut_agrees (tm : tmodel) k reset xs lastx y0 ys (eP : env * params) :
  0 < k -> length (xs ++ [lastx]) mod k = 0 ->
  (forall S1 o1, TrainModel.train_from tm k false true 0 None (xs ++ [lastx])
                   (start_env (base tm) reset (fun _ => None) (fst eP), snd eP, init_pov tm true) = (S1, o1, true) ->
                 cut_agrees tm S1 lastx y0) ->
  TrainModel.train_call tm k true reset ((xs ++ [lastx]) ++ y0 :: ys) eP =
    let '(e1, P1, o1, ok1) := TrainModel.train_call tm k true reset (xs ++ [lastx]) eP in
    if ok1 then let '(e2, P2, o2, ok2) := TrainModel.train_call tm k true false (y0 :: ys) (e1, P1) in (e2, P2, o1 ++ o2, ok2)
    else (e1, P1, o1, false).
Proof. exact (train_call_app_forced tm k reset xs lastx y0 ys eP). Qed.
(* the condition holds for every model without feedback connections *)
Theorem C07_modeltrain_forced_no_feedback (tm : tmodel) (S1 : tstate) lastx y0 :
  (forall d, In d (order (base tm)) -> nfb d = None) -> cut_agrees tm S1 lastx y0.
Proof. exact (cut_agrees_no_feedback tm S1 lastx y0). Qed.
End C07_modeltrain.

(* ---- non-vacuity at Q: R(x + fb/2) >> readout (RLS, bias, alpha = 1), R <<= readout; X = 1 2 1 3, Y = 1 3 2 1 *)
Definition exC_base : @model Q :=
  mkModel [mkND 0 (kfwd (KFbAdd (1#2))) (Some (FbNode 1)) 1; mkND 1 (kfwd KId) None 1]%Q (fun n => match n with 1 => [0] | _ => [] end) [1].
Definition exC : @tmodel Q := mkTM exC_base [mkRS 1 (RuleRLS true) 1 TArr].
Definition exC_P0 : @params Q := fun _ => rls_init true 1 1 1%Q.
Definition exC_e0 : @env Q := fun _ => mkNS [0%Q] [].
Definition exC_steps (xy : list (Q * Q)) : list (@tstep Q) :=
  map (fun p => mkTS (fun n => match n with 0 => Some [fst p] | _ => None end) (fun n => match n with 1 => Some [snd p] | _ => None end)) xy.
Definition exC_xy := [(1, 1); (2, 3); (1, 2); (3, 1)]%Q.
Definition exC_view (r : @env Q * @params Q * list (list (list Q)) * bool) :=
  let '(e, P, o, ok) := r in (map (fun n => st (e n)) [0; 1], Wout (P 1), bias (P 1), Pm (P 1), o, ok).
Definition exC_chunked k force cut :=
  let '(e1, P1, o1, _) := TrainModel.train_call exC k force false (exC_steps (firstn cut exC_xy)) (exC_e0, exC_P0) in
  let '(e2, P2, o2, ok) := TrainModel.train_call exC k force false (exC_steps (skipn cut exC_xy)) (e1, P1) in (e2, P2, o1 ++ o2, ok).
(* unforced, learn_every = 2, cut 2 + 2: same states, Wout, bias, P and outputs; the loop through the readout is live *)
Example C07_modeltrain_example :
  exC_view (exC_chunked 2 false 2) = exC_view (TrainModel.train_call exC 2 false false (exC_steps exC_xy) (exC_e0, exC_P0)) /\
  (let '(_, P, _, ok) := TrainModel.train_call exC 2 false false (exC_steps exC_xy) (exC_e0, exC_P0) in (Wout (P 1), ok)) <> ([[0%Q]], true) /\
  exC_view (exC_chunked 1 false 3) = exC_view (TrainModel.train_call exC 1 false false (exC_steps exC_xy) (exC_e0, exC_P0)).
Proof. vm_compute. repeat split; try reflexivity; discriminate. Qed.
(* the alignment hypothesis is needed: learn_every = 2 cut after ONE step learns on different steps *)
Theorem C07_modeltrain_misaligned_refuted :
  exC_view (exC_chunked 2 false 1) <> exC_view (TrainModel.train_call exC 2 false false (exC_steps exC_xy) (exC_e0, exC_P0)).
Proof. vm_compute. discriminate. Qed.
(* force_teachers = True: chunking fails (aligned cut 2 + 2; the last target of the first chunk is 3, the fresh call forces 0) *)
Theorem C07_modeltrain_forced_refuted :
  exists (tm : @tmodel Q) k xs ys eP, 0 < k /\ length xs mod k = 0 /\
    (let '(e1, P1, o1, _) := TrainModel.train_call tm k true false xs eP in
     let '(_, _, o2, _) := TrainModel.train_call tm k true false ys (e1, P1) in o1 ++ o2) <>
    (let '(_, _, o, _) := TrainModel.train_call tm k true false (xs ++ ys) eP in o).
Proof.
  exists exC, 2, (exC_steps (firstn 2 exC_xy)), (exC_steps (skipn 2 exC_xy)), (exC_e0, exC_P0).
  split; [lia|]. split; [reflexivity|]. vm_compute. discriminate.
Qed.
(* ... and holds in the instance where cut_agrees does: last target of the first chunk equal to zero *)
Example C07_modeltrain_forced_zero_last_target_example :
  let xy := [(1, 1); (2, 0); (1, 2); (3, 1)]%Q in
  (let '(e1, P1, o1, _) := TrainModel.train_call exC 2 true false (exC_steps (firstn 2 xy)) (exC_e0, exC_P0) in
   let '(e2, P2, o2, ok) := TrainModel.train_call exC 2 true false (exC_steps (skipn 2 xy)) (e1, P1) in exC_view (e2, P2, o1 ++ o2, ok)) =
  exC_view (TrainModel.train_call exC 2 true false (exC_steps xy) (exC_e0, exC_P0)).
Proof. vm_compute. reflexivity. Qed.

Print Assumptions C07_modeltrain_app.
Print Assumptions C07_modeltrain_chunking.
Print Assumptions C07_modeltrain_forced_continuation.
Print Assumptions C07_modeltrain_forced_app_when_cut_agrees.
Print Assumptions C07_modeltrain_forced_no_feedback.
Print Assumptions C07_modeltrain_misaligned_refuted.
Print Assumptions C07_modeltrain_forced_refuted.


(* ==================================================================================================================
   Q-to-R bridge for the framework model (proofs/QR_bridge_Model.v).
   The theorems above hold for every [Num] instance, in particular R; the correspondence run of C07 executes the shared
   runner run/RunModel.v ([chk_hist_both]: model/ModelSem.v and model/ProxySem.v with the node kinds of model/Kinds.v) at
   F := Q.  For rational parameters and data: a run, a call, any sequence of runs and calls (a chunking) executed at Q and
   then embedded with Q2R is the same history executed at R on the embedded data - same success flags, embedded outputs,
   point-wise embedded environments.  No functional extensionality, no shape hypothesis, no side condition.
   After this block the cone of this file imports Reals; the theorems above are unaffected (their Print Assumptions
   output is unchanged). *)
From Coq Require Import Reals Qreals.
From RV Require Import base.NumHom model.ProxySem run.RunModel proofs.QR_bridge_Model.

(* Model.run / Node.run on one sequence, any flags (C07 uses stateful=True, reset=False, no from_state: C07_run_op_plain) *)
Theorem C07_Qrun_op_embeds_in_Rrun_op (m : @model Q) (mR : @model R) stateful reset from fromR steps stepsR (e : @env Q) (eR : @env R) :
  m_rel Q2R m mR -> opt_rel Q2R from fromR -> steps_rel Q2R steps stepsR -> env_rel Q2R e eR ->
  let r := run_op m stateful reset from steps e in
  let rR := run_op mR stateful reset fromR stepsR eR in
  env_rel Q2R (fst (fst r)) (fst (fst rR)) /\ snd (fst rR) = map qm2r (snd (fst r)) /\ snd rR = snd r.
Proof. exact (run_op_rel Q2R m mR stateful reset from fromR steps stepsR e eR). Qed.

(* the same on the low-level mechanism: Model.run and Model.call with explicit proxies and clamps *)
Theorem C07_Qlowlevel_run_and_call_embed (m : @model Q) (mR : @model R) stateful reset from fromR (el : @lenv Q) (elR : @lenv R) :
  m_rel Q2R m mR -> opt_rel Q2R from fromR -> lenv_rel Q2R el elR ->
  (forall steps stepsR, steps_rel Q2R steps stepsR ->
     let r := run_op_ll m stateful reset from steps el in
     let rR := run_op_ll mR stateful reset fromR stepsR elR in
     lenv_rel Q2R (fst (fst r)) (fst (fst rR)) /\ snd (fst rR) = map qm2r (snd (fst r)) /\ snd rR = snd r) /\
  (forall ext extR forced forcedR, opt_rel Q2R ext extR -> opt_rel Q2R forced forcedR ->
     let r := call_op_ll m stateful reset from ext forced el in
     let rR := call_op_ll mR stateful reset fromR extR forcedR elR in
     lenv_rel Q2R (fst (fst r)) (fst (fst rR)) /\ snd (fst rR) = map qm2r (snd (fst r)) /\ snd rR = snd r).
Proof.
  intros Hm Hf He. split; intros.
  - apply (run_op_ll_rel Q2R); assumption.
  - apply (call_op_ll_rel Q2R); assumption.
Qed.
(* [lenv_rel], spelled out: state, hidden memory, proxy and clamp of every node are embedded entry-wise *)
Theorem C07_lenv_rel_spelled (el : @lenv Q) (elR : @lenv R) :
  lenv_rel Q2R el elR <->
  forall n, elR n = mkLN (qv2r (lst (el n))) (qm2r (lhid (el n))) (option_map qv2r (proxy (el n))) (option_map qv2r (clamp (el n))).
Proof. exact (iff_refl _). Qed.

(* one operation of the scenario language (OpRun / OpCall / OpReset) on both models *)
Theorem C07_Qoperation_embeds_in_Roperation (nodes : list snode) (models : list smodel) (o : op) :
  (forall (e : @env Q) (eR : @env R), env_rel Q2R e eR ->
     let r := run_one nodes models o e in let rR := run_oneR nodes models o eR in
     env_rel Q2R (fst (fst r)) (fst (fst rR)) /\ snd (fst rR) = map qm2r (snd (fst r)) /\ snd rR = snd r) /\
  (forall (el : @lenv Q) (elR : @lenv R), lenv_rel Q2R el elR ->
     let r := run_one_ll nodes models o el in let rR := run_oneR_ll nodes models o elR in
     lenv_rel Q2R (fst (fst r)) (fst (fst rR)) /\ snd (fst rR) = map qm2r (snd (fst r)) /\ snd rR = snd r).
Proof. exact (conj (run_one_rel nodes models o) (run_one_ll_rel nodes models o)). Qed.

(* the verdict of the correspondence runner is a statement about the R-instance history *)
Theorem C07_chk_hist_both_is_about_R_model (nodes : list snode) (models : list smodel) (l : list (op * obs)) :
  chk_hist_both nodes models l = true ->
  topo_ok models = true /\ hist_okR nodes models l (init_envR nodes) /\ hist_okR_ll nodes models l (init_envR_ll nodes).
Proof. exact (chk_hist_both_is_about_R_model nodes models l). Qed.

(* non-vacuity: accumulator -> Reservoir (external equation, hard-tanh) -> NVAR (delay 2, order 2); a run of two timesteps
   followed by a call: the runner answers true on the exact values, hence so does the R-model history *)
Definition exB7_nodes : list snode :=
  [mkSN 0 KAcc None 1 [];
   mkSN 1 (KResExt [[1#2]] [[1#1]] [1#4] [1#2] AHardTanh)%Q None 1 [];
   mkSN 2 (KNvar 2 1) None 5 [[0#1]; [0#1]]%Q].
Definition exB7_models : list smodel := [mkSM [0; 1; 2] [(1, [0]); (2, [1])] [2]].
Definition exB7_hist : list (op * obs) :=
  [(OpRun 0 true false [] [[(0%nat, [1#1])]; [(0%nat, [1#2])]]%Q false [],
    mkObs true [[[5#8; 0#1; 25#64; 0#1; 0#1]]; [[1#1; 5#8; 1#1; 5#8; 25#64]]]%Q
          [(0%nat, [3#2]); (1%nat, [1#1]); (2%nat, [1#1; 5#8; 1#1; 5#8; 25#64])]%Q (Some true));
   (OpCall 0 true false [] [(0%nat, [-2#1])]%Q [],
    mkObs true [[[51#64; 1#1; 2601#4096; 51#64; 1#1]]]%Q
          [(0%nat, [-1#2]); (1%nat, [51#64]); (2%nat, [51#64; 1#1; 2601#4096; 51#64; 1#1])]%Q (Some true))].
Example C07_bridge_example :
  chk_hist_both exB7_nodes exB7_models exB7_hist = true /\
  hist_okR exB7_nodes exB7_models exB7_hist (init_envR exB7_nodes) /\
  hist_okR_ll exB7_nodes exB7_models exB7_hist (init_envR_ll exB7_nodes).
Proof.
  assert (E : chk_hist_both exB7_nodes exB7_models exB7_hist = true) by (vm_compute; reflexivity).
  split; [exact E | apply (C07_chk_hist_both_is_about_R_model _ _ _ E)].
Qed.

Print Assumptions C07_Qrun_op_embeds_in_Rrun_op.
Print Assumptions C07_Qlowlevel_run_and_call_embed.
Print Assumptions C07_lenv_rel_spelled.
Print Assumptions C07_Qoperation_embeds_in_Roperation.
Print Assumptions C07_chk_hist_both_is_about_R_model.


(* ================================================================================================================
   TIE (T) FOR THE RUN LOOP: Node.run of reservoirpy/node.py, translated from the CURRENT source on every run
   (tools/vlib/py2coq_run.py -> gen/Gen_run.v over base/CtxPrelude.v + base/RunPrelude.v); its callees Node.with_state and
   _base.call are the translated GenState.Node_with_state / GenState.call (gen/Gen_state.v), used through their proved
   specifications (proofs/Gen_state_eq.v).  [g_run check_ok fw check_xy initialize <the six accessors of the checked input>] is the
   generated Node.run; check_xy / initialize / the accessors are arbitrary (C12 is about the validation). *)
From RV Require Import base.CtxPrelude base.RunPrelude gen.Gen_state gen.Gen_run proofs.Gen_state_eq proofs.Gen_run_eq.

Section C07_generated.
Context {F : Type} `{Num F} {IRAW IDATA : Type}.
Variable check_ok : option nat -> list F -> bool.
Notation vec := (list F).

(* heap level, ANY forward function (it may raise at any step): on an initialised node whose input check_xy accepts, the generated
   Node.run enters the state context once, folds the forward function over the steps ([obj_run]: `_state`, params, `_fb_flag` move at
   every successful step; the first raise stops the loop and keeps what the earlier steps wrote), restores `_state` unless stateful
   -- also after a raise --, touches no other node, and returns the states in step order (row i = step i). *)
Theorem C07_generated_node_run_spec {P IX : Type} (fw : nat -> @obj F P -> IX -> option (vec * P))
    (check_xy : nat -> IRAW -> M (@heap F P) IDATA) (initialize : nat -> IX -> M (@heap F P) unit)
    (is_arr is_list : IDATA -> bool) (len_arr len_multi : IDATA -> nat) (step_arr step_multi : IDATA -> nat -> IX)
    n X d from stateful reset (h : @heap F P) :
  check_xy n X h = (h, Ok d) -> fw_accepted check_ok fw n ->
  a_is_initialized (h n) = true -> enter_check check_ok (h n) from reset = true ->
  (exists k, a_output_dim (h n) = Some k) -> (exists v, a_state (h n) = Some v) ->
  let '(h', r) := g_run check_ok fw check_xy initialize is_arr is_list len_arr len_multi step_arr step_multi n X from stateful reset h in
  let '(o1, outs, ok) := obj_run fw n (xd_steps is_arr is_list len_arr len_multi step_arr step_multi d) (call_obj0 (h n) from reset) in
  h' n = (if stateful then o1 else set_state o1 (a_state (h n))) /\ (forall k, k <> n -> h' k = h k) /\
  match r with Ok states => ok = true /\ states = outs | Exc _ => ok = false end.
Proof. exact (gen_node_run_spec check_ok fw check_xy initialize is_arr is_list len_arr len_multi step_arr step_multi n X d from stateful reset h). Qed.

(* ... which is run_op of model/ModelSem.v on the one-node model, for every flag combination and every forward function *)
Theorem C07_generated_node_run_is_run_op
    (check_xy : nat -> IRAW -> M (@heap F (@hidden F)) IDATA) (initialize : nat -> vec -> M (@heap F (@hidden F)) unit)
    (is_arr is_list : IDATA -> bool) (len_arr len_multi : IDATA -> nat) (step_arr step_multi : IDATA -> nat -> vec)
    (d : @ndesc F) par from stateful reset X xd (h : @heap F (@hidden F)) :
  par (nid d) = [] -> nfb d = None ->
  check_xy (nid d) X h = (h, Ok xd) ->
  heap_good (one_node d par) h -> starts_accepted check_ok (one_node d par) reset from h ->
  fw_accepted check_ok (fw_run d) (nid d) ->
  let '(h', r) := g_run check_ok (fw_run d) check_xy initialize is_arr is_list len_arr len_multi step_arr step_multi
                        (nid d) X (from (nid d)) stateful reset h in
  let '(e', outs, ok) := run_op (one_node d par) stateful reset from
                                (map (step_of d) (xd_steps is_arr is_list len_arr len_multi step_arr step_multi xd)) (habs h) in
  (forall k, habs h' k = e' k) /\
  match r with Ok states => ok = true /\ outs = map (fun s => [s]) states | Exc _ => ok = false end.
Proof. exact (gen_node_run_is_run_op check_ok check_xy initialize is_arr is_list len_arr len_multi step_arr step_multi d par from stateful reset X xd h). Qed.

(* ... and with the default flags run_steps from the node's current state: C07_run_app / C07_chunking / C07_run_op_plain above are
   statements about what the translated loop computes *)
Theorem C07_generated_node_run_is_run_steps
    (check_xy : nat -> IRAW -> M (@heap F (@hidden F)) IDATA) (initialize : nat -> vec -> M (@heap F (@hidden F)) unit)
    (is_arr is_list : IDATA -> bool) (len_arr len_multi : IDATA -> nat) (step_arr step_multi : IDATA -> nat -> vec)
    (d : @ndesc F) par X xd (h : @heap F (@hidden F)) :
  par (nid d) = [] -> nfb d = None ->
  check_xy (nid d) X h = (h, Ok xd) ->
  heap_good (one_node d par) h -> starts_accepted check_ok (one_node d par) false (fun _ => None) h ->
  fw_accepted check_ok (fw_run d) (nid d) ->
  let '(h', r) := g_run check_ok (fw_run d) check_xy initialize is_arr is_list len_arr len_multi step_arr step_multi
                        (nid d) X None true false h in
  let '(e', outs, ok) := run_steps (one_node d par) (map (step_of d) (xd_steps is_arr is_list len_arr len_multi step_arr step_multi xd)) (habs h) in
  (forall k, habs h' k = e' k) /\
  match r with Ok states => ok = true /\ outs = map (fun s => [s]) states | Exc _ => ok = false end.
Proof. exact (gen_node_run_default_is_run_steps check_ok check_xy initialize is_arr is_list len_arr len_multi step_arr step_multi d par X xd h). Qed.
End C07_generated.

Print Assumptions C07_generated_node_run_spec.
Print Assumptions C07_generated_node_run_is_run_op.
Print Assumptions C07_generated_node_run_is_run_steps.

(* ---------------------------------------------------------------------------------------------------------------------------------
   Tie (T) for Model._call: coq/gen/Gen_mcall.v is re-translated from reservoirpy/model.py by tools/vlib/py2coq_mcall.py on every run
   of ./check C07 (translated at submodel = None, which every call site passes; `self._forward` is a Section function instantiated
   here with the generated forward pass of coq/gen/Gen_dispatch.v, `_base.call` read in the hand model with the proxies and clamps of
   one timestep).  The generated method is proved equal to ModelSem.step -- the unit of run_steps / run_op the theorems above speak
   about -- and to the one-step run_op (proofs/Gen_mcall_eq.v).  Model.call / _run / run stay on tie (H). *)
From RV Require Import base.PyColl base.PyColl2 base.PyColl3 base.MCallPrelude gen.Gen_dispatch gen.Gen_mcall.
From RV Require Import proofs.Gen_dispatch_eq proofs.Gen_mcall_eq.

Section C07_generated_mcall.
Context {F : Type} `{Num F}.
Notation vec := (list F).

(* one generated `_call` is one ModelSem.step on the external input map of X, for every model, input, forced feedback, state and
   selection of returned states: same environment after it, a raising node is a failed step, the returned states are read AFTER the
   step ([sel_of]: all nodes / the named nodes, KeyError for an unknown name / the output nodes, bare when there is one), and a
   mapping that omits an entry node is refused before any node is called *)
Theorem C07_generated_model_call_is_step (m : @model F) (inputs trainables : list node) (edges : list edge)
    (sorted_by_name : list edge -> list edge) forced (X : pyinput vec) rs (e : @env F) :
  NoDup (map ModelSem.nid (ModelSem.order m)) -> NoDup inputs ->
  (forall n, In n (map ModelSem.nid (ModelSem.order m)) -> ModelSem.parents m n = dd_get (parents_dict edges sorted_by_name) n []) ->
  g_call m inputs edges sorted_by_name trainables forced e X rs
  = if inputs_named vec inputs X then
      let '(e', ok) := ModelSem.step m forced (ext_of vec inputs (map ModelSem.nid (ModelSem.order m)) X) e in
      if ok then py_bind (sel_of m rs e') (fun s => Val (e', s)) else Exc RuntimeError
    else Exc KeyError.
Proof. exact (gen_mcall_is_step m inputs edges sorted_by_name trainables forced X rs e). Qed.

(* ... which is run_op with the default flags on the one-step sequence, whose recorded outputs are the out_states after the step *)
Theorem C07_generated_model_call_is_run_op (m : @model F) (inputs trainables : list node) (edges : list edge)
    (sorted_by_name : list edge -> list edge) forced (X : pyinput vec) rs (e : @env F) :
  NoDup (map ModelSem.nid (ModelSem.order m)) -> NoDup inputs ->
  (forall n, In n (map ModelSem.nid (ModelSem.order m)) -> ModelSem.parents m n = dd_get (parents_dict edges sorted_by_name) n []) ->
  inputs_named vec inputs X = true ->
  let '(e', outs, ok) := ModelSem.run_op m true false (fun _ => None) [(ext_of vec inputs (map ModelSem.nid (ModelSem.order m)) X, forced)] e in
  g_call m inputs edges sorted_by_name trainables forced e X rs
    = (if ok then py_bind (sel_of m rs e') (fun s => Val (e', s)) else Exc RuntimeError) /\
  (ok = true -> outs = [ModelSem.out_states m e']).
Proof. exact (gen_mcall_is_run_op m inputs edges sorted_by_name trainables forced X rs e). Qed.

(* the default selection carries exactly ModelSem.out_states (what run_steps records): bare for one output node, keyed by name and
   in output order for several *)
Theorem C07_generated_model_call_default_out_states (m : @model F) (e : @env F) s :
  NoDup (ModelSem.outputs m) -> sel_of m RsDefault e = Val s -> sel_values s = ModelSem.out_states m e.
Proof. exact (sel_default_out_states m e s). Qed.
End C07_generated_mcall.

Print Assumptions C07_generated_model_call_is_step.
Print Assumptions C07_generated_model_call_is_run_op.
Print Assumptions C07_generated_model_call_default_out_states.

(* Model.call (module GenMCallOp of the same generated file: check_xy, first-use initialisation, try / with_state / _load_proxys /
   with_feedback / _call / finally _clean_proxys, the copying return), its callees read in the hand model (proofs/Gen_mcall_eq.v,
   Part C: with_state = start_env / restore_st, _load_proxys = the current states, with_feedback = the mapping in force inside the
   body, `_call` = one forward pass, an accepted input on an initialised model): the generated composition is run_op on the one-step
   sequence for every flag combination, from_state, forced feedback and both outcomes -- the proxies are loaded from the states that
   with_state installed, the states are restored also after a raise, the returned states and the recorded outputs are read in the
   same environment *)
Theorem C07_generated_model_call_op_is_run_op {F : Type} `{Num F} (m : @model F) (RES : Type) (sel : @env F -> RES)
    ext forced from stateful reset (w : cworld) :
  let '(w', r) := g_call_op m RES sel ext forced from stateful reset w in
  let '(e', outs, ok) := ModelSem.run_op m stateful reset from [(ext, forced)] (cur w) in
  cur w' = e' /\ fbm w' = fbm w /\
  match r with
  | CtxPrelude.Ok s => ok = true /\ exists e1, s = sel e1 /\ outs = [ModelSem.out_states m e1] /\ (stateful = true -> e1 = e')
  | CtxPrelude.Exc _ => ok = false
  end.
Proof. exact (gen_call_op_is_run_op m RES sel ext forced from stateful reset w). Qed.

Print Assumptions C07_generated_model_call_op_is_run_op.

(* Model._run (the per-sequence loop over the timesteps) translated from reservoirpy/model.py on every run (tools/vlib/py2coq_mrun.py ->
   gen/Gen_mrun.v, vocabulary base/MRunPrelude.v), its callees read in the hand model as for Model.call above (with_state = start_env /
   restore_st, _load_proxys = the current states, with_feedback = the mapping in force inside the body, `_call` = one forward pass,
   dispatch = inputs and forced feedback paired step by step, no row written at allocation): the generated loop IS run_op with
   reset = False on the whole sequence for every stateful / from_state / selection and both outcomes -- same final environment (restored
   when not stateful, also after a raise), same failure, and the rows `states[name][i, :] = value` are written in step order from the
   states selected in the environment after step i, the environments whose out_states run_steps records *)
From RV Require Import base.MRunPrelude gen.Gen_mrun proofs.Gen_mrun_eq.
Theorem C07_generated_model_run_is_run_steps {F : Type} `{Num F} (m : @model F) (RS : Type) (sel : RS -> @env F -> selstate (list F))
    (out0 : node) (X FB : list (nat -> option (list F))) from stateful shift rs (w : cworld) :
  let '(w', r) := g_run m RS sel out0 X FB from stateful shift rs w in
  let '(e', outs, ok) := ModelSem.run_op m stateful false from (combine X FB) (cur w) in
  cur w' = e' /\ fbm w' = fbm w /\
  match r with
  | CtxPrelude.Ok s => ok = true /\ exists envs, outs = map (ModelSem.out_states m) envs /\ length envs = length outs /\
                                                 s = log_from RS sel out0 rs 0 envs
  | CtxPrelude.Exc _ => ok = false
  end.
Proof. exact (gen_mrun_is_run_op m RS sel out0 X FB from stateful shift rs w). Qed.

Print Assumptions C07_generated_model_run_is_run_steps.

(* ... and the `_call` that loop is instantiated with is the generated `_call` of gen/Gen_mcall.v whenever that one returns: with the
   proxies at the current states (what `_load_proxys` leaves at every `_call` of the loop), same environment and same returned states *)
Theorem C07_generated_model_run_call_is_generated_call {F : Type} `{Num F} (m : @model F) (inputs trainables : list node)
    (edges : list edge) (sorted_by_name : list edge -> list edge) (X : pyinput (list F)) rs (w : cworld) e' s :
  NoDup (map ModelSem.nid (ModelSem.order m)) -> NoDup inputs ->
  (forall n, In n (map ModelSem.nid (ModelSem.order m)) -> ModelSem.parents m n = dd_get (parents_dict edges sorted_by_name) n []) ->
  prx w = cur w ->
  g_call m inputs edges sorted_by_name trainables (fbm w) (cur w) X rs = Val (e', s) ->
  sem__call m (selstate (list F)) (sel_tot m rs) (ext_of (list F) inputs (map ModelSem.nid (ModelSem.order m)) X) tt w
  = (mkCW e' (prx w) (fbm w), CtxPrelude.Ok s).
Proof. exact (generated_call_is_sem_call m inputs trainables edges sorted_by_name X rs w e' s). Qed.

Print Assumptions C07_generated_model_run_call_is_generated_call.

(* Model.run (the loop over the SEQUENCES) translated from reservoirpy/model.py on every run (tools/vlib/py2coq_mrun2.py -> gen/Gen_mrun2.v),
   its `_run` being the generated Model._run of gen/Gen_mrun.v under the reading above, `with self.with_state(reset=.., stateful=..)` =
   start_env with no state mapping / restore_st, to_data_mapping a partial function that leaves the states alone, `l[0]` raising on the
   empty list, _initialize_on_sequence leaving the states alone, fold_mapping a function of the per-sequence logs: the generated `run` IS the
   fold over the sequences of seq_op (the outer with_state around run_op with reset = False and from_state), the environment carried from
   one sequence to the next and restored after each unless stateful, for every flag and both outcomes; every sequence's rows are those of
   the states selected after step 0, 1, .. *)
From RV Require Import gen.Gen_mrun2 proofs.Gen_mrun2_eq.
Theorem C07_generated_model_run_seqs {F : Type} `{Num F} (m : @model F) (RS : Type) (sel : RS -> @env F -> selstate (list F))
    (out0 : node) (XD FD OUT : Type)
    (tdm : XD -> FD -> option (list (list (nat -> option (list F))) * list (list (nat -> option (list F)))))
    (fm : list (wlog (list F)) -> RS -> OUT) (X : XD) (FB : FD) from stateful reset shift rs (w : cworld) xs fbs :
  tdm X FB = Some (xs, fbs) -> xs <> [] -> fbs <> [] ->
  let '(w', r) := g_model_run m RS sel out0 XD FD OUT tdm fm X FB from stateful reset shift rs w in
  let '(e', outs, ok) := run_seqs2 m stateful reset from (map (fun p => combine (fst p) (snd p)) (combine xs fbs)) (cur w) in
  cur w' = e' /\ fbm w' = fbm w /\
  match r with
  | CtxPrelude.Ok o => ok = true /\ exists logs, o = fm logs rs /\ Forall2 (log_ok m RS sel out0 rs) logs outs
  | CtxPrelude.Exc _ => ok = false
  end.
Proof. exact (gen_model_run_is_run_seqs m RS sel out0 XD FD OUT tdm fm X FB from stateful reset shift rs w xs fbs). Qed.

Print Assumptions C07_generated_model_run_seqs.

(* The step seq_op of the generated Model.run (the outer with_state(reset, stateful) around run_op with reset = False) IS
   run_op m stateful reset from, the step of model/Mapping.v run_seqs, when the node ids are pairwise distinct (start_env composes,
   restore_st is idempotent; both outcomes, every flag): the generated Model.run (gen/Gen_mrun2.v, regenerated on every run) IS
   Mapping.run_seqs.  Environments are functions, so their equality uses functional extensionality (proofs/Gen_mrun2_seqs.v;
   chain2_nodup there: a concrete two-node model meets the hypothesis). *)
From RV Require Import model.Mapping proofs.Gen_mrun2_seqs.
Theorem C07_generated_model_run_is_run_seqs {F : Type} `{Num F} (m : @model F) (RS : Type) (sel : RS -> @env F -> selstate (list F))
    (out0 : node) (XD FD OUT : Type)
    (tdm : XD -> FD -> option (list (list (nat -> option (list F))) * list (list (nat -> option (list F)))))
    (fm : list (wlog (list F)) -> RS -> OUT) (X : XD) (FB : FD) from stateful reset shift rs (w : cworld) xs fbs :
  NoDup (ids_of m) ->
  tdm X FB = Some (xs, fbs) -> xs <> [] -> fbs <> [] ->
  let '(w', r) := g_model_run m RS sel out0 XD FD OUT tdm fm X FB from stateful reset shift rs w in
  let '(e', outs, ok) := run_seqs m stateful reset from (map (fun p => combine (fst p) (snd p)) (combine xs fbs)) (cur w) in
  cur w' = e' /\ fbm w' = fbm w /\
  match r with
  | CtxPrelude.Ok o => ok = true /\ exists logs, o = fm logs rs /\ Forall2 (log_ok m RS sel out0 rs) logs outs
  | CtxPrelude.Exc _ => ok = false
  end.
Proof. exact (gen_model_run_is_mapping_run_seqs m RS sel out0 XD FD OUT tdm fm X FB from stateful reset shift rs w xs fbs). Qed.

Print Assumptions C07_generated_model_run_is_run_seqs.
