(* C17 — NVAR, Delay and Concat compute their documented window functions.
   Statement-only file: every theorem is closed by [exact <lemma>]; proofs live in proofs/Windows_proofs.v. *)
From Coq Require Import List Arith Sorted QArith.
From Coq Require Import Permutation.
From Coq Require String.
From RV Require Import base.Num base.LA model.Windows proofs.Windows_proofs proofs.Fanin_proofs.
Import ListNotations.
Close Scope Q_scope.

Section C17.
Context {F : Type} `{Num F}.
Notation vec := (list F).

(* Delay: at step t the node outputs the supplied initial values, last one first, then the input received
   [delay] = length init steps earlier; for every input sequence, every delay >= 0, every dimension. *)
Theorem C17_delay (init xs : list vec) (t : nat) (dflt : vec) :
  t < length xs ->
  nth t (snd (delay_run init xs)) dflt =
    if t <? length init then nth (length init - 1 - t) init dflt else nth (t - length init) xs dflt.
Proof. exact (delay_output_at init xs t dflt). Qed.

Theorem C17_delay_zero (xs : list vec) : snd (delay_run [] xs) = xs.
Proof. exact (delay_zero xs). Qed.

Theorem C17_delay_buffer_size (init xs : list vec) : length (fst (delay_run init xs)) = length init.
Proof. exact (delay_buffer_length init xs). Qed.

(* NVAR: the output of step t is a function [nvar_out] of the window [store_at], ... *)
Theorem C17_nvar_output (delay order s dim : nat) (xs : list vec) (t : nat) (d : vec) :
  0 < s -> 0 < delay -> t < length xs ->
  nth t (snd (nvar_run order s (nvar_init delay s dim) xs)) d
  = nvar_out order s (store_at (nvar_init delay s dim) xs t).
Proof.
  intros Hs Hd Ht. apply nvar_run_outputs; [|exact Ht].
  unfold nvar_init. rewrite repeat_length. apply Nat.mul_pos_pos; assumption.
Qed.

(* ... whose strided rows are the current input and its delay-1 strided predecessors (zeros before the data), ... *)
Theorem C17_nvar_linear (delay s dim : nat) (xs : list vec) (t j : nat) :
  0 < s -> 0 < delay -> t < length xs -> j < delay ->
  length (stride s (store_at (nvar_init delay s dim) xs t)) = delay /\
  nth j (stride s (store_at (nvar_init delay s dim) xs t)) [] =
    if j * s <=? t then nth (t - j * s) xs [] else vzeros dim.
Proof.
  intros Hs Hd Ht Hj. split;
  [exact (nvar_window_rows delay s dim xs t Hs Hd Ht) | exact (nvar_window_row delay s dim xs t j Hs Hd Ht Hj)].
Qed.

(* ... followed by the products over all combinations with replacement, in combination order. *)
Theorem C17_nvar_monomials (order s : nat) (st : list vec) :
  let lin := concat (stride s st) in
  nvar_out order s st = lin ++ map (fun c => vprod (map (fun i => nth i lin n0) c)) (cwr (length lin) order).
Proof. exact eq_refl. Qed.

Theorem C17_concat (a b : list vec) : concat_forward (a ++ b) = concat_forward a ++ concat_forward b.
Proof. exact (concat_forward_app a b). Qed.

(* "in one fixed order": inside a model the parents of a node are concatenated in the order of the keys
   parent.name + child.name; that order - hence the concatenation - does not depend on the order in which the
   edges were created, and every parent's output appears exactly once. *)
Theorem C17_fanin_order_independent (child : String.string) (ps ps' : list (String.string * vec)) :
  Permutation ps ps' -> NoDup (map (fun p => String.append (fst p) child) ps) ->
  fanin_concat child ps = fanin_concat child ps'.
Proof. exact (fanin_concat_order_independent child ps ps'). Qed.
Theorem C17_fanin_each_once (child : String.string) (ps : list (String.string * vec)) :
  Permutation (map snd (sort_keys (map (fun p => (String.append (fst p) child, snd p)) ps))) (map snd ps).
Proof. exact (fanin_concat_each_once child ps). Qed.
End C17.

Theorem C17_cwr_spec (n k : nat) :
  (forall c, In c (cwr n k) <-> length c = k /\ wincr 0 c /\ Forall (fun i => i < n) c) /\
  StronglySorted lexlt (cwr n k) /\ NoDup (cwr n k).
Proof. exact (cwr_spec n k). Qed.

(* non-vacuity: a concrete delay-2 line and a concrete NVAR(delay=2, order=2, strides=2) window *)
Example C17_delay_example :
  snd (delay_run (F:=Q) [[7];[8]]%Q [[1];[2];[3]]%Q) = [[8];[7];[1]]%Q.
Proof. vm_compute. reflexivity. Qed.
Example C17_nvar_example :
  map (fun o => firstn 2 o) (snd (nvar_run (F:=Q) 2 2 (nvar_init 2 2 1) [[1];[2];[3];[4]]%Q)) = [[1;0];[2;0];[3;1];[4;2]]%Q
  /\ cwr 2 2 = [[0;0];[0;1];[1;1]].
Proof. vm_compute. split; reflexivity. Qed.

Print Assumptions C17_delay.
Print Assumptions C17_delay_zero.
Print Assumptions C17_delay_buffer_size.
Print Assumptions C17_nvar_output.
Print Assumptions C17_nvar_linear.
Print Assumptions C17_nvar_monomials.
Print Assumptions C17_concat.
Print Assumptions C17_fanin_order_independent.
Print Assumptions C17_fanin_each_once.
Print Assumptions C17_cwr_spec.

(* ================================================================================================================ *)
(* Tie (T): NVAR.forward, Delay.forward and concat_forward as translated on this run from the current source text of
   nodes/reservoirs/nvar.py, nodes/delay.py, nodes/concat.py (coq/gen/Gen_windows.v) ARE the model the theorems above are about,
   for every Num instance (hence also at Q, where the correspondence runs).                                             *)
From RV Require Import base.GenPrelude gen.Gen_windows proofs.Gen_windows_eq.

(* (output row, new store); idx = node._monomial_idx, the store is not empty (delay * strides >= 1) *)
Theorem C17_generated_nvar_forward_is_model {F : Type} `{Num F} (order strides od : nat) (store : list (list F)) (x : list F) :
  store <> [] ->
  let store' := x :: removelast store in
  let lin := concat (stride strides store') in
  GenWindows.nvar_forward store strides (cwr (length lin) order) od x
  = (snd (nvar_step order strides store x), fst (nvar_step order strides store x)).
Proof. exact (gen_nvar_forward_eq order strides od store x). Qed.

(* (output row, new buffer); between two steps the deque (maxlen = delay + 1) holds at most [delay] rows *)
Theorem C17_generated_delay_forward_is_model {F : Type} `{Num F} (delay : nat) (buf : list (list F)) (x : list F) :
  length buf <= delay ->
  GenWindows.delay_forward buf delay x = (snd (delay_step buf x), fst (delay_step buf x)).
Proof. exact (gen_delay_forward_eq delay buf x). Qed.

Theorem C17_generated_concat_forward_is_model {F : Type} `{Num F} (data : list (list F)) :
  GenWindows.concat_forward data = concat_forward data.
Proof. exact (gen_concat_forward_eq data). Qed.

Print Assumptions C17_generated_nvar_forward_is_model.
Print Assumptions C17_generated_delay_forward_is_model.
Print Assumptions C17_generated_concat_forward_is_model.

(* ================================================================================================================
   The R-vs-Q instance gap, closed by proof (base/NumHom.v, proofs/QR_bridge_C17.v).
   The theorems above hold for every [Num] instance, R included; the correspondence run (run/RunC17.v: chk_delay, chk_nvar,
   chk_concat, chk_fanin) evaluates the instance at Q.  [Q2R] is a homomorphism of the [Num] class, so the window functions
   commute with the entry-wise embedding ([qv2r := map Q2R], [qm2r := map (map Q2R)]): running at Q and embedding = running at
   R on the embedded data.  Hence [chk_nvar / chk_delay ... = true] is a statement about the R-instance of the model on those
   rational inputs.  No shape hypothesis, no side condition.
   (From here on the file depends on Coq's Reals: these -- and only these -- theorems report the standard-library axioms of
   the reals under Print Assumptions; everything above stays closed under the global context.) *)
From Coq Require Import Rdefinitions Qreals.
From RV Require Import base.NumHom proofs.QR_bridge_C17.

(* one step of Delay (new buffer, emitted row) and of NVAR (new store, emitted feature row), any order / strides *)
Theorem C17_Qwindows_embed :
  (forall (buf : list (list Q)) (x : list Q),
     (qm2r (fst (delay_step buf x)), qv2r (snd (delay_step buf x))) = delay_step (qm2r buf) (qv2r x)) /\
  (forall (order strides : nat) (store : list (list Q)) (x : list Q),
     (qm2r (fst (nvar_step order strides store x)), qv2r (snd (nvar_step order strides store x)))
     = nvar_step order strides (qm2r store) (qv2r x)).
Proof. exact Qwindows_embed. Qed.

(* whole runs (the terms the runner evaluates): Delay from any initial buffer, NVAR from the fresh zero store; Concat; fan-in *)
Theorem C17_Qwindows_runs_embed :
  (forall (buf xs : list (list Q)),
     (qm2r (fst (delay_run buf xs)), qm2r (snd (delay_run buf xs))) = delay_run (qm2r buf) (qm2r xs)) /\
  (forall (delay order strides dim : nat) (xs : list (list Q)),
     let r := nvar_run order strides (nvar_init delay strides dim) xs in
     (qm2r (fst r), qm2r (snd r)) = nvar_run order strides (nvar_init delay strides dim) (qm2r xs)) /\
  (forall (data : list (list Q)), qv2r (concat_forward data) = concat_forward (qm2r data)) /\
  (forall (child : String.string) (parents : list (String.string * list Q)),
     qv2r (fanin_concat child parents) = fanin_concat child (map (ekv Q2R) parents)).
Proof. exact Qwindows_runs_embed. Qed.

(* non-vacuity: NVAR delay 2, strides 1, order 2, dimension 2, three steps; Delay with two initial rows, three inputs *)
Example C17_Qwindows_nvar_example :
  snd (nvar_run 2 1 (nvar_init 2 1 2) (qm2r exxs))
  = qm2r [[(1#2)%Q; (-3#1)%Q; 0%Q; 0%Q; (1#4)%Q; (-3#2)%Q; 0%Q; 0%Q; (9#1)%Q; 0%Q; 0%Q; 0%Q; 0%Q; 0%Q];
          [(1#4)%Q; (2#1)%Q; (1#2)%Q; (-3#1)%Q; (1#16)%Q; (1#2)%Q; (1#8)%Q; (-3#4)%Q; (4#1)%Q; (1#1)%Q; (-6#1)%Q; (1#4)%Q; (-3#2)%Q; (9#1)%Q];
          [(-3#2)%Q; (1#8)%Q; (1#4)%Q; (2#1)%Q; (9#4)%Q; (-3#16)%Q; (-3#8)%Q; (-3#1)%Q; (1#64)%Q; (1#32)%Q; (1#4)%Q; (1#16)%Q; (1#2)%Q; (4#1)%Q]].
Proof. exact Qwindows_nvar_example. Qed.
Example C17_Qwindows_delay_example :
  delay_run (qm2r [[(7#1)%Q]; [(9#2)%Q]]) (qm2r [[(1#2)%Q]; [(1#4)%Q]; [(-3#2)%Q]])
  = (qm2r [[(-3#2)%Q]; [(1#4)%Q]], qm2r [[(9#2)%Q]; [(7#1)%Q]; [(1#2)%Q]]).
Proof. exact Qwindows_delay_example. Qed.

Print Assumptions C17_Qwindows_embed.
Print Assumptions C17_Qwindows_runs_embed.

(* ---- the verdict of the correspondence runner, read at R ----
   [rclose m o] is |m - o| <= 1e-9 * max(1,|m|) on reals ([vrclose], [mrclose]: entry-wise, same shape; base/NumHom.v proves
   [qclose m o = true <-> rclose (Q2R m) (Q2R o)]).  A verdict [true] of the C17 runner functions IS a statement about the
   R-instance of the window models on the embedded inputs. *)
From RV Require Import run.RunC17.

Theorem C17_chk_windows_are_about_R_model :
  (forall init xs outs buf : list (list Q), chk_delay init xs outs buf = true ->
     mrclose (snd (delay_run (qm2r init) (qm2r xs))) (qm2r outs) /\ mrclose (fst (delay_run (qm2r init) (qm2r xs))) (qm2r buf)) /\
  (forall (delay order strides dim : nat) (xs outs store : list (list Q)), chk_nvar delay order strides dim xs outs store = true ->
     let r := nvar_run order strides (nvar_init delay strides dim) (qm2r xs) in
     mrclose (snd r) (qm2r outs) /\ mrclose (fst r) (qm2r store)) /\
  (forall (data : list (list Q)) (obs : list Q), chk_concat data obs = true ->
     vrclose (concat_forward (qm2r data)) (qv2r obs)) /\
  (forall (child : String.string) (parents : list (String.string * list Q)) (obs : list Q), chk_fanin child parents obs = true ->
     vrclose (fanin_concat child (map (ekv Q2R) parents)) (qv2r obs)).
Proof. exact chk_windows_are_about_R_model. Qed.

(* non-vacuity: a Delay scenario on which the runner answers true *)
Example C17_chk_delay_example :
  chk_delay [[(7#1)%Q]; [(9#2)%Q]] [[(1#2)%Q]; [(1#4)%Q]; [(-3#2)%Q]] [[(9#2)%Q]; [(7#1)%Q]; [(1#2)%Q]] [[(-3#2)%Q]; [(1#4)%Q]] = true.
Proof. vm_compute. reflexivity. Qed.

Print Assumptions C17_chk_windows_are_about_R_model.
