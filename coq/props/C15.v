(* C15 — echo-state contraction and boundedness of reservoir dynamics.
   Statement-only file; proofs in proofs/ESP_proofs.v; the model is the one of C01 (model/Reservoir.v: step_internal,
   run_states), whose correspondence with reservoirpy is checked by C01's and C15's runs.

   [vnorm v] = sqrt (sum of squares) is the 2-norm, [opnorm_le W n sigma]: |W v| <= sigma |v| for every v of length n
   (sigma bounds the largest singular value), [lipschitz1 f]: |f a - f b| <= |a - b|.
   [shaped n c] / [quiet c]: shapes of an n-unit node / the three noise gains are 0 (see props/C01.v). *)
From Coq Require Import Reals Lra List Arith QArith.
From RV Require Import base.Num base.LA base.BSum model.Reservoir proofs.Reservoir_proofs proofs.ESP_proofs.
Import ListNotations.
Close Scope Q_scope.
Open Scope R_scope.

(* One step: two copies of the same reservoir (any Win, bias, feedback connection and feedback value, any input x,
   element-wise 1-Lipschitz activation f, scalar leak rate a in [0,1]) move closer by the factor (1-a) + a*sigma. *)
Theorem C15_step_contraction (n : nat) (c : rcfg R) (f : R -> R) (a sigma : R) (s1 s2 r1 r2 : list R) (x : rin R) :
  shaped n c -> quiet c -> (forall v, ract c v = map f v) -> rlr c = LrS a ->
  lipschitz1 f -> 0 <= a <= 1 -> 0 <= sigma -> opnorm_le (rW c) n sigma ->
  length r1 = n -> length r2 = n -> length s1 = n -> length s2 = n ->
  vnorm (vsub (snd (step_internal c (s1, r1) x)) (snd (step_internal c (s2, r2) x)))
  <= ((1 - a) + a * sigma) * vnorm (vsub r1 r2).
Proof.
  intros Hs Hq Hf Hl Hlip Ha Hsg HW. apply (step_contraction n c f a sigma Hs Hq Hf Hl Hlip Ha Hsg).
  now apply opnorm_sq.
Qed.

(* the same without square roots (what the Q runner evaluates) *)
Theorem C15_step_contraction_squared (n : nat) (c : rcfg R) (f : R -> R) (a sigma : R) (s1 s2 r1 r2 : list R) (x : rin R) :
  shaped n c -> quiet c -> (forall v, ract c v = map f v) -> rlr c = LrS a ->
  lipschitz1 f -> 0 <= a <= 1 -> 0 <= sigma -> opnorm2_le (rW c) n sigma ->
  length r1 = n -> length r2 = n -> length s1 = n -> length s2 = n ->
  vnorm2 (vsub (snd (step_internal c (s1, r1) x)) (snd (step_internal c (s2, r2) x)))
  <= ((1 - a) + a * sigma) * ((1 - a) + a * sigma) * vnorm2 (vsub r1 r2).
Proof. intros Hs Hq Hf Hl Hlip Ha Hsg HW. exact (step_contraction_sq n c f a sigma Hs Hq Hf Hl Hlip Ha Hsg HW s1 s2 r1 r2 x). Qed.

(* Runs: after t+1 steps on the same inputs (arbitrary, arbitrarily large) the distance is at most rho^(t+1) times the
   initial one; rho < 1 as soon as sigma < 1 and a > 0; hence the initial state is forgotten. *)
Theorem C15_run_geometric (n : nat) (c : rcfg R) (f : R -> R) (a sigma : R)
    (xs : list (rin R)) (st1 st2 : rstate R) (t : nat) (d : rstate R) :
  shaped n c -> quiet c -> (forall v, ract c v = map f v) -> rlr c = LrS a ->
  lipschitz1 f -> 0 <= a <= 1 -> 0 <= sigma -> opnorm_le (rW c) n sigma ->
  st_len n st1 -> st_len n st2 -> (t < length xs)%nat ->
  vnorm (vsub (snd (nth t (run_states Internal c st1 xs) d)) (snd (nth t (run_states Internal c st2 xs) d)))
  <= ((1 - a) + a * sigma) ^ (S t) * vnorm (vsub (snd st1) (snd st2)).
Proof.
  intros Hs Hq Hf Hl Hlip Ha Hsg HW. apply (run_contraction n c f a sigma Hs Hq Hf Hl Hlip Ha Hsg).
  now apply opnorm_sq.
Qed.

Theorem C15_factor_below_one (a sigma : R) : 0 < a <= 1 -> 0 <= sigma < 1 -> 0 <= (1 - a) + a * sigma < 1.
Proof. intros Ha Hs. split; nra. Qed.

Theorem C15_forgets_initial_state (n : nat) (c : rcfg R) (f : R -> R) (a sigma D0 eps : R) :
  shaped n c -> quiet c -> (forall v, ract c v = map f v) -> rlr c = LrS a ->
  lipschitz1 f -> 0 < a <= 1 -> 0 <= sigma < 1 -> opnorm_le (rW c) n sigma -> 0 < eps -> 0 <= D0 ->
  exists N : nat, forall xs st1 st2 t d, st_len n st1 -> st_len n st2 -> vnorm (vsub (snd st1) (snd st2)) <= D0 ->
    (N <= t)%nat -> (t < length xs)%nat ->
    vnorm (vsub (snd (nth t (run_states Internal c st1 xs) d)) (snd (nth t (run_states Internal c st2 xs) d))) < eps.
Proof.
  intros Hs Hq Hf Hl Hlip Ha Hsg HW He HD.
  apply (run_forgets n c f a sigma Hs Hq Hf Hl Hlip); try lra. apply opnorm_sq; [lra | exact HW].
Qed.

(* the hypothesis on W is satisfiable and checkable exactly: the Frobenius norm bounds the operator norm *)
Theorem C15_frobenius_bound (W : list (list R)) (n : nat) (sigma : R) :
  Forall (fun row => length row = n) W -> frob2 W <= sigma * sigma -> opnorm2_le W n sigma.
Proof. exact (frobenius_bound W n sigma). Qed.

(* Boundedness: activation with values in [-1,1] (any function of the whole column), leak rate in [0,1] (scalar or
   per-unit): the box [-1,1]^n is invariant, for every input, one step and all later steps. *)
Theorem C15_bounded_step (n : nat) (c : rcfg R) (s r : list R) (x : rin R) :
  shaped n c -> quiet c -> act_boxed c -> lr_unit n (rlr c) -> length r = n ->
  boxed n r -> boxed n (snd (step_internal c (s, r) x)).
Proof. exact (step_boxed n c s r x). Qed.

Theorem C15_bounded (n : nat) (c : rcfg R) (xs : list (rin R)) (st : rstate R) :
  shaped n c -> quiet c -> act_boxed c -> lr_unit n (rlr c) -> st_len n st -> boxed n (snd st) ->
  Forall (fun st' => boxed n (snd st')) (run_states Internal c st xs).
Proof. exact (run_boxed n c xs st). Qed.

Theorem C15_bounded_elementwise (c : rcfg R) (f : R -> R) :
  (forall v, ract c v = map f v) -> (forall z, -1 <= f z <= 1) -> act_boxed c.
Proof. exact (act_boxed_map c f). Qed.

(* instances: the activations named by the property satisfy the hypotheses *)
Theorem C15_tanh_lipschitz : lipschitz1 tanh.          (* Rtrigo_def.tanh = sinh / cosh *)
Proof. exact tanh_lipschitz. Qed.
Theorem C15_tanh_range (x : R) : -1 <= tanh x <= 1.
Proof. exact (tanh_range x). Qed.
Theorem C15_relu_lipschitz : lipschitz1 (a_relu (F:=R)).
Proof. exact relu_lipschitz. Qed.
Theorem C15_relu_is_max (x : R) : a_relu (F:=R) x = Rmax x 0.
Proof. exact (relu_R x). Qed.
Theorem C15_id_lipschitz : lipschitz1 (a_id (F:=R)).
Proof. exact id_lipschitz. Qed.
Theorem C15_hardtanh_lipschitz : lipschitz1 (a_hardtanh (F:=R)).
Proof. exact hardtanh_lipschitz. Qed.
Theorem C15_hardtanh_range (x : R) : -1 <= a_hardtanh (F:=R) x <= 1.
Proof. exact (hardtanh_range x). Qed.

(* ---- non-vacuity: a 2-unit tanh reservoir with W = [[1/2, 0], [1/4, 1/2]], lr = 1/2 meets every hypothesis with sigma = 7/8 ---- *)
Definition ex15 : rcfg R :=
  {| rW := [[1/2; 0]; [1/4; 1/2]]; rWin := [[1]; [-2]]; rbias := [1/2; 0]; rWfb := None; rlr := LrS (1/2);
     ract := map tanh; rfbact := map a_id; g_in := 0; g_fb := 0; g_rc := 0 |}.
Example C15_hypotheses_satisfiable :
  shaped 2 ex15 /\ quiet ex15 /\ (forall v, ract ex15 v = map tanh v) /\ rlr ex15 = LrS (1/2) /\ lipschitz1 tanh /\
  opnorm2_le (rW ex15) 2 (7/8) /\ act_boxed ex15 /\ lr_unit 2 (rlr ex15) /\ 0 <= (1 - 1/2) + 1/2 * (7/8) < 1.
Proof.
  assert (B : act_boxed ex15) by (apply (act_boxed_map ex15 tanh); [reflexivity | exact tanh_range]).
  assert (O : opnorm2_le (rW ex15) 2 (7/8)).
  { apply frobenius_bound; [repeat constructor|]. unfold frob2, vnorm2; cbn; lra. }
  assert (U : lr_unit 2 (rlr ex15)) by (intros i _; cbn; lra).
  assert (S : shaped 2 ex15).
  { unfold shaped; cbn [ex15 rW rWin rbias rWfb rlr ract rfbact length lr_len].
    repeat split; auto; try (intros; apply map_length); discriminate. }
  assert (Q : quiet ex15) by (unfold quiet; cbn; auto).
  split; [exact S|]. split; [exact Q|]. split; [reflexivity|]. split; [reflexivity|]. split; [exact tanh_lipschitz|].
  split; [exact O|]. split; [exact B|]. split; [exact U|]. lra.
Qed.
(* and the contraction is not an artefact of everything being 0: at Q with hard-tanh, two states at distance^2 = 5
   are at distance^2 = 185/64 after one step (bound: (15/16)^2 * 5 = 1125/256) *)
Example C15_step_example :
  let c := {| rW := [[1#2; 0]; [1#4; 1#2]]%Q; rWin := [[1]; [-2#1]]%Q; rbias := [1#2; 0]%Q; rWfb := None; rlr := LrS (1#2)%Q;
              ract := map a_hardtanh; rfbact := map a_id; g_in := 0%Q; g_fb := 0%Q; g_rc := 0%Q |} in
  let x := {| i_u := [(1#4)%Q]; i_fb := []; xi_in := []; xi_fb := []; xi_rc := [] |} in
  vnorm2 (vsub (snd (step_internal c ([0;0]%Q, [1;1]%Q) x)) (snd (step_internal c ([0;0]%Q, [-1#1;0]%Q) x))) = (185#64)%Q.
Proof. vm_compute. reflexivity. Qed.

Print Assumptions C15_step_contraction.
Print Assumptions C15_step_contraction_squared.
Print Assumptions C15_run_geometric.
Print Assumptions C15_factor_below_one.
Print Assumptions C15_forgets_initial_state.
Print Assumptions C15_frobenius_bound.
Print Assumptions C15_bounded_step.
Print Assumptions C15_bounded.
Print Assumptions C15_bounded_elementwise.
Print Assumptions C15_tanh_lipschitz.
Print Assumptions C15_tanh_range.
Print Assumptions C15_relu_lipschitz.
Print Assumptions C15_id_lipschitz.
Print Assumptions C15_hardtanh_lipschitz.
Print Assumptions C15_hardtanh_range.

(* ================================================================================================================ *)
(* Tie (T): the contraction, stated directly about forward_internal as GENERATED on this run from the current source of
   nodes/reservoirs/base.py (coq/gen/Gen_reservoir.v; equality with the model: proofs/Gen_reservoir_eq.v).             *)
From RV Require Import base.GenPrelude gen.Gen_reservoir proofs.Gen_reservoir_eq.

Theorem C15_generated_step_contraction (n : nat) (c : rcfg R) (f : R -> R) (a sigma : R) (r1 r2 : list R) (x : rin R) :
  shaped n c -> quiet c -> (forall v, ract c v = map f v) -> rlr c = LrS a ->
  lipschitz1 f -> 0 <= a <= 1 -> 0 <= sigma -> opnorm_le (rW c) n sigma ->
  length r1 = n -> length r2 = n ->
  let fwd r := GenReservoir_LrS.forward_internal (rW c) (rWin c) (rbias c) (c_has_fb c) (c_Wfb c) a (ract c) (rfbact c)
                                    (g_in c) (g_fb c) (g_rc c) r (i_fb x) (xi_in x) (xi_fb x) (xi_rc x) (i_u x) in
  vnorm (vsub (fwd r1) (fwd r2)) <= ((1 - a) + a * sigma) * vnorm (vsub r1 r2).
Proof.
  intros Hs Hq Hf Hl Hlip Ha Hsg HW H1 H2 fwd. unfold fwd.
  destruct (gen_forward_internal_eq c a (repeat 0 n) r1 x Hl) as [E1 _].
  destruct (gen_forward_internal_eq c a (repeat 0 n) r2 x Hl) as [E2 _]. rewrite E1, E2.
  apply (C15_step_contraction n c f a sigma (repeat 0 n) (repeat 0 n) r1 r2 x); auto using repeat_length.
Qed.
Print Assumptions C15_generated_step_contraction.

(* ================================================================================================================
   The R-vs-Q instance gap, closed by proof for the runner's verdict [chk_pair] (base/NumHom.v, proofs/QR_bridge_C01.v,
   proofs/QR_bridge_C15.v).
   The theorems above are about model/Reservoir.v at F := R.  The correspondence run (run/RunC01.v, chk_pair) executes the SAME
   term at F := Q from two start states on the same inputs, compares both trajectories with reservoirpy's, certifies sigma
   (sigma >= 0, sigma^2 >= squared Frobenius norm of W, exact rational arithmetic) and evaluates the squared contraction
   inequality of C15_step_contraction_squared exactly on the model's own numbers at every step, plus the box [-1,1] when asked.
   Since the run at Q embeds onto the run at R (C01 bridge) and [Qle_bool] reflects [<=] on the embedded reals,
   [chk_pair ... = true] implies, OVER R and for the R-instance of the model on the embedded parameters / start states / inputs:
   both observed trajectories are within 1e-9*max(1,|model|) of the model's, 0 <= sigma, frob2 W <= sigma^2 (the premise of
   C15_frobenius_bound), 0 <= lr <= 1, [contractingR rho^2 d0 [d1; d2; ...]]: d(t) <= rho^2 * d(t-1) for the squared distances
   d(t) = |xa[t] - xb[t]|^2 with d0 the squared distance of the start states and rho = (1 - lr) + lr * sigma, and (box) every
   component of every row in [-1, 1].  Exact activations only ([exact_act]: identity, relu, hard-tanh, x/2). *)
From RV Require Import base.NumHom proofs.QR_bridge_C01 proofs.QR_bridge_C15 run.RunC01.

Theorem C15_chk_pair_is_about_R_model (W Win : list (list Q)) (bias : list Q) (lr sigma : Q) (act : actc) (box : bool)
    (ra rb : list Q) (us : list (list Q)) (outsa outsb : list (list Q)) :
  exact_act act = true ->
  chk_pair W Win bias lr sigma act box ra rb us outsa outsb = true ->
  let cR := cfg2r (mkcfg W Win bias None (LrS lr) act AId) (act_funR act) (act_funR AId) in
  let xs := map in2r (map mkin (combine us (map (fun _ => []) us))) in
  let oa := run_outputs Internal cR ([], qv2r ra) xs in
  let ob := run_outputs Internal cR ([], qv2r rb) xs in
  let rho := ((1 - Q2R lr) + Q2R lr * Q2R sigma)%R in
  mrclose oa (qm2r outsa) /\ mrclose ob (qm2r outsb) /\
  (0 <= Q2R sigma)%R /\ (ESP_proofs.frob2 (qm2r W) <= Q2R sigma * Q2R sigma)%R /\ (0 <= Q2R lr <= 1)%R /\
  contractingR (rho * rho)%R (vnorm2 (vsub (qv2r ra) (qv2r rb))) (map (fun p => vnorm2 (vsub (fst p) (snd p))) (combine oa ob)) /\
  (box = true -> Forall in_boxR oa /\ Forall in_boxR ob).
Proof. exact (chk_pair_is_about_R_model W Win bias lr sigma act box ra rb us outsa outsb). Qed.

(* what [contractingR] gives: geometric decay of the squared distance, step by step *)
Theorem C15_contractingR_geometric (rho2 : R) : (0 <= rho2)%R -> forall ds prev, contractingR rho2 prev ds ->
  forall t, (t < length ds)%nat -> (nth t ds 0 <= rho2 ^ (S t) * prev)%R.
Proof. exact (contractingR_geometric rho2). Qed.

(* non-vacuity: 2 units, hard-tanh, lr = 1/2, sigma = 7/8 (49/64 >= 9/16 = squared Frobenius norm), three steps from two
   different start states; the two trajectories differ *)
Example C15_chk_pair_example :
  chk_pair c15_W c15_Win [(1#2)%Q; 0%Q] (1#2)%Q (7#8)%Q AHard true [1%Q; 1%Q] [(-1#1)%Q; 0%Q] c15_us
           (c15_run [1%Q; 1%Q]) (c15_run [(-1#1)%Q; 0%Q]) = true /\
  c15_run [1%Q; 1%Q] <> c15_run [(-1#1)%Q; 0%Q].
Proof. exact chk_pair_example. Qed.

Print Assumptions C15_chk_pair_is_about_R_model.
Print Assumptions C15_contractingR_geometric.
