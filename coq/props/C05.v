(* C05 — feedback is delayed by exactly one step; forced feedback replaces it.  Statement-only file. *)
From Coq Require Import List Arith Bool QArith Lia.
From RV Require Import base.Num base.LA model.ModelSem model.Kinds proofs.ModelSem_proofs.
Import ListNotations.
Close Scope Q_scope.

Section C05.
Context {F : Type} `{Num F}.
Notation vec := (list F).
Notation env := (@env F).
Notation model := (@model F).
Notation ndesc := (@ndesc F).

(* The value handed to a receiver during a step.  [prev] is the environment the state proxies were loaded from:
   the states at the end of the previous step ([step] passes the current environment before any node is called;
   for the first step of a run that is the pre-existing state, zero after a reset). *)
Theorem C05_unforced_node_sender (d : ndesc) (prev : env) clamp s :
  nfb d = Some (FbNode s) -> clamp (nid d) = None -> fbvalue d prev clamp = Some (st (prev s)).
Proof. exact (fbvalue_unforced_node d prev clamp s). Qed.

Theorem C05_unforced_submodel_sender (d : ndesc) (prev : env) clamp outs :
  nfb d = Some (FbModel outs) -> clamp (nid d) = None ->
  fbvalue d prev clamp = Some (concat (map (fun o => st (prev o)) outs)).
Proof. exact (fbvalue_unforced_model d prev clamp outs). Qed.

(* ... never the value being computed in the same step, wherever the sender sits in the execution order:
   in [step] the feedback environment is fixed before the first node is called, so whatever the nodes called
   earlier in the same step (the sender included) have written to the current environment [e] is not seen. *)
Theorem C05_same_step_invisible (m : model) (d : ndesc) forced ext (e e1 e2 : env) :
  call_node m (proxies m forced e) (clamps m forced) ext e1 d =
  (let '(s, h) := (st (e1 (nid d)), hid (e1 (nid d))) in
   match nfwd d s h (gather m e1 ext (nid d)) (fbvalue d (proxies m forced e) (clamps m forced)) with
   | Some (s', h') => (upd e1 (nid d) (mkNS s' h'), true)
   | None => (e1, false)
   end).
Proof. exact eq_refl. Qed.

(* Run level: at step k of an unforced run the receiver is handed the sender's state at the end of step k-1
   ([env_after .. k] is the environment after the first k steps; k = 0: the pre-existing state). *)
Theorem C05_run_delay (m : model) (d : ndesc) s steps (e : env) k :
  nfb d = Some (FbNode s) ->
  fbvalue d (proxies m (fun _ => None) (env_after m steps e k)) (clamps m (fun _ => None))
  = Some (st (env_after m steps e k s)).
Proof. exact (run_feedback_delay m d s steps e k). Qed.

(* forced feedback: the receiver sees the forced value instead *)
Theorem C05_forced_value (d : ndesc) (prev : env) clamp src v :
  nfb d = Some src -> clamp (nid d) = Some v -> fbvalue d prev clamp = Some v.
Proof. exact (fbvalue_forced d prev clamp src v). Qed.

(* graphflow.dispatch: with shifting the forced value of step 0 is zero and step t+1 sees Y[t];
   without shifting step t sees Y[t]; always one value per timestep. *)
Theorem C05_forced_shift (z : vec) (ys : list vec) (t : nat) (dflt : vec) :
  length (dispatch_fb true z ys) = length ys /\
  (ys <> [] -> nth 0 (dispatch_fb true z ys) dflt = z) /\
  (S t < length ys -> nth (S t) (dispatch_fb true z ys) dflt = nth t ys dflt) /\
  dispatch_fb false z ys = ys.
Proof.
  split; [exact (shift_with_length z ys)|]. split; [exact (shift_with_0 z ys dflt)|].
  split; [exact (shift_with_S z ys t dflt)|reflexivity].
Qed.
End C05.

(* Non-vacuity and the timing itself on a concrete loop at Q:  src(2x+0) -> R(x + 100 fb) ,  R <<= src  (sender upstream).
   Inputs 1, 2, 3 give sender outputs 2, 4, 6 and receiver outputs 2 + 0, 4 + 200, 6 + 400. *)
Definition ex5_nodes : list (@ndesc Q) :=
  [mkND 0 (kfwd (KFun 2 0)) None 1; mkND 1 (kfwd (KFbAdd 100)) (Some (FbNode 0)) 1]%Q.
Definition ex5_model : @model Q := mkModel ex5_nodes (fun n => match n with 1 => [0] | _ => [] end) [1].
Definition ex5_env : @env Q := fun _ => mkNS [0%Q] [].
Example C05_example :
  (let '(_, outs, ok) := run_steps ex5_model
      (map (fun x => ((fun n => match n with 0 => Some [x] | _ => None end), (fun _ : nat => @None (list Q)))) [1%Q; 2%Q; 3%Q]) ex5_env in
   (ok, outs)) = (true, [[[2%Q]]; [[204%Q]]; [[406%Q]]]).
Proof. vm_compute. reflexivity. Qed.

Print Assumptions C05_unforced_node_sender.
Print Assumptions C05_unforced_submodel_sender.
Print Assumptions C05_same_step_invisible.
Print Assumptions C05_run_delay.
Print Assumptions C05_forced_value.
Print Assumptions C05_forced_shift.


(* ================================================================================================================
   The same property on the LOW-LEVEL model (model/ProxySem.v), where nothing is frozen by construction: nodes carry a
   `_state_proxy` and receivers a clamp, loaded / consumed / restored / cleaned in the order model.py, node.py and
   _base.py do it.  proofs/Refine_proofs.v proves that this mechanism implements ModelSem (IronFleet-style layering),
   which makes the one-step delay a theorem about proxy management. *)
From RV Require Import model.ProxySem proofs.Refine_proofs.

Section C05_lowlevel.
Context {F : Type} `{Num F}.
Notation vec := (list F).
Notation env := (@env F).
Notation lenv := (@lenv F).
Notation model := (@model F).
Notation ndesc := (@ndesc F).

(* REFINEMENT.  For a model whose node ids are distinct, from any state at rest (no proxy, no clamp anywhere),
   Model.run as the code performs it (with_state; _load_proxys(keep=True); per step with_feedback{forward} then
   _load_proxys(); finally _clean_proxys) returns the outputs, the success flag and - once proxies and clamps are
   forgotten - the final environment of ModelSem.run_op, for every combination of stateful / reset / from_state,
   every forced-feedback sequence and every family of forward functions, failing ones included; and it ends at rest. *)
Theorem C05_lowlevel_refines (m : model) stateful reset from steps (el : lenv) :
  NoDup (ids_of m) -> at_rest el ->
  let '(el', outs_l, ok_l) := run_op_ll m stateful reset from steps el in
  let '(e', outs, ok) := run_op m stateful reset from steps (abs el) in
  outs_l = outs /\ ok_l = ok /\ (forall n, abs el' n = e' n) /\ at_rest el'.
Proof. exact (run_op_ll_refines m stateful reset from steps el). Qed.

(* Model.call (no reload after the step, with_feedback inherits [stateful]) is the one-step run *)
Theorem C05_lowlevel_call_refines (m : model) stateful reset from ext forced (el : lenv) (e : env) :
  NoDup (ids_of m) -> at_rest el -> R el e ->
  let '(el', outs_l, ok_l) := call_op_ll m stateful reset from ext forced el in
  let '(e', outs, ok) := run_op m stateful reset from [(ext, forced)] e in
  outs_l = outs /\ ok_l = ok /\ R el' e' /\ at_rest el'.
Proof. exact (call_op_ll_sim m stateful reset from ext forced el e). Qed.

(* INVARIANT.  A freshly built environment is at rest, and run / call / reset re-establish it - whether or not a
   forward function raised part-way (the statement is for every nfwd and does not look at the success flag). *)
Theorem C05_lowlevel_at_rest (m : model) (e0 : env) (el : lenv) :
  at_rest (inject e0) /\
  (NoDup (ids_of m) -> at_rest el ->
   (forall stateful reset from steps, at_rest (fst (fst (run_op_ll m stateful reset from steps el)))) /\
   (forall stateful reset from ext forced, at_rest (fst (fst (call_op_ll m stateful reset from ext forced el)))) /\
   at_rest (reset_op_ll m el)).
Proof. split; [exact (inject_at_rest e0)|exact (at_rest_invariant m el)]. Qed.

(* DELAY, as a fact about the mechanism.  Inside Model._run started from rest, let the first k steps have succeeded
   and let elk be the environment then.  In step k (taken without forced feedback), when receiver d is reached -
   after the prefix [pre] of the execution order has run and has possibly ALREADY overwritten the sender's `_state` -
   the DistantFeedback read returns the sender's state as it was at the end of step k-1; and that is the state
   ModelSem.env_after assigns to the sender (so C05_run_delay above speaks about the same value). *)
Theorem C05_lowlevel_run_delay (m : model) (d : ndesc) s pre suf steps (el0 : lenv) k ext (elmid : lenv) okmid :
  NoDup (ids_of m) -> at_rest el0 ->
  order m = pre ++ d :: suf -> nfb d = Some (FbNode s) ->
  lsteps_ok m steps (load_proxys m true el0) k = true ->
  let elk := lenv_after m steps (load_proxys m true el0) k in
  forward_from_ll m ext pre (fb_enter_all (fun _ => None) (order m) elk) = (elmid, okmid) ->
  fst (fb_read d elmid) = Some (lst (elk s)) /\
  lst (elk s) = st (env_after m steps (abs el0) k s).
Proof. exact (run_feedback_delay_ll m d s pre suf steps el0 k ext elmid okmid). Qed.

(* the local fact behind it: forward never writes a proxy and only consumes clamps, so whatever proxy the sender
   holds when the step begins is what an unclamped receiver reads, however much of the step has already run *)
Theorem C05_lowlevel_read_frozen (m : model) ext pre (d : ndesc) s (elin elmid : lenv) ok v :
  nfb d = Some (FbNode s) -> clamp (elin (nid d)) = None ->
  (proxy (elin s) = Some v \/ (proxy (elin s) = None /\ lst (elin s) = v /\ ~ In s (map nid pre))) ->
  forward_from_ll m ext pre elin = (elmid, ok) ->
  fst (fb_read d elmid) = Some v.
Proof. exact (fb_read_frozen m ext pre d s elin elmid ok v). Qed.
End C05_lowlevel.

(* Non-vacuity on the loop of C05_example: same outputs through the mechanism, which ends at rest ... *)
Definition ex5_steps (fb : nat -> option (list Q)) :=
  map (fun x => ((fun n => match n with 0 => Some [x] | _ => None end), fb)) [1%Q; 2%Q; 3%Q].
Definition ex5_lenv : @lenv Q := inject ex5_env.
Example C05_lowlevel_example :
  (let '(el, outs, ok) := run_op_ll ex5_model true false (fun _ => None) (ex5_steps (fun _ => None)) ex5_lenv in
   (ok, outs, map (fun n => (proxy (el n), clamp (el n))) [0; 1])) =
  (true, [[[2%Q]]; [[204%Q]]; [[406%Q]]], [(None, None); (None, None)]).
Proof. vm_compute. reflexivity. Qed.
(* ... and a value forced under the SENDER's name (node 0, which is not a receiver, and is also the receiver's parent):
   node 0 gets a temporary proxy 9, the receiver is clamped with 9 through its sender's name and adds 100 x 9, while its
   input is still node 0's current state 2x - DataDispatcher.get reads `state()`, never the proxy.  No side condition
   is needed for this case: ModelSem's [proxies] only feeds [fbvalue], exactly like the temporary proxy. *)
Example C05_lowlevel_forced_by_sender_example :
  let fb := fun n : nat => match n with 0 => Some [9%Q] | _ => None end in
  (let '(_, outs, ok) := run_op_ll ex5_model true false (fun _ => None) (ex5_steps fb) ex5_lenv in (ok, outs)) =
  (true, [[[902%Q]]; [[904%Q]]; [[906%Q]]]) /\
  (let '(_, outs, ok) := run_steps ex5_model (ex5_steps fb) ex5_env in (ok, outs)) = (true, [[[902%Q]]; [[904%Q]]; [[906%Q]]]).
Proof. vm_compute. split; reflexivity. Qed.

(* SIDE CONDITION 1 is needed: at rest.  `_load_proxys(keep=True)` keeps a proxy that is already there, so from a state
   where the sender still holds a stale proxy [7] the first step of the run reads 7 where ModelSem reads the state 0. *)
Theorem C05_lowlevel_needs_at_rest_refuted :
  exists el : @lenv Q, ~ at_rest el /\
    (let '(_, outs_l, _) := run_op_ll ex5_model true false (fun _ => None) (ex5_steps (fun _ => None)) el in
     let '(_, outs, _) := run_op ex5_model true false (fun _ => None) (ex5_steps (fun _ => None)) (abs el) in
     outs_l <> outs).
Proof.
  exists (fun n => match n with 0 => mkLN [0%Q] [] (Some [7%Q]) None | _ => mkLN [0%Q] [] None None end).
  split; [intros Hr; destruct (Hr 0) as [Hp _]; discriminate|vm_compute; discriminate].
Qed.
(* SIDE CONDITION 2 is needed: distinct node ids.  A clamp is consumed by the first read (`self._clamped = False`), so if
   the same receiver occurred twice in the execution order its second call would read the sender's proxy, whereas
   ModelSem hands the forced value to both.  (reservoirpy models cannot contain a node twice.) *)
Theorem C05_lowlevel_needs_nodup_refuted :
  let m := mkModel (ex5_nodes ++ [nth 1 ex5_nodes (mkND 0 (kfwd KId) None 0)]) (fun n => match n with 1 => [0] | _ => [] end) [1] in
  let fb := fun n : nat => match n with 1 => Some [5%Q] | _ => None end in
  ~ NoDup (ids_of m) /\
  (let '(_, outs_l, _) := run_op_ll m true false (fun _ => None) (ex5_steps fb) ex5_lenv in
   let '(_, outs, _) := run_op m true false (fun _ => None) (ex5_steps fb) (abs ex5_lenv) in
   outs_l <> outs).
Proof.
  split; [intros Hn; inversion Hn as [|? ? _ Hn']; inversion Hn' as [|? ? Hin _]; apply Hin; left; reflexivity|vm_compute; discriminate].
Qed.

Print Assumptions C05_lowlevel_refines.
Print Assumptions C05_lowlevel_call_refines.
Print Assumptions C05_lowlevel_at_rest.
Print Assumptions C05_lowlevel_run_delay.
Print Assumptions C05_lowlevel_read_frozen.
Print Assumptions C05_lowlevel_needs_at_rest_refuted.
Print Assumptions C05_lowlevel_needs_nodup_refuted.
