(* C05 — feedback is delayed by exactly one step; forced feedback replaces it.  Statement-only file. *)
From Coq Require Import List Arith Bool QArith Lia.
From RV Require Import base.Num base.LA model.ModelSem model.Kinds proofs.ModelSem_proofs.
Import ListNotations.
Close Scope Q_scope.

Section C05.
Context {F : Type} `{Num F}.
Notation vec := (list F).
Notation env := (@env F).
Notation model := (@model F).
Notation ndesc := (@ndesc F).

(* The value handed to a receiver during a step.  [prev] is the environment the state proxies were loaded from:
   the states at the end of the previous step ([step] passes the current environment before any node is called;
   for the first step of a run that is the pre-existing state, zero after a reset). *)
Theorem C05_unforced_node_sender (d : ndesc) (prev : env) clamp s :
  nfb d = Some (FbNode s) -> clamp (nid d) = None -> fbvalue d prev clamp = Some (st (prev s)).
Proof. exact (fbvalue_unforced_node d prev clamp s). Qed.

Theorem C05_unforced_submodel_sender (d : ndesc) (prev : env) clamp outs :
  nfb d = Some (FbModel outs) -> clamp (nid d) = None ->
  fbvalue d prev clamp = Some (concat (map (fun o => st (prev o)) outs)).
Proof. exact (fbvalue_unforced_model d prev clamp outs). Qed.

(* ... never the value being computed in the same step, wherever the sender sits in the execution order:
   in [step] the feedback environment is fixed before the first node is called, so whatever the nodes called
   earlier in the same step (the sender included) have written to the current environment [e] is not seen. *)
Theorem C05_same_step_invisible (m : model) (d : ndesc) forced ext (e e1 e2 : env) :
  call_node m (proxies m forced e) (clamps m forced) ext e1 d =
  (let '(s, h) := (st (e1 (nid d)), hid (e1 (nid d))) in
   match nfwd d s h (gather m e1 ext (nid d)) (fbvalue d (proxies m forced e) (clamps m forced)) with
   | Some (s', h') => (upd e1 (nid d) (mkNS s' h'), true)
   | None => (e1, false)
   end).
Proof. exact eq_refl. Qed.

(* Run level: at step k of an unforced run the receiver is handed the sender's state at the end of step k-1
   ([env_after .. k] is the environment after the first k steps; k = 0: the pre-existing state). *)
Theorem C05_run_delay (m : model) (d : ndesc) s steps (e : env) k :
  nfb d = Some (FbNode s) ->
  fbvalue d (proxies m (fun _ => None) (env_after m steps e k)) (clamps m (fun _ => None))
  = Some (st (env_after m steps e k s)).
Proof. exact (run_feedback_delay m d s steps e k). Qed.

(* forced feedback: the receiver sees the forced value instead *)
Theorem C05_forced_value (d : ndesc) (prev : env) clamp src v :
  nfb d = Some src -> clamp (nid d) = Some v -> fbvalue d prev clamp = Some v.
Proof. exact (fbvalue_forced d prev clamp src v). Qed.

(* graphflow.dispatch: with shifting the forced value of step 0 is zero and step t+1 sees Y[t];
   without shifting step t sees Y[t]; always one value per timestep. *)
Theorem C05_forced_shift (z : vec) (ys : list vec) (t : nat) (dflt : vec) :
  length (dispatch_fb true z ys) = length ys /\
  (ys <> [] -> nth 0 (dispatch_fb true z ys) dflt = z) /\
  (S t < length ys -> nth (S t) (dispatch_fb true z ys) dflt = nth t ys dflt) /\
  dispatch_fb false z ys = ys.
Proof.
  split; [exact (shift_with_length z ys)|]. split; [exact (shift_with_0 z ys dflt)|].
  split; [exact (shift_with_S z ys t dflt)|reflexivity].
Qed.
End C05.

(* Non-vacuity and the timing itself on a concrete loop at Q:  src(2x+0) -> R(x + 100 fb) ,  R <<= src  (sender upstream).
   Inputs 1, 2, 3 give sender outputs 2, 4, 6 and receiver outputs 2 + 0, 4 + 200, 6 + 400. *)
Definition ex5_nodes : list (@ndesc Q) :=
  [mkND 0 (kfwd (KFun 2 0)) None 1; mkND 1 (kfwd (KFbAdd 100)) (Some (FbNode 0)) 1]%Q.
Definition ex5_model : @model Q := mkModel ex5_nodes (fun n => match n with 1 => [0] | _ => [] end) [1].
Definition ex5_env : @env Q := fun _ => mkNS [0%Q] [].
Example C05_example :
  (let '(_, outs, ok) := run_steps ex5_model
      (map (fun x => ((fun n => match n with 0 => Some [x] | _ => None end), (fun _ : nat => @None (list Q)))) [1%Q; 2%Q; 3%Q]) ex5_env in
   (ok, outs)) = (true, [[[2%Q]]; [[204%Q]]; [[406%Q]]]).
Proof. vm_compute. reflexivity. Qed.

Print Assumptions C05_unforced_node_sender.
Print Assumptions C05_unforced_submodel_sender.
Print Assumptions C05_same_step_invisible.
Print Assumptions C05_run_delay.
Print Assumptions C05_forced_value.
Print Assumptions C05_forced_shift.


(* ================================================================================================================
   The same property on the LOW-LEVEL model (model/ProxySem.v), where nothing is frozen by construction: nodes carry a
   `_state_proxy` and receivers a clamp, loaded / consumed / restored / cleaned in the order model.py, node.py and
   _base.py do it.  proofs/Refine_proofs.v proves that this mechanism implements ModelSem (IronFleet-style layering),
   which makes the one-step delay a theorem about proxy management. *)
From RV Require Import model.ProxySem proofs.Refine_proofs.

Section C05_lowlevel.
Context {F : Type} `{Num F}.
Notation vec := (list F).
Notation env := (@env F).
Notation lenv := (@lenv F).
Notation model := (@model F).
Notation ndesc := (@ndesc F).

(* REFINEMENT.  For a model whose node ids are distinct, from any state at rest (no proxy, no clamp anywhere),
   Model.run as the code performs it (with_state; _load_proxys(keep=True); per step with_feedback{forward} then
   _load_proxys(); finally _clean_proxys) returns the outputs, the success flag and - once proxies and clamps are
   forgotten - the final environment of ModelSem.run_op, for every combination of stateful / reset / from_state,
   every forced-feedback sequence and every family of forward functions, failing ones included; and it ends at rest. *)
Theorem C05_lowlevel_refines (m : model) stateful reset from steps (el : lenv) :
  NoDup (ids_of m) -> at_rest el ->
  let '(el', outs_l, ok_l) := run_op_ll m stateful reset from steps el in
  let '(e', outs, ok) := run_op m stateful reset from steps (abs el) in
  outs_l = outs /\ ok_l = ok /\ (forall n, abs el' n = e' n) /\ at_rest el'.
Proof. exact (run_op_ll_refines m stateful reset from steps el). Qed.

(* Model.call (no reload after the step, with_feedback inherits [stateful]) is the one-step run *)
Theorem C05_lowlevel_call_refines (m : model) stateful reset from ext forced (el : lenv) (e : env) :
  NoDup (ids_of m) -> at_rest el -> R el e ->
  let '(el', outs_l, ok_l) := call_op_ll m stateful reset from ext forced el in
  let '(e', outs, ok) := run_op m stateful reset from [(ext, forced)] e in
  outs_l = outs /\ ok_l = ok /\ R el' e' /\ at_rest el'.
Proof. exact (call_op_ll_sim m stateful reset from ext forced el e). Qed.

(* INVARIANT.  A freshly built environment is at rest, and run / call / reset re-establish it - whether or not a
   forward function raised part-way (the statement is for every nfwd and does not look at the success flag). *)
Theorem C05_lowlevel_at_rest (m : model) (e0 : env) (el : lenv) :
  at_rest (inject e0) /\
  (NoDup (ids_of m) -> at_rest el ->
   (forall stateful reset from steps, at_rest (fst (fst (run_op_ll m stateful reset from steps el)))) /\
   (forall stateful reset from ext forced, at_rest (fst (fst (call_op_ll m stateful reset from ext forced el)))) /\
   at_rest (reset_op_ll m el)).
Proof. split; [exact (inject_at_rest e0)|exact (at_rest_invariant m el)]. Qed.

(* DELAY, as a fact about the mechanism.  Inside Model._run started from rest, let the first k steps have succeeded
   and let elk be the environment then.  In step k (taken without forced feedback), when receiver d is reached -
   after the prefix [pre] of the execution order has run and has possibly ALREADY overwritten the sender's `_state` -
   the DistantFeedback read returns the sender's state as it was at the end of step k-1; and that is the state
   ModelSem.env_after assigns to the sender (so C05_run_delay above speaks about the same value). *)
Theorem C05_lowlevel_run_delay (m : model) (d : ndesc) s pre suf steps (el0 : lenv) k ext (elmid : lenv) okmid :
  NoDup (ids_of m) -> at_rest el0 ->
  order m = pre ++ d :: suf -> nfb d = Some (FbNode s) ->
  lsteps_ok m steps (load_proxys m true el0) k = true ->
  let elk := lenv_after m steps (load_proxys m true el0) k in
  forward_from_ll m ext pre (fb_enter_all (fun _ => None) (order m) elk) = (elmid, okmid) ->
  fst (fb_read d elmid) = Some (lst (elk s)) /\
  lst (elk s) = st (env_after m steps (abs el0) k s).
Proof. exact (run_feedback_delay_ll m d s pre suf steps el0 k ext elmid okmid). Qed.

(* the local fact behind it: forward never writes a proxy and only consumes clamps, so whatever proxy the sender
   holds when the step begins is what an unclamped receiver reads, however much of the step has already run *)
Theorem C05_lowlevel_read_frozen (m : model) ext pre (d : ndesc) s (elin elmid : lenv) ok v :
  nfb d = Some (FbNode s) -> clamp (elin (nid d)) = None ->
  (proxy (elin s) = Some v \/ (proxy (elin s) = None /\ lst (elin s) = v /\ ~ In s (map nid pre))) ->
  forward_from_ll m ext pre elin = (elmid, ok) ->
  fst (fb_read d elmid) = Some v.
Proof. exact (fb_read_frozen m ext pre d s elin elmid ok v). Qed.
End C05_lowlevel.

(* Non-vacuity on the loop of C05_example: same outputs through the mechanism, which ends at rest ... *)
Definition ex5_steps (fb : nat -> option (list Q)) :=
  map (fun x => ((fun n => match n with 0 => Some [x] | _ => None end), fb)) [1%Q; 2%Q; 3%Q].
Definition ex5_lenv : @lenv Q := inject ex5_env.
Example C05_lowlevel_example :
  (let '(el, outs, ok) := run_op_ll ex5_model true false (fun _ => None) (ex5_steps (fun _ => None)) ex5_lenv in
   (ok, outs, map (fun n => (proxy (el n), clamp (el n))) [0; 1])) =
  (true, [[[2%Q]]; [[204%Q]]; [[406%Q]]], [(None, None); (None, None)]).
Proof. vm_compute. reflexivity. Qed.
(* ... and a value forced under the SENDER's name (node 0, which is not a receiver, and is also the receiver's parent):
   node 0 gets a temporary proxy 9, the receiver is clamped with 9 through its sender's name and adds 100 x 9, while its
   input is still node 0's current state 2x - DataDispatcher.get reads `state()`, never the proxy.  No side condition
   is needed for this case: ModelSem's [proxies] only feeds [fbvalue], exactly like the temporary proxy. *)
Example C05_lowlevel_forced_by_sender_example :
  let fb := fun n : nat => match n with 0 => Some [9%Q] | _ => None end in
  (let '(_, outs, ok) := run_op_ll ex5_model true false (fun _ => None) (ex5_steps fb) ex5_lenv in (ok, outs)) =
  (true, [[[902%Q]]; [[904%Q]]; [[906%Q]]]) /\
  (let '(_, outs, ok) := run_steps ex5_model (ex5_steps fb) ex5_env in (ok, outs)) = (true, [[[902%Q]]; [[904%Q]]; [[906%Q]]]).
Proof. vm_compute. split; reflexivity. Qed.

(* SIDE CONDITION 1 is needed: at rest.  `_load_proxys(keep=True)` keeps a proxy that is already there, so from a state
   where the sender still holds a stale proxy [7] the first step of the run reads 7 where ModelSem reads the state 0. *)
Theorem C05_lowlevel_needs_at_rest_refuted :
  exists el : @lenv Q, ~ at_rest el /\
    (let '(_, outs_l, _) := run_op_ll ex5_model true false (fun _ => None) (ex5_steps (fun _ => None)) el in
     let '(_, outs, _) := run_op ex5_model true false (fun _ => None) (ex5_steps (fun _ => None)) (abs el) in
     outs_l <> outs).
Proof.
  exists (fun n => match n with 0 => mkLN [0%Q] [] (Some [7%Q]) None | _ => mkLN [0%Q] [] None None end).
  split; [intros Hr; destruct (Hr 0) as [Hp _]; discriminate|vm_compute; discriminate].
Qed.
(* SIDE CONDITION 2 is needed: distinct node ids.  A clamp is consumed by the first read (`self._clamped = False`), so if
   the same receiver occurred twice in the execution order its second call would read the sender's proxy, whereas
   ModelSem hands the forced value to both.  (reservoirpy models cannot contain a node twice.) *)
Theorem C05_lowlevel_needs_nodup_refuted :
  let m := mkModel (ex5_nodes ++ [nth 1 ex5_nodes (mkND 0 (kfwd KId) None 0)]) (fun n => match n with 1 => [0] | _ => [] end) [1] in
  let fb := fun n : nat => match n with 1 => Some [5%Q] | _ => None end in
  ~ NoDup (ids_of m) /\
  (let '(_, outs_l, _) := run_op_ll m true false (fun _ => None) (ex5_steps fb) ex5_lenv in
   let '(_, outs, _) := run_op m true false (fun _ => None) (ex5_steps fb) (abs ex5_lenv) in
   outs_l <> outs).
Proof.
  split; [intros Hn; inversion Hn as [|? ? _ Hn']; inversion Hn' as [|? ? Hin _]; apply Hin; left; reflexivity|vm_compute; discriminate].
Qed.

Print Assumptions C05_lowlevel_refines.
Print Assumptions C05_lowlevel_call_refines.
Print Assumptions C05_lowlevel_at_rest.
Print Assumptions C05_lowlevel_run_delay.
Print Assumptions C05_lowlevel_read_frozen.
Print Assumptions C05_lowlevel_needs_at_rest_refuted.
Print Assumptions C05_lowlevel_needs_nodup_refuted.


(* ================================================================================================================
   ONLINE TRAINING OF A MODEL (Model.train) inside the formal model: model/TrainModel.v on top of ModelSem (forward, proxies,
   clamps) and Online.v (RLS / LMS); tied to /repo by run/RunTrain.v (tools/props/trainmodel.py).  [fb_seen tm force prev s S d]
   is the value node d is handed when it asks for its feedback during the step that Model.train takes from state
   S = (states, readout parameters, proxies frozen by the previous step's learning), [prev] being the previous step of the
   same call (None: first step), [s] the current one. *)
From RV Require Import model.Online model.TrainModel proofs.TrainModel_proofs.

Section C05_train.
Context {F : Type} `{Num F}.
Notation vec := (list F).
Notation env := (@env F).
Notation ndesc := (@ndesc F).
Notation tmodel := (@tmodel F).
Notation tstep := (@tstep F).
Notation tstate := (@tstate F).
Notation params := (@params F).

(* force_teachers = True, targets given as ARRAYS: a receiver d whose sender is the trained readout r is handed zeros of the
   target's length at the first step of a call and the target of the PREVIOUS step afterwards - for every state S, i.e.
   whatever the readout's parameters, its own outputs and learn_every are. *)
Theorem C05_train_forced_array_first (tm : tmodel) s (S : tstate) (d : ndesc) r y :
  NoDup (map nid (order (base tm))) -> In d (order (base tm)) -> nfb d = Some (FbNode r) ->
  stgt s (nid d) = None -> stgt s r = Some y ->
  fb_seen tm true None s S d = Some (vzeros (length y)).
Proof. exact (fb_seen_forced_first tm s S d r y). Qed.
Theorem C05_train_forced_array_later (tm : tmodel) p s (S : tstate) (d : ndesc) r y :
  NoDup (map nid (order (base tm))) -> In d (order (base tm)) -> nfb d = Some (FbNode r) ->
  stgt p (nid d) = None -> stgt p r = Some y ->
  fb_seen tm true (Some p) s S d = Some y.
Proof. exact (fb_seen_forced_later tm p s S d r y). Qed.
(* the same along a whole call: at step j the receiver is handed zeros (j = 0) or Y[j-1], from any starting state *)
Theorem C05_train_forced_array_trace (tm : tmodel) k single steps (S0 : tstate) j (d : ndesc) r dflt :
  NoDup (map nid (order (base tm))) -> In d (order (base tm)) -> nfb d = Some (FbNode r) ->
  (forall s, In s steps -> stgt s (nid d) = None /\ exists y, stgt s r = Some y) ->
  j < length steps ->
  let '(Sj, pj) := tstate_after tm k single true 0 None steps S0 j in
  fb_seen tm true pj (nth j steps dflt) Sj d =
    match j with
    | 0 => option_map (fun y => vzeros (length y)) (stgt (nth 0 steps dflt) r)
    | S j' => stgt (nth j' steps dflt) r
    end.
Proof. exact (train_forced_feedback_trace tm k single steps S0 j d r dflt). Qed.

(* force_teachers = False: the readout's OWN output of the previous step - its state when the call started at the first
   step, so that the value is carried across successive train calls *)
Theorem C05_train_unforced_own_output (tm : tmodel) prev s (e : env) (P : params) (d : ndesc) r :
  nfb d = Some (FbNode r) -> fb_seen tm false prev s (e, P, no_pov) d = Some (st (e r)).
Proof. exact (fb_seen_unforced tm prev s e P d r). Qed.
Theorem C05_train_unforced_trace (tm : tmodel) k single steps (e0 : env) (P0 : params) j (d : ndesc) r dflt :
  nfb d = Some (FbNode r) ->
  let '(Sj, pj) := tstate_after tm k single false 0 None steps (e0, P0, no_pov) j in
  fb_seen tm false pj (nth j steps dflt) Sj d = Some (st (fst (fst Sj) r)).
Proof. exact (train_unforced_feedback_trace tm k single steps e0 P0 j d r dflt). Qed.

(* force_teachers = True, targets given by a TEACHER NODE t of the model (Y = node, or {readout: node}): forced exactly like
   array targets (Model.train since 7fe3c48: the zero proxy before the first step, `set_state_proxy(teacher())` after EVERY
   step).  The receiver is handed zeros of the readout's output dimension at the first step of every call ... *)
Theorem C05_train_forced_teacher_first (tm : tmodel) s (e : env) (P : params) (d : ndesc) rn (r : @rspec F) t :
  NoDup (map nid (order (base tm))) -> In d (order (base tm)) -> nfb d = Some (FbNode rn) ->
  find_r tm rn = Some r -> rtgt r = TNode t ->
  stgt s (nid d) = None -> stgt s rn = None ->
  fb_seen tm true None s (e, P, init_pov tm true) d = Some (vzeros (rodim r)).
Proof. exact (fb_seen_teacher_first tm s e P d rn r t). Qed.
(* ... and, after any successful step, the teacher node's output of that step - whether learn_every selected it or not *)
Theorem C05_train_forced_teacher_later (tm : tmodel) k single i prev s s' (S : tstate) e1 P1 pov1 (d dr : ndesc) (r : @rspec F) t :
  NoDup (map nid (order (base tm))) -> In d (order (base tm)) -> nfb d = Some (FbNode (nid dr)) ->
  In dr (order (base tm)) -> find_r tm (nid dr) = Some r -> rtgt r = TNode t ->
  stgt s (nid d) = None -> stgt s (nid dr) = None ->
  train_step tm k single true i prev s S = ((e1, P1, pov1), true) ->
  fb_seen tm true (Some s) s' (e1, P1, pov1) d = Some (st (e1 t)).
Proof. exact (fb_seen_teacher_later tm k single i prev s s' S e1 P1 pov1 d dr r t). Qed.
(* along a whole successful call, for every learn_every: zeros at step 0, the teacher's output of step j-1 at step j *)
Theorem C05_train_forced_teacher_trace (tm : tmodel) k single steps (e0 : env) (P0 : params) S2 outs j (d dr : ndesc) (r : @rspec F) t dflt :
  NoDup (map nid (order (base tm))) -> In d (order (base tm)) -> nfb d = Some (FbNode (nid dr)) ->
  In dr (order (base tm)) -> find_r tm (nid dr) = Some r -> rtgt r = TNode t ->
  (forall s, In s steps -> stgt s (nid d) = None /\ stgt s (nid dr) = None) ->
  TrainModel.train_from tm k single true 0 None steps (e0, P0, init_pov tm true) = (S2, outs, true) ->
  j < length steps ->
  let '(Sj, pj) := tstate_after tm k single true 0 None steps (e0, P0, init_pov tm true) j in
  fb_seen tm true pj (nth j steps dflt) Sj d =
    Some (match j with 0 => vzeros (rodim r) | S _ => st (fst (fst Sj) t) end).
Proof. exact (train_teacher_feedback_trace tm k single steps e0 P0 S2 outs j d dr r t dflt). Qed.

(* the readout parameters change on the steps selected by learn_every only *)
Theorem C05_train_params_only_at_gated_steps (tm : tmodel) k single force i prev s (S : tstate) :
  gate k single i = false -> snd (fst (fst (train_step tm k single force i prev s S))) = snd (fst S).
Proof. exact (train_step_ungated_params tm k single force i prev s S). Qed.

(* Teacher-forced training: let U be a set of nodes closed under predecessors, containing no readout, in which every feedback
   receiver is fed by a readout that has an array target at every step, or by a readout taught by a teacher node of U.  Two
   successful train calls on the same steps from the same states give the nodes of U the same states at every step and at the
   end, WHATEVER learn_every and the readouts' parameters are in each ([selU]: the entries of the per-step outputs that belong
   to U). *)
Theorem C05_train_forced_states_indep (tm : tmodel) (U : nat -> Prop) k k' reset steps (e : env) (P P' : params)
        e1 P1 o1 e1' P1' o1' :
  (forall n p, U n -> In p (parents (base tm) n) -> U p) -> (forall n, U n -> find_r tm n = None) ->
  NoDup (map nid (order (base tm))) ->
  (forall s (d : ndesc), In s steps -> In d (order (base tm)) -> U (nid d) ->
     nfb d = None \/ exists r, nfb d = Some (FbNode r) /\ stgt s (nid d) = None /\
                               ((exists y, stgt s r = Some y) \/ (stgt s r = None /\ exists t, taughtU tm U r t))) ->
  TrainModel.train_call tm k true reset steps (e, P) = (e1, P1, o1, true) ->
  TrainModel.train_call tm k' true reset steps (e, P') = (e1', P1', o1', true) ->
  agreeU U e1 e1' /\ Forall2 (selU tm U) o1 o1'.
Proof. exact (train_call_forced_states_indep tm U k k' reset steps e P P' e1 P1 o1 e1' P1' o1'). Qed.
End C05_train.

(* ---- non-vacuity at Q.  R(x + fb/2) >> readout (RLS, bias, alpha = 1), R <<= readout; X = 1 2 1 3, Y = 1 3 2 1. *)
Definition exT_base : @model Q :=
  mkModel [mkND 0 (kfwd (KFbAdd (1#2))) (Some (FbNode 1)) 1; mkND 1 (kfwd KId) None 1]%Q (fun n => match n with 1 => [0] | _ => [] end) [1].
Definition exT : @tmodel Q := mkTM exT_base [mkRS 1 (RuleRLS true) 1 TArr].
Definition exT_P0 : @params Q := fun _ => rls_init true 1 1 1%Q.
Definition exT_e0 : @env Q := fun _ => mkNS [0%Q] [].
Definition exT_steps (xy : list (Q * Q)) : list (@tstep Q) :=
  map (fun p => mkTS (fun n => match n with 0 => Some [fst p] | _ => None end) (fun n => match n with 1 => Some [snd p] | _ => None end)) xy.
Definition exT_xy := [(1, 1); (2, 3); (1, 2); (3, 1)]%Q.
Definition exT_recv : @ndesc Q := mkND 0 (kfwd (KFbAdd (1#2)%Q)) (Some (FbNode 1)) 1.
Definition exT_dflt : @tstep Q := mkTS (fun _ => None) (fun _ => None).
Definition exT_seen (tm : @tmodel Q) (d : @ndesc Q) k force steps S0 :=
  map (fun j => let '(Sj, pj) := tstate_after tm k false force 0 None steps S0 j in fb_seen tm force pj (nth j steps exT_dflt) Sj d)
      (seq 0 (length steps)).
(* forced: the receiver is handed 0, Y0, Y1, Y2 for learn_every = 1 and 2 alike; its outputs are x + half of that *)
Example C05_train_forced_example :
  exT_seen exT exT_recv 1 true (exT_steps exT_xy) (exT_e0, exT_P0, no_pov) = [Some [0]; Some [1]; Some [3]; Some [2]]%Q /\
  exT_seen exT exT_recv 2 true (exT_steps exT_xy) (exT_e0, exT_P0, no_pov) = [Some [0]; Some [1]; Some [3]; Some [2]]%Q /\
  (let '(_, _, o, ok) := train_call exT 2 true false (exT_steps exT_xy) (exT_e0, exT_P0) in (map (hd []) o, ok))
  = ([[1]; [5#2]; [5#2]; [4]]%Q, true).
Proof. vm_compute. repeat split; reflexivity. Qed.
(* unforced: the readout's own previous prediction *)
Example C05_train_unforced_example :
  exT_seen exT exT_recv 1 false (exT_steps exT_xy) (exT_e0, exT_P0, no_pov) =
  (let '(_, _, o, _) := train_call exT 1 false false (exT_steps exT_xy) (exT_e0, exT_P0) in
   Some [0%Q] :: map (fun row => Some (nth 1 row [])) (removelast o)) /\
  nth 2 (exT_seen exT exT_recv 1 false (exT_steps exT_xy) (exT_e0, exT_P0, no_pov)) None <> Some [0%Q].
Proof. vm_compute. split; [reflexivity|discriminate]. Qed.

(* ---- teacher node: inp(0) >> [R(1): x + fb >> readout(2), T(3): 3x + 1], R <<= readout, Y = T; X = 1 2 3 4, so T = 4 7 10 13 *)
Definition exN_base : @model Q :=
  mkModel [mkND 0 (kfwd KId) None 1; mkND 1 (kfwd (KFbAdd 1)) (Some (FbNode 2)) 1; mkND 2 (kfwd KId) None 1; mkND 3 (kfwd (KFun 3 1)) None 1]%Q
          (fun n => match n with 1 => [0] | 2 => [1] | 3 => [0] | _ => [] end) [2; 3].
Definition exN : @tmodel Q := mkTM exN_base [mkRS 2 (RuleRLS true) 1 (TNode 3)].
Definition exN_steps (xs : list Q) : list (@tstep Q) :=
  map (fun x => mkTS (fun n => match n with 0 => Some [x] | _ => None end) (fun _ => None)) xs.
Definition exN_recv : @ndesc Q := mkND 1 (kfwd (KFbAdd 1%Q)) (Some (FbNode 2)) 1.
(* the property's values 0, T0, T1, T2 for learn_every = 1 and 2 alike ... *)
Example C05_train_teacher_node_example :
  exT_seen exN exN_recv 1 true (exN_steps [1; 2; 3; 4]%Q) (exT_e0, exT_P0, init_pov exN true) = [Some [0]; Some [4]; Some [7]; Some [10]]%Q /\
  exT_seen exN exN_recv 2 true (exN_steps [1; 2; 3; 4]%Q) (exT_e0, exT_P0, init_pov exN true) = [Some [0]; Some [4]; Some [7]; Some [10]]%Q.
Proof. vm_compute. split; reflexivity. Qed.
(* ... and zero again at the first step of a second call, although the readout's last real output is not zero
   (both were wrong before 7fe3c48: known_findings train:teacher-node:not-forced-after-ungated-step / first-step-not-zero) *)
Example C05_train_teacher_node_second_call_example :
  let '(e1, P1, _, _) := TrainModel.train_call exN 1 true false (exN_steps [1; 2; 3; 4]%Q) (exT_e0, exT_P0) in
  exT_seen exN exN_recv 1 true (exN_steps [1; 2]%Q) (e1, P1, init_pov exN true) = [Some [0]; Some [4]]%Q /\ st (e1 2) <> [0%Q].
Proof. vm_compute. split; [reflexivity|discriminate]. Qed.
(* ... while the states of the receiver under array targets do not depend on learn_every (instance of C05_train_forced_states_indep) *)
Example C05_train_forced_states_indep_example :
  (let '(_, _, o, _) := train_call exT 1 true false (exT_steps exT_xy) (exT_e0, exT_P0) in map (hd []) o) =
  (let '(_, _, o, _) := train_call exT 3 true false (exT_steps exT_xy) (exT_e0, fun _ => rls_init true 1 1 (1#4)%Q) in map (hd []) o) /\
  (let '(_, P, _, _) := train_call exT 1 true false (exT_steps exT_xy) (exT_e0, exT_P0) in Wout (P 1)) <>
  (let '(_, P, _, _) := train_call exT 3 true false (exT_steps exT_xy) (exT_e0, exT_P0) in Wout (P 1)).
Proof. vm_compute. split; [reflexivity|discriminate]. Qed.

Print Assumptions C05_train_forced_array_first.
Print Assumptions C05_train_forced_array_later.
Print Assumptions C05_train_forced_array_trace.
Print Assumptions C05_train_unforced_own_output.
Print Assumptions C05_train_unforced_trace.
Print Assumptions C05_train_forced_teacher_first.
Print Assumptions C05_train_forced_teacher_later.
Print Assumptions C05_train_forced_teacher_trace.
Print Assumptions C05_train_params_only_at_gated_steps.
Print Assumptions C05_train_forced_states_indep.

(* ================================================================================================================ *)
(* OFFLINE fitting (Model.fit, ESN.fit) of models with feedback: what every receiver is handed, at every timestep of
   every sequence, in every stage.  Model: model/FitFb.v (forward nodes executed by ModelSem.forward, proxies / clamps over
   the complete model, forced mapping = shifted targets of ALL offline nodes); correspondence: tools/props/fitfb.py.   *)
From RV Require Import model.Ridge model.FitSem model.FitFb proofs.FitFb_proofs.
Local Close Scope Q_scope.

Section C05_fit.
Context {F : Type} `{Num F}.

(* force_teachers=True, first step of a sequence: zeros of the target's width -- in every sequence, every stage, whatever
   the environment (readout parameters, states left by earlier sequences / stages) *)
Theorem C05_fit_forced_first (fm : @fmodel F) Y j (e : @env F) (d : @ndesc F) s rows :
  NoDup (map nid (fm_nodes fm)) -> In d (fm_nodes fm) -> nfb d = Some (FbNode s) ->
  seq_rows Y j (nid d) = None -> seq_rows Y j s = Some rows -> rows <> [] ->
  fit_fb_seen fm (forced_at true Y j 0) e d = Some (vzeros (length (hd [] rows))).
Proof. exact (fit_forced_value_first fm Y j e d s rows). Qed.

(* ... later steps: the sender's TARGET of the previous step (not its output, fitted or not) *)
Theorem C05_fit_forced_later (fm : @fmodel F) Y j t (e : @env F) (d : @ndesc F) s rows dflt :
  NoDup (map nid (fm_nodes fm)) -> In d (fm_nodes fm) -> nfb d = Some (FbNode s) ->
  seq_rows Y j (nid d) = None -> seq_rows Y j s = Some rows -> S t < length rows ->
  fit_fb_seen fm (forced_at true Y j (S t)) e d = Some (nth t rows dflt).
Proof. exact (fit_forced_value_later fm Y j t e d s rows dflt). Qed.

(* force_teachers=False: the sender's real state at the end of the previous step -- node sender, sub-model sender *)
Theorem C05_fit_unforced (fm : @fmodel F) Y j t (e : @env F) (d : @ndesc F) s :
  nfb d = Some (FbNode s) -> fit_fb_seen fm (forced_at false Y j t) e d = Some (st (e s)).
Proof. exact (fit_unforced_value fm Y j t e d s). Qed.
Theorem C05_fit_unforced_submodel (fm : @fmodel F) Y j t (e : @env F) (d : @ndesc F) outs :
  nfb d = Some (FbModel outs) ->
  fit_fb_seen fm (forced_at false Y j t) e d = Some (concat (map (fun o => st (e o)) outs)).
Proof. exact (fit_unforced_value_model fm Y j t e d outs). Qed.

(* the ESN node's fit hands its reservoir the same values (it has no force_teachers switch) *)
Theorem C05_fit_forced_esn (dres drd : @ndesc F) Y j t (e : @env F) rows dflt :
  nfb dres = Some (FbNode (nid drd)) -> nfb drd = None -> nid dres <> nid drd ->
  seq_rows Y j (nid drd) = Some rows -> t < length rows ->
  esn_fb_seen dres drd (forced_at true Y j t) e = Some (nth t (shifted rows) dflt).
Proof. exact (esn_forced_value dres drd Y j t e rows dflt). Qed.
End C05_fit.

(* non-vacuity: R1(0) >> ro1(1) >> R2(2) >> ro2(3), R1 <<= ro2, R2 <<= ro1 (two stages, crossing feedback); targets
   Y1 = 10, 20, 30 and Y2 = 100, 200, 300: R1 sees 0, 100, 200 and R2 sees 0, 10, 20 from ANY environment *)
Definition exG_fm : @fmodel Q :=
  mkFM [mkND 0 (kfwd (KFbAdd 1%Q)) (Some (FbNode 3)) 1; mkND 1 (fun _ _ _ _ => None) None 1;
        mkND 2 (kfwd (KFbAdd 1%Q)) (Some (FbNode 1)) 1; mkND 3 (fun _ _ _ _ => None) None 1]
       (mkG [0; 1; 2; 3] [(0, 1); (1, 2); (2, 3)] [1; 3]) [mkRD 1 true 1%Q 1; mkRD 3 true 1%Q 1].
Definition exG_Y : list (nat * list (list (list Q))) := [(1, [[[10]; [20]; [30]]]%Q); (3, [[[100]; [200]; [300]]]%Q)].
Example C05_fit_forced_example (e : @env Q) :
  map (fun t => fit_fb_seen exG_fm (forced_at true exG_Y 0 t) e (mkND 0 (kfwd (KFbAdd 1%Q)) (Some (FbNode 3)) 1)) [0; 1; 2]
    = [Some [0]; Some [100]; Some [200]]%Q /\
  map (fun t => fit_fb_seen exG_fm (forced_at true exG_Y 0 t) e (mkND 2 (kfwd (KFbAdd 1%Q)) (Some (FbNode 1)) 1)) [0; 1; 2]
    = [Some [0]; Some [10]; Some [20]]%Q.
Proof. split; reflexivity. Qed.

Print Assumptions C05_fit_forced_first.
Print Assumptions C05_fit_forced_later.
Print Assumptions C05_fit_unforced.
Print Assumptions C05_fit_unforced_submodel.
Print Assumptions C05_fit_forced_esn.


(* ================================================================================================================
   SUB-MODEL FEEDBACK SENDERS THROUGH THE `_fb_flag` PARITY MECHANISM: model/SubSender.v on top of ProxySem (per-node flag bit flipped
   by every successful call, the reduced sender, DistantFeedback.call_distant_node as written), tied to /repo by run/RunSubSender.v
   (family `subsender` of tools/props/c05.py).  [in_sync s sd]: all flags of the sender's nodes agree.  [placed m sm]: every receiver
   with a sub-model sender declares it consistently, all nodes of the sender are in the model's forward order, and the receiver is
   called before all of them or after all of them.  [synced m sm f]: in_sync for every such sender. *)
From RV Require Import model.SubSender proofs.SubSender_proofs.

Section C05_subsender.
Context {F : Type} `{Num F}.
Notation vec := (list F).

(* INVARIANT (a).  One complete step of Model._run, with any forced feedback, from flags in sync: the per-node part of the state evolves
   exactly as in ProxySem (no reduced sender is ever run), the flags are in sync again, and the forward function of every node of
   the model - sender nodes included - has been entered exactly once.  Receivers before or after their sender; any node functions. *)
Theorem C05_submodel_in_sync_preserved (m : @model F) sm forced ext (e : @lenv F) f0 c0 :
  NoDup (ids_of m) -> placed m sm -> synced m sm f0 ->
  exists f c,
    step_s m sm forced ext (mkSS e f0 c0) = (mkSS (fst (step_ll m forced ext e)) f c, snd (step_ll m forced ext e)) /\
    (snd (step_ll m forced ext e) = true ->
     synced m sm f /\ forall n, c n = c0 n + (if memb n (ids_of m) then 1 else 0)).
Proof. exact (step_calm m sm forced ext e f0 c0). Qed.

(* DELAY (b).  Model.run on one sequence from rest and in sync computes ModelSem's run - outputs, success flag, final states -, in which
   every receiver is handed [fbvalue]: the states its sender's output nodes had at the end of the previous step (C05_unforced_submodel_sender,
   pre-existing states at the first step) or the forced value; it ends at rest, and when it succeeds in sync, every node of the model
   having been entered once per step. *)
Theorem C05_submodel_sender_delay (m : @model F) sm steps (s : @sstate F) :
  NoDup (ids_of m) -> placed m sm -> synced m sm (fl s) -> at_rest (le s) ->
  let '(s', outs_s, ok_s) := run_s m sm steps s in
  let '(e', outs, ok) := run_steps m steps (abs (le s)) in
  outs_s = outs /\ ok_s = ok /\ Refine_proofs.R (le s') e' /\ at_rest (le s') /\
  (ok = true -> synced m sm (fl s') /\ forall n, cn s' n = cn s n + (if memb n (ids_of m) then length steps else 0)).
Proof. exact (run_calm m sm steps s). Qed.

(* ... and the local fact: a receiver whose sender's flags agree, reached after any prefix of the step has run (and has possibly
   overwritten the sender's `_state`), is handed what the sender's output nodes held when the step began *)
Theorem C05_submodel_read_frozen (m : @model F) sm ext pre (d : @ndesc F) sd (s : @sstate F) (elin elmid : @lenv F) ok :
  sm (nid d) = Some sd -> in_sync s sd -> clamp (elin (nid d)) = None ->
  (forall o, In o (s_outs sd) -> proxy (elin o) = Some (lst (elin o)) \/ (proxy (elin o) = None /\ ~ In o (map nid pre))) ->
  forward_from_ll m ext pre elin = (elmid, ok) -> le s = elmid ->
  fb_seen sm d s = Some (concat (map (fun o => lst (elin o)) (s_outs sd))).
Proof. exact (cdn_reads_frozen m sm ext pre d sd s elin elmid ok). Qed.

(* STRADDLING receiver (execution order A, R, B; sender A >> B; any forward functions fr fa fb, any states).
   A step taken in sync: R is handed B applied to A's PREVIOUS output [sa] - recomputed from B's state, not the sender's previous
   output [sb] -, B is entered twice, and the flags end out of sync ... *)
Theorem C05_submodel_straddling_sync_step (fr fa fb : vec -> @hidden F -> vec -> option vec -> option (vec * @hidden F))
        x sr hr sa ha sb hb p q c0 c1 c2 sa' ha' sb1 hb1 sr' hr' sb2 hb2 :
  fa sa ha x None = Some (sa', ha') ->
  fb sb hb sa None = Some (sb1, hb1) ->
  fr sr hr sa' (Some sb1) = Some (sr', hr') ->
  fb sb1 hb1 sr' None = Some (sb2, hb2) ->
  obs3 (step_s (m_straddle fr fa fb) (sm3 fb) nofb (ext1 x)
          (mkSS (env3 (held sr hr) (held sa ha) (held sb hb)) (fl3 p q q) (cn3 c0 c1 c2))) =
  (true, [held sr' hr'; held sa' ha'; held sb2 hb2], [negb p; negb q; q], [S c0; S c1; S (S c2)]).
Proof. exact (straddle_sync_step fr fa fb x sr hr sa ha sb hb p q c0 c1 c2 sa' ha' sb1 hb1 sr' hr' sb2 hb2). Qed.
(* ... whereas out of sync (every later step: that state is stable) R is handed the sender's previous output [sb], once each *)
Theorem C05_submodel_straddling_antisync_step (fr fa fb : vec -> @hidden F -> vec -> option vec -> option (vec * @hidden F))
        x sr hr sa ha sb hb p q c0 c1 c2 sa' ha' sr' hr' sb' hb' :
  fa sa ha x None = Some (sa', ha') ->
  fr sr hr sa' (Some sb) = Some (sr', hr') ->
  fb sb hb sr' None = Some (sb', hb') ->
  obs3 (step_s (m_straddle fr fa fb) (sm3 fb) nofb (ext1 x)
          (mkSS (env3 (held sr hr) (held sa ha) (held sb hb)) (fl3 p q (negb q)) (cn3 c0 c1 c2))) =
  (true, [held sr' hr'; held sa' ha'; held sb' hb'], [negb p; negb q; q], [S c0; S c1; S c2]).
Proof. exact (straddle_antisync_step fr fa fb x sr hr sa ha sb hb p q c0 c1 c2 sa' ha' sr' hr' sb' hb'). Qed.

(* PARTLY OUTSIDE (c) (sender A >> B with B never called by the forward pass; any forward functions and states).
   Receiver after A (model a >> R), in sync: the reduced sender B is run ONCE on A's proxy [sa], A's output of the previous step:
   R is handed the lazily recomputed B(sa); the flags are in sync again (so this holds at every step). *)
Theorem C05_submodel_partly_outside_value (fr fa fb : vec -> @hidden F -> vec -> option vec -> option (vec * @hidden F))
        x sr hr sa ha sb hb p q c0 c1 c2 sa' ha' sb' hb' sr' hr' :
  fa sa ha x None = Some (sa', ha') ->
  fb sb hb sa None = Some (sb', hb') ->
  fr sr hr sa' (Some sb') = Some (sr', hr') ->
  obs3 (step_s (m_outside_after fr fa) (sm3 fb) nofb (ext1 x)
          (mkSS (env3 (held sr hr) (held sa ha) (bare sb hb)) (fl3 p q q) (cn3 c0 c1 c2))) =
  (true, [held sr' hr'; held sa' ha'; bare sb' hb'], [negb p; negb q; negb q], [S c0; S c1; S c2]).
Proof. exact (outside_after_step fr fa fb x sr hr sa ha sb hb p q c0 c1 c2 sa' ha' sb' hb' sr' hr'). Qed.
(* Receiver before A (model R >> a): in sync (the first step) R is handed B's state as it is and B is not run; A's call leaves the
   flags out of sync ... *)
Theorem C05_submodel_partly_outside_before_first (fr fa fb : vec -> @hidden F -> vec -> option vec -> option (vec * @hidden F))
        x sr hr sa ha sb hb p q c0 c1 c2 sr' hr' sa' ha' :
  fr sr hr x (Some sb) = Some (sr', hr') ->
  fa sa ha sr' None = Some (sa', ha') ->
  obs3 (step_s (m_outside_before fr fa) (sm3 fb) nofb (ext0 x)
          (mkSS (env3 (held sr hr) (held sa ha) (bare sb hb)) (fl3 p q q) (cn3 c0 c1 c2))) =
  (true, [held sr' hr'; held sa' ha'; bare sb hb], [negb p; negb q; q], [S c0; S c1; c2]).
Proof. exact (outside_before_sync_step fr fa fb x sr hr sa ha sb hb p q c0 c1 c2 sr' hr' sa' ha'). Qed.
(* ... and out of sync (every later step; stable) R is handed B(sa), B run once on A's previous output *)
Theorem C05_submodel_partly_outside_before_later (fr fa fb : vec -> @hidden F -> vec -> option vec -> option (vec * @hidden F))
        x sr hr sa ha sb hb p q c0 c1 c2 sb' hb' sr' hr' sa' ha' :
  fb sb hb sa None = Some (sb', hb') ->
  fr sr hr x (Some sb') = Some (sr', hr') ->
  fa sa ha sr' None = Some (sa', ha') ->
  obs3 (step_s (m_outside_before fr fa) (sm3 fb) nofb (ext0 x)
          (mkSS (env3 (held sr hr) (held sa ha) (bare sb hb)) (fl3 p q (negb q)) (cn3 c0 c1 c2))) =
  (true, [held sr' hr'; held sa' ha'; bare sb' hb'], [negb p; negb q; q], [S c0; S c1; S c2]).
Proof. exact (outside_before_antisync_step fr fa fb x sr hr sa ha sb hb p q c0 c1 c2 sb' hb' sr' hr' sa' ha'). Qed.
End C05_subsender.

(* (d) THE OPEN FINDINGS, inside the model.  Scenario of tools/props/c05.py `_judge_flag_parity`: model r >> a >> b, r <<= (a >> b),
   r: x + fb/8, a and b accumulators ([fp_model], [fp_sm]); [fp_s1] is the state after a complete 3-step run of freshly built nodes.
   There the flags are in sync, the next run's first step hands r the sender's pre-existing output and b is entered 3 times in 3 steps.
   After ONE stand-alone call b(0) ([fp_s2]) - everything at rest - in_sync is broken, the first step of the next run hands r a value
   DIFFERENT from the sender's pre-existing output, and b is entered 4 times by the 3-step run. *)
Theorem C05_flag_parity_desync_refuted :
  in_sync fp_s1 (fp_sub fpB) /\ fp_first_read fp_s1 = Some (lst (le fp_s1 2)) /\ fp_b_entries fp_s1 = 3 /\
  fp_s2 = fst (node_call fp_sm fpB [0%Q] fp_s1) /\
  ~ in_sync fp_s2 (fp_sub fpB) /\ rest3 fp_s2 = true /\
  fp_first_read fp_s2 <> Some (lst (le fp_s2 2)) /\ fp_b_entries fp_s2 = 4.
Proof. exact desync_standalone_statement. Qed.
(* the same after a run ABORTED inside b (its forward raises after r and a were called in that step): proxies washed, flags not *)
Theorem C05_flag_parity_desync_failed_step_refuted :
  fp_s2' = fst (fst (run_s fp_model_boom fp_sm_boom fp_X fp_s1)) /\ snd (run_s fp_model_boom fp_sm_boom fp_X fp_s1) = false /\
  ~ in_sync fp_s2' (fp_sub fpB) /\ rest3 fp_s2' = true /\
  fp_first_read fp_s2' <> Some (lst (le fp_s2' 2)) /\ fp_b_entries fp_s2' = 4.
Proof. exact desync_failed_step_statement. Qed.
(* STRADDLING receiver, freshly built nodes, in sync (model a >> r >> b, a: identity, b: 2x + 1, r: x + 100 fb, all states zero):
   at the first step r is handed [1] = b(a's zero state) although the sender's pre-existing output is [0]; b is entered 4 times by the
   3-step run (inputs 1, 2, 4), which ends out of sync.  NOT the property's value: reproduced on /repo. *)
Theorem C05_submodel_straddling_first_step_refuted :
  in_sync st_s0 (mkSub [1; 2] [1] [2] [stB] (fun n => match n with 2 => [1] | _ => [] end)) /\ lst (le st_s0 2) = [0%Q] /\
  fb_seen st_sm stR st_mid = Some [1%Q] /\
  (let '(s, outs, ok) := run_s st_model st_sm st_X st_s0 in (ok, outs, cn s 2, map (fl s) [1; 2])) =
  (true, [[[101%Q]; [1%Q]; [203%Q]]; [[20302%Q]; [2%Q]; [40605%Q]]; [[4060504%Q]; [4%Q]; [8121009%Q]]], 4, [false; true]).
Proof. exact straddle_witness. Qed.

(* non-vacuity of (a)/(b): the three-node model r >> a >> b of the findings is [placed] (r before its sender), a fresh state is
   [synced] and at rest, ids distinct; the run through the mechanism gives r the previous outputs of b: 0, 1, 33/8 (r = x + fb/8) *)
Example C05_submodel_example :
  NoDup (ids_of fp_model) /\ placed fp_model fp_sm /\ synced fp_model fp_sm (fun _ => true) /\
  (let '(_, outs, ok) := run_s fp_model fp_sm fp_X (fresh (fun _ => mkLN [0%Q] [] None None)) in (ok, outs)) =
  (true, [[[1%Q]; [1%Q]; [1%Q]]; [[(17#8)%Q]; [(25#8)%Q]; [(33#8)%Q]]; [[(225#64)%Q]; [(425#64)%Q]; [(689#64)%Q]]]).
Proof. exact subsender_example. Qed.

Print Assumptions C05_submodel_in_sync_preserved.
Print Assumptions C05_submodel_sender_delay.
Print Assumptions C05_submodel_read_frozen.
Print Assumptions C05_submodel_straddling_sync_step.
Print Assumptions C05_submodel_straddling_antisync_step.
Print Assumptions C05_submodel_partly_outside_value.
Print Assumptions C05_submodel_partly_outside_before_first.
Print Assumptions C05_submodel_partly_outside_before_later.
Print Assumptions C05_flag_parity_desync_refuted.
Print Assumptions C05_flag_parity_desync_failed_step_refuted.
Print Assumptions C05_submodel_straddling_first_step_refuted.


(* ==================================================================================================================
   Tie (T) for the feedback machinery (added to the correspondence tie (H) of the low-level models above).
   gen/Gen_feedback.v is regenerated on every run by tools/vlib/py2coq_fb.py (built on py2coq_state.py) from the CURRENT text of
   Node.state_proxy / set_state_proxy / with_feedback (reservoirpy/node.py), Model._load_proxys / _clean_proxys / with_feedback
   (reservoirpy/model.py) and DistantFeedback.clamp / call_distant_node (reservoirpy/_base.py), over the vocabulary of base/CtxPrelude.v
   (a computation is heap -> heap * outcome A; try/finally; a @contextmanager generator is a function of the body of the `with`
   statement; ExitStack) and base/FbPrelude.v (`_state_proxy` and the clamp of the DistantFeedback a receiver owns live in the node
   object; has_fb / fb_kind are the immutable part of a DistantFeedback).  proofs/Gen_feedback_eq.v proves what the generated functions do
   for EVERY body and both of its outcomes, and that this is state_proxy / load_proxys / clean_proxys / fb_read / with_feedback_ll of
   model/ProxySem.v and cdn of model/SubSender.v, the functions the mechanism theorems above are stated about. *)
From RV Require Import base.CtxPrelude base.FbPrelude gen.Gen_feedback proofs.Gen_feedback_eq.

(* the generated Node.with_feedback is the context manager of an explicit (enter, exit) pair: a receiver clamps the given value on its
   DistantFeedback and lowers the flag in the `finally`; any other node freezes the value (given | zero if reset | the proxy it holds)
   in `_state_proxy` and gets the old proxy back in the `finally` unless stateful *)
Theorem C05_generated_with_feedback_is_enter_exit {F : Type} `{Num F} {P A : Type} check_ok check_n_ok has_fb zero_feedback
        n feedback stateful reset (body : M (@heap F (@fbx F P)) A) (h : @heap F (@fbx F P)) :
  GenFb.Node_with_feedback check_ok check_n_ok has_fb zero_feedback n feedback stateful reset body h =
    with_cm (wf_enter check_ok check_n_ok has_fb zero_feedback n feedback reset) (wf_exit has_fb n stateful) body h.
Proof. exact (gen_with_feedback_is_cm check_ok check_n_ok has_fb zero_feedback n feedback stateful reset body h). Qed.
Print Assumptions C05_generated_with_feedback_is_enter_exit.

(* stateful=False on a node that receives no feedback: `_state_proxy` after the `with` block is `_state_proxy` before it -- for every body,
   whether it returned or raised, whatever value was given, accepted by set_state_proxy or not.  A receiver is never left clamped: the
   flag is down after the block, for every body and both outcomes.  (Both come out of the translated try/finally clauses.) *)
Theorem C05_generated_with_feedback_restores_proxy {F : Type} `{Num F} {P A : Type} check_ok check_n_ok has_fb zero_feedback
        n feedback reset (body : M (@heap F (@fbx F P)) A) (h h' : @heap F (@fbx F P)) r :
  has_fb n = false ->
  GenFb.Node_with_feedback check_ok check_n_ok has_fb zero_feedback n feedback false reset body h = (h', r) ->
  a_state_proxy (h' n) = a_state_proxy (h n).
Proof. exact (gen_with_feedback_restores_proxy check_ok check_n_ok has_fb zero_feedback n feedback reset body h h' r). Qed.
Theorem C05_generated_with_feedback_unclamps {F : Type} `{Num F} {P A : Type} check_ok check_n_ok has_fb zero_feedback
        n v stateful (body : M (@heap F (@fbx F P)) A) (h h' : @heap F (@fbx F P)) r :
  has_fb n = true -> check_n_ok n v = true ->
  GenFb.Node_with_feedback check_ok check_n_ok has_fb zero_feedback n (Some v) stateful false body h = (h', r) ->
  a_clamped (h' n) = false.
Proof. exact (gen_with_feedback_unclamps check_ok check_n_ok has_fb zero_feedback n v stateful body h h' r). Qed.

(* Node.state_proxy: `_state_proxy`, falling back to the raw `_state` when it is None = ProxySem.state_proxy; nothing is written.
   set_state_proxy(None) is a no-op; set_state_proxy(v) freezes v on an initialised node when check_one_sequence accepts v and otherwise
   raises with nothing written.  DistantFeedback.clamp likewise with check_n_sequences. *)
Theorem C05_generated_state_proxy_is_model {F : Type} (h : @heap F (@fbx F (@hidden F))) n :
  GenFb.Node_state_proxy n h = (h, Ok (proxy_or_state (h n))) /\ ov (proxy_or_state (h n)) = state_proxy (labs h) n.
Proof. exact (gen_state_proxy_is_model h n). Qed.
Theorem C05_generated_set_state_proxy {F P : Type} check_ok (h : @heap F (@fbx F P)) n value :
  GenFb.Node_set_state_proxy check_ok n value h =
    match value with
    | None => (h, Ok tt)
    | Some v => if a_is_initialized (h n)
                then if check_ok (a_output_dim (h n)) v then (hupd h n (with_proxy_o (h n) (Some v)), Ok tt) else (h, Exc CheckError)
                else (h, Exc RuntimeError)
    end.
Proof. exact (gen_set_state_proxy check_ok h n value). Qed.
Theorem C05_generated_clamp {F P : Type} check_n_ok (h : @heap F (@fbx F P)) n v :
  GenFb.DistantFeedback_clamp check_n_ok n v h = if check_n_ok n v then (clamp_heap h n v, Ok tt) else (h, Exc CheckError).
Proof. exact (gen_clamp check_n_ok h n v). Qed.

(* Model._load_proxys(keep) = ProxySem.load_proxys on initialised nodes ([rel h e]: the heap of node objects stands, point-wise, for the
   ProxySem environment e; [node_ok]: `_is_initialized`, `_state` an array); Model._clean_proxys = ProxySem.clean_proxys, no hypothesis *)
Theorem C05_generated_load_proxys_is_model {F : Type} (m : @model F) keep (h : @heap F (@fbx F (@hidden F))) (e : @lenv F) :
  rel h e -> (forall d, In d (ModelSem.order m) -> node_ok (h (nid d))) ->
  let '(h', r) := GenFb.Model_load_proxys (ids_of m) keep h in r = Ok tt /\ rel h' (load_proxys m keep e).
Proof. exact (gen_load_proxys_is_model m keep h e). Qed.
Theorem C05_generated_clean_proxys_is_model {F : Type} (m : @model F) (h : @heap F (@fbx F (@hidden F))) (e : @lenv F) :
  rel h e -> let '(h', r) := GenFb.Model_clean_proxys (ids_of m) h in r = Ok tt /\ rel h' (clean_proxys m e).
Proof. exact (gen_clean_proxys_is_model m h e). Qed.

(* DistantFeedback.call_distant_node = ProxySem.fb_read: a pending clamp is handed out ONCE (the read lowers the flag); else a Node
   sender's state_proxy(); else -- a Model sender whose nodes' `_fb_flag`s all agree ([in_sync_h]) -- the state_proxy()s of its output
   nodes (one array, or the list when there are several: [fbv_flat] concatenates as ProxySem does).  [kind_ok]: has_fb / fb_kind describe
   the DistantFeedback of ProxySem's node d; [clamp_wf]: a raised `_clamped` flag has a value. *)
Theorem C05_generated_call_distant_node_is_fb_read {F ID IX : Type} has_fb fb_kind dmi item rmc rnc
        (d : @ndesc F) src (h : @heap F (@fbx F (@hidden F))) (e : @lenv F) :
  rel h e -> nfb d = Some src -> kind_ok has_fb fb_kind d -> clamp_wf (h (nid d)) -> in_sync_h fb_kind d h ->
  let '(h', r) := @GenFb.DistantFeedback_call_distant_node F (@hidden F) ID IX fb_kind dmi item rmc rnc (nid d) h in
  let '(v, _) := fb_read d (labs h) in
  (exists fv, r = Ok fv /\ v = Some (fbv_flat fv)) /\ rel h' (snd (fb_read d e)) /\ fst (fb_read d e) = v.
Proof. exact (gen_cdn_is_fb_read has_fb fb_kind dmi item rmc rnc d src h e). Qed.

(* THE LOW-LEVEL TIMING THEOREM TRANSFERRED TO THE TRANSLATED CODE (C05_lowlevel_read_frozen above): on ANY heap of node objects that
   stands for the environment ProxySem reaches after a prefix [pre] of the execution order has run in the current step -- the sender
   possibly among them, its `_state` already overwritten --, the generated call_distant_node of an unclamped receiver returns the value
   the sender's proxy held when the step began (its `_state` of then, when it had no proxy and has not run yet), and writes nothing. *)
Theorem C05_generated_read_frozen {F ID IX : Type} fb_kind dmi item rmc rnc
        (m : @model F) ext pre (d : @ndesc F) s (elin elmid : @lenv F) ok v (h : @heap F (@fbx F (@hidden F))) :
  nfb d = Some (FbNode s) -> fb_kind (nid d) = DNode s -> clamp (elin (nid d)) = None ->
  (proxy (elin s) = Some v \/ (proxy (elin s) = None /\ lst (elin s) = v /\ ~ In s (map nid pre))) ->
  forward_from_ll m ext pre elin = (elmid, ok) ->
  rel h elmid -> clamp_wf (h (nid d)) ->
  exists o, @GenFb.DistantFeedback_call_distant_node F (@hidden F) ID IX fb_kind dmi item rmc rnc (nid d) h = (h, Ok (FbArr o)) /\ ov o = v.
Proof. exact (gen_cdn_read_frozen fb_kind dmi item rmc rnc m ext pre d s elin elmid ok v h). Qed.

(* Model.with_feedback(mapping, stateful) = ProxySem.with_feedback_ll for EVERY pair of corresponding bodies ([body_sim]) and both
   outcomes of the body: the value is looked up under the node's own name, then -- for a receiver -- under its sender's name
   (ModelSem.forced_value); receivers are clamped, the other nodes get a temporary proxy; the contexts are entered in self.nodes order and
   left in reverse order ALSO WHEN THE BODY RAISED, the clamp flag lowered and the old proxy put back (unless stateful) by the `finally`
   clauses.  [fkind_ok]: has_fb / fb_kind describe the nodes and nothing is forced under the name of a sub-model sender (ProxySem has no
   such name); [acc]: the arrays the entry hands to check_n_sequences / check_one_sequence are accepted.  Model.with_feedback(None): the
   body alone. *)
Theorem C05_generated_model_with_feedback_is_model {F : Type} `{Num F} {A : Type} check_ok check_n_ok has_fb fb_kind zero_feedback
        (m : @model F) forced stateful (body : M (@heap F (@fbx F (@hidden F))) A) bodyl (h : @heap F (@fbx F (@hidden F))) (e : @lenv F) :
  body_sim body bodyl -> rel h e ->
  (forall d, In d (ModelSem.order m) -> fkind_ok has_fb fb_kind forced d /\ acc check_ok check_n_ok forced h d) ->
  let '(h', r) := GenFb.Model_with_feedback check_ok check_n_ok has_fb fb_kind zero_feedback (ids_of m) (Some forced) stateful false body h in
  let '(e', ok) := with_feedback_ll forced stateful (ModelSem.order m) bodyl e in
  rel h' e' /\ is_ok r = ok.
Proof. exact (gen_model_with_feedback_is_model check_ok check_n_ok has_fb fb_kind zero_feedback m forced stateful body bodyl h e). Qed.
Theorem C05_generated_model_with_feedback_none {F : Type} `{Num F} {A : Type} check_ok check_n_ok has_fb fb_kind zero_feedback
        nodes stateful (body : M (@heap F (@fbx F (@hidden F))) A) (h : @heap F (@fbx F (@hidden F))) :
  GenFb.Model_with_feedback check_ok check_n_ok has_fb fb_kind zero_feedback nodes None stateful false body h = body h.
Proof. exact (gen_model_with_feedback_none check_ok check_n_ok has_fb fb_kind zero_feedback nodes stateful body h). Qed.

(* DistantFeedback.call_distant_node with a MODEL as sender = SubSender.cdn (the mechanism the C05_submodel_* theorems and the three
   flag-parity findings are stated about): clamp consumed once; `len(np.unique(flags)) > 1` is "not all `_fb_flag`s equal"; in sync the
   output nodes' frozen proxies and nothing written; out of sync the reduced sender is re-run -- `_distant_model_inputs` and the reduced
   sender's call are not translated: [red_sim] assumes that the section functions standing for them do what SubSender.run_reduced does.
   [srel]: the heap stands for the SubSender state (ProxySem's part and the flags). *)
Theorem C05_generated_call_distant_node_is_subsender_cdn {F ID IX : Type} fb_kind dmi item rmc rnc
        (smf : nat -> option (@subm F)) (d : @ndesc F) (sd : @subm F) (sm : smodel) (h : @heap F (@fbx F (@hidden F))) (s : @sstate F) :
  srel h s -> smf (nid d) = Some sd -> fb_kind (nid d) = DModel sm ->
  sm_nodes sm = s_nodes sd -> sm_outputs sm = s_outs sd -> s_outs sd <> [] ->
  clamp_wf (h (nid d)) -> red_sim dmi item rmc rnc sm sd ->
  let '(h', r) := @GenFb.DistantFeedback_call_distant_node F (@hidden F) ID IX fb_kind dmi item rmc rnc (nid d) h in
  let '(v, s1, ok) := cdn smf d s in
  srel h' s1 /\ match r with Ok fv => ok = true /\ v = Some (fbv_flat fv) | Exc _ => ok = false end.
Proof. exact (gen_cdn_is_subsender_cdn fb_kind dmi item rmc rnc smf d sd sm h s). Qed.

(* non-vacuity (the generated code, executed at Q): sender 0 with state 7, receiver 1 with feedback from node 0.
   (a) _load_proxys(keep=True) freezes 7; the sender's `_state` is then overwritten with 8; the receiver still reads 7.
   (b) 5 forced under the SENDER's name: the receiver is clamped with it through its sender's name and node 0 gets it as a temporary
       proxy -- first read: the clamp, second read: the temporary proxy --; after the block no clamp and no proxy are left.
   (c) the same when the body raises after the first read. *)
Definition exG5_has_fb (n : nat) : bool := Nat.eqb n 1.
Definition exG5_kind (n : nat) : dfb_kind := DNode 0.
Definition exG5_heap : @heap Q (@fbx Q unit) :=
  fun n => mkObj (Some [match n with 0%nat => 7%Q | _ => 3%Q end]) true (Some 1%nat) true (mkFbx None false None tt).
Definition exG5_cdn : nat -> M (@heap Q (@fbx Q unit)) (@fbval Q) :=
  @GenFb.DistantFeedback_call_distant_node Q unit unit unit exG5_kind (fun _ => ret tt) (fun _ _ => tt)
    (fun _ _ => ret (FbArr None)) (fun _ _ => ret (FbArr None)).
Definition exG5_with {A : Type} (body : M (@heap Q (@fbx Q unit)) A) :=
  GenFb.Model_with_feedback (fun _ _ => true) (fun _ _ => true) exG5_has_fb exG5_kind (fun _ => ret None) [0%nat; 1%nat]
    (Some (fun n => match n with 0%nat => Some [5%Q] | _ => None end)) false false body exG5_heap.
Example C05_generated_example :
  (let '(h1, _) := GenFb.Model_load_proxys [0%nat; 1%nat] true exG5_heap in
   let '(h2, _) := wr_state 0%nat (Some [8%Q]) h1 in
   snd (exG5_cdn 1%nat h2)) = Ok (FbArr (Some [7%Q])) /\
  (let '(h1, r) := exG5_with (bind (exG5_cdn 1%nat) (fun a => bind (exG5_cdn 1%nat) (fun b => ret (a, b)))) in
   (r, a_clamped (h1 1%nat), a_state_proxy (h1 0%nat))) = (Ok (FbArr (Some [5%Q]), FbArr (Some [5%Q])), false, None) /\
  (let '(h1, r) := exG5_with (bind (exG5_cdn 1%nat) (fun a => @raise _ unit ForwardError)) in
   (r, a_clamped (h1 1%nat), a_state_proxy (h1 0%nat))) = (Exc ForwardError, false, None).
Proof. vm_compute. repeat split; reflexivity. Qed.

Print Assumptions C05_generated_with_feedback_restores_proxy.
Print Assumptions C05_generated_with_feedback_unclamps.
Print Assumptions C05_generated_state_proxy_is_model.
Print Assumptions C05_generated_set_state_proxy.
Print Assumptions C05_generated_clamp.
Print Assumptions C05_generated_load_proxys_is_model.
Print Assumptions C05_generated_clean_proxys_is_model.
Print Assumptions C05_generated_call_distant_node_is_fb_read.
Print Assumptions C05_generated_read_frozen.
Print Assumptions C05_generated_model_with_feedback_is_model.
Print Assumptions C05_generated_model_with_feedback_none.
Print Assumptions C05_generated_call_distant_node_is_subsender_cdn.


(* ==================================================================================================================
   Q-to-R bridge for the sub-model sender family (run/RunSubSender.v on model/SubSender.v; proofs/QR_bridge_SubSender.v, on top
   of proofs/QR_bridge_Model.v for the ProxySem part and the node kinds).  The correspondence run of the family `subsender`
   evaluates [chk_subsender] at F := Q.  SubSender's state is ProxySem's per-node record (related point-wise by the entry-wise
   embedding, [lenv_rel]) plus the `_fb_flag` bits and the forward-entry counters, which are number-free and therefore EQUAL
   point-wise ([ss_rel]); sub-model senders are related field by field ([sub_rel]: same node / input / output ids and fan-in,
   reduced-sender nodes related by [nd_rel]).  cdn (DistantFeedback.call_distant_node with the in-sync test and the reduced
   sender), run_reduced, node_call, step_s, run_s, call_s map related arguments to related results with the SAME success flag.
   No shape hypothesis, no side condition, no functional extensionality.  After this block the cone of this file imports Reals;
   the theorems above are unaffected (see their Print Assumptions lines above). *)
From Coq Require Import Reals Qreals.
From RV Require Import base.NumHom run.RunModel run.RunSubSender proofs.QR_bridge_Model proofs.QR_bridge_SubSender.

Theorem C05_sub_bridge_relations_spelled :
  (forall (s : @sstate Q) (sR : @sstate R), ss_rel Q2R s sR <->
     (forall n, SubSender.le sR n = mkLN (qv2r (lst (SubSender.le s n))) (qm2r (lhid (SubSender.le s n)))
                                         (option_map qv2r (proxy (SubSender.le s n))) (option_map qv2r (clamp (SubSender.le s n)))) /\
     (forall n, fl sR n = fl s n) /\ (forall n, cn sR n = cn s n)) /\
  (forall (sd : @subm Q) (sdR : @subm R), sub_rel Q2R sd sdR <->
     s_nodes sdR = s_nodes sd /\ s_ins sdR = s_ins sd /\ s_outs sdR = s_outs sd /\
     Forall2 (nd_rel Q2R) (s_red sd) (s_red sdR) /\ forall n, s_par sdR n = s_par sd n) /\
  (forall (sm : nat -> option (@subm Q)) (smR : nat -> option (@subm R)), sm_rel Q2R sm smR <->
     forall n, match sm n, smR n with Some a, Some b => sub_rel Q2R a b | None, None => True | _, _ => False end).
Proof. split; [|split]; intros; exact (iff_refl _). Qed.

(* DistantFeedback.call_distant_node of a receiver (clamp / in-sync reading of the output nodes' proxies / re-run of the reduced
   sender): value, state afterwards, success flag *)
Theorem C05_Qcdn_embeds_in_R (sm : nat -> option (@subm Q)) (smR : nat -> option (@subm R)) (d : @ndesc Q) (dR : @ndesc R)
        (s : @sstate Q) (sR : @sstate R) :
  sm_rel Q2R sm smR -> nd_rel Q2R d dR -> ss_rel Q2R s sR ->
  fst (fst (cdn smR dR sR)) = option_map qv2r (fst (fst (cdn sm d s))) /\
  ss_rel Q2R (snd (fst (cdn sm d s))) (snd (fst (cdn smR dR sR))) /\
  snd (cdn smR dR sR) = snd (cdn sm d s).
Proof. exact (cdn_rel Q2R sm smR d dR s sR). Qed.
Theorem C05_Qrun_reduced_embeds_in_R (sd : @subm Q) (sdR : @subm R) (s : @sstate Q) (sR : @sstate R) :
  sub_rel Q2R sd sdR -> ss_rel Q2R s sR ->
  ss_rel Q2R (fst (run_reduced sd s)) (fst (run_reduced sdR sR)) /\ snd (run_reduced sdR sR) = snd (run_reduced sd s).
Proof. exact (run_reduced_rel Q2R sd sdR s sR). Qed.
(* one step of Model._run, a whole Model.run on one sequence, Model.call *)
Theorem C05_Qstep_s_embeds_in_R (m : @model Q) (mR : @model R) sm smR forced forcedR ext extR (s : @sstate Q) (sR : @sstate R) :
  m_rel Q2R m mR -> sm_rel Q2R sm smR -> opt_rel Q2R forced forcedR -> opt_rel Q2R ext extR -> ss_rel Q2R s sR ->
  ss_rel Q2R (fst (step_s m sm forced ext s)) (fst (step_s mR smR forcedR extR sR)) /\
  snd (step_s mR smR forcedR extR sR) = snd (step_s m sm forced ext s).
Proof. exact (step_s_rel Q2R m mR sm smR forced forcedR ext extR s sR). Qed.
Theorem C05_Qrun_s_embeds_in_R (m : @model Q) (mR : @model R) sm smR steps stepsR (s : @sstate Q) (sR : @sstate R) :
  m_rel Q2R m mR -> sm_rel Q2R sm smR -> steps_rel Q2R steps stepsR -> ss_rel Q2R s sR ->
  ss_rel Q2R (fst (fst (run_s m sm steps s))) (fst (fst (run_s mR smR stepsR sR))) /\
  snd (fst (run_s mR smR stepsR sR)) = map qm2r (snd (fst (run_s m sm steps s))) /\
  snd (run_s mR smR stepsR sR) = snd (run_s m sm steps s).
Proof. exact (run_s_rel Q2R m mR sm smR steps stepsR s sR). Qed.
Theorem C05_Qcall_s_embeds_in_R (m : @model Q) (mR : @model R) sm smR forced forcedR ext extR (s : @sstate Q) (sR : @sstate R) :
  m_rel Q2R m mR -> sm_rel Q2R sm smR -> opt_rel Q2R forced forcedR -> opt_rel Q2R ext extR -> ss_rel Q2R s sR ->
  ss_rel Q2R (fst (fst (call_s m sm forced ext s))) (fst (fst (call_s mR smR forcedR extR sR))) /\
  snd (fst (call_s mR smR forcedR extR sR)) = map qm2r (snd (fst (call_s m sm forced ext s))) /\
  snd (call_s mR smR forcedR extR sR) = snd (call_s m sm forced ext s).
Proof. exact (call_s_rel Q2R m mR sm smR forced forcedR ext extR s sR). Qed.

(* the Q- and R-objects built from one scenario (also with forward functions switched to `raise`) are related *)
Theorem C05_sub_scenario_objects_related (nodes : list snode) (fail : list nat) (sm : RunModel.smodel) (subs : list ssub) :
  m_rel Q2R (model_of nodes fail sm) (model_ofR nodes fail sm) /\
  sm_rel Q2R (subs_of nodes fail subs) (subs_ofR nodes fail subs) /\
  ss_rel Q2R (init_sstate nodes) (init_sstateR nodes).
Proof. exact (conj (model_of_rel nodes fail sm) (conj (subs_of_rel nodes fail subs) (init_sstate_rel nodes))). Qed.

(* the verdict of the family's runner is a statement about the R-instance: [chk_subsender ... = true] (vm_compute at Q) implies
   that the history executed by the R-model on the embedded data, from the embedded fresh state, has operation by operation the
   observed success flag, outputs within 1e-9*max(1,|model|) of the observed ones when it succeeds, node states within that
   tolerance, EXACTLY the observed `_fb_flag` bits and forward-entry counters, and the observed at-rest flag *)
Theorem C05_chk_subsender_is_about_R_model (nodes : list snode) (models : list RunModel.smodel) (subs : list ssub) (l : list (sop * sobs)) :
  chk_subsender nodes models subs l = true -> topo_ok models = true /\ shist_okR nodes models subs l (init_sstateR nodes).
Proof. exact (chk_subsender_is_about_R_model nodes models subs l). Qed.
Theorem C05_shist_okR_spelled (nodes : list snode) (models : list RunModel.smodel) (subs : list ssub) (o : sop) (ob : sobs) rest (s : @sstate R) :
  shist_okR nodes models subs ((o, ob) :: rest) s <->
  (let r := srun_oneR nodes models subs o s in
   snd r = so_ok ob /\
   (snd r = true -> Forall2 (Forall2 (Forall2 rclose)) (snd (fst r)) (map qm2r (so_outs ob))) /\
   Forall (fun p => Forall2 rclose (lst (SubSender.le (fst (fst r)) (fst p))) (qv2r (snd p))) (so_states ob) /\
   Forall (fun p => fl (fst (fst r)) (fst p) = snd p) (so_flags ob) /\
   Forall (fun p => cn (fst (fst r)) (fst p) = snd p) (so_calls ob) /\
   at_restbR nodes (SubSender.le (fst (fst r))) = so_rest ob /\
   shist_okR nodes models subs rest (fst (fst r))).
Proof. exact (iff_refl _). Qed.

(* non-vacuity: affine 0 -> accumulator 1 is the SUB-MODEL sender of receiver 2 (x + feedback/2).  Model.run over two steps;
   two stand-alone calls of the receiver (in sync: the sender's output state is read, only the receiver's flag flips);
   Model.call in which node 1 raises (node 0 has advanced: flags out of sync); a stand-alone call of the receiver, which RE-RUNS
   the reduced sender (node 1 advances, its counter goes from 3 to 4); two calls under a forced feedback.  The runner answers
   true on the exact values, hence the R-instance history is within the tolerance of them with the same flags and counters. *)
Definition exS_nodes : list snode :=
  [mkSN 0 (KFun 2 (1#2))%Q None 1 []; mkSN 1 KAcc None 1 []; mkSN 2 (KFbAdd (1#2))%Q (Some (FbModel [1])) 1 []].
Definition exS_models : list RunModel.smodel := [mkSM [0; 1; 2] [(1, [0]); (2, [1])] [2]].
Definition exS_subs : list ssub := [mkSSub 2 [0; 1] [0] [1] [1] [(1, [0])]].
Definition exS_hist : list (sop * sobs) :=
  [(SRun 0 [[(0%nat, [1#2])]; [(0%nat, [-1#1])]]%Q false [] [],
    mkSObs true [[[3#2]]; [[3#4]]]%Q [(0%nat, [-3#2]); (1%nat, [0#1]); (2%nat, [3#4])]%Q
           [(0%nat, true); (1%nat, true); (2%nat, true)] [(0, 2); (1, 2); (2, 2)] true);
   (SCallN 2 [1#1]%Q [],
    mkSObs true [] [(0%nat, [-3#2]); (1%nat, [0#1]); (2%nat, [1#1])]%Q
           [(0%nat, true); (1%nat, true); (2%nat, false)] [(0, 2); (1, 2); (2, 3)] true);
   (SCallN 2 [1#1]%Q [],
    mkSObs true [] [(0%nat, [-3#2]); (1%nat, [0#1]); (2%nat, [1#1])]%Q
           [(0%nat, true); (1%nat, true); (2%nat, true)] [(0, 2); (1, 2); (2, 4)] true);
   (SCallM 0 [(0%nat, [1#4]%Q)] [] [1],
    mkSObs false [] [(0%nat, [1#1]); (1%nat, [0#1]); (2%nat, [1#1])]%Q
           [(0%nat, false); (1%nat, true); (2%nat, true)] [(0, 3); (1, 3); (2, 4)] true);
   (SCallN 2 [1#1]%Q [],
    mkSObs true [] [(0%nat, [1#1]); (1%nat, [1#1]); (2%nat, [3#2])]%Q
           [(0%nat, false); (1%nat, false); (2%nat, false)] [(0, 3); (1, 4); (2, 5)] true);
   (SWithFb 2 [4#1]%Q [[1#1]; [2#1]]%Q,
    mkSObs true [] [(0%nat, [1#1]); (1%nat, [1#1]); (2%nat, [5#2])]%Q
           [(0%nat, false); (1%nat, false); (2%nat, false)] [(0, 3); (1, 4); (2, 7)] true)].
Example C05_sub_bridge_example :
  chk_subsender exS_nodes exS_models exS_subs exS_hist = true /\
  shist_okR exS_nodes exS_models exS_subs exS_hist (init_sstateR exS_nodes).
Proof.
  assert (E : chk_subsender exS_nodes exS_models exS_subs exS_hist = true) by (vm_compute; reflexivity).
  split; [exact E | apply (C05_chk_subsender_is_about_R_model _ _ _ _ E)].
Qed.

Print Assumptions C05_sub_bridge_relations_spelled.
Print Assumptions C05_Qcdn_embeds_in_R.
Print Assumptions C05_Qrun_reduced_embeds_in_R.
Print Assumptions C05_Qstep_s_embeds_in_R.
Print Assumptions C05_Qrun_s_embeds_in_R.
Print Assumptions C05_Qcall_s_embeds_in_R.
Print Assumptions C05_sub_scenario_objects_related.
Print Assumptions C05_chk_subsender_is_about_R_model.
Print Assumptions C05_shist_okR_spelled.
