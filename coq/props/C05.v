(* C05 — feedback is delayed by exactly one step; forced feedback replaces it.  Statement-only file. *)
From Coq Require Import List Arith Bool QArith Lia.
From RV Require Import base.Num base.LA model.ModelSem model.Kinds proofs.ModelSem_proofs.
Import ListNotations.
Close Scope Q_scope.

Section C05.
Context {F : Type} `{Num F}.
Notation vec := (list F).
Notation env := (@env F).
Notation model := (@model F).
Notation ndesc := (@ndesc F).

(* The value handed to a receiver during a step.  [prev] is the environment the state proxies were loaded from:
   the states at the end of the previous step ([step] passes the current environment before any node is called;
   for the first step of a run that is the pre-existing state, zero after a reset). *)
Theorem C05_unforced_node_sender (d : ndesc) (prev : env) clamp s :
  nfb d = Some (FbNode s) -> clamp (nid d) = None -> fbvalue d prev clamp = Some (st (prev s)).
Proof. exact (fbvalue_unforced_node d prev clamp s). Qed.

Theorem C05_unforced_submodel_sender (d : ndesc) (prev : env) clamp outs :
  nfb d = Some (FbModel outs) -> clamp (nid d) = None ->
  fbvalue d prev clamp = Some (concat (map (fun o => st (prev o)) outs)).
Proof. exact (fbvalue_unforced_model d prev clamp outs). Qed.

(* ... never the value being computed in the same step, wherever the sender sits in the execution order:
   in [step] the feedback environment is fixed before the first node is called, so whatever the nodes called
   earlier in the same step (the sender included) have written to the current environment [e] is not seen. *)
Theorem C05_same_step_invisible (m : model) (d : ndesc) forced ext (e e1 e2 : env) :
  call_node m (proxies m forced e) (clamps m forced) ext e1 d =
  (let '(s, h) := (st (e1 (nid d)), hid (e1 (nid d))) in
   match nfwd d s h (gather m e1 ext (nid d)) (fbvalue d (proxies m forced e) (clamps m forced)) with
   | Some (s', h') => (upd e1 (nid d) (mkNS s' h'), true)
   | None => (e1, false)
   end).
Proof. exact eq_refl. Qed.

(* Run level: at step k of an unforced run the receiver is handed the sender's state at the end of step k-1
   ([env_after .. k] is the environment after the first k steps; k = 0: the pre-existing state). *)
Theorem C05_run_delay (m : model) (d : ndesc) s steps (e : env) k :
  nfb d = Some (FbNode s) ->
  fbvalue d (proxies m (fun _ => None) (env_after m steps e k)) (clamps m (fun _ => None))
  = Some (st (env_after m steps e k s)).
Proof. exact (run_feedback_delay m d s steps e k). Qed.

(* forced feedback: the receiver sees the forced value instead *)
Theorem C05_forced_value (d : ndesc) (prev : env) clamp src v :
  nfb d = Some src -> clamp (nid d) = Some v -> fbvalue d prev clamp = Some v.
Proof. exact (fbvalue_forced d prev clamp src v). Qed.

(* graphflow.dispatch: with shifting the forced value of step 0 is zero and step t+1 sees Y[t];
   without shifting step t sees Y[t]; always one value per timestep. *)
Theorem C05_forced_shift (z : vec) (ys : list vec) (t : nat) (dflt : vec) :
  length (dispatch_fb true z ys) = length ys /\
  (ys <> [] -> nth 0 (dispatch_fb true z ys) dflt = z) /\
  (S t < length ys -> nth (S t) (dispatch_fb true z ys) dflt = nth t ys dflt) /\
  dispatch_fb false z ys = ys.
Proof.
  split; [exact (shift_with_length z ys)|]. split; [exact (shift_with_0 z ys dflt)|].
  split; [exact (shift_with_S z ys t dflt)|reflexivity].
Qed.
End C05.

(* Non-vacuity and the timing itself on a concrete loop at Q:  src(2x+0) -> R(x + 100 fb) ,  R <<= src  (sender upstream).
   Inputs 1, 2, 3 give sender outputs 2, 4, 6 and receiver outputs 2 + 0, 4 + 200, 6 + 400. *)
Definition ex5_nodes : list (@ndesc Q) :=
  [mkND 0 (kfwd (KFun 2 0)) None 1; mkND 1 (kfwd (KFbAdd 100)) (Some (FbNode 0)) 1]%Q.
Definition ex5_model : @model Q := mkModel ex5_nodes (fun n => match n with 1 => [0] | _ => [] end) [1].
Definition ex5_env : @env Q := fun _ => mkNS [0%Q] [].
Example C05_example :
  (let '(_, outs, ok) := run_steps ex5_model
      (map (fun x => ((fun n => match n with 0 => Some [x] | _ => None end), (fun _ : nat => @None (list Q)))) [1%Q; 2%Q; 3%Q]) ex5_env in
   (ok, outs)) = (true, [[[2%Q]]; [[204%Q]]; [[406%Q]]]).
Proof. vm_compute. reflexivity. Qed.

Print Assumptions C05_unforced_node_sender.
Print Assumptions C05_unforced_submodel_sender.
Print Assumptions C05_same_step_invisible.
Print Assumptions C05_run_delay.
Print Assumptions C05_forced_value.
Print Assumptions C05_forced_shift.
