(* C09 — offline training is invariant to batching, order and parallel schedule.
   Statement-only file: every theorem is closed by [exact <lemma>] / a <= 3 line application; proofs live in
   proofs/Conc_proofs.v (schedule level, result order) and proofs/BatchAcc_proofs.v (data level). *)
From Coq Require Import List Arith Bool ZArith QArith Reals Permutation.
From RV Require Import base.Num base.LA model.Conc model.BatchAcc proofs.Conc_proofs proofs.BatchAcc_proofs.
Import ListNotations.
Close Scope Q_scope.
Close Scope R_scope.

(* contributions are added in a commutative monoid: numbers, pairs, matrices of a fixed shape with entry-wise sum *)
Definition comm_monoid {A} (add : A -> A -> A) (zero : A) : Prop :=
  (forall a b c, add a (add b c) = add (add a b) c) /\ (forall a b, add a b = add b a) /\ (forall a, add a zero = a).

(* ---------------------------------------------------------------- schedule level (model/Conc.v) *)
(* With the lock: for every number n of tasks, all contributions c, d, all initial buffers and EVERY schedule (list of
   task ids, arbitrary interleaving, blocked and finished steps are no-ops) after which all tasks are Done, the buffers
   hold the initial value plus the sum of all contributions: nothing lost, nothing counted twice. *)
Theorem C09_locked_any_schedule {A} (add : A -> A -> A) (zero : A) (c d : nat -> A) (n : nat) (X0 Y0 : A) (sched : list nat) :
  comm_monoid add zero ->
  Forall (fun w => w < n) sched ->
  let s := run add true c d (init X0 Y0) sched in
  (forall w, w < n -> pcs s w = Done) ->
  XXT s = add X0 (msum add zero (map c (seq 0 n))) /\ YXT s = add Y0 (msum add zero (map d (seq 0 n))).
Proof. intros (Ha & Hc & H0). exact (locked_any_schedule A add zero Ha Hc H0 c d n X0 Y0 sched). Qed.

(* ... and at every moment of every schedule the buffers hold exactly the contributions already written ... *)
Theorem C09_locked_partial_sums {A} (add : A -> A -> A) (zero : A) (c d : nat -> A) (n : nat) (X0 Y0 : A) (sched : list nat) :
  comm_monoid add zero ->
  Forall (fun w => w < n) sched ->
  let s := run add true c d (init X0 Y0) sched in
  XXT s = add X0 (total add zero countedX c n (pcs s)) /\ YXT s = add Y0 (total add zero countedY d n (pcs s)).
Proof. intros (Ha & Hc & H0). exact (locked_partial_sums A add zero Ha Hc H0 c d n X0 Y0 sched). Qed.

(* ... and at most one task is inside the critical section (what the enter/exit monitor observes). *)
Theorem C09_locked_mutual_exclusion {A} (add : A -> A -> A) (zero : A) (c d : nat -> A) (n : nat) (X0 Y0 : A)
        (sched : list nat) (v w : nat) :
  comm_monoid add zero ->
  Forall (fun w => w < n) sched -> v < n -> w < n ->
  let s := run add true c d (init X0 Y0) sched in
  inside (pcs s v) = true -> inside (pcs s w) = true -> v = w.
Proof. intros (Ha & Hc & H0). exact (locked_mutual_exclusion A add zero Ha Hc H0 c d n X0 Y0 sched v w). Qed.

(* The hypothesis "all tasks are Done" is satisfiable for every n, with or without the lock. *)
Theorem C09_terminating_schedule_exists {A} (add : A -> A -> A) (c d : nat -> A) (use_lock : bool) (n : nat) (X0 Y0 : A) :
  Forall (fun w => w < n) (seq_schedule n) /\
  (forall w, w < n -> pcs (run add use_lock c d (init X0 Y0) (seq_schedule n)) w = Done).
Proof. exact (seq_schedule_done A add c d use_lock n X0 Y0). Qed.

(* Without the lock (compat RidgeRegression.fit before commit d160369; compat ESN.train's workers): two tasks, a
   schedule after which both are Done, and the first task's contribution is missing from both buffers. *)
Theorem C09_unlocked_refuted :
  exists (c d : nat -> Z) (sched : list nat),
    Forall (fun w => w < 2) sched /\
    let s := run Z.add false c d (init 0%Z 0%Z) sched in
    (forall w, w < 2 -> pcs s w = Done) /\
    XXT s <> (0 + msum Z.add 0 (map c (seq 0 2)))%Z /\ YXT s <> (0 + msum Z.add 0 (map d (seq 0 2)))%Z /\
    XXT s = (0 + c 1%nat)%Z /\ YXT s = (0 + d 1%nat)%Z.
Proof. exact unlocked_lost_update. Qed.

(* ---------------------------------------------------------------- result order (_sort_and_unpack) *)
(* whatever the order in which the (index, result) pairs come back, sorting on the index and projecting gives the
   results in input order *)
Theorem C09_results_in_input_order {B} (results : list B) (arrived : list (nat * B)) :
  Permutation arrived (enumerate results) -> sort_and_unpack arrived = results.
Proof. exact (sort_and_unpack_input_order B results arrived). Qed.

(* ---------------------------------------------------------------- data level *)
(* the accumulated buffer is invariant under any permutation of the sequences ... *)
Theorem C09_perm_invariant {A S} (add : A -> A -> A) (zero : A) (contrib : S -> A) (seqs seqs' : list S) :
  comm_monoid add zero ->
  Permutation seqs seqs' -> msum add zero (map contrib seqs) = msum add zero (map contrib seqs').
Proof. intros (Ha & Hc & H0). exact (acc_perm_invariant A add zero Ha Hc S contrib seqs seqs'). Qed.

(* ... and under any regrouping into successive partial fits (each batch adds its sum to the buffer). *)
Theorem C09_regroup_invariant {A S} (add : A -> A -> A) (zero : A) (contrib : S -> A) (batches batches' : list (list S)) (a0 : A) :
  comm_monoid add zero ->
  Permutation (concat batches) (concat batches') ->
  fold_left (fun a b => add a (msum add zero (map contrib b))) batches a0 =
  fold_left (fun a b => add a (msum add zero (map contrib b))) batches' a0.
Proof. intros (Ha & Hc & H0). exact (acc_regroup_perm A add zero Ha Hc H0 S contrib batches batches' a0). Qed.

(* The executable entry-wise model of Node.partial_fit / ridge.partial_backward / _accumulate (model/BatchAcc.v, the
   functions the runner evaluates at Q), at the real numbers: the buffers XXT, YXT — hence everything backward()
   computes from them — depend only on the collection (multiset) of retained (input, target) rows, whatever the split
   into sequences, their order, the grouping into partial fits and the warm-ups that produced that collection. *)
Theorem C09_buffers_depend_on_rows_only (bias : bool) (din dout w w' : nat)
        (batches batches' : list (list (list (list R * list R)))) :
  Permutation (retained_rows w batches) (retained_rows w' batches') ->
  XXT_of bias din w batches = XXT_of bias din w' batches' /\
  YXT_of bias din dout w batches = YXT_of bias din dout w' batches'.
Proof. exact (buffers_collection bias din dout w w' batches batches'). Qed.

(* ---------------------------------------------------------------- non-vacuity *)
(* (Z, +, 0) is an instance *)
Example C09_Z_monoid : comm_monoid Z.add 0%Z.
Proof. repeat split; intros; [apply Z.add_assoc | apply Z.add_comm | apply Z.add_0_r]. Qed.
(* three tasks under the lock, an interleaved schedule containing blocked steps (task 1 and 2 try to acquire while 0
   holds the lock): all Done and both sums complete *)
Example C09_locked_example :
  let c := fun w => Z.of_nat (w + 1) in
  let d := fun w => (10 * Z.of_nat (w + 1))%Z in
  let sched := [0;1;2;0;1;0;0;2;0;0;1;1;2;1;1;2;1;1;2;2;2;2;2;2] in
  let s := run Z.add true c d (init 100%Z 1000%Z) sched in
  Forall (fun w => w < 3) sched /\ all_done 3 s = true /\ XXT s = 106%Z /\ YXT s = 1060%Z.
Proof. vm_compute. repeat split; repeat constructor. Qed.
(* the same interleaving without the lock loses updates *)
Example C09_unlocked_example :
  let c := fun w => Z.of_nat (w + 1) in
  let d := fun w => (10 * Z.of_nat (w + 1))%Z in
  let sched := [0;1;2;0;1;0;0;2;0;0;1;1;2;1;1;2;1;1;2;2;2;2;2;2] in
  let s := run Z.add false c d (init 100%Z 1000%Z) sched in
  all_done 3 s = true /\ XXT s <> 106%Z.
Proof. vm_compute. split; [reflexivity|discriminate]. Qed.
Example C09_sort_example :
  sort_and_unpack [(2, [30]); (0, [10; 11]); (3, []); (1, [20])] = [[10; 11]; [20]; [30]; []].
Proof. reflexivity. Qed.
(* one array of 3 rows  vs  two sequences in the other order fed by two partial fits: same buffers (bias on) *)
Example C09_buffers_example :
  let r1 := ([1;2], [1])%Q in let r2 := ([0;1], [2])%Q in let r3 := ([3;1], [0])%Q in
  XXT_of (F:=Q) true 2 0 [[[r1;r2;r3]]] = XXT_of (F:=Q) true 2 0 [[[r3]];[[r1;r2]]] /\
  XXT_of (F:=Q) true 2 0 [[[r1;r2;r3]]] = [[3;4;4];[4;10;5];[4;5;6]]%Q /\
  YXT_of (F:=Q) true 2 1 0 [[[r3]];[[r1;r2]]] = [[3;1;4]]%Q.
Proof. vm_compute. repeat split. Qed.

Print Assumptions C09_locked_any_schedule.
Print Assumptions C09_locked_partial_sums.
Print Assumptions C09_locked_mutual_exclusion.
Print Assumptions C09_terminating_schedule_exists.
Print Assumptions C09_unlocked_refuted.
Print Assumptions C09_results_in_input_order.
Print Assumptions C09_perm_invariant.
Print Assumptions C09_regroup_invariant.
Print Assumptions C09_buffers_depend_on_rows_only.

(* ================================================================================================================ *)
(* Tie (T) for the critical section: in the code GENERATED on this run from nodes/readouts/ridge.py (coq/gen/Gen_ridge.v), what a
   worker does to the shared buffers is `XXT <- XXT + c ; YXT <- YXT + d` where (c, d) depends on the worker's own sequence only
   -- not on the buffers, not on whether a lock was passed: the `read; write (t + c)` program of model/Conc.v.          *)
From RV Require Import base.GenPrelude gen.Gen_ridge.

Theorem C09_generated_worker_adds_its_own_contribution {F : Type} `{Num F} (b : bool) (XXT YXT X Y : list (list F)) (lock : bool) :
  let X' := fst (GenRidge.prepare_inputs X Y b) in
  GenRidge.partial_backward b XXT YXT X Y lock = (madd XXT (mmul (mT X') X'), madd YXT (mmul (mT Y) X')).
Proof. intros X'. unfold GenRidge.partial_backward, GenRidge.accumulate. subst X'. destruct (GenRidge.prepare_inputs X Y b) eqn:E.
  unfold GenRidge.prepare_inputs in E. injection E as <- <-. cbn [fst]. destruct lock; reflexivity. Qed.
Print Assumptions C09_generated_worker_adds_its_own_contribution.

(* ================================================================================================================
   The R-vs-Q instance gap, closed by proof (base/NumHom.v, proofs/QR_bridge_C09.v).
   C09_buffers_depend_on_rows_only is about model/BatchAcc.v at F := R and the schedule theorems hold for any monoid of
   contributions; the correspondence run (run/RunC09.v) evaluates BatchAcc at F := Q and replays the observed schedule through
   model/Conc.v with matrices over Q.  [Q2R] is a homomorphism of the [Num] class, so every sum of BatchAcc and both buffers
   commute with the entry-wise embedding of the rows ([qbatches2r]: calls x sequences x rows, each row (x, y) embedded);
   Conc.run is preserved, for ANY schedule, by any map of contributions that commutes with the addition (lock and program
   counters included: [epc]), so the replay at Q embeds onto the replay at R; sort_and_unpack is structural.
   [sched_run use_lock bias din dout tasks sched] is literally the Conc.run term of chk_sched.  No shape hypothesis, no side condition.
   NOT bridged: chk_solution(s) compare with LA.qsolve (Gauss-Jordan written over Q only, the LAPACK stand-in); only the system
   and the right-hand side handed to it are embedded (C09_Qsolver_inputs_embed). *)
From RV Require Import base.NumHom proofs.QR_bridge_C09.

Theorem C09_Qbatchacc_embed :
  (forall (bias : bool) (i j w : nat) (batches : list (list (list (list Q * list Q)))) (a0 : Q),
     Q2R (batches_sum (row_xx bias i j) w batches a0) = batches_sum (row_xx bias i j) w (qbatches2r batches) (Q2R a0) /\
     Q2R (batches_sum (row_yx bias i j) w batches a0) = batches_sum (row_yx bias i j) w (qbatches2r batches) (Q2R a0)) /\
  (forall (bias : bool) (din w : nat) (batches : list (list (list (list Q * list Q)))),
     qm2r (XXT_of bias din w batches) = XXT_of bias din w (qbatches2r batches)) /\
  (forall (bias : bool) (din dout w : nat) (batches : list (list (list (list Q * list Q)))),
     qm2r (YXT_of bias din dout w batches) = YXT_of bias din dout w (qbatches2r batches)).
Proof. exact Qbatchacc_embed. Qed.

(* the replayed schedule: any schedule, lock or no lock; buffers, lock, program counters and termination flags *)
Theorem C09_Qsched_embed (use_lock bias : bool) (din dout : nat) (tasks : list (list (list Q * list Q))) (sched : list nat) :
  let sQ := sched_run use_lock bias din dout tasks sched in
  let sR := sched_run use_lock bias din dout (qseqs2r tasks) sched in
  XXT sR = qm2r (XXT sQ) /\ YXT sR = qm2r (YXT sQ) /\ lock sR = lock sQ /\
  (forall w, pcs sR w = epc qm2r (pcs sQ w)) /\ (forall n, all_done n sR = all_done n sQ).
Proof. exact (Qsched_embed use_lock bias din dout tasks sched). Qed.

(* what the rational-only solver of the runner is handed *)
Theorem C09_Qsolver_inputs_embed (bias : bool) (din dout w : nat) (batches : list (list (list (list Q * list Q)))) (ridge : Q) :
  let n := if bias then S din else din in
  qm2r (madd (XXT_of bias din w batches) (mscale ridge (eye n)))
    = madd (XXT_of bias din w (qbatches2r batches)) (mscale (Q2R ridge) (eye n)) /\
  qm2r (transpose (YXT_of bias din dout w batches) n) = transpose (YXT_of bias din dout w (qbatches2r batches)) n.
Proof. exact (Qsolver_inputs_embed bias din dout w batches ridge). Qed.

(* non-vacuity: bias on, 2 inputs, 1 output, warm-up 1, two partial_fit calls (the second with two sequences, one of them
   entirely inside the warm-up), evaluated at R *)
Example C09_Qbatchacc_example :
  XXT_of true 2 1 (qbatches2r c09_ex) = qm2r [[(3#1)%Q; (-1#4)%Q; (13#8)%Q]; [(-1#4)%Q; (53#16)%Q; (-3#16)%Q]; [(13#8)%Q; (-3#16)%Q; (273#64)%Q]] /\
  YXT_of true 2 1 1 (qbatches2r c09_ex) = qm2r [[(1#2)%Q; (19#16)%Q; (21#16)%Q]].
Proof. exact Qbatchacc_example. Qed.

Print Assumptions C09_Qbatchacc_embed.
Print Assumptions C09_Qsched_embed.
Print Assumptions C09_Qsolver_inputs_embed.

(* ---- the verdict of the correspondence runner, read at R ----
   [rclose m o] is |m - o| <= 1e-9 * max(1,|m|) on reals; [mrclose] / [lmrclose]: entry-wise on 2 / 3 levels, same shape. *)
From RV Require Import run.RunC09.

Theorem C09_chk_buffers_are_about_R_model :
  (forall bias din dout w batches obsXXT obsYXT, chk_buffers bias din dout w batches obsXXT obsYXT = true ->
     mrclose (XXT_of bias din w (qbatches2r batches)) (qm2r obsXXT) /\
     mrclose (YXT_of bias din dout w (qbatches2r batches)) (qm2r obsYXT)) /\
  (forall use_lock bias din dout tasks sched obsXXT obsYXT, chk_sched use_lock bias din dout tasks sched obsXXT obsYXT = true ->
     let sR := sched_run use_lock bias din dout (qseqs2r tasks) sched in
     forallb (fun w => w <? length tasks) sched = true /\ all_done (length tasks) sR = true /\
     mrclose (XXT sR) (qm2r obsXXT) /\ mrclose (YXT sR) (qm2r obsYXT)) /\
  (forall arrived obs, chk_order arrived obs = true ->
     lmrclose (sort_and_unpack (map (esnd qm2r) arrived)) (map qm2r obs)).
Proof. exact chk_buffers_are_about_R_model. Qed.

(* non-vacuity: scenarios on which the runner answers true (the buffers of the example; two tasks under the lock, interleaved
   schedule with a blocked step; two results arriving out of order) *)
Example C09_chk_buffers_example :
  chk_buffers true 2 1 1 c09_ex [[(3#1)%Q; (-1#4)%Q; (13#8)%Q]; [(-1#4)%Q; (53#16)%Q; (-3#16)%Q]; [(13#8)%Q; (-3#16)%Q; (273#64)%Q]]
              [[(1#2)%Q; (19#16)%Q; (21#16)%Q]] = true /\
  chk_sched true false 1 1 [[([(2#1)%Q], [(1#1)%Q])]; [([(1#2)%Q], [(4#1)%Q])]] [0; 1; 0; 0; 0; 0; 0; 1; 1; 1; 1; 1; 1]
            [[(17#4)%Q]] [[(4#1)%Q]] = true /\
  chk_order [(1, [[(2#1)%Q]]); (0, [[(1#1)%Q]])] [[[(1#1)%Q]]; [[(2#1)%Q]]] = true.
Proof. vm_compute. repeat split; reflexivity. Qed.

Print Assumptions C09_chk_buffers_are_about_R_model.

(* ---- chk_solution: PARTIAL (the full reading is kept as a Definition, not proved) ----
   The runner solves the model's regularised system with LA.qsolve, a Gauss-Jordan elimination written over Q only (stand-in
   for LAPACK).  Proved: its inputs embed onto the R-model's system [sysR] / right-hand side [rhsR], and a verdict [true] says
   that its exact rational output, embedded, is within tolerance of the observed Wout / bias ([weights_close]).
   Not proved: that this output solves the embedded system over R (soundness of the elimination). *)
Theorem C09_chk_solution_partial (bias : bool) (din dout w : nat) (batches : list (list (list (list Q * list Q)))) (ridge : Q)
    (obsW obsB : list (list Q)) :
  chk_solution bias din dout w batches ridge obsW obsB = true ->
  exists Wq : list (list Q),
    qsolve (sysQ bias din w batches ridge) (rhsQ bias din dout w batches) = Some Wq /\
    qm2r (sysQ bias din w batches ridge) = sysR bias din w (qbatches2r batches) (Q2R ridge) /\
    qm2r (rhsQ bias din dout w batches) = rhsR bias din dout w (qbatches2r batches) /\
    weights_close bias (qm2r Wq) obsW obsB.
Proof. exact (chk_solution_partial bias din dout w batches ridge obsW obsB). Qed.

Definition C09_chk_solution_full_statement : Prop :=
  forall (bias : bool) (din dout w : nat) (batches : list (list (list (list Q * list Q)))) (ridge : Q) (obsW obsB : list (list Q)),
    chk_solution bias din dout w batches ridge obsW obsB = true ->
    exists WR : list (list R),
      mm (sysR bias din w (qbatches2r batches) (Q2R ridge)) WR dout = rhsR bias din dout w (qbatches2r batches) /\
      weights_close bias WR obsW obsB.

(* non-vacuity: one input, no bias, rows (2 -> 1), (1/2 -> 4): XXT = 17/4, YXT = 4, ridge 3/4: W = 4/5 *)
Example C09_chk_solution_example :
  chk_solution false 1 1 0 [[[([(2#1)%Q], [(1#1)%Q]); ([(1#2)%Q], [(4#1)%Q])]]] (3#4)%Q [[(4#5)%Q]] [] = true.
Proof. vm_compute. reflexivity. Qed.

Print Assumptions C09_chk_solution_partial.

(* ================================================================================================================
   chk_solution: the FULL reading, by the soundness of the Gauss-Jordan stand-in (proofs/QSolve_proofs.v, QR_bridge_C09_solve.v).
   LA.qsolve (pivot search, normalisation, elimination on every other row, Qred after each operation) is proved sound: on a
   square n x n system with an n x m right-hand side, a returned X has shape n x m and A X == B entry-wise (Qeq) -- hence,
   embedded, A X = B exactly over R -- and it is the only rational solution of that shape.  The system the runner builds
   (tabulated buffers + ridge I, transposed YXT) has that shape whatever the data, so [C09_chk_solution_full_statement] holds:
   LA.qsolve is no longer in the trusted base of this check.                                                              *)
From RV Require Import proofs.QSolve_proofs proofs.QR_bridge_C09_solve.

(* the solver itself, vocabulary spelled out: A is n x n, B is n x m *)
Theorem C09_qsolve_sound (n m : nat) (A B X : list (list Q)) :
  length A = n -> Forall (fun r => length r = n) A -> length B = n -> Forall (fun r => length r = m) B ->
  qsolve A B = Some X ->
  length X = n /\ Forall (fun r => length r = m) X /\ Forall2 (Forall2 Qeq) (mm A X m) B.
Proof. intros a b c d. exact (qsolve_sound n m A B X (conj a (conj b (conj c d)))). Qed.

Theorem C09_qsolve_unique (n m : nat) (A B X Y : list (list Q)) :
  length A = n -> Forall (fun r => length r = n) A -> length B = n -> Forall (fun r => length r = m) B ->
  qsolve A B = Some X ->
  length Y = n -> Forall (fun r => length r = m) Y -> Forall2 (Forall2 Qeq) (mm A Y m) B -> Forall2 (Forall2 Qeq) Y X.
Proof. intros a b c d. exact (qsolve_unique n m A B X Y (conj a (conj b (conj c d)))). Qed.

Theorem C09_chk_solution_full : C09_chk_solution_full_statement.
Proof. exact chk_solution_full. Qed.

(* the same with the rational witness and its shape; [chk_solutions]: several observed solutions against one exact solution *)
Theorem C09_chk_solution_is_about_R_model (bias : bool) (din dout w : nat) (batches : list (list (list (list Q * list Q)))) (ridge : Q)
    (obsW obsB : list (list Q)) :
  chk_solution bias din dout w batches ridge obsW obsB = true ->
  exists Wq : list (list Q),
    (length (qm2r Wq) = (if bias then S din else din) /\ Forall (fun r => length r = dout) (qm2r Wq)) /\
    mm (sysR bias din w (qbatches2r batches) (Q2R ridge)) (qm2r Wq) dout = rhsR bias din dout w (qbatches2r batches) /\
    weights_close bias (qm2r Wq) obsW obsB.
Proof. exact (chk_solution_is_about_R_model bias din dout w batches ridge obsW obsB). Qed.

Theorem C09_chk_solutions_is_about_R_model (bias : bool) (din dout w : nat) (batches : list (list (list (list Q * list Q)))) (ridge : Q)
    (obs : list (list (list Q) * list (list Q))) :
  chk_solutions bias din dout w batches ridge obs = true ->
  exists Wq : list (list Q),
    (length (qm2r Wq) = (if bias then S din else din) /\ Forall (fun r => length r = dout) (qm2r Wq)) /\
    mm (sysR bias din w (qbatches2r batches) (Q2R ridge)) (qm2r Wq) dout = rhsR bias din dout w (qbatches2r batches) /\
    Forall (fun o => weights_close bias (qm2r Wq) (fst o) (snd o)) obs.
Proof. exact (chk_solutions_is_about_R_model bias din dout w batches ridge obs). Qed.

(* the exact solution is unique among rational matrices of that shape: the observed weights are compared with THE solution *)
Theorem C09_model_solution_unique (bias : bool) (din dout w : nat) (batches : list (list (list (list Q * list Q)))) (ridge : Q)
    (Wq Y : list (list Q)) :
  model_solution bias din dout w batches ridge = Some Wq ->
  length Y = (if bias then S din else din) /\ Forall (fun r => length r = dout) Y ->
  mm (sysR bias din w (qbatches2r batches) (Q2R ridge)) (qm2r Y) dout = rhsR bias din dout w (qbatches2r batches) ->
  qm2r Y = qm2r Wq.
Proof. exact (model_solution_unique bias din dout w batches ridge Wq Y). Qed.

(* non-vacuity: the premise holds on the scenario of C09_chk_solution_example, and the elimination returns W = 4/5 *)
Example C09_chk_solution_full_example :
  chk_solution false 1 1 0 [[[([(2#1)%Q], [(1#1)%Q]); ([(1#2)%Q], [(4#1)%Q])]]] (3#4)%Q [[(4#5)%Q]] [] = true /\
  model_solution false 1 1 0 [[[([(2#1)%Q], [(1#1)%Q]); ([(1#2)%Q], [(4#1)%Q])]]] (3#4)%Q = Some [[(4#5)%Q]].
Proof. exact chk_solution_full_example. Qed.

Print Assumptions C09_qsolve_sound.
Print Assumptions C09_qsolve_unique.
Print Assumptions C09_chk_solution_full.
Print Assumptions C09_chk_solution_is_about_R_model.
Print Assumptions C09_chk_solutions_is_about_R_model.
Print Assumptions C09_model_solution_unique.

(* ================================================================================================================
   Tie (T) for the PARALLEL GLUE of nodes/esn.py: _sort_and_unpack, the ESN.run dispatch (with the `return idx, ...` of _run_fn) and the
   ESN.fit dispatch with its lock rule are GENERATED on this run (coq/gen/Gen_parallel.v, translator tools/vlib/py2coq_par.py, vocabulary
   coq/base/ParPrelude.v).  `Parallel(...)(delayed(f)(args) for ...)` means: the tasks in generation order, executed in an ARBITRARY order
   [order] (only assumed to be a permutation of the task numbers) with the results handed back in COMPLETION order -- weaker than joblib's
   own contract (submission order) on purpose: the clause is that _sort_and_unpack restores input order whatever the order of the pairs.   *)
From Coq Require String.
From RV Require Import base.ParPrelude gen.Gen_parallel proofs.Gen_parallel_eq.
Import String.StringSyntax.
Delimit Scope string_scope with string.

(* generated _sort_and_unpack (return_states=None, results carrying the `readout` entry) IS the model's sort_and_unpack ... *)
Theorem C09_generated_sort_and_unpack_is_model {V L RS : Type} (tr : list (nat * V * L)) :
  2 <= length tr ->
  GenPar.sort_and_unpack_ (map wrap tr) (@None RS) = Ok (UVal (PList (Conc.sort_and_unpack (map pair_of tr)))).
Proof. exact (gen_sort_and_unpack_eq_model tr). Qed.

(* ... so C09_results_in_input_order transfers to the code: for every arrival order of the (idx, states, last states) triples *)
Theorem C09_generated_sort_and_unpack_input_order {V L RS : Type} (outs : list V) (arrived : list (nat * V * L)) :
  2 <= length outs -> Permutation (map pair_of arrived) (Conc.enumerate outs) ->
  GenPar.sort_and_unpack_ (map wrap arrived) (@None RS) = Ok (UVal (PList outs)).
Proof. exact (gen_sort_and_unpack_input_order outs arrived). Qed.

(* one sequence: the item itself, not a list of one *)
Theorem C09_generated_sort_and_unpack_single {V L RS : Type} (i : nat) (v : V) (l : L) :
  GenPar.sort_and_unpack_ [wrap (i, v, l)] (@None RS) = Ok (UVal (PItem v)).
Proof. exact (gen_sort_and_unpack_single i v l). Qed.

(* generated ESN.run: task i carries index i and its own (x_i, forced feedback_i); whatever the execution / completion order of the tasks,
   the outputs come back in input order and the state carried over to the ESN is the one reached at the end of the LAST input sequence.
   [body_states] / [body_last] stand for the part of _run_fn that is not translated (it does not mention idx: checked by the translator). *)
Theorem C09_generated_run_outputs_in_input_order {T_esn T_x T_fb RS T_fs T_st T_re T_sh V L1 L2 : Type}
    (body_states : T_esn -> T_x -> T_fb -> option RS -> T_fs -> T_st -> T_re -> T_sh -> pdict V)
    (body_last : T_esn -> T_x -> T_fb -> option RS -> T_fs -> T_st -> T_re -> T_sh -> L1 * L2)
    (self : T_esn) (fs : T_fs) (st : T_st) (re : T_re) (sh : T_sh) (out : T_x -> T_fb -> V) :
  (forall x y, body_states self x y None fs st re sh = [("readout"%string, out x y)]) ->
  forall (order : list nat) (X : list T_x) (F : list T_fb) (xl : T_x) (yl : T_fb),
  2 <= length (combine X F) ->
  Permutation order (seq 0 (length (combine X F))) ->
  list_last (combine X F) = Ok (xl, yl) ->
  GenPar.ESN_run body_states body_last order self X F fs st re sh None =
    Ok (fst (body_last self xl yl None fs st re sh), snd (body_last self xl yl None fs st re sh),
        UVal (PList (map (fun p => out (fst p) (snd p)) (combine X F)))).
Proof. exact (gen_ESN_run_input_order body_states body_last self fs st re sh out). Qed.

(* generated lock rule of ESN.fit = the condition under which the schedule model runs with [use_lock = true] *)
Theorem C09_generated_fit_lock_rule (workers : Z) (backend : option String.string) :
  GenPar.ESN_fit_use_lock workers backend =
  (((1 <? workers)%Z || (workers <? 0)%Z) &&
   negb (match backend with Some b => String.eqb b "sequential"%string | None => false end))%bool.
Proof. exact (gen_fit_lock_rule workers backend). Qed.

(* generated fit dispatch: the k-th task is given sequence k's own (x_k, y_k), the one shared lock (or None) and the warm-up *)
Theorem C09_generated_fit_task_gets_its_own_sequence {T_esn T_x T_y LK T_w : Type} (new_lock : LK) (self : T_esn) (X : list T_x) (Y : list T_y)
    (warmup : T_w) (workers : Z) (backend : option String.string) (k : nat) (x : T_x) (y : T_y) :
  nth_error X k = Some x -> nth_error Y k = Some y ->
  nth_error (GenPar.ESN_fit_tasks new_lock self X Y warmup workers backend) k =
    Some (self, x, y, (if GenPar.ESN_fit_use_lock workers backend then Some new_lock else None), warmup)
  /\ length (GenPar.ESN_fit_tasks new_lock self X Y warmup workers backend) = Nat.min (length X) (length Y).
Proof. intros a b. rewrite gen_fit_lock_rule. exact (gen_fit_tasks_own_data new_lock self X Y warmup workers backend k x y a b). Qed.

(* non-vacuity: three sequences executed in the order 2, 0, 1 *)
Example C09_generated_run_example :
  GenPar.ESN_run (RS := unit) (fun (_ : unit) (x : nat) (y : nat) _ (_ _ _ _ : unit) => [("readout"%string, 10 * x + y)])
                 (fun _ x y _ _ _ _ _ => (x, y)) [2; 0; 1] tt [1; 2; 3] [4; 5; 6] tt tt tt tt None
  = Ok (3, 6, UVal (PList [14; 25; 36])).
Proof. vm_compute. reflexivity. Qed.

Print Assumptions C09_generated_sort_and_unpack_is_model.
Print Assumptions C09_generated_sort_and_unpack_input_order.
Print Assumptions C09_generated_sort_and_unpack_single.
Print Assumptions C09_generated_run_outputs_in_input_order.
Print Assumptions C09_generated_fit_lock_rule.
Print Assumptions C09_generated_fit_task_gets_its_own_sequence.

(* generated ESN.fit, world-passing reading ([pf] = _run_partial_fit_fn, [ib] = initialize_buffers, [cb] = readout.clean_buffers, [rf] = readout.fit):
   when a task fails, the exception leaves ESN.fit and the partial sums have been cleaned (clean_buffers applied to the world the failure left) *)
Theorem C09_generated_fit_failure_cleans_buffers {W LS T_esn T_x T_y LK T_w : Type}
    (pf : T_esn * T_x * T_y * option LK * T_w -> W -> W * res LS) (ib cb rf : W -> W) (srs : LS -> W -> W)
    (order : list nat) (nl : LK) (self : T_esn) (X : list T_x) (Y : list T_y) (wu : T_w) (workers : Z)
    (backend : option String.string) (w w' : W) (e : pexc) :
  parallel_w order pf (GenPar.ESN_fit_tasks nl self X Y wu workers backend) (ib w) = (w', Raise e) ->
  GenPar.ESN_fit pf ib cb rf srs order nl self X Y wu workers backend w = (cb w', Raise e).
Proof. exact (gen_fit_failure_cleans pf ib cb rf srs order nl self X Y wu workers backend w w' e). Qed.

(* ... and when every task completes, the buffers are NOT cleaned before readout.fit: the world handed to it is the one the tasks left *)
Theorem C09_generated_fit_success_fits_accumulated_buffers {W LS T_esn T_x T_y LK T_w : Type}
    (pf : T_esn * T_x * T_y * option LK * T_w -> W -> W * res LS) (ib cb rf : W -> W) (srs : LS -> W -> W)
    (order : list nat) (nl : LK) (self : T_esn) (X : list T_x) (Y : list T_y) (wu : T_w) (workers : Z)
    (backend : option String.string) (w w' : W) (ls : list LS) (l : LS) :
  parallel_w order pf (GenPar.ESN_fit_tasks nl self X Y wu workers backend) (ib w) = (w', Ok ls) -> list_last ls = Ok l ->
  GenPar.ESN_fit pf ib cb rf srs order nl self X Y wu workers backend w = (rf (srs l w'), Ok tt).
Proof. exact (gen_fit_success pf ib cb rf srs order nl self X Y wu workers backend w w' ls l). Qed.

Print Assumptions C09_generated_fit_failure_cleans_buffers.
Print Assumptions C09_generated_fit_success_fits_accumulated_buffers.
