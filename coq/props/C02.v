(* C02 — a model computes the composition of its nodes along the graph.  Statement-only file. *)
From Coq Require Import List Arith Bool Permutation QArith Lia.
From RV Require Import base.Num base.LA model.ModelSem model.Kinds proofs.ModelSem_proofs.
Import ListNotations.
Close Scope Q_scope.

Section C02.
Context {F : Type} `{Num F}.
Notation vec := (list F).
Notation env := (@env F).
Notation model := (@model F).

(* One model step (Model._call -> forward) on any topologically ordered model, whatever the nodes' forward
   functions: the resulting environment satisfies, for every node, "new (state, hidden memory) = forward function of
   (own previous state and hidden memory, side-by-side concatenation of the predecessors' NEW states followed by
   the external input addressed to it, feedback value)"; nodes outside the model are untouched. *)
Theorem C02_forward_is_solution (m : model) prev clamp ext (e0 e' : env) :
  well_formed m -> forward m prev clamp ext e0 = (e', true) -> is_solution m prev clamp ext e0 e'.
Proof. exact (forward_is_solution m prev clamp ext e0 e'). Qed.

(* That system of equations has exactly one solution: "exactly what is obtained by evaluating each node once,
   after all of its predecessors". *)
Theorem C02_solution_unique (m : model) prev clamp ext (e0 e1 e2 : env) :
  well_formed m -> is_solution m prev clamp ext e0 e1 -> is_solution m prev clamp ext e0 e2 -> forall n, e1 n = e2 n.
Proof. exact (solution_unique m prev clamp ext e0 e1 e2). Qed.

(* Hence the result does not depend on which valid execution order the implementation picked. *)
Theorem C02_order_independent (m1 m2 : model) prev clamp ext (e0 e1 e2 : env) :
  well_formed m1 -> well_formed m2 -> Permutation (order m1) (order m2) -> (forall n, parents m1 n = parents m2 n) ->
  forward m1 prev clamp ext e0 = (e1, true) -> forward m2 prev clamp ext e0 = (e2, true) -> forall n, e1 n = e2 n.
Proof. exact (forward_order_independent m1 m2 prev clamp ext e0 e1 e2). Qed.

(* Only the nodes of the model are touched. *)
Theorem C02_frame (m : model) prev clamp ext (e e' : env) ok n :
  forward m prev clamp ext e = (e', ok) -> ~ In n (map nid (order m)) -> e' n = e n.
Proof. intros Hf. exact (forward_from_frame m prev clamp ext (order m) e e' ok Hf n). Qed.

(* Name-keyed inputs reach exactly the named nodes; an entry node receives the external input alone. *)
Theorem C02_named_input (m : model) (e : env) ext n :
  (ext n = None -> gather m e ext n = concat (map (fun p => st (e p)) (parents m n))) /\
  (forall x, parents m n = [] -> ext n = Some x -> gather m e ext n = x).
Proof. split; [exact (gather_no_ext m e ext n)|intros x; exact (gather_entry m e ext n x)]. Qed.

(* A run is the step applied timestep by timestep; outputs are read from the output nodes after each step;
   a run over xs ++ ys is a run over xs followed by a run over ys from the state reached (also used by C07). *)
Theorem C02_run_pointwise (m : model) ext forced rest (e : env) :
  run_steps m ((ext, forced) :: rest) e =
    let '(e1, ok) := step m forced ext e in
    if ok then let '(e2, outs, ok2) := run_steps m rest e1 in (e2, out_states m e1 :: outs, ok2) else (e1, [], false).
Proof. exact eq_refl. Qed.
Theorem C02_run_rows (m : model) xs (e e' : env) outs : run_steps m xs e = (e', outs, true) -> length outs = length xs.
Proof. exact (run_steps_outputs_length m xs e e' outs). Qed.
End C02.

(* Non-vacuity: a diamond  0 -> {1,2} -> 3  (3 concatenates 1 and 2) with affine / accumulator nodes at Q. *)
Definition ex_nodes : list (@ndesc Q) :=
  [mkND 0 (kfwd (KFun 2 1)) None 1; mkND 1 (kfwd KAcc) None 1; mkND 2 (kfwd (KFun (-1) 0)) None 1; mkND 3 (kfwd KId) None 2]%Q.
Definition ex_model : @model Q :=
  mkModel ex_nodes (fun n => match n with 1 => [0] | 2 => [0] | 3 => [1; 2] | _ => [] end) [3].
Definition ex_env : @env Q := fun n => mkNS (match n with 1 => [5%Q] | 3 => [0%Q; 0%Q] | _ => [0%Q] end) [].
Example C02_example :
  well_formed ex_model /\
  (let '(e', ok) := forward ex_model ex_env (fun _ => None) (fun n => match n with 0 => Some [3%Q] | _ => None end) ex_env in
   (ok, st (e' 3))) = (true, [12%Q; (-7)%Q]).
Proof.
  split.
  - split; cbn.
    + repeat constructor; cbn; intuition discriminate.
    + repeat split; try tauto; cbn in *; intuition (try discriminate; try lia).
  - vm_compute. reflexivity.
Qed.

Print Assumptions C02_forward_is_solution.
Print Assumptions C02_solution_unique.
Print Assumptions C02_order_independent.
Print Assumptions C02_frame.
Print Assumptions C02_named_input.
Print Assumptions C02_run_pointwise.
Print Assumptions C02_run_rows.

(* ==================================================================================================================
   The data plumbing around the model (reservoirpy/utils/model_utils.py and the loop over sequences of Model.run):
   model/Mapping.v, proofs/Mapping_proofs.v; tied to the source by the correspondence family "mapping"
   (run/RunMapping.v, tools/props/c02.py).  Names are node ids; a Python dict is an association list in insertion order. *)
From RV Require Import model.Mapping proofs.Mapping_proofs.

Section C02_mapping.
Context {row : Type}.
Notation sq := (list row).

(* unfold_mapping of a rectangular mapping (every name has the same number k of sequences): k mappings, the j-th of
   which maps each name - same keys, same order - to its own j-th sequence; a mapping is accepted ONLY if it is
   rectangular; and folding the per-sequence mappings back (the defaultdict path of fold_mapping) is the inverse. *)
Theorem C02_mapping_unfold_fold (k : nat) (dm : dict (list sq)) :
  (dm <> [] -> rectangular k dm ->
   exists ms, unfold_mapping dm = Some ms /\ length ms = k /\
              forall j, j < k -> nth j ms [] = slice dm j /\ keys (nth j ms []) = keys dm) /\
  (forall ms, unfold_mapping dm = Some ms -> dm <> [] /\ exists k', rectangular k' dm /\ ms = map (slice dm) (seq 0 k')) /\
  (forall ms, NoDup (keys dm) -> rectangular k dm -> 0 < k -> unfold_mapping dm = Some ms -> fold_many ms = dm).
Proof.
  split; [exact (unfold_spec k dm)|split; [exact (unfold_some dm)|intros ms; exact (fold_many_unfold k dm ms)]].
Qed.

(* folding ANY per-sequence results that are keyed alike (what the per-sequence runs return): exactly those keys, in
   that order; under each key a list as long as the list of sequences, whose j-th entry is sequence j's value *)
Theorem C02_mapping_fold_uniform {A : Type} (ks : list nat) (states : list (dict A)) :
  NoDup ks -> states <> [] -> (forall s, In s states -> keys s = ks) ->
  keys (fold_many states) = ks /\
  forall k, In k ks -> exists l, lookup k (fold_many states) = Some l /\ length l = length states /\
                                 forall j, j < length states -> nth_error l j = lookup k (nth j states []).
Proof. exact (fold_many_uniform ks states). Qed.

(* An array / list input reaches exactly the entry nodes: to_data_mapping gives one mapping per sequence, keyed by
   exactly the input nodes, each holding that sequence.  A target array reaches exactly the trainable nodes that are
   not `unsupervised`. *)
Theorem C02_array_reaches_entries (mm : mmodel) (v : value row) :
  (mm_inputs mm <> [] ->
   to_data_mapping mm (DVal v) None =
     Some (map (fun s => map (fun n => (mn_name n, s)) (mm_inputs mm)) (ragged_of v), repeat None (length (ragged_of v)))) /\
  (forall k, In k (keys (build_mapping (trainable_nodes mm) (DVal v) IoTarget)) <->
             exists n, In n (mm_nodes mm) /\ mn_name n = k /\ mn_trainable n = true /\ mn_unsup n = false).
Proof. split; [exact (to_data_mapping_array mm v)|exact (build_mapping_target_keys mm v)]. Qed.

(* A name-keyed input reaches exactly the named nodes: it is accepted only if every input node is named and all names
   have the same number k of sequences; the j-th per-sequence mapping then has exactly the written keys, in the
   written order, each with its own j-th sequence. *)
Theorem C02_mapping_reaches_named (mm : mmodel) (m : dict (value row)) xs ys :
  to_data_mapping mm (DMap m) None = Some (xs, ys) ->
  (forall n, In n (mm_inputs mm) -> In (mn_name n) (keys m)) /\
  exists k, (forall p, In p m -> length (ragged_of (snd p)) = k) /\ length xs = k /\ ys = repeat None k /\
            forall j, j < k -> nth j xs [] = map (fun p => (fst p, nth j (ragged_of (snd p)) [])) m.
Proof. exact (to_data_mapping_named mm m xs ys). Qed.
End C02_mapping.

Section C02_run.
Context {F : Type} `{Num F}.
Notation vec := (list F).
Notation env := (@env F).
Notation model := (@model F).

(* ... down to the single timestep (graphflow.dispatch): at step t an array input gives row t to every input node and
   nothing to any other node; a name-keyed input gives a node data only if it is named, and then row t of the sequence
   written under its own name. *)
Theorem C02_step_inputs (inputs : list mnode) (s : list vec) (xm : dict (list vec)) t d n :
  (inputs <> [] -> t < length s ->
   fst (nth t (steps_of (map (fun i => (mn_name i, s)) inputs)) d) n = if memb n (map mn_name inputs) then nth_error s t else None) /\
  (t < length (steps_of xm) ->
   (~ In n (keys xm) -> fst (nth t (steps_of xm) d) n = None) /\
   (forall s', lookup n xm = Some s' -> fst (nth t (steps_of xm) d) n = nth_error s' t) /\
   snd (nth t (steps_of xm) d) n = None).
Proof. split; [exact (steps_of_array inputs s t d n)|exact (steps_of_named xm t d n)]. Qed.

(* Model.run on several sequences = the one-sequence operation of ModelSem (run_op) applied to each sequence in turn,
   every sequence starting from the environment the previous one left (reset / from_state / stateful=False applied per
   sequence, as run_op defines them): run over a ++ b = run over a, then run over b; as many results as sequences, each
   with one row per timestep; and Model.run on an array / list hands every sequence to the input nodes and folds the
   per-sequence records. *)
Theorem C02_run_sequences (mm : mmodel) (m : model) stateful reset from :
  (forall a b (e : env),
     run_seqs m stateful reset from (a ++ b) e =
       let '(e1, oa, ok) := run_seqs m stateful reset from a e in
       if ok then let '(e2, ob, ok2) := run_seqs m stateful reset from b e1 in (e2, oa ++ ob, ok2) else (e1, oa, false)) /\
  (forall s (e : env),
     run_seqs m stateful reset from [s] e =
       let '(e1, o, ok) := run_op m stateful reset from s e in (e1, if ok then [o] else [], ok)) /\
  (forall seqs (e e' : env) outs,
     run_seqs m stateful reset from seqs e = (e', outs, true) ->
     length outs = length seqs /\ forall j, j < length seqs -> length (nth j outs []) = length (nth j seqs [])) /\
  (forall (v : value vec) rs (e : env) names,
     mm_inputs mm <> [] -> ragged_of v <> [] -> allocate_returned_states mm rs = Some names ->
     model_run mm m stateful reset from (DVal v) rs e =
       let '(e1, outs, ok) :=
         run_seqs (with_outputs m names) stateful reset from
                  (map (fun s => steps_of (map (fun n => (mn_name n, s)) (mm_inputs mm))) (ragged_of v)) e in
       (e1, if ok then fold_mapping mm (map (states_of_seq names) outs) rs else RErr, ok)).
Proof.
  split; [exact (run_seqs_app m stateful reset from)|split; [exact (run_seqs_one m stateful reset from)|
  split; [exact (run_seqs_lengths m stateful reset from)|intros v rs e names; exact (model_run_array mm m stateful reset from v rs e names)]]].
Qed.

(* for plain stateful runs a list of sequences is one run over their concatenation (time-compositionality across the
   sequences of one call) *)
Theorem C02_run_sequences_concat (m : model) seqs (e e' : env) outs :
  run_seqs m true false (fun _ => None) seqs e = (e', outs, true) -> run_steps m (concat seqs) e = (e', concat outs, true).
Proof. exact (run_seqs_plain_concat m seqs e e' outs). Qed.

(* Requested outputs come from exactly the named nodes: recording the states of [names] (allocate_returned_states)
   instead of the output nodes changes neither the environments nor success, and row t of the record is the list of
   the named nodes' states at the end of step t of that same run; the array returned under the i-th name is column i. *)
Theorem C02_outputs_from_named (m : model) names :
  (forall ss (e : env),
     run_steps (with_outputs m names) ss e =
       let '(e1, o, ok) := run_steps m ss e in
       (e1, map (fun t => map (fun n => st (env_after m ss e (S t) n)) names) (seq 0 (length o)), ok)) /\
  (forall (outs : list (list vec)) i, NoDup names -> i < length names ->
     lookup (nth i names 0) (states_of_seq names outs) = Some (map (fun step => nth i step []) outs)).
Proof. split; [exact (run_steps_with_outputs m names)|intros outs i; exact (states_of_seq_lookup names outs i)]. Qed.

(* Result form.  return_states=None -> the output nodes, "all" -> every node, a list -> exactly the listed names (each
   once; refused if one is not a node).  A successful Model.run returns: a bare array iff one input sequence, no
   return_states and one output node; a bare list (one array per sequence) iff several sequences, no return_states,
   one output node; otherwise a dict keyed by exactly the returned names, in order, of arrays (one sequence) or of lists
   as long as the list of input sequences (several).  Never anything else. *)
Theorem C02_result_form (mm : mmodel) (m : model) stateful reset from (X : data vec) rs (e e' : env) res :
  mm_wf mm -> model_run mm m stateful reset from X rs e = (e', res, true) ->
  exists names xs ys, allocate_returned_states mm rs = Some names /\ to_data_mapping mm X None = Some (xs, ys) /\
    form_ok rs names (length xs) res /\
    match rs with
    | RsNone => names = map mn_name (mm_outputs mm)
    | RsAll => names = node_names mm
    | RsNames l => (forall k, In k names <-> In k l) /\ NoDup names /\ (forall k, In k l -> In k (node_names mm)) /\ (NoDup l -> names = l)
    end.
Proof.
  intros Hwf Hr. destruct (model_run_form mm m stateful reset from X rs e e' res Hwf Hr) as [names [xs [ys [Ha [Ht Hf]]]]].
  exists names, xs, ys. repeat split; try assumption. exact (allocate_spec mm rs names Ha).
Qed.
End C02_run.

(* Non-vacuity on concrete instances.  The diamond ex_model above (entry 0, exit 3) seen by the plumbing: *)
Definition ex_mm : mmodel :=
  let n i := mkMN i false false false in mkMM [n 0; n 1; n 2; n 3] [n 0] [n 3].
(* two entries 0 and 5, a trainable supervised node 1, a trainable unsupervised node 2 *)
Definition ex_mm2 : mmodel :=
  mkMM [mkMN 0 false false false; mkMN 5 false false false; mkMN 1 true false false; mkMN 2 true true true; mkMN 3 false false false]
       [mkMN 5 false false false; mkMN 0 false false false] [mkMN 3 false false false; mkMN 2 true true true].
Definition ex_dm : dict (list (list nat)) := [(5, [[1; 2]; [3]; [4; 5; 6]]); (0, [[7; 8]; [9]; [10; 11; 12]])].

Example C02_mapping_unfold_fold_example :
  NoDup (keys ex_dm) /\ rectangular 3 ex_dm /\
  unfold_mapping ex_dm = Some [[(5, [1; 2]); (0, [7; 8])]; [(5, [3]); (0, [9])]; [(5, [4; 5; 6]); (0, [10; 11; 12])]] /\
  fold_many [[(5, [1; 2]); (0, [7; 8])]; [(5, [3]); (0, [9])]; [(5, [4; 5; 6]); (0, [10; 11; 12])]] = ex_dm /\
  unfold_mapping [(5, [[1; 2]; [3]]); (0, [[7; 8]])] = None.
Proof.
  split; [repeat constructor; cbn; intuition discriminate|]. split; [intros p [E|[E|[]]]; subst; reflexivity|].
  repeat split; reflexivity.
Qed.

Example C02_array_reaches_entries_example :
  to_data_mapping ex_mm2 (DArr3 [[1; 2]; [3]]) None = Some ([[(5, [1; 2]); (0, [1; 2])]; [(5, [3]); (0, [3])]], [None; None]) /\
  keys (build_mapping (trainable_nodes ex_mm2) (DArr2 [1; 2]) IoTarget) = [1] /\
  to_data_mapping ex_mm2 (DArr2 [1; 2]) (Some (DArr2 [4; 4])) = Some ([[(5, [1; 2]); (0, [1; 2])]], [Some [(1, [4; 4])]]).
Proof. repeat split; reflexivity. Qed.

Example C02_mapping_reaches_named_example :
  to_data_mapping ex_mm2 (DMap [(0, VList [[1; 2]; [3]]); (5, VArr3 [[7; 8]; [9]])]) None
    = Some ([[(0, [1; 2]); (5, [7; 8])]; [(0, [3]); (5, [9])]], [None; None]) /\
  to_data_mapping ex_mm2 (DMap [(0, VList [[1; 2]; [3]])]) None = None /\                           (* input node 5 is not named *)
  to_data_mapping ex_mm2 (DMap [(0, VList [[1; 2]; [3]]); (5, VArr2 [7; 8])]) None = None.          (* 2 sequences vs 1 *)
Proof. repeat split; reflexivity. Qed.

(* Model.run of the diamond on a list of two sequences (2 and 1 timesteps): node 1 is an accumulator, so the second
   sequence continues from the state the first one left; with return_states=None the single output node gives a bare
   list of two arrays; with return_states=[1; 3] a dict of lists keyed 1, 3; one sequence gives bare arrays. *)
Example C02_run_sequences_example :
  mm_wf ex_mm /\
  (let '(_, res, ok) := model_run ex_mm ex_model true false (fun _ => None) (DList [[[3%Q]; [1%Q]]; [[0%Q]]]) RsNone ex_env in (res, ok))
    = (RBareList [[[12; -7]; [15; -3]]; [[16; -1]]], true)%Q /\
  (let '(_, res, ok) := model_run ex_mm ex_model true false (fun _ => None) (DList [[[3%Q]; [1%Q]]; [[0%Q]]]) (RsNames [1; 3; 1]) ex_env in (res, ok))
    = (RDictList [(1%nat, [[[12]; [15]]; [[16]]]); (3%nat, [[[12; -7]; [15; -3]]; [[16; -1]]])], true)%Q /\
  (let '(_, res, ok) := model_run ex_mm ex_model true false (fun _ => None) (DArr3 [[[3%Q]; [1%Q]]]) RsNone ex_env in (res, ok))
    = (RBare [[12; -7]; [15; -3]], true)%Q /\
  (let '(_, res, ok) := model_run ex_mm ex_model true false (fun _ => None) (DMap [(0, VArr2 [[3%Q]])]) RsAll ex_env in (res, ok))
    = (RDict [(0%nat, [[7]]); (1%nat, [[12]]); (2%nat, [[-7]]); (3%nat, [[12; -7]])], true)%Q.
Proof.
  split; [split; repeat constructor; cbn; intuition discriminate|].
  repeat split; vm_compute; reflexivity.
Qed.

Print Assumptions C02_mapping_unfold_fold.
Print Assumptions C02_mapping_fold_uniform.
Print Assumptions C02_array_reaches_entries.
Print Assumptions C02_mapping_reaches_named.
Print Assumptions C02_step_inputs.
Print Assumptions C02_run_sequences.
Print Assumptions C02_run_sequences_concat.
Print Assumptions C02_outputs_from_named.
Print Assumptions C02_result_form.


(* ==================================================================================================================
   Q-to-R bridge for the framework model (proofs/QR_bridge_Model.v).
   The theorems above hold for every [Num] instance, in particular R.  The correspondence run of C02 - and of C05, C07, C08,
   which evaluate the SAME shared runner run/RunModel.v ([chk_hist_both]); C05's correspondence is therefore covered by the
   statements below - executes model/ModelSem.v + model/ProxySem.v + model/Kinds.v at F := Q.  For rational parameters and
   data: run at Q, then embed with Q2R = run at R on the embedded data.  Environments and input maps are related point-wise
   (no functional extensionality); no shape hypothesis and no side condition (every activation of Kinds.v is exactly
   computable; there is no table-replayed activation in the scenario language).
   After this block the cone of this file imports Reals; the theorems above are unaffected (their Print Assumptions
   output is unchanged: see the lines printed above this block). *)
From Coq Require Import Reals Qreals.
From RV Require Import base.NumHom model.ProxySem run.RunModel proofs.QR_bridge_Model.

(* every node kind of the scenario language: forward at R on the embedded (state, hidden memory, input, feedback) is the
   embedding of forward at Q, including the [None] of a raising node (KBoom at its k-th call, a receiver without feedback) *)
Theorem C02_Qnode_kinds_embed_in_R (k : @kind Q) (s : list Q) (h : list (list Q)) (x : list Q) (fb : option (list Q)) :
  kfwd (ekind Q2R k) (qv2r s) (qm2r h) (qv2r x) (option_map qv2r fb)
  = option_map (fun p => (qv2r (fst p), qm2r (snd p))) (kfwd k s h x fb).
Proof. exact (e_kfwd Q2R k s h x fb). Qed.

(* the relations, spelled out *)
Theorem C02_bridge_relations_spelled :
  (forall (e : @env Q) (eR : @env R), env_rel Q2R e eR <-> forall n, eR n = mkNS (qv2r (st (e n))) (qm2r (hid (e n)))) /\
  (forall (x : nat -> option (list Q)) (xR : nat -> option (list R)), opt_rel Q2R x xR <-> forall n, xR n = option_map qv2r (x n)) /\
  (forall (d : @ndesc Q) (dR : @ndesc R), nd_rel Q2R d dR <->
     nid dR = nid d /\ nfb dR = nfb d /\ odim dR = odim d /\
     forall s h x fb, nfwd dR (qv2r s) (qm2r h) (qv2r x) (option_map qv2r fb)
                      = option_map (fun p => (qv2r (fst p), qm2r (snd p))) (nfwd d s h x fb)) /\
  (forall (m : @model Q) (mR : @model R), m_rel Q2R m mR <->
     Forall2 (nd_rel Q2R) (ModelSem.order m) (ModelSem.order mR) /\ (forall n, parents mR n = parents m n) /\ outputs mR = outputs m).
Proof. split; [|split; [|split]]; intros; exact (iff_refl _). Qed.

(* one model step (Model._call -> forward over the execution order, proxies, clamps) *)
Theorem C02_Qstep_embeds_in_Rstep (m : @model Q) (mR : @model R) forced forcedR ext extR (e : @env Q) (eR : @env R) :
  m_rel Q2R m mR -> opt_rel Q2R forced forcedR -> opt_rel Q2R ext extR -> env_rel Q2R e eR ->
  env_rel Q2R (fst (step m forced ext e)) (fst (step mR forcedR extR eR)) /\
  snd (step mR forcedR extR eR) = snd (step m forced ext e).
Proof. exact (step_rel Q2R m mR forced forcedR ext extR e eR). Qed.

(* a whole sequence (Model._run): final environment, every emitted row of every output node, success flag *)
Theorem C02_Qrun_embeds_in_Rrun (m : @model Q) (mR : @model R) steps stepsR (e : @env Q) (eR : @env R) :
  m_rel Q2R m mR -> steps_rel Q2R steps stepsR -> env_rel Q2R e eR ->
  env_rel Q2R (fst (fst (run_steps m steps e))) (fst (fst (run_steps mR stepsR eR))) /\
  snd (fst (run_steps mR stepsR eR)) = map qm2r (snd (fst (run_steps m steps e))) /\
  snd (run_steps mR stepsR eR) = snd (run_steps m steps e).
Proof. intros Hm Hs He. exact (run_steps_rel Q2R m mR steps stepsR Hm Hs e eR He). Qed.

(* the Q-model and the R-model the runner / the verdict theorem build from one scenario are related *)
Theorem C02_scenario_models_related (nodes : list snode) (sm : smodel) :
  m_rel Q2R (to_model nodes sm) (to_modelR nodes sm) /\ env_rel Q2R (init_env nodes) (init_envR nodes).
Proof. exact (conj (to_model_rel nodes sm) (init_env_rel nodes)). Qed.

(* the verdict of the correspondence runner is a statement about the R-instance: [chk_hist_both ... = true] (vm_compute at Q)
   implies that the history executed by the R-model on the embedded data, from the embedded initial environment, has operation
   by operation the observed success flag, outputs within 1e-9*max(1,|model|) of the observed outputs when it succeeds and
   node states within that tolerance of the observed ones (tidy model AND low-level proxy / clamp model, the latter with the
   observed at-rest flag) *)
Theorem C02_chk_hist_both_is_about_R_model (nodes : list snode) (models : list smodel) (l : list (op * obs)) :
  chk_hist_both nodes models l = true ->
  topo_ok models = true /\ hist_okR nodes models l (init_envR nodes) /\ hist_okR_ll nodes models l (init_envR_ll nodes).
Proof. exact (chk_hist_both_is_about_R_model nodes models l). Qed.
(* ... where [hist_okR] reads, for a non-empty history: *)
Theorem C02_hist_okR_spelled (nodes : list snode) (models : list smodel) (o : op) (ob : obs) rest (e : @env R) :
  hist_okR nodes models ((o, ob) :: rest) e <->
  (let r := run_oneR nodes models o e in
   snd r = ook ob /\
   (snd r = true -> Forall2 (Forall2 (Forall2 rclose)) (snd (fst r)) (map qm2r (oouts ob))) /\
   Forall (fun p => Forall2 rclose (st (fst (fst r) (fst p))) (qv2r (snd p))) (ostates ob) /\
   hist_okR nodes models rest (fst (fst r))).
Proof. exact (iff_refl _). Qed.

(* non-vacuity: affine -> (Delay, Reservoir with relu and per-unit leak -> Ridge forward), two timesteps; the runner answers
   true on the exact outputs, hence the R-model history is within the tolerance of them *)
Definition exB_nodes : list snode :=
  [mkSN 0 (KFun 2 (1#2))%Q None 1 [];
   mkSN 1 (KRes [[1#2; -1#4]; [3#4; 1#8]] [[2#1]; [-1#2]] [1#8; -1#8] [1#2; 3#4] ARelu)%Q None 2 [];
   mkSN 2 (KLin [[1#1; -1#1]; [1#2; 2#1]] [1#4; 0#1])%Q None 2 [];
   mkSN 3 KDelay None 1 [[7#1]]%Q].
Definition exB_models : list smodel := [mkSM [0; 3; 1; 2] [(1, [0]); (3, [0]); (2, [1])] [2; 3]].
Definition exB_hist : list (op * obs) :=
  [(OpRun 0 true false [] [[(0%nat, [1#2])]; [(0%nat, [-1#1])]]%Q false [],
    mkObs true [[[29#16; -25#16]; [7#1]]; [[873#512; 245#128]; [3#2]]]%Q
          [(0%nat, [-3#2]); (1%nat, [25#32; 345#256]); (2%nat, [873#512; 245#128]); (3%nat, [3#2])]%Q (Some true))].
Example C02_bridge_example :
  chk_hist_both exB_nodes exB_models exB_hist = true /\
  hist_okR exB_nodes exB_models exB_hist (init_envR exB_nodes) /\ hist_okR_ll exB_nodes exB_models exB_hist (init_envR_ll exB_nodes).
Proof.
  assert (E : chk_hist_both exB_nodes exB_models exB_hist = true) by (vm_compute; reflexivity).
  split; [exact E | apply (C02_chk_hist_both_is_about_R_model _ _ _ E)].
Qed.

Print Assumptions C02_Qnode_kinds_embed_in_R.
Print Assumptions C02_bridge_relations_spelled.
Print Assumptions C02_Qstep_embeds_in_Rstep.
Print Assumptions C02_Qrun_embeds_in_Rrun.
Print Assumptions C02_scenario_models_related.
Print Assumptions C02_chk_hist_both_is_about_R_model.
Print Assumptions C02_hist_okR_spelled.


(* ==================================================================================================================
   Tie (T) for the data dispatcher and the forward pass (gen/Gen_dispatch.v, regenerated from the CURRENT source by
   tools/vlib/py2coq_dispatch.py on every run; proofs/Gen_dispatch_eq.v).  The class DataDispatcher of
   reservoirpy/utils/graphflow.py (__init__, _check_inputs, get, __getitem__, load - the latter at Y = None, the call `forward`
   makes) and forward(model, x) of reservoirpy/model.py are translated over base/PyColl.v, PyColl2.v, PyColl3.v; node states and
   node calls are parameters ([node_state], [base_call]), names are node ids.  The generated definitions are proved equal to
   closed forms and to model/ModelSem.v, so that C02_forward_is_solution above is a statement about the translated code. *)
From RV Require Import base.PyColl base.PyColl2 base.PyColl3 gen.Gen_dispatch proofs.Gen_dispatch_eq.

Section C02_generated.
Variable datum : Type.
Variable world : Type.
Variable node_state : world -> node -> datum.
Notation obj := (GenDispatch.DataDispatcher datum).
Notation mk := (GenDispatch.mkDataDispatcher datum).

(* which datum reaches which node: an array input reaches exactly the entry nodes; a mapping reaches every node of the model it
   names, entry node or not *)
Theorem C02_generated_input_routing (inputs nodes : list node) (a : datum) (m : pymap datum) (n : node) :
  ext_of datum inputs nodes (InArr a) n = (if py_in n inputs then Some a else None) /\
  ext_of datum inputs nodes (InMap m) n = (if py_in n nodes then m n else None) /\
  inputs_named datum inputs (InArr a) = true /\
  inputs_named datum inputs (InMap m) = forallb (fun k => negb (is_none (m k))) inputs.
Proof. repeat split. Qed.

(* DataDispatcher.load(X): refused with KeyError iff X is a mapping that does not name every entry node; otherwise only `_parents`
   and `_teachers` change (whatever they held before), `_teachers` is empty, and `_parents` holds for EVERY node n its parents
   in the order of find_parents_and_children FOLLOWED by the datum that reaches n *)
Theorem C02_generated_load (ns ts ins : list node) (P : ddict node node) fp tc (X : pyinput datum) :
  GenDispatch.DataDispatcher_load datum (mk ns ts ins P fp tc) (Some X) =
    (if inputs_named datum ins X then Val (mk ns ts ins P (loaded datum P ins ns X) []) else Exc KeyError) /\
  (NoDup ins -> NoDup ns -> forall n,
   dd_get (loaded datum P ins ns X) n [] = map SrcNode (dd_get P n []) ++ opt_list (option_map SrcData (ext_of datum ins ns X n))).
Proof.
  split; [exact (load_spec datum (mk ns ts ins P fp tc) X)|].
  intros Hi Hn n. apply loaded_get. destruct X; assumption.
Qed.

(* DataDispatcher.get(n) / dispatcher[n]: the parents' CURRENT states followed by the external datum, handed over BARE when there is
   exactly one source and as a list otherwise; never raises *)
Theorem C02_generated_get (self : obj) (w : world) (n : node) :
  GenDispatch.DataDispatcher___getitem__ datum world node_state self w n = GenDispatch.DataDispatcher_get datum world node_state self w n /\
  GenDispatch.DataDispatcher_get datum world node_state self w n =
    Val (unwrap datum (map (src_val datum world node_state w) (dd_get (GenDispatch.f_parents datum self) n [])),
         pd_lookup (GenDispatch.f_teachers datum self) n) /\
  (forall a, unwrap datum [a] = XBare a) /\ (forall l, length l <> 1 -> unwrap datum l = XList l) /\
  (forall p a, src_val datum world node_state w (SrcNode p) = node_state w p /\ src_val datum world node_state w (SrcData a) = a).
Proof.
  split; [exact (getitem_spec datum world node_state self w n)|]. split; [exact (get_spec datum world node_state self w n)|].
  split; [reflexivity|]. split; [|split; reflexivity]. intros [|a [|b l]] Hl; try reflexivity. exfalso; apply Hl; reflexivity.
Qed.

(* forward(model, x): the dispatcher is loaded with x, then every node of model.nodes is called ONCE, left to right, each on `get`
   of the world the calls before it left; the value is the output nodes' states after the last call *)
Theorem C02_generated_forward_calls_each_node_in_order
        (base_call : node -> xval datum -> world -> py world) (nodes inputs outputs trainables : list node) (edges : list edge)
        (sorted_by_name : list edge -> list edge) (w : world) (X : pyinput datum) :
  GenDispatch.forward datum world node_state base_call nodes inputs outputs trainables edges sorted_by_name w X =
    (if inputs_named datum inputs X
     then py_bind (calls datum world node_state base_call (loaded datum (parents_dict edges sorted_by_name) inputs nodes X) nodes w)
                  (fun w' => Val (w', map (node_state w') outputs))
     else Exc KeyError) /\
  (forall fp n r w0, calls datum world node_state base_call fp (n :: r) w0 =
     py_bind (base_call n (unwrap datum (map (src_val datum world node_state w0) (dd_get fp n []))) w0)
             (calls datum world node_state base_call fp r)) /\
  (forall fp w0, calls datum world node_state base_call fp [] w0 = Val w0).
Proof.
  split; [exact (forward_spec datum world node_state base_call nodes inputs outputs trainables edges sorted_by_name w X)|].
  split; reflexivity.
Qed.
End C02_generated.

Section C02_generated_model.
Context {F : Type} `{Num F}.
Notation vec := (list F).
Notation env := (@env F).
Notation model := (@model F).

(* The translated forward pass, run on the hand model's environments - [node_state e n := st (e n)], `_base.call(n, x)` := one
   [call_node] of the node named n on the flattened input ([sem_call]; [flat (XBare v) = v], [flat (XList l) = concat l]: the hand
   model hands a node the side-by-side concatenation of its sources) - IS ModelSem.forward with the input map [ext_of X], for every
   model whose node list and entry list have no repeated node and whose fan-in order is the dispatcher's.  ([gen_result]: success
   gives the environment and the output states; the hand model's failing run becomes an exception, which carries no environment.) *)
Theorem C02_generated_forward_eq_model (m : model) (inputs trainables : list node) (edges : list edge)
        (sorted_by_name : list edge -> list edge) prev clamp (X : pyinput vec) (e : env) :
  NoDup (map nid (ModelSem.order m)) -> NoDup inputs ->
  (forall n, In n (map nid (ModelSem.order m)) -> parents m n = dd_get (parents_dict edges sorted_by_name) n []) ->
  GenDispatch.forward vec env st_of (sem_call m prev clamp) (map nid (ModelSem.order m)) inputs (outputs m) trainables edges sorted_by_name e X
  = (if inputs_named vec inputs X
     then gen_result m (forward m prev clamp (ext_of vec inputs (map nid (ModelSem.order m)) X) e)
     else Exc KeyError).
Proof. exact (gen_forward_eq m inputs edges sorted_by_name trainables prev clamp X e). Qed.

(* the data handed to node n by the translated `get` after the translated `load`, flattened, is the hand model's [gather] *)
Theorem C02_generated_get_is_gather (m : model) (inputs : list node) (edges : list edge) (sorted_by_name : list edge -> list edge)
        (X : pyinput vec) (e : env) n :
  NoDup (visited vec inputs (map nid (ModelSem.order m)) X) -> parents m n = dd_get (parents_dict edges sorted_by_name) n [] ->
  flat (unwrap vec (sources vec env st_of (loaded vec (parents_dict edges sorted_by_name) inputs (map nid (ModelSem.order m)) X) e n))
  = gather m e (ext_of vec inputs (map nid (ModelSem.order m)) X) n.
Proof. exact (sources_gather m inputs edges sorted_by_name X e n). Qed.

(* ... hence C02_forward_is_solution is a statement about the translated forward pass: when it succeeds on a topologically ordered
   model, the environment it leaves solves the graph's equations and the value it returns is the output nodes' new states *)
Theorem C02_generated_forward_is_solution (m : model) (inputs trainables : list node) (edges : list edge)
        (sorted_by_name : list edge -> list edge) prev clamp (X : pyinput vec) (e0 e' : env) outs :
  well_formed m -> NoDup inputs ->
  (forall n, In n (map nid (ModelSem.order m)) -> parents m n = dd_get (parents_dict edges sorted_by_name) n []) ->
  GenDispatch.forward vec env st_of (sem_call m prev clamp) (map nid (ModelSem.order m)) inputs (outputs m) trainables edges sorted_by_name e0 X
    = Val (e', outs) ->
  is_solution m prev clamp (ext_of vec inputs (map nid (ModelSem.order m)) X) e0 e' /\ outs = out_states m e'.
Proof. exact (gen_forward_is_solution m inputs edges sorted_by_name trainables prev clamp X e0 e' outs). Qed.
End C02_generated_model.

(* Non-vacuity: the translated code executed on the diamond ex_model above (edges 0->1, 0->2, 1->3, 2->3, entry 0, exit 3) gives
   the values of C02_example; `get` hands node 3 a list of its two sources and nodes 1, 0 one bare array; a mapping naming the
   non-entry node 2 reaches it (after its parent's state); a mapping that does not name the entry node is refused. *)
Definition exG_edges : list edge := [(0, 1); (0, 2); (1, 3); (2, 3)].
Definition exG_forward (X : pyinput (list Q)) :=
  GenDispatch.forward (list Q) (@env Q) st_of (sem_call ex_model ex_env (fun _ => None)) (map nid (ModelSem.order ex_model)) [0]
                      (outputs ex_model) [] exG_edges (fun l => l) ex_env X.
Definition exG_get (X : pyinput (list Q)) (n : node) :=
  py_bind (GenDispatch.DataDispatcher___init__ (list Q) (map nid (ModelSem.order ex_model)) [0] [] exG_edges (fun l => l)) (fun d0 =>
  py_bind (GenDispatch.DataDispatcher_load (list Q) d0 (Some X)) (fun d =>
  GenDispatch.DataDispatcher___getitem__ (list Q) (@env Q) st_of d ex_env n)).
Example C02_generated_example :
  (forall n, In n (map nid (ModelSem.order ex_model)) -> parents ex_model n = dd_get (parents_dict exG_edges (fun l => l)) n []) /\
  match exG_forward (InArr [3%Q]) with Val (e', outs) => Some (st (e' 1), st (e' 3), outs) | _ => None end
    = Some ([12%Q], [12%Q; (-7)%Q], [[12%Q; (-7)%Q]]) /\
  match exG_forward (InMap (fun n => match n with 0 => Some [3%Q] | 2 => Some [1%Q] | _ => None end)) with
  | Val (e', outs) => Some outs | _ => None end = Some [[12%Q; (-7)%Q; (-1)%Q]] /\
  exG_forward (InMap (fun n => match n with 2 => Some [1%Q] | _ => None end)) = Exc KeyError /\
  exG_get (InArr [3%Q]) 3 = Val (XList [[5%Q]; [0%Q]], None) /\
  exG_get (InArr [3%Q]) 1 = Val (XBare [0%Q], None) /\ exG_get (InArr [3%Q]) 0 = Val (XBare [3%Q], None) /\
  exG_get (InMap (fun n => match n with 0 => Some [3%Q] | 2 => Some [1%Q] | _ => None end)) 2 = Val (XList [[0%Q]; [1%Q]], None).
Proof.
  split; [intros n [E|[E|[E|[E|[]]]]]; subst n; reflexivity|].
  repeat split; vm_compute; reflexivity.
Qed.

Print Assumptions C02_generated_input_routing.
Print Assumptions C02_generated_load.
Print Assumptions C02_generated_get.
Print Assumptions C02_generated_forward_calls_each_node_in_order.
Print Assumptions C02_generated_forward_eq_model.
Print Assumptions C02_generated_get_is_gather.
Print Assumptions C02_generated_forward_is_solution.

(* the dispatcher's fan-in order, from the translated find_parents_and_children: the parents of n are the senders of the edges
   into n, in the order of the name-sorted edge list ([sorted_by_name]: `sorted(edges, key=lambda x: x[0].name + x[1].name)`) *)
Theorem C02_generated_parent_order (edges : list edge) (sorted_by_name : list edge -> list edge) (n : node) :
  dd_get (parents_dict edges sorted_by_name) n [] = map fst (filter (fun ed => Nat.eqb (snd ed) n) (sorted_by_name edges)).
Proof. exact (parents_dict_spec edges sorted_by_name n). Qed.

(* the two input forms, read directly in the hand model: a MAPPING is ModelSem's external input map itself (node n receives what
   the mapping holds under its name; refused iff an entry node is not named); an ARRAY is the map that gives the array to the entry
   nodes and nothing to any other node *)
Theorem C02_generated_forward_input_forms {F : Type} `{Num F} (m : @model F) (inputs trainables : list node) (edges : list edge)
        (sorted_by_name : list edge -> list edge) prev clamp (e : @env F) :
  NoDup (map nid (ModelSem.order m)) -> NoDup inputs ->
  (forall n, In n (map nid (ModelSem.order m)) -> parents m n = dd_get (parents_dict edges sorted_by_name) n []) ->
  (forall mp : pymap (list F),
     GenDispatch.forward (list F) (@env F) st_of (sem_call m prev clamp) (map nid (ModelSem.order m)) inputs (outputs m) trainables edges
                         sorted_by_name e (InMap mp)
     = if forallb (fun k => negb (is_none (mp k))) inputs then gen_result m (forward m prev clamp mp e) else Exc KeyError) /\
  (forall a : list F,
     GenDispatch.forward (list F) (@env F) st_of (sem_call m prev clamp) (map nid (ModelSem.order m)) inputs (outputs m) trainables edges
                         sorted_by_name e (InArr a)
     = gen_result m (forward m prev clamp (fun n => if py_in n inputs then Some a else None) e)).
Proof.
  intros Hn Hi Hp. split; [intros mp; exact (gen_forward_eq_mapping m inputs edges sorted_by_name trainables prev clamp mp e Hn Hi Hp)|
                           intros a; exact (gen_forward_eq_array m inputs edges sorted_by_name trainables prev clamp a e Hn Hi Hp)].
Qed.

Print Assumptions C02_generated_parent_order.
Print Assumptions C02_generated_forward_input_forms.


(* ==================================================================================================================
   Q-to-R bridge for the data-plumbing family (run/RunMapping.v on model/Mapping.v; proofs/QR_bridge_Mapping.v).
   model/Mapping.v is polymorphic in the type of one ROW (to_ragged_seq_set, build_mapping, check_io, unfold_mapping,
   to_data_mapping) and in the type of one returned array (fold_mapping); allocate_returned_states has no data.  The bridge is
   therefore NATURALITY - every plumbing function commutes with [map f] on rows for every f : A -> B, so with f := map Q2R:
   nesting form, keys and their order, numbers and lengths of sequences and raised / not raised are the same at R, values are
   the embedded ones - plus, for the only numeric part ([model_run]: the loop of Model.run over the sequences on top of
   ModelSem.run_op), the relations of QR_bridge_Model.v.  Verdict theorems for every chk_* of run/RunMapping.v.  No shape
   hypothesis, no side condition. *)
From RV Require Import run.RunMapping proofs.QR_bridge_Mapping.

(* naturality, for every row map f *)
Theorem C02_plumbing_natural {A B : Type} (f : A -> B) (mm : mmodel) (nodes : list mnode) (io : io_type)
        (X : Mapping.data A) (Y : option (Mapping.data A)) (dm : Mapping.dict (list (list A))) :
  build_mapping nodes (mapd f X) io = dmap (map (map f)) (build_mapping nodes X io) /\
  check_io nodes (dmap (map (map f)) dm) io = check_io nodes dm io /\
  unfold_mapping (dmap (map (map f)) dm) = option_map (map (dmap (map f))) (unfold_mapping dm) /\
  to_data_mapping mm (mapd f X) (option_map (mapd f) Y)
  = option_map (fun p => (map (dmap (map f)) (fst p), map (option_map (dmap (map f))) (snd p))) (to_data_mapping mm X Y).
Proof.
  exact (conj (build_mapping_nat f nodes X io) (conj (check_io_nat f nodes dm io)
        (conj (unfold_mapping_nat f dm) (to_data_mapping_nat f mm X Y)))).
Qed.
Theorem C02_fold_mapping_natural {X Y : Type} (g : X -> Y) (mm : mmodel) (states : list (Mapping.dict X)) (rs : rstates) :
  fold_mapping mm (map (dmap g) states) rs = mapres g (fold_mapping mm states rs).
Proof. exact (fold_mapping_nat g mm states rs). Qed.

(* Model.run over several sequences: run at Q, then embed = run at R on the embedded data (final environment, returned object
   with its form, success flag) *)
Theorem C02_Qmodel_run_embeds_in_R (mm : mmodel) (m : @model Q) (mR : @model R) stateful reset from fromR
        (X : Mapping.data (list Q)) (rs : rstates) (e : @env Q) (eR : @env R) :
  m_rel Q2R m mR -> opt_rel Q2R from fromR -> env_rel Q2R e eR ->
  env_rel Q2R (fst (fst (model_run mm m stateful reset from X rs e)))
              (fst (fst (model_run mm mR stateful reset fromR (mapd qv2r X) rs eR))) /\
  snd (fst (model_run mm mR stateful reset fromR (mapd qv2r X) rs eR)) = mapres qm2r (snd (fst (model_run mm m stateful reset from X rs e))) /\
  snd (model_run mm mR stateful reset fromR (mapd qv2r X) rs eR) = snd (model_run mm m stateful reset from X rs e).
Proof. exact (model_run_rel Q2R mm m mR stateful reset from fromR X rs e eR). Qed.

(* the verdicts: [dict_relP P] = same keys in the same order and P on the values; [opt_relP P] = both raised or both returned
   P-related values; mrclose = entry-wise within 1e-9*max(1,|model|) *)
Theorem C02_chk_build_mapping_is_about_R (nodes : list mnode) (d : Mapping.data qv) (target : bool) (obs : Mapping.dict (list qsq)) :
  chk_build_mapping nodes d target obs = true ->
  dict_relP (Forall2 mrclose) (build_mapping nodes (mapd qv2r d) (if target then IoTarget else IoInput)) (dmap (map qm2r) obs).
Proof. exact (chk_build_mapping_is_about_R nodes d target obs). Qed.
Theorem C02_chk_unfold_is_about_R (dm : Mapping.dict (list qsq)) (obs : option (list (Mapping.dict qsq))) :
  chk_unfold dm obs = true ->
  opt_relP (Forall2 (dict_relP mrclose)) (unfold_mapping (dmap (map qm2r) dm)) (option_map (map (dmap qm2r)) obs).
Proof. exact (chk_unfold_is_about_R dm obs). Qed.
Theorem C02_chk_to_data_mapping_is_about_R (mm : mmodel) (X : Mapping.data qv) (Y : option (Mapping.data qv))
        (obs : option (list (Mapping.dict qsq) * list (option (Mapping.dict qsq)))) :
  chk_to_data_mapping mm X Y obs = true ->
  opt_relP (fun a b => Forall2 (dict_relP mrclose) (fst a) (fst b) /\ Forall2 (opt_relP (dict_relP mrclose)) (snd a) (snd b))
           (to_data_mapping mm (mapd qv2r X) (option_map (mapd qv2r) Y))
           (option_map (fun p => (map (dmap qm2r) (fst p), map (option_map (dmap qm2r)) (snd p))) obs).
Proof. exact (chk_to_data_mapping_is_about_R mm X Y obs). Qed.
Theorem C02_chk_fold_is_about_R (mm : mmodel) (states : list (Mapping.dict qsq)) (rs : rstates) (obs : result qsq) :
  chk_fold mm states rs obs = true -> result_relR (fold_mapping mm (map (dmap qm2r) states) rs) (mapres qm2r obs).
Proof. exact (chk_fold_is_about_R mm states rs obs). Qed.
Theorem C02_chk_alloc_is_exact (mm : mmodel) (rs : rstates) (obs : option (list nat)) :
  chk_alloc mm rs obs = true -> allocate_returned_states mm rs = obs.
Proof. exact (chk_alloc_is_exact mm rs obs). Qed.
(* [result_relR]: same form of the returned object (bare array / list / dict / dict of lists / exception), same keys, values within
   the tolerance *)
Theorem C02_result_relR_spelled (a b : result (list (list R))) :
  result_relR a b <->
  match a, b with
  | RBare x, RBare y => mrclose x y
  | RBareList x, RBareList y => Forall2 mrclose x y
  | RDict x, RDict y => Forall2 (fun p q => fst p = fst q /\ mrclose (snd p) (snd q)) x y
  | RDictList x, RDictList y => Forall2 (fun p q => fst p = fst q /\ Forall2 mrclose (snd p) (snd q)) x y
  | RErr, RErr => True
  | _, _ => False
  end.
Proof. destruct a, b; exact (iff_refl _). Qed.
Theorem C02_chk_model_run_is_about_R_model (nodes : list snode) (sm : smodel) (mm : mmodel) (stateful reset : bool)
        (from : list (nat * qv)) (X : Mapping.data qv) (rs : rstates) (ook : bool) (ores : result qsq) (ostates : list (nat * qv)) :
  chk_model_run nodes sm mm stateful reset from X rs ook ores ostates = true ->
  let r := model_run mm (to_modelR nodes sm) stateful reset (assoc (eal from)) (mapd qv2r X) rs (init_envR nodes) in
  is_topo (assoc_list (mparents sm)) [] (morder sm) = true /\
  snd r = ook /\ (snd r = true -> result_relR (snd (fst r)) (mapres qm2r ores)) /\ states_okR (fst (fst r)) ostates.
Proof. exact (chk_model_run_is_about_R_model nodes sm mm stateful reset from X rs ook ores ostates). Qed.
Theorem C02_chk_model_run2_is_about_R_model (nodes : list snode) (sm : smodel) (mm : mmodel)
        (st1 rst1 : bool) (X1 : Mapping.data qv) (rs1 : rstates) (ores1 : result qsq)
        (st2 rst2 : bool) (X2 : Mapping.data qv) (rs2 : rstates) (ores2 : result qsq) (ostates : list (nat * qv)) :
  chk_model_run2 nodes sm mm st1 rst1 X1 rs1 ores1 st2 rst2 X2 rs2 ores2 ostates = true ->
  let r1 := model_run mm (to_modelR nodes sm) st1 rst1 (assoc (eal [])) (mapd qv2r X1) rs1 (init_envR nodes) in
  let r2 := model_run mm (to_modelR nodes sm) st2 rst2 (assoc (eal [])) (mapd qv2r X2) rs2 (fst (fst r1)) in
  is_topo (assoc_list (mparents sm)) [] (morder sm) = true /\
  snd r1 = true /\ snd r2 = true /\ result_relR (snd (fst r1)) (mapres qm2r ores1) /\ result_relR (snd (fst r2)) (mapres qm2r ores2) /\
  states_okR (fst (fst r2)) ostates.
Proof. exact (chk_model_run2_is_about_R_model nodes sm mm st1 rst1 X1 rs1 ores1 st2 rst2 X2 rs2 ores2 ostates). Qed.

(* non-vacuity: affine -> accumulator, a Python list of two sequences (2 and 1 timesteps); bare list of arrays with
   return_states = None, dict of lists with "all"; the runner answers true on the exact values, hence the R-model run on the
   embedded data is within the tolerance of them, and the unfolded mappings have the observed form *)
Definition exM_nodes : list snode := [mkSN 0 (KFun 2 (1#2))%Q None 1 []; mkSN 1 KAcc None 1 []].
Definition exM_sm : smodel := mkSM [0; 1] [(1, [0])] [1].
Definition exM_mm : mmodel :=
  mkMM [mkMN 0 false false false; mkMN 1 false false false] [mkMN 0 false false false] [mkMN 1 false false false].
Definition exM_X : Mapping.data qv := DList [[[1#2]; [-1#1]]; [[1#1]]]%Q.
Example C02_bridge_mapping_example :
  chk_model_run exM_nodes exM_sm exM_mm true false [] exM_X RsNone true
                (RBareList [[[3#2]; [0#1]]; [[5#2]]]%Q) [(0%nat, [5#2]%Q); (1%nat, [5#2]%Q)] = true /\
  chk_model_run exM_nodes exM_sm exM_mm true false [] exM_X RsAll true
                (RDictList [(0%nat, [[[3#2]; [-3#2]]; [[5#2]]]%Q); (1%nat, [[[3#2]; [0#1]]; [[5#2]]]%Q)]) [(1%nat, [5#2]%Q)] = true /\
  chk_to_data_mapping exM_mm exM_X None (Some ([[(0%nat, [[1#2]; [-1#1]]%Q)]; [(0%nat, [[1#1]]%Q)]], [None; None])) = true /\
  (let r := model_run exM_mm (to_modelR exM_nodes exM_sm) true false (assoc (eal [])) (mapd qv2r exM_X) RsNone (init_envR exM_nodes) in
   snd r = true /\ result_relR (snd (fst r)) (RBareList [qm2r [[3#2]; [0#1]]%Q; qm2r [[5#2]]%Q])).
Proof.
  assert (E : chk_model_run exM_nodes exM_sm exM_mm true false [] exM_X RsNone true
                (RBareList [[[3#2]; [0#1]]; [[5#2]]]%Q) [(0%nat, [5#2]%Q); (1%nat, [5#2]%Q)] = true) by (vm_compute; reflexivity).
  split; [exact E|]. split; [vm_compute; reflexivity|]. split; [vm_compute; reflexivity|].
  destruct (C02_chk_model_run_is_about_R_model _ _ _ _ _ _ _ _ _ _ _ E) as (_ & H1 & H2 & _).
  split; [exact H1 | exact (H2 H1)].
Qed.

Print Assumptions C02_plumbing_natural.
Print Assumptions C02_fold_mapping_natural.
Print Assumptions C02_Qmodel_run_embeds_in_R.
Print Assumptions C02_chk_build_mapping_is_about_R.
Print Assumptions C02_chk_unfold_is_about_R.
Print Assumptions C02_chk_to_data_mapping_is_about_R.
Print Assumptions C02_chk_fold_is_about_R.
Print Assumptions C02_chk_alloc_is_exact.
Print Assumptions C02_result_relR_spelled.
Print Assumptions C02_chk_model_run_is_about_R_model.
Print Assumptions C02_chk_model_run2_is_about_R_model.
