(* C02 — a model computes the composition of its nodes along the graph.  Statement-only file. *)
From Coq Require Import List Arith Bool Permutation QArith Lia.
From RV Require Import base.Num base.LA model.ModelSem model.Kinds proofs.ModelSem_proofs.
Import ListNotations.
Close Scope Q_scope.

Section C02.
Context {F : Type} `{Num F}.
Notation vec := (list F).
Notation env := (@env F).
Notation model := (@model F).

(* One model step (Model._call -> forward) on any topologically ordered model, whatever the nodes' forward
   functions: the resulting environment satisfies, for every node, "new (state, hidden memory) = forward function of
   (own previous state and hidden memory, side-by-side concatenation of the predecessors' NEW states followed by
   the external input addressed to it, feedback value)"; nodes outside the model are untouched. *)
Theorem C02_forward_is_solution (m : model) prev clamp ext (e0 e' : env) :
  well_formed m -> forward m prev clamp ext e0 = (e', true) -> is_solution m prev clamp ext e0 e'.
Proof. exact (forward_is_solution m prev clamp ext e0 e'). Qed.

(* That system of equations has exactly one solution: "exactly what is obtained by evaluating each node once,
   after all of its predecessors". *)
Theorem C02_solution_unique (m : model) prev clamp ext (e0 e1 e2 : env) :
  well_formed m -> is_solution m prev clamp ext e0 e1 -> is_solution m prev clamp ext e0 e2 -> forall n, e1 n = e2 n.
Proof. exact (solution_unique m prev clamp ext e0 e1 e2). Qed.

(* Hence the result does not depend on which valid execution order the implementation picked. *)
Theorem C02_order_independent (m1 m2 : model) prev clamp ext (e0 e1 e2 : env) :
  well_formed m1 -> well_formed m2 -> Permutation (order m1) (order m2) -> (forall n, parents m1 n = parents m2 n) ->
  forward m1 prev clamp ext e0 = (e1, true) -> forward m2 prev clamp ext e0 = (e2, true) -> forall n, e1 n = e2 n.
Proof. exact (forward_order_independent m1 m2 prev clamp ext e0 e1 e2). Qed.

(* Only the nodes of the model are touched. *)
Theorem C02_frame (m : model) prev clamp ext (e e' : env) ok n :
  forward m prev clamp ext e = (e', ok) -> ~ In n (map nid (order m)) -> e' n = e n.
Proof. intros Hf. exact (forward_from_frame m prev clamp ext (order m) e e' ok Hf n). Qed.

(* Name-keyed inputs reach exactly the named nodes; an entry node receives the external input alone. *)
Theorem C02_named_input (m : model) (e : env) ext n :
  (ext n = None -> gather m e ext n = concat (map (fun p => st (e p)) (parents m n))) /\
  (forall x, parents m n = [] -> ext n = Some x -> gather m e ext n = x).
Proof. split; [exact (gather_no_ext m e ext n)|intros x; exact (gather_entry m e ext n x)]. Qed.

(* A run is the step applied timestep by timestep; outputs are read from the output nodes after each step;
   a run over xs ++ ys is a run over xs followed by a run over ys from the state reached (also used by C07). *)
Theorem C02_run_pointwise (m : model) ext forced rest (e : env) :
  run_steps m ((ext, forced) :: rest) e =
    let '(e1, ok) := step m forced ext e in
    if ok then let '(e2, outs, ok2) := run_steps m rest e1 in (e2, out_states m e1 :: outs, ok2) else (e1, [], false).
Proof. exact eq_refl. Qed.
Theorem C02_run_rows (m : model) xs (e e' : env) outs : run_steps m xs e = (e', outs, true) -> length outs = length xs.
Proof. exact (run_steps_outputs_length m xs e e' outs). Qed.
End C02.

(* Non-vacuity: a diamond  0 -> {1,2} -> 3  (3 concatenates 1 and 2) with affine / accumulator nodes at Q. *)
Definition ex_nodes : list (@ndesc Q) :=
  [mkND 0 (kfwd (KFun 2 1)) None 1; mkND 1 (kfwd KAcc) None 1; mkND 2 (kfwd (KFun (-1) 0)) None 1; mkND 3 (kfwd KId) None 2]%Q.
Definition ex_model : @model Q :=
  mkModel ex_nodes (fun n => match n with 1 => [0] | 2 => [0] | 3 => [1; 2] | _ => [] end) [3].
Definition ex_env : @env Q := fun n => mkNS (match n with 1 => [5%Q] | 3 => [0%Q; 0%Q] | _ => [0%Q] end) [].
Example C02_example :
  well_formed ex_model /\
  (let '(e', ok) := forward ex_model ex_env (fun _ => None) (fun n => match n with 0 => Some [3%Q] | _ => None end) ex_env in
   (ok, st (e' 3))) = (true, [12%Q; (-7)%Q]).
Proof.
  split.
  - split; cbn.
    + repeat constructor; cbn; intuition discriminate.
    + repeat split; try tauto; cbn in *; intuition (try discriminate; try lia).
  - vm_compute. reflexivity.
Qed.

Print Assumptions C02_forward_is_solution.
Print Assumptions C02_solution_unique.
Print Assumptions C02_order_independent.
Print Assumptions C02_frame.
Print Assumptions C02_named_input.
Print Assumptions C02_run_pointwise.
Print Assumptions C02_run_rows.

(* ==================================================================================================================
   The data plumbing around the model (reservoirpy/utils/model_utils.py and the loop over sequences of Model.run):
   model/Mapping.v, proofs/Mapping_proofs.v; tied to the source by the correspondence family "mapping"
   (run/RunMapping.v, tools/props/c02.py).  Names are node ids; a Python dict is an association list in insertion order. *)
From RV Require Import model.Mapping proofs.Mapping_proofs.

Section C02_mapping.
Context {row : Type}.
Notation sq := (list row).

(* unfold_mapping of a rectangular mapping (every name has the same number k of sequences): k mappings, the j-th of
   which maps each name - same keys, same order - to its own j-th sequence; a mapping is accepted ONLY if it is
   rectangular; and folding the per-sequence mappings back (the defaultdict path of fold_mapping) is the inverse. *)
Theorem C02_mapping_unfold_fold (k : nat) (dm : dict (list sq)) :
  (dm <> [] -> rectangular k dm ->
   exists ms, unfold_mapping dm = Some ms /\ length ms = k /\
              forall j, j < k -> nth j ms [] = slice dm j /\ keys (nth j ms []) = keys dm) /\
  (forall ms, unfold_mapping dm = Some ms -> dm <> [] /\ exists k', rectangular k' dm /\ ms = map (slice dm) (seq 0 k')) /\
  (forall ms, NoDup (keys dm) -> rectangular k dm -> 0 < k -> unfold_mapping dm = Some ms -> fold_many ms = dm).
Proof.
  split; [exact (unfold_spec k dm)|split; [exact (unfold_some dm)|intros ms; exact (fold_many_unfold k dm ms)]].
Qed.

(* folding ANY per-sequence results that are keyed alike (what the per-sequence runs return): exactly those keys, in
   that order; under each key a list as long as the list of sequences, whose j-th entry is sequence j's value *)
Theorem C02_mapping_fold_uniform {A : Type} (ks : list nat) (states : list (dict A)) :
  NoDup ks -> states <> [] -> (forall s, In s states -> keys s = ks) ->
  keys (fold_many states) = ks /\
  forall k, In k ks -> exists l, lookup k (fold_many states) = Some l /\ length l = length states /\
                                 forall j, j < length states -> nth_error l j = lookup k (nth j states []).
Proof. exact (fold_many_uniform ks states). Qed.

(* An array / list input reaches exactly the entry nodes: to_data_mapping gives one mapping per sequence, keyed by
   exactly the input nodes, each holding that sequence.  A target array reaches exactly the trainable nodes that are
   not `unsupervised`. *)
Theorem C02_array_reaches_entries (mm : mmodel) (v : value row) :
  (mm_inputs mm <> [] ->
   to_data_mapping mm (DVal v) None =
     Some (map (fun s => map (fun n => (mn_name n, s)) (mm_inputs mm)) (ragged_of v), repeat None (length (ragged_of v)))) /\
  (forall k, In k (keys (build_mapping (trainable_nodes mm) (DVal v) IoTarget)) <->
             exists n, In n (mm_nodes mm) /\ mn_name n = k /\ mn_trainable n = true /\ mn_unsup n = false).
Proof. split; [exact (to_data_mapping_array mm v)|exact (build_mapping_target_keys mm v)]. Qed.

(* A name-keyed input reaches exactly the named nodes: it is accepted only if every input node is named and all names
   have the same number k of sequences; the j-th per-sequence mapping then has exactly the written keys, in the
   written order, each with its own j-th sequence. *)
Theorem C02_mapping_reaches_named (mm : mmodel) (m : dict (value row)) xs ys :
  to_data_mapping mm (DMap m) None = Some (xs, ys) ->
  (forall n, In n (mm_inputs mm) -> In (mn_name n) (keys m)) /\
  exists k, (forall p, In p m -> length (ragged_of (snd p)) = k) /\ length xs = k /\ ys = repeat None k /\
            forall j, j < k -> nth j xs [] = map (fun p => (fst p, nth j (ragged_of (snd p)) [])) m.
Proof. exact (to_data_mapping_named mm m xs ys). Qed.
End C02_mapping.

Section C02_run.
Context {F : Type} `{Num F}.
Notation vec := (list F).
Notation env := (@env F).
Notation model := (@model F).

(* ... down to the single timestep (graphflow.dispatch): at step t an array input gives row t to every input node and
   nothing to any other node; a name-keyed input gives a node data only if it is named, and then row t of the sequence
   written under its own name. *)
Theorem C02_step_inputs (inputs : list mnode) (s : list vec) (xm : dict (list vec)) t d n :
  (inputs <> [] -> t < length s ->
   fst (nth t (steps_of (map (fun i => (mn_name i, s)) inputs)) d) n = if memb n (map mn_name inputs) then nth_error s t else None) /\
  (t < length (steps_of xm) ->
   (~ In n (keys xm) -> fst (nth t (steps_of xm) d) n = None) /\
   (forall s', lookup n xm = Some s' -> fst (nth t (steps_of xm) d) n = nth_error s' t) /\
   snd (nth t (steps_of xm) d) n = None).
Proof. split; [exact (steps_of_array inputs s t d n)|exact (steps_of_named xm t d n)]. Qed.

(* Model.run on several sequences = the one-sequence operation of ModelSem (run_op) applied to each sequence in turn,
   every sequence starting from the environment the previous one left (reset / from_state / stateful=False applied per
   sequence, as run_op defines them): run over a ++ b = run over a, then run over b; as many results as sequences, each
   with one row per timestep; and Model.run on an array / list hands every sequence to the input nodes and folds the
   per-sequence records. *)
Theorem C02_run_sequences (mm : mmodel) (m : model) stateful reset from :
  (forall a b (e : env),
     run_seqs m stateful reset from (a ++ b) e =
       let '(e1, oa, ok) := run_seqs m stateful reset from a e in
       if ok then let '(e2, ob, ok2) := run_seqs m stateful reset from b e1 in (e2, oa ++ ob, ok2) else (e1, oa, false)) /\
  (forall s (e : env),
     run_seqs m stateful reset from [s] e =
       let '(e1, o, ok) := run_op m stateful reset from s e in (e1, if ok then [o] else [], ok)) /\
  (forall seqs (e e' : env) outs,
     run_seqs m stateful reset from seqs e = (e', outs, true) ->
     length outs = length seqs /\ forall j, j < length seqs -> length (nth j outs []) = length (nth j seqs [])) /\
  (forall (v : value vec) rs (e : env) names,
     mm_inputs mm <> [] -> ragged_of v <> [] -> allocate_returned_states mm rs = Some names ->
     model_run mm m stateful reset from (DVal v) rs e =
       let '(e1, outs, ok) :=
         run_seqs (with_outputs m names) stateful reset from
                  (map (fun s => steps_of (map (fun n => (mn_name n, s)) (mm_inputs mm))) (ragged_of v)) e in
       (e1, if ok then fold_mapping mm (map (states_of_seq names) outs) rs else RErr, ok)).
Proof.
  split; [exact (run_seqs_app m stateful reset from)|split; [exact (run_seqs_one m stateful reset from)|
  split; [exact (run_seqs_lengths m stateful reset from)|intros v rs e names; exact (model_run_array mm m stateful reset from v rs e names)]]].
Qed.

(* for plain stateful runs a list of sequences is one run over their concatenation (time-compositionality across the
   sequences of one call) *)
Theorem C02_run_sequences_concat (m : model) seqs (e e' : env) outs :
  run_seqs m true false (fun _ => None) seqs e = (e', outs, true) -> run_steps m (concat seqs) e = (e', concat outs, true).
Proof. exact (run_seqs_plain_concat m seqs e e' outs). Qed.

(* Requested outputs come from exactly the named nodes: recording the states of [names] (allocate_returned_states)
   instead of the output nodes changes neither the environments nor success, and row t of the record is the list of
   the named nodes' states at the end of step t of that same run; the array returned under the i-th name is column i. *)
Theorem C02_outputs_from_named (m : model) names :
  (forall ss (e : env),
     run_steps (with_outputs m names) ss e =
       let '(e1, o, ok) := run_steps m ss e in
       (e1, map (fun t => map (fun n => st (env_after m ss e (S t) n)) names) (seq 0 (length o)), ok)) /\
  (forall (outs : list (list vec)) i, NoDup names -> i < length names ->
     lookup (nth i names 0) (states_of_seq names outs) = Some (map (fun step => nth i step []) outs)).
Proof. split; [exact (run_steps_with_outputs m names)|intros outs i; exact (states_of_seq_lookup names outs i)]. Qed.

(* Result form.  return_states=None -> the output nodes, "all" -> every node, a list -> exactly the listed names (each
   once; refused if one is not a node).  A successful Model.run returns: a bare array iff one input sequence, no
   return_states and one output node; a bare list (one array per sequence) iff several sequences, no return_states,
   one output node; otherwise a dict keyed by exactly the returned names, in order, of arrays (one sequence) or of lists
   as long as the list of input sequences (several).  Never anything else. *)
Theorem C02_result_form (mm : mmodel) (m : model) stateful reset from (X : data vec) rs (e e' : env) res :
  mm_wf mm -> model_run mm m stateful reset from X rs e = (e', res, true) ->
  exists names xs ys, allocate_returned_states mm rs = Some names /\ to_data_mapping mm X None = Some (xs, ys) /\
    form_ok rs names (length xs) res /\
    match rs with
    | RsNone => names = map mn_name (mm_outputs mm)
    | RsAll => names = node_names mm
    | RsNames l => (forall k, In k names <-> In k l) /\ NoDup names /\ (forall k, In k l -> In k (node_names mm)) /\ (NoDup l -> names = l)
    end.
Proof.
  intros Hwf Hr. destruct (model_run_form mm m stateful reset from X rs e e' res Hwf Hr) as [names [xs [ys [Ha [Ht Hf]]]]].
  exists names, xs, ys. repeat split; try assumption. exact (allocate_spec mm rs names Ha).
Qed.
End C02_run.

(* Non-vacuity on concrete instances.  The diamond ex_model above (entry 0, exit 3) seen by the plumbing: *)
Definition ex_mm : mmodel :=
  let n i := mkMN i false false false in mkMM [n 0; n 1; n 2; n 3] [n 0] [n 3].
(* two entries 0 and 5, a trainable supervised node 1, a trainable unsupervised node 2 *)
Definition ex_mm2 : mmodel :=
  mkMM [mkMN 0 false false false; mkMN 5 false false false; mkMN 1 true false false; mkMN 2 true true true; mkMN 3 false false false]
       [mkMN 5 false false false; mkMN 0 false false false] [mkMN 3 false false false; mkMN 2 true true true].
Definition ex_dm : dict (list (list nat)) := [(5, [[1; 2]; [3]; [4; 5; 6]]); (0, [[7; 8]; [9]; [10; 11; 12]])].

Example C02_mapping_unfold_fold_example :
  NoDup (keys ex_dm) /\ rectangular 3 ex_dm /\
  unfold_mapping ex_dm = Some [[(5, [1; 2]); (0, [7; 8])]; [(5, [3]); (0, [9])]; [(5, [4; 5; 6]); (0, [10; 11; 12])]] /\
  fold_many [[(5, [1; 2]); (0, [7; 8])]; [(5, [3]); (0, [9])]; [(5, [4; 5; 6]); (0, [10; 11; 12])]] = ex_dm /\
  unfold_mapping [(5, [[1; 2]; [3]]); (0, [[7; 8]])] = None.
Proof.
  split; [repeat constructor; cbn; intuition discriminate|]. split; [intros p [E|[E|[]]]; subst; reflexivity|].
  repeat split; reflexivity.
Qed.

Example C02_array_reaches_entries_example :
  to_data_mapping ex_mm2 (DArr3 [[1; 2]; [3]]) None = Some ([[(5, [1; 2]); (0, [1; 2])]; [(5, [3]); (0, [3])]], [None; None]) /\
  keys (build_mapping (trainable_nodes ex_mm2) (DArr2 [1; 2]) IoTarget) = [1] /\
  to_data_mapping ex_mm2 (DArr2 [1; 2]) (Some (DArr2 [4; 4])) = Some ([[(5, [1; 2]); (0, [1; 2])]], [Some [(1, [4; 4])]]).
Proof. repeat split; reflexivity. Qed.

Example C02_mapping_reaches_named_example :
  to_data_mapping ex_mm2 (DMap [(0, VList [[1; 2]; [3]]); (5, VArr3 [[7; 8]; [9]])]) None
    = Some ([[(0, [1; 2]); (5, [7; 8])]; [(0, [3]); (5, [9])]], [None; None]) /\
  to_data_mapping ex_mm2 (DMap [(0, VList [[1; 2]; [3]])]) None = None /\                           (* input node 5 is not named *)
  to_data_mapping ex_mm2 (DMap [(0, VList [[1; 2]; [3]]); (5, VArr2 [7; 8])]) None = None.          (* 2 sequences vs 1 *)
Proof. repeat split; reflexivity. Qed.

(* Model.run of the diamond on a list of two sequences (2 and 1 timesteps): node 1 is an accumulator, so the second
   sequence continues from the state the first one left; with return_states=None the single output node gives a bare
   list of two arrays; with return_states=[1; 3] a dict of lists keyed 1, 3; one sequence gives bare arrays. *)
Example C02_run_sequences_example :
  mm_wf ex_mm /\
  (let '(_, res, ok) := model_run ex_mm ex_model true false (fun _ => None) (DList [[[3%Q]; [1%Q]]; [[0%Q]]]) RsNone ex_env in (res, ok))
    = (RBareList [[[12; -7]; [15; -3]]; [[16; -1]]], true)%Q /\
  (let '(_, res, ok) := model_run ex_mm ex_model true false (fun _ => None) (DList [[[3%Q]; [1%Q]]; [[0%Q]]]) (RsNames [1; 3; 1]) ex_env in (res, ok))
    = (RDictList [(1%nat, [[[12]; [15]]; [[16]]]); (3%nat, [[[12; -7]; [15; -3]]; [[16; -1]]])], true)%Q /\
  (let '(_, res, ok) := model_run ex_mm ex_model true false (fun _ => None) (DArr3 [[[3%Q]; [1%Q]]]) RsNone ex_env in (res, ok))
    = (RBare [[12; -7]; [15; -3]], true)%Q /\
  (let '(_, res, ok) := model_run ex_mm ex_model true false (fun _ => None) (DMap [(0, VArr2 [[3%Q]])]) RsAll ex_env in (res, ok))
    = (RDict [(0%nat, [[7]]); (1%nat, [[12]]); (2%nat, [[-7]]); (3%nat, [[12; -7]])], true)%Q.
Proof.
  split; [split; repeat constructor; cbn; intuition discriminate|].
  repeat split; vm_compute; reflexivity.
Qed.

Print Assumptions C02_mapping_unfold_fold.
Print Assumptions C02_mapping_fold_uniform.
Print Assumptions C02_array_reaches_entries.
Print Assumptions C02_mapping_reaches_named.
Print Assumptions C02_step_inputs.
Print Assumptions C02_run_sequences.
Print Assumptions C02_run_sequences_concat.
Print Assumptions C02_outputs_from_named.
Print Assumptions C02_result_form.
