(* C02 — a model computes the composition of its nodes along the graph.  Statement-only file. *)
From Coq Require Import List Arith Bool Permutation QArith Lia.
From RV Require Import base.Num base.LA model.ModelSem model.Kinds proofs.ModelSem_proofs.
Import ListNotations.
Close Scope Q_scope.

Section C02.
Context {F : Type} `{Num F}.
Notation vec := (list F).
Notation env := (@env F).
Notation model := (@model F).

(* One model step (Model._call -> forward) on any topologically ordered model, whatever the nodes' forward
   functions: the resulting environment satisfies, for every node, "new (state, hidden memory) = forward function of
   (own previous state and hidden memory, side-by-side concatenation of the predecessors' NEW states followed by
   the external input addressed to it, feedback value)"; nodes outside the model are untouched. *)
Theorem C02_forward_is_solution (m : model) prev clamp ext (e0 e' : env) :
  well_formed m -> forward m prev clamp ext e0 = (e', true) -> is_solution m prev clamp ext e0 e'.
Proof. exact (forward_is_solution m prev clamp ext e0 e'). Qed.

(* That system of equations has exactly one solution: "exactly what is obtained by evaluating each node once,
   after all of its predecessors". *)
Theorem C02_solution_unique (m : model) prev clamp ext (e0 e1 e2 : env) :
  well_formed m -> is_solution m prev clamp ext e0 e1 -> is_solution m prev clamp ext e0 e2 -> forall n, e1 n = e2 n.
Proof. exact (solution_unique m prev clamp ext e0 e1 e2). Qed.

(* Hence the result does not depend on which valid execution order the implementation picked. *)
Theorem C02_order_independent (m1 m2 : model) prev clamp ext (e0 e1 e2 : env) :
  well_formed m1 -> well_formed m2 -> Permutation (order m1) (order m2) -> (forall n, parents m1 n = parents m2 n) ->
  forward m1 prev clamp ext e0 = (e1, true) -> forward m2 prev clamp ext e0 = (e2, true) -> forall n, e1 n = e2 n.
Proof. exact (forward_order_independent m1 m2 prev clamp ext e0 e1 e2). Qed.

(* Only the nodes of the model are touched. *)
Theorem C02_frame (m : model) prev clamp ext (e e' : env) ok n :
  forward m prev clamp ext e = (e', ok) -> ~ In n (map nid (order m)) -> e' n = e n.
Proof. intros Hf. exact (forward_from_frame m prev clamp ext (order m) e e' ok Hf n). Qed.

(* Name-keyed inputs reach exactly the named nodes; an entry node receives the external input alone. *)
Theorem C02_named_input (m : model) (e : env) ext n :
  (ext n = None -> gather m e ext n = concat (map (fun p => st (e p)) (parents m n))) /\
  (forall x, parents m n = [] -> ext n = Some x -> gather m e ext n = x).
Proof. split; [exact (gather_no_ext m e ext n)|intros x; exact (gather_entry m e ext n x)]. Qed.

(* A run is the step applied timestep by timestep; outputs are read from the output nodes after each step;
   a run over xs ++ ys is a run over xs followed by a run over ys from the state reached (also used by C07). *)
Theorem C02_run_pointwise (m : model) ext forced rest (e : env) :
  run_steps m ((ext, forced) :: rest) e =
    let '(e1, ok) := step m forced ext e in
    if ok then let '(e2, outs, ok2) := run_steps m rest e1 in (e2, out_states m e1 :: outs, ok2) else (e1, [], false).
Proof. exact eq_refl. Qed.
Theorem C02_run_rows (m : model) xs (e e' : env) outs : run_steps m xs e = (e', outs, true) -> length outs = length xs.
Proof. exact (run_steps_outputs_length m xs e e' outs). Qed.
End C02.

(* Non-vacuity: a diamond  0 -> {1,2} -> 3  (3 concatenates 1 and 2) with affine / accumulator nodes at Q. *)
Definition ex_nodes : list (@ndesc Q) :=
  [mkND 0 (kfwd (KFun 2 1)) None 1; mkND 1 (kfwd KAcc) None 1; mkND 2 (kfwd (KFun (-1) 0)) None 1; mkND 3 (kfwd KId) None 2]%Q.
Definition ex_model : @model Q :=
  mkModel ex_nodes (fun n => match n with 1 => [0] | 2 => [0] | 3 => [1; 2] | _ => [] end) [3].
Definition ex_env : @env Q := fun n => mkNS (match n with 1 => [5%Q] | 3 => [0%Q; 0%Q] | _ => [0%Q] end) [].
Example C02_example :
  well_formed ex_model /\
  (let '(e', ok) := forward ex_model ex_env (fun _ => None) (fun n => match n with 0 => Some [3%Q] | _ => None end) ex_env in
   (ok, st (e' 3))) = (true, [12%Q; (-7)%Q]).
Proof.
  split.
  - split; cbn.
    + repeat constructor; cbn; intuition discriminate.
    + repeat split; try tauto; cbn in *; intuition (try discriminate; try lia).
  - vm_compute. reflexivity.
Qed.

Print Assumptions C02_forward_is_solution.
Print Assumptions C02_solution_unique.
Print Assumptions C02_order_independent.
Print Assumptions C02_frame.
Print Assumptions C02_named_input.
Print Assumptions C02_run_pointwise.
Print Assumptions C02_run_rows.
