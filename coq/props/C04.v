(* C04 — Ridge readout fitting returns the regularised least-squares optimum.
   Statement-only file: every theorem is closed by [exact <lemma>]; proofs live in proofs/Ridge_la.v, proofs/Ridge_proofs.v.
   Model: model/Ridge.v (prep = add_bias, partial_backward, partial_fit with per-sequence warm-up, backward, forward).
   Datasets are lists of sequences; a sequence is a list of rows.  [wf_data din Xs Ys]: as many target sequences as input
   sequences, pairwise of equal length, input rows of width din.  Everything below holds for any number of sequences, any
   lengths, any dimensions, any warm-up, with or without bias. *)
From Coq Require Import Reals List Arith QArith.
From RV Require Import base.Num base.LA base.BSum model.Ridge proofs.Ridge_la proofs.Ridge_proofs.
Import ListNotations.
Close Scope Q_scope.
Open Scope R_scope.

(* ---- the vocabulary of the statements (definitional unfoldings, so that this file can be read alone) ---- *)
(* retained regressor rows: rows [warmup:] of every sequence, each with a leading 1 when input_bias *)
Theorem C04_def_retained (bias : bool) (w : nat) (Xs Ys : list matR) :
  RX bias w Xs = concat (map (fun X => map (prep bias) (skipn w X)) Xs) /\ RY w Ys = concat (map (skipn w (A:=vecR)) Ys)
  /\ Xkept w Xs = concat (map (skipn w (A:=vecR)) Xs).
Proof. exact (conj eq_refl (conj eq_refl eq_refl)). Qed.
(* objective of output coordinate k:  sum over retained steps of ((Wout^T x + bias)_k - y_k)^2 + lam (|Wout[:,k]|^2 + bias_k^2),
   written with the model's own prediction function [forward] *)
Theorem C04_def_objective (lam : R) (dout w : nat) (Xs Ys : list matR) (k : nat) (W : matR) (b : vecR) :
  Jpred lam dout w Xs Ys k W b =
  lsum (combine (Xkept w Xs) (RY w Ys))
       (fun p => (nth k (forward dout W b (fst p)) 0 - nth k (snd p) 0) * (nth k (forward dout W b (fst p)) 0 - nth k (snd p) 0))
  + lam * (dot (colv W k) (colv W k) + nth k b 0 * nth k b 0).
Proof. exact eq_refl. Qed.
(* whole objective: squared error over all output coordinates + lam (|Wout|_F^2 + |bias|^2); it separates over coordinates *)
Theorem C04_objective_separates (lam : R) (dout w : nat) (Xs Ys : list matR) (W : matR) (b : vecR) :
  Jtotal lam dout w Xs Ys W b = bsum dout (fun k => Jpred lam dout w Xs Ys k W b).
Proof. exact (Jtotal_separates lam dout w Xs Ys W b). Qed.
(* the linear system of backward *)
Theorem C04_def_normal_equations bias lam din dout (acc : matR * matR) (Wo : matR) :
  normal_eqs bias lam din dout acc Wo <->
  mm (madd (fst acc) (mscale lam (eye (aug_dim bias din)))) Wo dout = transpose (snd acc) (aug_dim bias din).
Proof. exact (conj (fun h => h) (fun h => h)). Qed.

(* ---- accumulators ---- *)
(* After Node.fit's pass over any list of sequences, XXT[i][j] = sum over retained rows of x~_i x~_j and
   YXT[k][j] = sum of y_k x~_j  (x~ = 1::x with bias). *)
Theorem C04_accumulators_are_gram (bias : bool) (din dout w : nat) (Xs Ys : list matR) (acc : matR * matR) :
  wf_data din Xs Ys -> partial_fit bias din dout w (buffers0 bias din dout) Xs Ys = Some acc ->
  shape (aug_dim bias din) (aug_dim bias din) (fst acc) /\ shape dout (aug_dim bias din) (snd acc) /\
  (forall i j, (i < aug_dim bias din)%nat -> (j < aug_dim bias din)%nat ->
     mget (fst acc) i j = lsum (RX bias w Xs) (fun x => nth i x 0 * nth j x 0)) /\
  (forall k j, (k < dout)%nat -> (j < aug_dim bias din)%nat ->
     mget (snd acc) k j = lsum (combine (RY w Ys) (RX bias w Xs)) (fun p => nth k (fst p) 0 * nth j (snd p) 0)).
Proof. exact (accumulators_are_gram bias din dout w Xs Ys acc). Qed.

(* successive partial_fit calls add the Gram sums of their retained rows to whatever the buffers held *)
Theorem C04_partial_fit_accumulates (bias : bool) (din dout w : nat) (Xs Ys : list matR) (acc acc' : matR * matR) :
  wf_data din Xs Ys ->
  shape (aug_dim bias din) (aug_dim bias din) (fst acc) -> shape dout (aug_dim bias din) (snd acc) ->
  partial_fit bias din dout w acc Xs Ys = Some acc' ->
  (forall i j, (i < aug_dim bias din)%nat -> (j < aug_dim bias din)%nat ->
     mget (fst acc') i j = mget (fst acc) i j + lsum (RX bias w Xs) (fun x => nth i x 0 * nth j x 0)) /\
  (forall k j, (k < dout)%nat -> (j < aug_dim bias din)%nat ->
     mget (snd acc') k j = mget (snd acc) k j
                           + lsum (combine (RY w Ys) (RX bias w Xs)) (fun p => nth k (fst p) 0 * nth j (snd p) 0)).
Proof. intros HW S1 S2 E. exact (proj2 (proj2 (partial_fit_gram bias din dout w Xs Ys HW acc acc' S1 S2 E))). Qed.

(* ---- oracle-free core: ANY parameters that satisfy the regularised normal equations (this is what every run checks on
   the observed Wout/bias) are the minimiser of each coordinate's objective, and the only one; lam > 0 ---- *)
Theorem C04_normal_equations_imply_optimal (bias : bool) (lam : R) (din dout w : nat) (Xs Ys : list matR) (acc : matR * matR)
        (Wo : matR) (k : nat) (w' : vecR) :
  wf_data din Xs Ys -> partial_fit bias din dout w (buffers0 bias din dout) Xs Ys = Some acc -> 0 < lam ->
  shape (aug_dim bias din) dout Wo -> normal_eqs bias lam din dout acc Wo -> (k < dout)%nat -> length w' = aug_dim bias din ->
  Jcol lam (RX bias w Xs) (RY w Ys) k (colv Wo k) <= Jcol lam (RX bias w Xs) (RY w Ys) k w'.
Proof. intros HW E Hl. exact (normal_eqs_optimal bias lam din dout w Xs Ys acc HW E Hl Wo k w'). Qed.

Theorem C04_normal_equations_imply_unique (bias : bool) (lam : R) (din dout w : nat) (Xs Ys : list matR) (acc : matR * matR)
        (Wo : matR) (k : nat) (w' : vecR) :
  wf_data din Xs Ys -> partial_fit bias din dout w (buffers0 bias din dout) Xs Ys = Some acc -> 0 < lam ->
  shape (aug_dim bias din) dout Wo -> normal_eqs bias lam din dout acc Wo -> (k < dout)%nat -> length w' = aug_dim bias din ->
  Jcol lam (RX bias w Xs) (RY w Ys) k w' = Jcol lam (RX bias w Xs) (RY w Ys) k (colv Wo k) -> w' = colv Wo k.
Proof. intros HW E Hl. exact (normal_eqs_unique bias lam din dout w Xs Ys acc HW E Hl Wo k w'). Qed.

(* XXT + lam I has a trivial kernel (it is positive definite): the premise of the LAPACK oracle always holds *)
Theorem C04_system_nonsingular (bias : bool) (lam : R) (din dout w : nat) (Xs Ys : list matR) (acc : matR * matR) (v : vecR) :
  wf_data din Xs Ys -> partial_fit bias din dout w (buffers0 bias din dout) Xs Ys = Some acc -> 0 < lam ->
  length v = aug_dim bias din -> mv (ridge_system bias lam din (fst acc)) v = vzeros (aug_dim bias din) ->
  v = vzeros (aug_dim bias din).
Proof. intros HW E Hl. exact (sys_kernel_trivial bias lam din dout w Xs Ys acc HW E Hl v). Qed.

(* ---- the fitted node ---- *)
Section Fitted.
(* scipy.linalg.solve: for a square system with a trivial kernel it returns a solution of the right shape *)
Variable solve : matR -> matR -> matR.
Variables (bias : bool) (lam : R) (din dout w : nat) (Xs Ys : list matR) (Wout : matR) (b : vecR).
Hypothesis solve_ok : solve_spec solve (aug_dim bias din) dout.
Hypothesis Hlam : 0 < lam.
Hypothesis Hdata : wf_data din Xs Ys.
Hypothesis Hfit : fit solve bias lam w din dout Xs Ys = Some (Wout, b).

Theorem C04_normal_equations :
  exists acc, partial_fit bias din dout w (buffers0 bias din dout) Xs Ys = Some acc /\
              normal_eqs bias lam din dout acc (assemble bias Wout b).
Proof. exact (fit_normal_equations solve bias lam din dout w Xs Ys Wout b solve_ok Hlam Hdata Hfit). Qed.

(* (Wout, bias) minimises the objective of every output coordinate over all (W', b') -- b' = 0 when there is no bias *)
Theorem C04_optimal (k : nat) (W' : matR) (b' : vecR) :
  (k < dout)%nat -> shape din dout W' -> length b' = dout -> (bias = false -> b' = vzeros dout) ->
  Jpred lam dout w Xs Ys k Wout b <= Jpred lam dout w Xs Ys k W' b'.
Proof. exact (fit_optimal solve bias lam din dout w Xs Ys Wout b solve_ok Hlam Hdata Hfit k W' b'). Qed.

(* ... hence the whole objective *)
Theorem C04_optimal_total (W' : matR) (b' : vecR) :
  shape din dout W' -> length b' = dout -> (bias = false -> b' = vzeros dout) ->
  Jtotal lam dout w Xs Ys Wout b <= Jtotal lam dout w Xs Ys W' b'.
Proof. exact (fit_optimal_total solve bias lam din dout w Xs Ys Wout b solve_ok Hlam Hdata Hfit W' b'). Qed.

(* the minimiser is unique: equal objective for coordinate k forces column k of W' and b'_k to be the fitted ones *)
Theorem C04_unique (k : nat) (W' : matR) (b' : vecR) :
  (k < dout)%nat -> shape din dout W' -> length b' = dout -> (bias = false -> b' = vzeros dout) ->
  Jpred lam dout w Xs Ys k W' b' = Jpred lam dout w Xs Ys k Wout b ->
  (forall i, (i < din)%nat -> mget W' i k = mget Wout i k) /\ nth k b' 0 = nth k b 0.
Proof. exact (fit_unique solve bias lam din dout w Xs Ys Wout b solve_ok Hlam Hdata Hfit k W' b'). Qed.
End Fitted.

(* readout_forward is exactly  Wout^T x + bias, componentwise *)
Theorem C04_prediction_affine (din dout : nat) (Wout : matR) (b x : vecR) (k : nat) :
  shape din dout Wout -> length x = din -> length b = dout -> (k < dout)%nat ->
  nth k (forward dout Wout b x) 0 = bsum din (fun i => mget Wout i k * nth i x 0) + nth k b 0.
Proof. exact (forward_affine din dout Wout b x k). Qed.

(* the first `warmup` rows of every sequence have no influence: for every number type, solver, dataset *)
Theorem C04_warmup_irrelevant {F : Type} `{Num F} (solve : list (list F) -> list (list F) -> list (list F))
        (bias : bool) (lam : F) (w din dout : nat) (Xs Xs' Ys Ys' : list (list (list F))) :
  Forall2 (fun A B => length A = length B /\ skipn w A = skipn w B) Xs Xs' ->
  Forall2 (fun A B => length A = length B /\ skipn w A = skipn w B) Ys Ys' ->
  fit solve bias lam w din dout Xs Ys = fit solve bias lam w din dout Xs' Ys'.
Proof. exact (fit_warmup solve bias lam w din dout Xs Xs' Ys Ys'). Qed.

(* the fit is defined whenever every sequence is longer than the warm-up *)
Theorem C04_fit_defined {F : Type} `{Num F} (solve : list (list F) -> list (list F) -> list (list F))
        (bias : bool) (lam : F) (w din dout : nat) (Xs Ys : list (list (list F))) :
  Forall (fun X => w < length X)%nat Xs -> exists r, fit solve bias lam w din dout Xs Ys = Some r.
Proof. exact (fit_defined solve bias lam w din dout Xs Ys). Qed.

(* ---- non-vacuity ---- *)
(* the model run at Q on two sequences, warm-up 1, with bias (Gauss-Jordan as solver) *)
Example C04_example_Q :
  fit (F:=Q) (fun A B => match qsolve A B with Some X => X | None => [] end) true (1#2)%Q 1 1 1
      [[[9];[1];[2]]; [[7];[3]]]%Q [[[5];[1];[3]]; [[5];[4]]]%Q = Some ([[74#59]], [8#59])%Q.
Proof. vm_compute. reflexivity. Qed.
(* all hypotheses of C04_optimal / C04_unique hold together on a concrete instance over R (1 x 1 system, lam = 1):
   the oracle specification is satisfiable, the data are well formed, the fit is defined and returns Wout = 5/6 *)
Example C04_example_R :
  let solve1 := (fun A B : matR => [[mget B 0 0 / mget A 0 0]]) in
  let Xs := [[[5];[1];[2]]] in let Ys := [[[7];[1];[2]]] in
  solve_spec solve1 (aug_dim false 1) 1 /\ wf_data 1 Xs Ys /\
  exists Wout b, fit solve1 false 1 1 1 1 Xs Ys = Some (Wout, b) /\ mget Wout 0 0 = 5 / 6 /\ b = [0].
Proof.
  cbv zeta. split; [exact solve_spec_1x1|]. split; [repeat constructor|].
  eexists. eexists. split; [reflexivity|]. split; [cbn; numR; field| reflexivity].
Qed.

Print Assumptions C04_def_retained.
Print Assumptions C04_def_objective.
Print Assumptions C04_objective_separates.
Print Assumptions C04_def_normal_equations.
Print Assumptions C04_accumulators_are_gram.
Print Assumptions C04_partial_fit_accumulates.
Print Assumptions C04_normal_equations_imply_optimal.
Print Assumptions C04_normal_equations_imply_unique.
Print Assumptions C04_system_nonsingular.
Print Assumptions C04_normal_equations.
Print Assumptions C04_optimal.
Print Assumptions C04_optimal_total.
Print Assumptions C04_unique.
Print Assumptions C04_prediction_affine.
Print Assumptions C04_warmup_irrelevant.
Print Assumptions C04_fit_defined.

(* ================================================================================================================ *)
(* Tie (T): the functions GENERATED on this run from the current source text of nodes/readouts/ridge.py and base.py
   (coq/gen/Gen_ridge.v) ARE the model the theorems above are about -- for EVERY Num instance (the equalities are structural),
   hence both for the reals of the theorems and for the rationals of the correspondence runs.  The generated code reads the
   dimensions off the arrays, as numpy does; [rect c A]: A is non-empty with rows of length c.                          *)
From RV Require Import base.GenPrelude gen.Gen_ridge proofs.Gen_ridge_eq.

Section C04_generated.
Context {F : Type} `{Num F}.
Variable solve : list (list F) -> list (list F) -> list (list F).

(* partial_backward (+ _accumulate, under the lock or not): the new XXT / YXT buffers *)
Theorem C04_generated_partial_backward_is_model (b : bool) (din dout : nat) (acc : list (list F) * list (list F))
        (X Y : list (list F)) (lock : bool) :
  rect din X -> rect dout Y ->
  GenRidge.partial_backward b (fst acc) (snd acc) X Y lock = partial_backward b din dout acc X Y.
Proof. exact (gen_partial_backward_eq b din dout acc X Y lock). Qed.

(* backward: the (Wout, bias) written from the solver's answer Wo (non-empty, dout columns) *)
Theorem C04_generated_backward_is_model (b : bool) (lam : F) (din dout : nat) (acc : list (list F) * list (list F)) :
  rect (aug_dim b din) (snd acc) ->
  let Wo := backward_raw solve b lam din acc in
  Wo <> [] -> mcols Wo = dout ->
  GenRidge.backward b lam din (fst acc) (snd acc) solve = split_wo b dout Wo.
Proof. exact (gen_backward_eq solve b lam din dout acc). Qed.

Theorem C04_generated_forward_is_model (dout : nat) (Wout : list (list F)) (bv x : list F) : rect dout Wout ->
  GenRidge.readout_forward Wout bv x = forward dout Wout bv x.
Proof. exact (gen_ridge_forward_eq dout Wout bv x). Qed.
End C04_generated.

Print Assumptions C04_generated_partial_backward_is_model.
Print Assumptions C04_generated_backward_is_model.
Print Assumptions C04_generated_forward_is_model.

(* ================================================================================================================
   The R-vs-Q instance gap, closed by proof (base/NumHom.v, proofs/QR_bridge_C04.v).
   The theorems above are about model/Ridge.v at F := R; the correspondence run (run/RunC04.v, chk_fit) evaluates the SAME
   term at F := Q.  [Q2R] is a homomorphism of the [Num] class, so every function of the model commutes with the entry-wise
   embedding ([qv2r], [qm2r]; [acc2r]: both accumulators embedded): running at Q and embedding = running at R on the embedded
   data.  Hence the accumulators XXT / YXT, the system XXT + ridge*I and the forward passes that chk_fit compares with
   reservoirpy's Ridge are, after Q2R, exactly those of the R-MODEL OF THE THEOREMS on those rational datasets.
   No shape hypothesis, no side condition.  [solve] stays an oracle: [fit] embeds for any pair of related solvers. *)
From RV Require Import base.NumHom proofs.QR_bridge_C04.

(* XXT and YXT after any list of sequences from the zero buffers, any warm-up; rejection (None) is preserved *)
Theorem C04_Qaccumulators_embed (bias : bool) (din dout w : nat) (Xs Ys : list (list (list Q))) :
  option_map acc2r (partial_fit bias din dout w (buffers0 bias din dout) Xs Ys)
  = partial_fit bias din dout w (buffers0 bias din dout) (map qm2r Xs) (map qm2r Ys).
Proof. exact (Qaccumulators_embed bias din dout w Xs Ys). Qed.

Theorem C04_Qpartial_backward_embeds (bias : bool) (din dout : nat) (acc : list (list Q) * list (list Q)) (X Y : list (list Q)) :
  acc2r (partial_backward bias din dout acc X Y) = partial_backward bias din dout (acc2r acc) (qm2r X) (qm2r Y).
Proof. exact (Qpartial_backward_embeds bias din dout acc X Y). Qed.

(* the system handed to the solver: XXT + ridge * I and YXT.T *)
Theorem C04_Qridge_system_embeds (bias : bool) (lam : Q) (din : nat) (acc : list (list Q) * list (list Q)) :
  qm2r (ridge_system bias lam din (fst acc)) = ridge_system bias (Q2R lam) din (fst (acc2r acc)) /\
  qm2r (transpose (snd acc) (aug_dim bias din)) = transpose (snd (acc2r acc)) (aug_dim bias din).
Proof. exact (Qridge_system_embeds bias lam din acc). Qed.

(* readout_forward on a row and on a sequence *)
Theorem C04_Qreadout_forward_embeds (dout : nat) (Wout : list (list Q)) (b : list Q) (X : list (list Q)) :
  (forall x, qv2r (forward dout Wout b x) = forward dout (qm2r Wout) (qv2r b) (qv2r x)) /\
  qm2r (run dout Wout b X) = run dout (qm2r Wout) (qv2r b) (qm2r X).
Proof. exact (Qreadout_forward_embeds dout Wout b X). Qed.

(* the whole fit (accumulate, solve, split bias), for any pair of solvers related by the embedding *)
Theorem C04_Qfit_embeds (solveQ : list (list Q) -> list (list Q) -> list (list Q))
        (solveR : list (list R) -> list (list R) -> list (list R))
        (bias : bool) (lam : Q) (w din dout : nat) (Xs Ys : list (list (list Q))) :
  (forall A B, qm2r (solveQ A B) = solveR (qm2r A) (qm2r B)) ->
  option_map (fun p => (qm2r (fst p), qv2r (snd p))) (fit solveQ bias lam w din dout Xs Ys)
  = fit solveR bias (Q2R lam) w din dout (map qm2r Xs) (map qm2r Ys).
Proof. exact (Qfit_embeds solveQ solveR bias lam w din dout Xs Ys). Qed.

(* non-vacuity: bias on, 2 inputs, 1 output, warm-up 1, sequences of 3 and 2 rows; and a rejected dataset (warm-up 2) *)
Example C04_Qaccumulators_example :
  partial_fit true 2 1 1 (buffers0 true 2 1) (map qm2r exXs) (map qm2r exYs)
  = Some (acc2r ([[(3#1)%Q; (-1#4)%Q; (13#8)%Q]; [(-1#4)%Q; (53#16)%Q; (-3#16)%Q]; [(13#8)%Q; (-3#16)%Q; (273#64)%Q]],
                 [[(1#2)%Q; (19#16)%Q; (21#16)%Q]])).
Proof. exact Qaccumulators_example. Qed.
Example C04_Qaccumulators_reject_example :
  partial_fit true 2 1 2 (buffers0 true 2 1) (map qm2r exXs) (map qm2r exYs) = None.
Proof. exact Qaccumulators_reject_example. Qed.

Print Assumptions C04_Qaccumulators_embed.
Print Assumptions C04_Qpartial_backward_embeds.
Print Assumptions C04_Qridge_system_embeds.
Print Assumptions C04_Qreadout_forward_embeds.
Print Assumptions C04_Qfit_embeds.

(* ---- the verdict of the correspondence runner, read at R ----
   [chk_fit] (run/RunC04.v) is the boolean evaluated at Q by vm_compute for every scenario; [mrclose] is the entry-wise real
   inequality |m - o| <= 1e-9 * max(1,|m|) (base/NumHom.v: [qclose m o = true <-> rclose (Q2R m) (Q2R o)]).  A verdict [true]
   implies, for the R-INSTANCE of the model on the embedded dataset (the object of the theorems above), independently of the
   Gauss-Jordan stand-in for LAPACK: the dataset is accepted, the weights OBSERVED on reservoirpy's Ridge satisfy the model's
   regularised normal equations within tolerance, and the observed predictions are the model's forward pass with them. *)
From RV Require Import run.RunC04.

Theorem C04_chk_fit_is_about_R_model (bias : bool) (lam : Q) (w din dout : nat) (Xs Ys : list (list (list Q)))
      (Wout_obs : list (list Q)) (b_obs : list Q) (Xtest pred_obs : list (list Q)) :
  chk_fit bias lam w din dout Xs Ys Wout_obs b_obs Xtest pred_obs = true ->
  exists accR : list (list R) * list (list R),
    partial_fit bias din dout w (buffers0 bias din dout) (map qm2r Xs) (map qm2r Ys) = Some accR /\
    mrclose (transpose (snd accR) (aug_dim bias din))
            (mm (ridge_system bias (Q2R lam) din (fst accR)) (qm2r (assemble bias Wout_obs b_obs)) dout) /\
    mrclose (run dout (qm2r Wout_obs) (qv2r b_obs) (qm2r Xtest)) (qm2r pred_obs).
Proof. exact (chk_fit_is_about_R_model bias lam w din dout Xs Ys Wout_obs b_obs Xtest pred_obs). Qed.

(* non-vacuity: a scenario on which the runner answers true *)
Example C04_chk_fit_example :
  chk_fit true (1#2)%Q 1 2 1 exXs exYs [[(35723#109067)%Q]; [(30012#109067)%Q]] [(8397#218134)%Q] [[1%Q; 1%Q]] [[(19981#31162)%Q]] = true.
Proof. exact chk_fit_example. Qed.

Print Assumptions C04_chk_fit_is_about_R_model.

(* ================================================================================================================
   The Gauss-Jordan stand-in for LAPACK, proved sound (proofs/QSolve_proofs.v), and check 1 of chk_fit read at R
   (proofs/QR_bridge_C04_solve.v).
   [LA.qsolve A B] eliminates on the augmented rows (a_i | b_i) over Q: at step c it takes the first remaining row whose entry c
   is non-zero (None when there is none), divides it by that entry, subtracts from every other row its entry c times the
   normalised pivot row; Qred after every operation.  Proved: every step preserves, in both directions, the set of X with
   A X == B; after n steps the left block is the identity.  Hence, for A n x n and B n x m, a returned X has shape n x m,
   satisfies A X == B entry-wise (Qeq) -- embedded in R: A X = B exactly -- and is the only rational solution of that shape.
   Consequence for the correspondence run: on a dataset whose input rows have width din, whenever the elimination answers, the
   model's own solution [backward_raw qsolve_tot ...] that chk_fit compares with the observed Wout / bias is, embedded in R, an
   exact solution of the R-model's normal equations, i.e. (C04_normal_equations_imply_optimal / _unique, lam > 0) the ridge
   optimum.  Completeness is proved too: "None" exhibits a non-zero rational vector killed by every row of A, so a system with
   a trivial kernel always gets an answer; for lam > 0 the ridge system has a trivial kernel (C04_system_nonsingular), so on a
   well-formed dataset the elimination always answers and the disjunct "no answer" disappears
   (C04_chk_fit_solution_is_ridge_optimum).                                                                                 *)
From RV Require Import proofs.QSolve_proofs proofs.QR_bridge_C04_solve.
Close Scope R_scope.

Theorem C04_qsolve_sound (n m : nat) (A B X : list (list Q)) :
  length A = n -> Forall (fun r => length r = n) A -> length B = n -> Forall (fun r => length r = m) B ->
  qsolve A B = Some X ->
  length X = n /\ Forall (fun r => length r = m) X /\ Forall2 (Forall2 Qeq) (mm A X m) B.
Proof. intros a b c d. exact (qsolve_sound n m A B X (conj a (conj b (conj c d)))). Qed.

Theorem C04_qsolve_unique (n m : nat) (A B X Y : list (list Q)) :
  length A = n -> Forall (fun r => length r = n) A -> length B = n -> Forall (fun r => length r = m) B ->
  qsolve A B = Some X ->
  length Y = n -> Forall (fun r => length r = m) Y -> Forall2 (Forall2 Qeq) (mm A Y m) B -> Forall2 (Forall2 Qeq) Y X.
Proof. intros a b c d. exact (qsolve_unique n m A B X Y (conj a (conj b (conj c d)))). Qed.

(* read in R: the embedded answer solves the embedded system exactly *)
Theorem C04_qsolve_sound_R (n m : nat) (A B X : list (list Q)) :
  length A = n -> Forall (fun r => length r = n) A -> length B = n -> Forall (fun r => length r = m) B ->
  qsolve A B = Some X ->
  shape n m (qm2r X) /\ mm (qm2r A) (qm2r X) m = qm2r B.
Proof. intros a b c d. exact (qsolve_sound_R n m A B X (conj a (conj b (conj c d)))). Qed.

(* the solver step of backward on the accumulators of any dataset of width din *)
Theorem C04_backward_raw_solves_R_system (bias : bool) (lam : Q) (w din dout : nat) (Xs Ys : list (list (list Q)))
      (acc : list (list Q) * list (list Q)) (Wq : list (list Q)) :
  Forall (Forall (fun r => length r = din)) Xs ->
  partial_fit bias din dout w (buffers0 bias din dout) Xs Ys = Some acc ->
  qsolve (ridge_system bias lam din (fst acc)) (transpose (snd acc) (aug_dim bias din)) = Some Wq ->
  backward_raw qsolve_tot bias lam din acc = Wq /\
  shape (aug_dim bias din) dout (qm2r Wq) /\ normal_eqs bias (Q2R lam) din dout (acc2r acc) (qm2r Wq).
Proof. exact (backward_raw_solves_R_system bias lam w din dout Xs Ys acc Wq). Qed.

(* check 1 of chk_fit: the matrix compared with the observed Wout / bias is an exact solution of the R-model's normal equations *)
Theorem C04_chk_fit_solution_is_about_R_model (bias : bool) (lam : Q) (w din dout : nat) (Xs Ys : list (list (list Q)))
      (Wout_obs : list (list Q)) (b_obs : list Q) (Xtest pred_obs : list (list Q)) :
  Forall (Forall (fun r => length r = din)) Xs ->
  chk_fit bias lam w din dout Xs Ys Wout_obs b_obs Xtest pred_obs = true ->
  exists (acc : list (list Q) * list (list Q)) (Wo : list (list Q)),
    partial_fit bias din dout w (buffers0 bias din dout) (map qm2r Xs) (map qm2r Ys) = Some (acc2r acc) /\
    backward_raw qsolve_tot bias lam din acc = Wo /\
    mrclose (qm2r (fst (split_wo bias dout Wo))) (qm2r Wout_obs) /\ vrclose (qv2r (snd (split_wo bias dout Wo))) (qv2r b_obs) /\
    (qsolve (ridge_system bias lam din (fst acc)) (transpose (snd acc) (aug_dim bias din)) = None \/
     shape (aug_dim bias din) dout (qm2r Wo) /\ normal_eqs bias (Q2R lam) din dout (acc2r acc) (qm2r Wo)).
Proof. exact (chk_fit_solution_is_about_R_model bias lam w din dout Xs Ys Wout_obs b_obs Xtest pred_obs). Qed.

(* completeness of the elimination: no answer only for a singular matrix *)
Theorem C04_qsolve_none_singular (n m : nat) (A B : list (list Q)) :
  length A = n -> Forall (fun r => length r = n) A -> length B = n -> Forall (fun r => length r = m) B ->
  qsolve A B = None ->
  exists y : list Q, length y = n /\ (exists i, ~ Qeq (nth i y 0%Q) 0%Q) /\ forall a, In a A -> Qeq (dot a y) 0%Q.
Proof. intros a b c d. exact (qsolve_none_singular n m A B (conj a (conj b (conj c d)))). Qed.

Theorem C04_qsolve_complete (n m : nat) (A B : list (list Q)) :
  length A = n -> Forall (fun r => length r = n) A -> length B = n -> Forall (fun r => length r = m) B ->
  (forall y : list Q, length y = n -> (forall a, In a A -> Qeq (dot a y) 0%Q) -> forall i, Qeq (nth i y 0%Q) 0%Q) ->
  exists X, qsolve A B = Some X.
Proof. intros a b c d. exact (qsolve_complete n m A B (conj a (conj b (conj c d)))). Qed.

(* read in R: no answer = the embedded system has a non-zero kernel vector *)
Theorem C04_qsolve_none_singular_R (n m : nat) (A B : list (list Q)) :
  length A = n -> Forall (fun r => length r = n) A -> length B = n -> Forall (fun r => length r = m) B ->
  qsolve A B = None ->
  exists y : list Q, length y = n /\ qv2r y <> vzeros n /\ mv (qm2r A) (qv2r y) = vzeros n.
Proof. intros a b c d. exact (qsolve_none_singular_R n m A B (conj a (conj b (conj c d)))). Qed.

(* lam > 0, well-formed rational dataset (the Q counterpart of wf_data): the elimination answers on the ridge system *)
Theorem C04_ridge_qsolve_answers (bias : bool) (lam : Q) (w din dout : nat) (Xs Ys : list (list (list Q)))
      (acc : list (list Q) * list (list Q)) :
  Forall2 (fun X Y => length X = length Y /\ Forall (fun r => length r = din) X) Xs Ys -> (0 < lam)%Q ->
  partial_fit bias din dout w (buffers0 bias din dout) Xs Ys = Some acc ->
  exists Wq, qsolve (ridge_system bias lam din (fst acc)) (transpose (snd acc) (aug_dim bias din)) = Some Wq.
Proof. exact (ridge_qsolve_answers bias lam w din dout Xs Ys acc). Qed.

(* check 1 of chk_fit, lam > 0, well-formed dataset: the matrix compared with the observed Wout / bias solves the R-model's
   normal equations exactly and minimises every coordinate's regularised objective -- no trust in the elimination left *)
Theorem C04_chk_fit_solution_is_ridge_optimum (bias : bool) (lam : Q) (w din dout : nat) (Xs Ys : list (list (list Q)))
      (Wout_obs : list (list Q)) (b_obs : list Q) (Xtest pred_obs : list (list Q)) :
  Forall2 (fun X Y => length X = length Y /\ Forall (fun r => length r = din) X) Xs Ys -> (0 < lam)%Q ->
  chk_fit bias lam w din dout Xs Ys Wout_obs b_obs Xtest pred_obs = true ->
  exists (acc : list (list Q) * list (list Q)) (Wo : list (list Q)),
    partial_fit bias din dout w (buffers0 bias din dout) (map qm2r Xs) (map qm2r Ys) = Some (acc2r acc) /\
    backward_raw qsolve_tot bias lam din acc = Wo /\
    mrclose (qm2r (fst (split_wo bias dout Wo))) (qm2r Wout_obs) /\ vrclose (qv2r (snd (split_wo bias dout Wo))) (qv2r b_obs) /\
    shape (aug_dim bias din) dout (qm2r Wo) /\ normal_eqs bias (Q2R lam) din dout (acc2r acc) (qm2r Wo) /\
    forall (k : nat) (w' : list R), (k < dout)%nat -> length w' = aug_dim bias din ->
      (Jcol (Q2R lam) (RX bias w (map qm2r Xs)) (RY w (map qm2r Ys)) k (colv (qm2r Wo) k)
       <= Jcol (Q2R lam) (RX bias w (map qm2r Xs)) (RY w (map qm2r Ys)) k w')%R.
Proof. exact (chk_fit_solution_is_ridge_optimum bias lam w din dout Xs Ys Wout_obs b_obs Xtest pred_obs). Qed.

(* non-vacuity: all premises hold together on the scenario of C04_chk_fit_example, and the elimination answers *)
Example C04_chk_fit_solution_example :
  Forall (Forall (fun r => length r = 2)) exXs /\
  Forall2 (fun X Y => length X = length Y /\ Forall (fun r => length r = 2) X) exXs exYs /\ (0 < 1#2)%Q /\
  chk_fit true (1#2)%Q 1 2 1 exXs exYs [[(35723#109067)%Q]; [(30012#109067)%Q]] [(8397#218134)%Q] [[1%Q; 1%Q]] [[(19981#31162)%Q]] = true /\
  qsolve (ridge_system true (1#2)%Q 2 [[(3#1)%Q; (-1#4)%Q; (13#8)%Q]; [(-1#4)%Q; (53#16)%Q; (-3#16)%Q]; [(13#8)%Q; (-3#16)%Q; (273#64)%Q]])
         (transpose [[(1#2)%Q; (19#16)%Q; (21#16)%Q]] 3)
    = Some [[(8397#218134)%Q]; [(35723#109067)%Q]; [(30012#109067)%Q]].
Proof. exact chk_fit_solution_example. Qed.
(* a singular system is refused: the elimination is not vacuous on the "None" side *)
Example C04_qsolve_singular_example : qsolve [[1%Q; 2%Q]; [2%Q; 4%Q]] [[1%Q]; [1%Q]] = None.
Proof. vm_compute. reflexivity. Qed.

Print Assumptions C04_qsolve_sound.
Print Assumptions C04_qsolve_unique.
Print Assumptions C04_qsolve_sound_R.
Print Assumptions C04_backward_raw_solves_R_system.
Print Assumptions C04_chk_fit_solution_is_about_R_model.
Print Assumptions C04_qsolve_none_singular.
Print Assumptions C04_qsolve_complete.
Print Assumptions C04_qsolve_none_singular_R.
Print Assumptions C04_ridge_qsolve_answers.
Print Assumptions C04_chk_fit_solution_is_ridge_optimum.
