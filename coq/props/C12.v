(* C12 — Dimensions are fixed at initialisation and bad data is rejected cleanly.
   Statement-only file: every theorem is closed by a lemma of proofs/Shapes_proofs.v; the model is model/Shapes.v
   (check_vector, check_one_sequence, check_n_sequences, check_xy, set_input_dim/set_output_dim, initialize and the
   skeleton  support ; check ; initialise ; core  of call / run / train / partial_fit / fit, for every public node kind). *)
From Coq Require Import List Arith Bool.
From RV Require Import model.Shapes proofs.Shapes_proofs.
Import ListNotations.

(* 1. For every node, every history of operations (accepted, rejected, before or after initialisation): a dimension that
      is known — declared at construction or inferred from the first data — keeps its value, an initialised node stays
      initialised, and a well-formed node stays well-formed. *)
Theorem C12_dims_immutable (n n' : node) (ops : list op) :
  run_hist n ops = Some n' ->
  nkind n' = nkind n /\
  (forall d, input_dim n = Some d -> input_dim n' = Some d) /\
  (forall d, output_dim n = Some d -> output_dim n' = Some d) /\
  (initialized n = true -> initialized n' = true).
Proof. intro H. exact (proj1 (run_hist_kept ops n n' H)). Qed.

(* 2. An exception raised before the core of an operation — no learning rule, validation (check_xy), initialisation —
      leaves dims, initialised flag, state shape, state and parameters (version counters) untouched; the record is
      literally unchanged, except that a rejected fit has emptied the node's offline buffers (clean_buffers, by design). *)
Theorem C12_reject_before_change (n n' : node) (o : op) (p : phase) (e : exn) :
  step n o = Err p e n' -> p <> PCore ->
  same_node n n' /\
  (is_fit o = false \/ p = PSupport -> teacher n = None -> n' = n) /\
  (is_fit o = true -> p <> PSupport -> n' = clean_buffers n).
Proof. exact (reject_before_change n n' o p e). Qed.

(* 2b. Targets given as a teacher node: a teacher whose known output size differs from the node's is rejected by check_xy
       and NOT registered — the node is literally unchanged; and an accepted operation never leaves a teacher behind. *)
Theorem C12_teacher_mismatch_rejected (n : node) (x : data) (o t : nat) :
  has_online (nkind n) = true -> output_dim n = Some o -> t <> o ->
  exists e, step n (OTrain x (Some (DTeacher (Some t)))) = Err PCheck e n.
Proof. exact (teacher_mismatch_rejected n x o t). Qed.

Theorem C12_no_teacher_left_behind (n n' : node) (o : op) (out : option (nat * nat)) :
  step n o = Ok n' out -> teacher n = None -> teacher n' = None.
Proof. exact (step_ok_teacher n n' o out). Qed.

(* ... nor does a train call that fails, in whatever phase (try/finally in Node.train since f5028fe) *)
Theorem C12_train_clears_teacher (n n' : node) (x : data) (y : option data) :
  after n (step n (OTrain x y)) = Some n' -> teacher n = None -> teacher n' = None.
Proof. exact (train_clears_teacher n n' x y). Qed.

(* 3. Operations the node has no rule for: offline fit / partial_fit of a node without offline rule, train of a node
      without online rule -> TypeError, node unchanged. *)
Theorem C12_unsupported_rejected (n : node) (o : op) :
  supported (nkind n) o = false -> step n o = Err PSupport TypeError n.
Proof. exact (unsupported_rejected n o). Qed.

Theorem C12_unsupported_cases (n : node) (x : data) (y : option data) :
  (has_offline (nkind n) = false -> step n (OFit x y) = Err PSupport TypeError n /\ step n (OPartialFit x y) = Err PSupport TypeError n) /\
  (has_online (nkind n) = false -> step n (OTrain x y) = Err PSupport TypeError n).
Proof. split; [intro H; split|intro H]; apply unsupported_rejected; exact H. Qed.

(* ... and at Model level: offline fit of a Model without any offline learner (reservoir >> RLS, chains of plain nodes)
   is refused by the first statement of Model.fit, TypeError, every node exactly as it was *)
Theorem C12_model_fit_unsupported (nodes : list node) :
  Forall (fun n => has_offline (nkind n) = false) nodes -> model_fit_guard nodes = Some (TypeError, nodes).
Proof. exact (model_fit_unsupported nodes). Qed.

(* 4. Inputs whose feature size disagrees with the node's input dimension, non-numeric arrays, non-array objects:
      rejected in the checking phase of every supported operation, for arrays of ANY rank (no empty axis), node untouched. *)
Theorem C12_wrong_feature_rejected (n : node) (o : op) (num : bool) (sh : list nat) (d : nat) :
  supported (nkind n) o = true -> input_dim n = Some [d] -> op_x o = DArr num sh ->
  Forall (fun s => 1 <= s) sh -> feat sh <> d ->
  exists e n', step n o = Err PCheck e n' /\ same_node n n'.
Proof.
  intros S I X P F. apply bad_input_rejected; [exact S|]. intros ans ani ats. rewrite X, I. exact (cns_wrong_feature num sh d ans ani ats P F).
Qed.

Theorem C12_non_numeric_rejected (n : node) (o : op) (sh : list nat) :
  supported (nkind n) o = true -> op_x o = DArr false sh -> Forall (fun s => 1 <= s) sh ->
  exists e n', step n o = Err PCheck e n' /\ same_node n n'.
Proof. intros S X P. apply bad_input_rejected; [exact S|]. intros ans ani ats. rewrite X. exact (cns_non_numeric sh _ ans ani ats P). Qed.

Theorem C12_non_array_rejected (n : node) (o : op) :
  supported (nkind n) o = true -> op_x o = DOther ->
  exists e n', step n o = Err PCheck e n' /\ same_node n n'.
Proof. intros S X. apply bad_input_rejected; [exact S|]. intros ans ani ats. rewrite X. exact (cns_other _ ans ani ats). Qed.

(* ... and the same for targets of a supervised node (IPReservoir is unsupervised: its partial_fit never looks at Y) *)
Theorem C12_wrong_target_rejected (n : node) (o : op) (num : bool) (sh : list nat) (m : nat) :
  supported (nkind n) o = true -> (match nkind n with KIPReservoir _ => False | _ => True end) ->
  output_dim n = Some m -> op_y o = Some (DArr num sh) -> Forall (fun s => 1 <= s) sh -> feat sh <> m ->
  exists e n', step n o = Err PCheck e n' /\ same_node n n'.
Proof.
  intros S K O Y P F. apply (bad_target_rejected n o (DArr num sh)); auto; [intros td; discriminate|].
  intros ans ats. rewrite O. exact (cns_wrong_feature num sh m ans false ats P F).
Qed.

(* the literal test of check_one_sequence ("some data dimension equals the expected one") is exact for an int dimension *)
Theorem C12_dimension_test_exact (d f : nat) : dims_ok [d] [f] = (d =? f).
Proof. exact (dims_ok_single d f). Qed.

(* arrays with more axes than a set of sequences can have are rejected (since ad5a298) *)
Theorem C12_too_many_dims_rejected (num : bool) (sh : list nat) (d : nat) (ans ani ats : bool) :
  4 <= length sh -> check_n_sequences (DArr num sh) (Some [d]) ans ani ats = RErr ValueError.
Proof. exact (cns_too_many_dims num sh d ans ani ats). Qed.

(* a multi-input node (Concat: input_dim is a tuple) rejects a list with the wrong number of inputs (since 7992b77) *)
Theorem C12_wrong_input_count_rejected (n : node) (o : op) (items : list data) (ed : list nat) :
  supported (nkind n) o = true -> input_dim n = Some ed -> op_x o = DList items ->
  2 <= length ed -> length items <> length ed ->
  exists e n', step n o = Err PCheck e n' /\ same_node n n'.
Proof.
  intros S I X L N. apply bad_input_rejected; [exact S|]. intros ans ani ats. rewrite X, I.
  exists ValueError. exact (cns_wrong_input_count items ed ans ani ats L N).
Qed.

(* 5. Accepted input of T timesteps yields exactly T rows of width output_dim (run, call, train). *)
Theorem C12_rows (n n' : node) (x : data) (out : option (nat * nat)) :
  wf n -> step n (ORun x) = Ok n' out -> exists w, output_dim n' = Some w /\ out = Some (timesteps x, w).
Proof. exact (rows_run n n' x out). Qed.

Theorem C12_rows_call (n n' : node) (x : data) (out : option (nat * nat)) :
  wf n -> step n (OCall x) = Ok n' out -> exists w, output_dim n' = Some w /\ out = Some (1, w) /\ timesteps x = 1.
Proof. exact (rows_call n n' x out). Qed.

Theorem C12_rows_train (n n' : node) (x : data) (y : option data) (out : option (nat * nat)) :
  wf n -> step n (OTrain x y) = Ok n' out -> exists w, output_dim n' = Some w /\ out = Some (timesteps1 x, w).
Proof. exact (rows_train n n' x y out). Qed.

(* 6. After any accepted operation the node is initialised and its state is a single row of width output_dim;
      and this holds along every history that starts from a freshly constructed node of any kind. *)
Theorem C12_state_shape (n n' : node) (o : op) (out : option (nat * nat)) :
  wf n -> step n o = Ok n' out ->
  initialized n' = true /\ exists w, output_dim n' = Some w /\ state_shape n' = Some [1; w].
Proof. intros W H. split; [exact (step_ok_initialized n n' o out H)|exact (step_ok_state n n' o out W H)]. Qed.

Theorem C12_state_shape_history (k : kind) (ind outd : option nat) (ops : list op) (n' : node) :
  run_hist (fresh k ind outd) ops = Some n' -> initialized n' = true ->
  exists d w, input_dim n' = Some d /\ output_dim n' = Some w /\ state_shape n' = Some [1; w].
Proof.
  intros H I. apply (proj2 (run_hist_kept ops _ _ H)); [|exact I]. intro F. simpl in F. discriminate F.
Qed.

(* ops._link_1to1: two initialised nodes can only be linked when the dimensions agree *)
Theorem C12_link_dims (a b : node) (o : nat) (d : list nat) :
  initialized a = true -> initialized b = true -> output_dim a = Some o -> input_dim b = Some d ->
  (link_1to1 a b = ROk tt <-> d = [o]).
Proof.
  intros Ia Ib Oa Db. unfold link_1to1. rewrite Ia, Ib, Oa, Db. cbn [andb].
  destruct (lnat_eqb [o] d) eqn:E; split; intro H; try reflexivity; try discriminate.
  - apply lnat_eqb_eq in E. congruence.
  - subst d. rewrite lnat_eqb_refl in E. discriminate.
Qed.

(* ... and for operands that are Models (initialised or not — a Model that never ran reports is_initialized = False) or
   lists of nodes, the link is accepted iff EVERY (output node of the left operand, input node of the right operand) pair
   passes that check: a mismatch between two initialised nodes is rejected however they are wrapped. *)
Theorem C12_link_operands (senders receivers : list node) :
  link_check senders receivers = ROk tt <->
  Forall (fun s => Forall (fun r => link_1to1 s r = ROk tt) receivers) senders.
Proof. exact (link_check_spec senders receivers). Qed.

(* ---------------------------------------------------------------------------------------------- non-vacuity *)
(* a fresh Ridge: call before any target is known -> RuntimeError and nothing changes; fit infers (3 -> 2); then a
   (5, 3) run gives 5 rows of width 2; a (5, 4) run, an object array, a str and a list are rejected, node unchanged. *)
Example C12_example_history :
  let n0 := fresh KOffline None None in
  step n0 (OCall (DArr true [1; 3])) = Err PInit RuntimeError n0 /\
  exists n1, step n0 (OFit (DArr true [6; 3]) (Some (DArr true [6; 2]))) = Ok n1 None /\
    input_dim n1 = Some [3] /\ output_dim n1 = Some 2 /\ state_shape n1 = Some [1; 2] /\
    (exists n2, step n1 (ORun (DArr true [5; 3])) = Ok n2 (Some (5, 2)) /\ state_shape n2 = Some [1; 2]) /\
    step n1 (ORun (DArr true [5; 4])) = Err PCheck ValueError n1 /\
    step n1 (ORun (DArr true [3; 4])) = Err PCheck ValueError n1 /\
    step n1 (ORun (DArr false [5; 3])) = Err PCheck TypeError n1 /\
    step n1 (OCall DOther) = Err PCheck OtherError n1 /\
    step n1 (OCall (DList [DArr true [1; 3]])) = Err PCheck TypeError n1 /\
    step n1 (OTrain (DArr true [5; 3]) (Some (DArr true [5; 2]))) = Err PSupport TypeError n1 /\
    step n1 (OFit (DArr true [5; 3]) (Some (DArr true [5; 3]))) = Err PCheck ValueError (clean_buffers n1).
Proof. vm_compute. split; [reflexivity|]. eexists. repeat split; try reflexivity. eexists. split; reflexivity. Qed.

(* Concat on two inputs of widths 2 and 3, NVAR(delay 2, order 2) on 3 features *)
Example C12_example_kinds :
  (exists n1, step (fresh KConcat None None) (ORun (DList [DArr true [4; 2]; DArr true [4; 3]])) = Ok n1 (Some (4, 5)) /\
              input_dim n1 = Some [2; 3] /\ state_shape n1 = Some [1; 5]) /\
  (exists n1, step (fresh (KNVAR 2 2) None None) (OCall (DArr true [3])) = Ok n1 (Some (1, 27))).
Proof. vm_compute. split; eexists; repeat split; reflexivity. Qed.

(* the literal test is NOT exact for tuple dimensions: a permuted shape passes (documented quirk, unreachable for int dims) *)
Example C12_some_dimension_matches_quirk : dims_ok [2; 3] [3; 2] = true /\ dims_ok [2; 3] [3; 3] = false.
Proof. vm_compute. split; reflexivity. Qed.

(* ---------------------------------------------------------------------------------------------- history / open findings *)
(* pre-fix defects (fixed in HEAD: 164b89d, 9c754c0, ad5a298): the old shapes are not (1, output_dim) / the old branch
   accepted a wrong feature count *)
Theorem C12_delay_state_refuted : exists delay dim steps, prefix_delay_state_shape delay dim steps <> [1; dim].
Proof. exists 2, 3, 1. vm_compute. discriminate. Qed.

Theorem C12_sklearn_state_refuted : exists rows, prefix_sklearn_state_shape 1 rows <> [rows; 1].
Proof. exists 1. vm_compute. discriminate. Qed.

Theorem C12_too_many_dims_prefix_refuted :
  exists sh d, feat sh <> d /\ prefix_check_too_many_dims (DArr true sh) false = ROk (DArr true sh).
Proof. exists [1; 2; 2; 5], 3. vm_compute. split; [discriminate|reflexivity]. Qed.

(* pre-fix (before f5028fe): a train call that failed after check_xy had registered a teacher left it on the node
   (prefix_after_failed_train); in HEAD the same call leaves none and the following valid train is accepted *)
Theorem C12_uninitialised_teacher_stays_refuted :
  exists n n', initialized n = true /\ teacher n = None /\
    teacher (prefix_after_failed_train n None) <> None /\
    step n (OTrain (DArr true [4; 3]) (Some (DTeacher None))) = Err PCore RuntimeError n' /\ teacher n' = None /\
    (exists n2, step n' (OTrain (DArr true [4; 3]) (Some (DArr true [4; 2]))) = Ok n2 (Some (4, 2))).
Proof.
  exists (mkNode KOnline true (Some [3]) (Some 2) (Some [1; 2]) 1 1 false None false).
  eexists. vm_compute. repeat split; try reflexivity; try discriminate. eexists; reflexivity.
Qed.

(* OPEN findings mirrored by the model (the validation of HEAD accepts these; what happens next is 'Irregular'):
   a 3-D array given to call() of an initialised node passes check_xy (state-not-2d:3d-input) ... *)
Theorem C12_3d_input_accepted_refuted :
  exists n x, initialized n = true /\ input_dim n = Some [3] /\
    check_xy n x None false true false = ROk (x, YNone) /\ x = DArr true [2; 1; 3] /\ step n (OCall x) = Irregular.
Proof.
  exists (mkNode KSame true (Some [3]) (Some 3) (Some [1; 3]) 1 1 false None false), (DArr true [2; 1; 3]).
  vm_compute. repeat split; reflexivity.
Qed.

(* sequences with different feature counts given to an UNinitialised offline node still pass check_xy (nothing is known to
   compare them with), but since 7fd0837 the disagreement is found before the node is initialised: the fit is refused with a
   ValueError and the node is as it was (buffers cleaned by fit's failure path); once the node is initialised the same list
   is refused by check_xy itself.  (Before the repair: Irregular -- initialised from the first sequence, failure inside numpy
   or silent broadcast of the narrower targets; finding late-rejection:ragged-feature-count:uninitialised-fit.) *)
Theorem C12_ragged_uninitialised_rejected :
  let x := DList [DArr true [4; 3]; DArr true [4; 4]] in
  let y := DList [DArr true [4; 2]; DArr true [4; 2]] in
  let y' := DList [DArr true [4; 2]; DArr true [4; 1]] in
  let n0 := fresh KOffline None None in
  (exists r, check_xy n0 x (Some y) true false true = ROk r) /\
  step n0 (OFit x (Some y)) = Err PInit ValueError (clean_buffers n0) /\
  step n0 (OPartialFit x (Some y)) = Err PInit ValueError n0 /\
  step n0 (OFit (DList [DArr true [4; 3]; DArr true [4; 3]]) (Some y')) = Err PInit ValueError (clean_buffers n0) /\
  forall n, input_dim n = Some [3] -> check_xy n x (Some y) true false true = RErr ValueError.
Proof.
  repeat split; try (vm_compute; reflexivity); [vm_compute; eexists; reflexivity|].
  intros n I. unfold check_xy. rewrite I. reflexivity.
Qed.

Print Assumptions C12_dims_immutable.
Print Assumptions C12_reject_before_change.
Print Assumptions C12_teacher_mismatch_rejected.
Print Assumptions C12_no_teacher_left_behind.
Print Assumptions C12_train_clears_teacher.
Print Assumptions C12_unsupported_rejected.
Print Assumptions C12_unsupported_cases.
Print Assumptions C12_model_fit_unsupported.
Print Assumptions C12_wrong_feature_rejected.
Print Assumptions C12_non_numeric_rejected.
Print Assumptions C12_non_array_rejected.
Print Assumptions C12_wrong_target_rejected.
Print Assumptions C12_dimension_test_exact.
Print Assumptions C12_too_many_dims_rejected.
Print Assumptions C12_wrong_input_count_rejected.
Print Assumptions C12_rows.
Print Assumptions C12_rows_call.
Print Assumptions C12_rows_train.
Print Assumptions C12_state_shape.
Print Assumptions C12_state_shape_history.
Print Assumptions C12_link_dims.
Print Assumptions C12_link_operands.
Print Assumptions C12_delay_state_refuted.
Print Assumptions C12_sklearn_state_refuted.
Print Assumptions C12_too_many_dims_prefix_refuted.
Print Assumptions C12_3d_input_accepted_refuted.
Print Assumptions C12_ragged_uninitialised_rejected.
Print Assumptions C12_uninitialised_teacher_stays_refuted.

(* ================================================================================================================ *)
(* Tie (T) for the validation code: check_vector (utils/validation.py), check_one_sequence and check_n_sequences (_base.py) as
   translated on this run from their current source text (coq/gen/Gen_validation.v, translator tools/vlib/py2coq_val.py, over
   the Python/numpy vocabulary of base/ValPrelude.v: isinstance on ndarray / Number / list, x.shape, x.dtype, np.asarray of a
   number, np.atleast_2d, tuple indexing, len, loops over a list of arrays or the rows of an array, raise) ARE the functions of
   model/Shapes.v the theorems above are about -- same accepted / rejected class, same returned descriptor, for ALL descriptors. *)
From RV Require Import base.ValPrelude gen.Gen_validation proofs.Gen_validation_eq.

Theorem C12_generated_check_vector (x : data) (allow_timespans : bool) :
  Gen_validation.check_vector x true allow_timespans = as_array (Shapes.check_vector x allow_timespans).
Proof. exact (gen_check_vector_eq x allow_timespans). Qed.

(* expected dimension None / a tuple of ints (emb), or a bare int (normalised to the 1-tuple by the code) *)
Theorem C12_generated_check_one_sequence (x : data) (expected : option (list nat)) (allow_timespans : bool) :
  Gen_validation.check_one_sequence x (emb expected) allow_timespans
  = as_array (Shapes.check_one_sequence x expected allow_timespans).
Proof. exact (gen_check_one_sequence_eq x expected allow_timespans). Qed.

Theorem C12_generated_check_one_sequence_int (x : data) (d : nat) (allow_timespans : bool) :
  Gen_validation.check_one_sequence x (PInt d) allow_timespans
  = as_array (Shapes.check_one_sequence x (Some [d]) allow_timespans).
Proof. exact (gen_check_one_sequence_int x d allow_timespans). Qed.

Print Assumptions C12_generated_check_vector.
Print Assumptions C12_generated_check_one_sequence.
Print Assumptions C12_generated_check_one_sequence_int.

(* check_n_sequences, for ALL descriptors (lists nested to any depth), every expected dimension (none, an int, a tuple of any
   length: one entry per input of a Concat) and all three flags -- no hypothesis.  The one test the translator PINS textually
   (the np.unique-based comparison of the inputs' timesteps) is given its meaning by ValPrelude.timesteps_differ, and that
   meaning is proved to be "not all timestep tuples are equal" (the model's all_same). *)
Theorem C12_generated_check_n_sequences (x : data) (expected : option (list nat)) (ans ani ats : bool) :
  Gen_validation.check_n_sequences x (emb expected) ans ani ats = Shapes.check_n_sequences x expected ans ani ats.
Proof. exact (gen_check_n_sequences_all x expected ans ani ats). Qed.

Theorem C12_generated_check_n_sequences_int (x : data) (d : nat) (ans ani ats : bool) :
  Gen_validation.check_n_sequences x (PInt d) ans ani ats = Shapes.check_n_sequences x (Some [d]) ans ani ats.
Proof. exact (gen_check_n_sequences_int x d ans ani ats). Qed.

Theorem C12_generated_timestep_test (ts : list (list nat)) :
  ts <> [] -> timesteps_differ ts = ROk (negb (all_same ts)).
Proof. exact (timesteps_test_spec_holds ts). Qed.

(* Transfer to the operations: what the TRANSLATED check rejects, run / call reject in the checking phase with the same
   exception class and the node literally unchanged (C12_reject_before_change is then a statement about the translated check);
   what it accepts is what the model's check_xy hands to the rest of the operation; a target it rejects is rejected by check_xy.
   (_check_node_io / check_xy themselves -- the teacher-node dispatch -- are NOT translated: tie (H) only.) *)
Theorem C12_generated_run_rejects (n : node) (x : data) (e : exn) : is_node x = false ->
  Gen_validation.check_n_sequences x (emb (input_dim n)) false true true = RErr e ->
  step n (ORun x) = Err PCheck e n.
Proof. exact (gen_run_rejects n x e). Qed.

Theorem C12_generated_call_rejects (n : node) (x : data) (e : exn) : is_node x = false ->
  Gen_validation.check_n_sequences x (emb (input_dim n)) false true false = RErr e ->
  step n (OCall x) = Err PCheck e n.
Proof. exact (gen_call_rejects n x e). Qed.

Theorem C12_generated_check_x_accepts (n : node) (x x' : data) (ans ani ats : bool) : is_node x = false ->
  Gen_validation.check_n_sequences x (emb (input_dim n)) ans ani ats = ROk x' ->
  check_xy n x None ans ani ats = ROk (x', YNone).
Proof. exact (gen_check_x_accepts n x x' ans ani ats). Qed.

Theorem C12_generated_check_y_rejects (n : node) (x x' y : data) (e : exn) (ans ani ats : bool) :
  is_node x = false -> is_node y = false ->
  Gen_validation.check_n_sequences x (emb (input_dim n)) ans ani ats = ROk x' ->
  Gen_validation.check_n_sequences y (emb (option_map (fun d => [d]) (output_dim n))) ans false ats = RErr e ->
  check_xy n x (Some y) ans ani ats = RErr e.
Proof. exact (gen_check_y_rejects n x x' y e ans ani ats). Qed.

(* non-vacuity: the translated code, executed -- a wrong feature count, a bool array, a list where none is allowed, a 4-D array,
   a ragged pair of inputs for a Concat, an accepted pair, and an accepted 1-D input reshaped to (1, 3) *)
Example C12_generated_example :
  Gen_validation.check_n_sequences (DArr true [5; 4]) (PInt 3) false true true = RErr ValueError /\
  Gen_validation.check_n_sequences (DArr false [5; 3]) (PInt 3) false true true = RErr TypeError /\
  Gen_validation.check_n_sequences (DList [DArr true [5; 3]]) (PInt 3) false true true = RErr TypeError /\
  Gen_validation.check_n_sequences (DArr true [2; 2; 5; 3]) (PInt 3) true true true = RErr ValueError /\
  Gen_validation.check_n_sequences (DList [DArr true [5; 3]; DArr true [4; 2]]) (emb (Some [3; 2])) false true true = RErr ValueError /\
  Gen_validation.check_n_sequences (DList [DArr true [5; 3]; DArr true [5; 2]]) (emb (Some [3; 2])) false true true
    = ROk (DList [DArr true [5; 3]; DArr true [5; 2]]) /\
  Gen_validation.check_n_sequences (DArr true [3]) (PInt 3) false true false = ROk (DArr true [1; 3]).
Proof. vm_compute. repeat split. Qed.

Print Assumptions C12_generated_check_n_sequences.
Print Assumptions C12_generated_check_n_sequences_int.
Print Assumptions C12_generated_timestep_test.
Print Assumptions C12_generated_run_rejects.
Print Assumptions C12_generated_call_rejects.
Print Assumptions C12_generated_check_x_accepts.
Print Assumptions C12_generated_check_y_rejects.

(* ================================================================================================================ *)
(* Tie (T), second unit: register_teacher, _check_node_io and check_xy (_base.py) as translated on this run from their current source
   text (coq/gen/Gen_validation2.v, translator tools/vlib/py2coq_val2.py, over the node-object vocabulary of base/ValPrelude2.v: nodes as
   records -- name, input_dim / output_dim, is_trained_online, fitted, the _teacher slot --, a caller that is a Node or a Model, data
   that is None | a descriptor | a dict keyed by node names, and the ONE mutation  caller._teacher = ..  as an explicit change of a
   heap of node objects that every outcome, exceptions included, returns).
   For a NODE caller the translated check_xy IS Shapes.check_xy, the function every theorem on `step` above goes through: same
   refusals (same exception class, heap untouched), same checked descriptors, and a teacher node given as target is registered exactly
   when the model answers YTeacher (then y_new is None).  `pn_of name fitted slot n` is the Python node object of the model node n,
   for ANY name, `fitted` flag and content of the teacher slot.
   The MODEL-caller branch of _check_node_io (receiver_nodes, mappings, the `fitted` exemption) has no counterpart in Shapes.v: for it,
   only statements about the generated code itself are made (the frame lemma of register_teacher, and the executed refusal below). *)
From RV Require Import base.ValPrelude2 gen.Gen_validation2 proofs.Gen_validation2_eq.

Theorem C12_generated_check_xy_node (n : node) (name : nat) (fitted : bool) (slot : option data) (x : data) (y : option data)
        (ans ani ats : bool) (h : heap) :
  Gen_validation2.check_xy (CNode (pn_of name fitted slot n)) (VData x) (opt_val y) PNone PNone ans ani ats h
  = spec_xy (pn_of name fitted slot n) (Shapes.check_xy n x y ans ani ats) h.
Proof. exact (gen_check_xy_node n name fitted slot x y ans ani ats h). Qed.

(* a call the translated check_xy refuses leaves NO teacher registered (the heap is the one it was given), and is a refusal of the model *)
Theorem C12_generated_check_xy_refusal_frame (n : node) (name : nat) (fitted : bool) (slot : option data) (x : data) (y : option data)
        (ans ani ats : bool) (h h' : heap) (e : exn) :
  Gen_validation2.check_xy (CNode (pn_of name fitted slot n)) (VData x) (opt_val y) PNone PNone ans ani ats h = (h', RErr e) ->
  h' = h /\ Shapes.check_xy n x y ans ani ats = RErr e.
Proof. exact (gen_check_xy_node_refusal_frame n name fitted slot x y ans ani ats h h' e). Qed.

(* ... and Node.train refuses it in the checking phase with the node literally unchanged (flags of Node.train: no list, one input) *)
Theorem C12_generated_check_xy_train_rejects (n : node) (name : nat) (fitted : bool) (slot : option data) (x : data) (y : option data)
        (h h' : heap) (e : exn) : supported (nkind n) (OTrain x y) = true ->
  Gen_validation2.check_xy (CNode (pn_of name fitted slot n)) (VData x) (opt_val y) PNone PNone false false true h = (h', RErr e) ->
  h' = h /\ step n (OTrain x y) = Err PCheck e n.
Proof. exact (gen_check_xy_train_rejects n name fitted slot x y h h' e). Qed.

(* the translated register_teacher, for ANY caller (Node or Model), teacher object and expected dimension: a refusal changes nothing *)
Theorem C12_generated_register_teacher_frame (c : pycaller) (t : data) (ed : pyobj) (h h' : heap) (e : exn) :
  Gen_validation2.register_teacher c t ed h = (h', RErr e) -> h' = h.
Proof. exact (gen_register_teacher_refusal_frame c t ed h h' e). Qed.

(* MODEL caller, executed on the generated code: two online readouts (names 1, 2; output_dim 1), the target mapping gives the first an
   initialised teacher node and the second a 3-wide array -- the call is refused with ValueError AFTER the teacher was registered on
   the first readout, and check_xy does not undo it: the frame property above does NOT extend to Model callers (the caller, Model.train,
   unregisters in an `except` since 3f98ca9; finding late-rejection:teacher-stays-registered:model) *)
Theorem C12_generated_check_xy_model_refusal_keeps_teacher_refuted :
  exists (c : pycaller) (x y : pyval) (h h' : heap) (e : exn),
    Gen_validation2.check_xy c x y PNone PNone false false true h = (h', RErr e) /\ h' <> h.
Proof.
  exists (CModel ex_model), (VData (DArr true [12; 3])), (VMap [(1, DTeacher (Some 1)); (2, DArr true [12; 3])]), [ex_a; ex_b].
  eexists. exists ValueError. split; [exact gen_check_xy_model_refusal_keeps_teacher | discriminate].
Qed.

(* non-vacuity: the translated code, executed for an online readout (name 7, input 3, output 2) -- a teacher node of the right width is
   registered and y_new is None; one of the wrong width is refused with nothing registered; an offline node refuses any teacher; a node as
   INPUT is refused; plain data is checked against input_dim / output_dim *)
Example C12_generated_check_xy_example :
  let on := mkPyNode 7 (PInt 3) (PInt 2) true false None in
  let off := mkPyNode 8 (PInt 3) (PInt 2) false false None in
  Gen_validation2.check_xy (CNode on) (VData (DArr true [5; 3])) (VData (DTeacher (Some 2))) PNone PNone false false true [on]
    = ([with_teacher on (Some (DTeacher (Some 2)))], ROk (VData (DArr true [5; 3]), VNone)) /\
  Gen_validation2.check_xy (CNode on) (VData (DArr true [5; 3])) (VData (DTeacher (Some 4))) PNone PNone false false true [on]
    = ([on], RErr ValueError) /\
  Gen_validation2.check_xy (CNode off) (VData (DArr true [5; 3])) (VData (DTeacher (Some 2))) PNone PNone true false true [off]
    = ([off], RErr TypeError) /\
  Gen_validation2.check_xy (CNode on) (VData (DTeacher (Some 3))) VNone PNone PNone false true true [on] = ([on], RErr TypeError) /\
  Gen_validation2.check_xy (CNode on) (VData (DArr true [5; 3])) (VData (DArr true [5; 3])) PNone PNone false false true [on]
    = ([on], RErr ValueError) /\
  Gen_validation2.check_xy (CNode on) (VData (DArr true [5; 3])) (VData (DArr true [5; 2])) PNone PNone false false true [on]
    = ([on], ROk (VData (DArr true [5; 3]), VData (DArr true [5; 2]))).
Proof. vm_compute. repeat split. Qed.

Print Assumptions C12_generated_check_xy_node.
Print Assumptions C12_generated_check_xy_refusal_frame.
Print Assumptions C12_generated_check_xy_train_rejects.
Print Assumptions C12_generated_register_teacher_frame.
Print Assumptions C12_generated_check_xy_model_refusal_keeps_teacher_refuted.

(* _check_node_io with io_type = "input" as translated, for ANY caller (Node or Model), data (descriptor, dict, None), receiver nodes and
   flags, accepted or refused: the heap of node objects is returned as given -- checking INPUTS never registers a teacher *)
Theorem C12_generated_check_node_io_input_frame (x : pyval) (rn : option (list pynode)) (ed : pyobj) (c : pycaller)
        (ans ani ats : bool) (h : heap) :
  fst (Gen_validation2.check_node_io x rn ed c IoInput ans ani ats h) = h.
Proof. exact (gen_check_node_io_input_frame x rn ed c ans ani ats h). Qed.

(* the Model-caller branch executed (no hand model of it in Shapes.v): input node ex_i0; online readouts ex_a, ex_b (output 1); offline
   readouts ex_f (already fitted) and ex_g (not fitted), output 2; flags of Model.train *)
Example C12_generated_check_xy_model_example :
  (* ex_a: teacher registered, its entry popped; ex_b: array checked against OUTPUT_dim; ex_f: no target but fitted -- skipped *)
  Gen_validation2.check_xy (ex_mdl [ex_a; ex_b; ex_f]) ex_X (VMap [(1, DTeacher (Some 1)); (2, DArr true [12; 1])]) PNone PNone false false true
                           [ex_i0; ex_a; ex_b; ex_f]
  = ([ex_i0; with_teacher ex_a (Some (DTeacher (Some 1))); ex_b; ex_f], ROk (VMap [(0, DArr true [12; 3])], VMap [(2, DArr true [12; 1])])) /\
  (* ex_g: no target and not fitted -- ValueError *)
  snd (Gen_validation2.check_xy (ex_mdl [ex_a; ex_b; ex_g]) ex_X (VMap [(1, DTeacher (Some 1)); (2, DArr true [12; 1])]) PNone PNone false false true
                                [ex_i0; ex_a; ex_b; ex_g]) = RErr ValueError /\
  (* a teacher node for an offline readout -- TypeError, nothing registered *)
  Gen_validation2.check_xy (ex_mdl [ex_f]) ex_X (VMap [(3, DTeacher (Some 2))]) PNone PNone false false true [ex_i0; ex_f]
  = ([ex_i0; ex_f], RErr TypeError) /\
  (* every target is a teacher node -- y_new is None *)
  Gen_validation2.check_xy (ex_mdl [ex_a]) ex_X (VMap [(1, DTeacher (Some 1))]) PNone PNone false false true [ex_i0; ex_a]
  = ([ex_i0; with_teacher ex_a (Some (DTeacher (Some 1)))], ROk (VMap [(0, DArr true [12; 3])], VNone)) /\
  (* an INPUT mapping without the input node -- ValueError, fitted or not *)
  snd (Gen_validation2.check_xy (ex_mdl [ex_f]) (VMap [(9, DArr true [12; 3])]) VNone PNone PNone false false true [ex_i0; ex_f]) = RErr ValueError /\
  (* a target that is not a mapping is given to every trainable node *)
  snd (Gen_validation2.check_xy (ex_mdl [ex_a; ex_b]) ex_X (VData (DArr true [12; 1])) PNone PNone false false true [ex_i0; ex_a; ex_b])
  = ROk (VMap [(0, DArr true [12; 3])], VMap [(1, DArr true [12; 1]); (2, DArr true [12; 1])]).
Proof. exact gen_check_xy_model_examples. Qed.

Print Assumptions C12_generated_check_node_io_input_frame.
