(* C08 — stateful=False, state contexts, reset and from_state mean what they say.  Statement-only file. *)
From Coq Require Import List Arith Bool QArith Lia.
From RV Require Import base.Num base.LA model.ModelSem model.Kinds model.Windows proofs.ModelSem_proofs.
Import ListNotations.
Close Scope Q_scope.

Section C08.
Context {F : Type} `{Num F}.
Notation vec := (list F).
Notation env := (@env F).
Notation model := (@model F).

(* A stateful=False operation (every combination of reset / from_state) leaves the current state of EVERY node
   unchanged - whether it completes or a forward function raises part-way ([ok] is arbitrary). *)
Theorem C08_stateless_preserves_state (m : model) reset from steps (e e' : env) outs ok :
  run_op m false reset from steps e = (e', outs, ok) -> forall n, st (e' n) = st (e n).
Proof. exact (stateless_preserves_state m reset from steps e e' outs ok). Qed.

(* Repeating it gives the same result, provided the operation did not change any hidden memory
   (always the case for nodes that keep none; see the refutation below for those that do). *)
Theorem C08_stateless_repeatable (m : model) reset from steps (e e1 e2 : env) o1 o2 k1 k2 :
  run_op m false reset from steps e = (e1, o1, k1) -> (forall n, hid (e1 n) = hid (e n)) ->
  run_op m false reset from steps e1 = (e2, o2, k2) -> (forall n, e1 n = e n) /\ o2 = o1 /\ k2 = k1.
Proof. exact (stateless_repeatable m reset from steps e e1 e2 o1 o2 k1 k2). Qed.

(* reset: every node of the model gets the zero state of its output dimension - the state of a freshly initialised
   node; hidden memory is not touched (so the node behaves like a fresh one iff it keeps no hidden memory). *)
Theorem C08_reset (m : model) (e : env) n :
  hid (reset_op m e n) = hid (e n) /\
  (forall d, In d (order m) -> NoDup (map nid (order m)) -> st (reset_op m e (nid d)) = vzeros (odim d)).
Proof. exact (reset_op_spec m e n). Qed.

(* from_state / reset=True: the operation is the plain operation started from exactly the given states *)
Theorem C08_from_state (m : model) stateful reset from steps (e : env) :
  run_op m stateful reset from steps e =
    let '(e1, outs, ok) := run_steps m steps (start_env m reset from e) in
    ((if stateful then e1 else restore_st (ids_of m) e e1), outs, ok).
Proof. exact eq_refl. Qed.
Theorem C08_start_env (m : model) reset from (e : env) d :
  In d (order m) -> NoDup (map nid (order m)) ->
  st (start_env m reset from e (nid d)) =
    match from (nid d) with Some v => v | None => if reset then vzeros (odim d) else st (e (nid d)) end.
Proof. exact (start_env_spec m reset from e d). Qed.
End C08.

(* Hidden memory (kept in node params, outside the state): a Delay line run with stateful=False still shifts its buffer,
   so the same stateless operation repeated gives a different result, and reset() does not make it fresh. *)
Definition ex8_model : @model Q := mkModel [mkND 0 (kfwd KDelay) None 1] (fun _ => []) [0].
Definition ex8_env : @env Q := fun _ => mkNS [0%Q] [[0%Q]].
Definition ex8_steps := [((fun n : nat => Some [5%Q]), (fun _ : nat => @None (list Q)))].
Theorem C08_hidden_memory_refuted :
  let '(e1, o1, _) := run_op ex8_model false false (fun _ => None) ex8_steps ex8_env in
  let '(_, o2, _) := run_op ex8_model false false (fun _ => None) ex8_steps e1 in
  o1 <> o2 /\
  (let '(_, o3, _) := run_op ex8_model true false (fun _ => None) ex8_steps (reset_op ex8_model e1) in o3 <> o1).
Proof. vm_compute. split; discriminate. Qed.

Print Assumptions C08_stateless_preserves_state.
Print Assumptions C08_stateless_repeatable.
Print Assumptions C08_reset.
Print Assumptions C08_from_state.
Print Assumptions C08_start_env.
Print Assumptions C08_hidden_memory_refuted.


(* ---- the same on the LOW-LEVEL model (model/ProxySem.v: explicit `_state_proxy` / clamp management) ----
   A stateful=False Model.run from a state at rest leaves every node's `_state` as it was and leaves no proxy and no
   clamp behind, whether it completes or a forward function raises part-way.  Through the refinement to ModelSem. *)
From RV Require Import model.ProxySem proofs.Refine_proofs.
Theorem C08_lowlevel_stateless_preserves_state {F : Type} `{Num F} (m : @model F) reset from steps (el el' : @lenv F) outs ok :
  NoDup (ids_of m) -> at_rest el ->
  run_op_ll m false reset from steps el = (el', outs, ok) ->
  (forall n, lst (el' n) = lst (el n)) /\ at_rest el'.
Proof. exact (stateless_preserves_state_ll m reset from steps el el' outs ok). Qed.

(* non-vacuity: a run that fails at its second step (KBoom 2), stateless: state 0 is back, nothing is left in the proxies *)
Example C08_lowlevel_example :
  let m : @model Q := mkModel [mkND 0 (kfwd (KBoom 2)) None 1] (fun _ => []) [0] in
  let steps := [((fun n : nat => Some [5%Q]), (fun _ : nat => @None (list Q))); ((fun n : nat => Some [6%Q]), (fun _ : nat => @None (list Q)))] in
  (let '(el, outs, ok) := run_op_ll m false false (fun _ => None) steps (inject (fun _ => mkNS [0%Q] [[0%Q]])) in
   (ok, outs, lst (el 0), proxy (el 0), clamp (el 0))) = (false, [[[5%Q]]], [0%Q], None, None).
Proof. vm_compute. reflexivity. Qed.

Print Assumptions C08_lowlevel_stateless_preserves_state.


(* ==================================================================================================================
   Q-to-R bridge for the framework model (proofs/QR_bridge_Model.v).
   The theorems above hold for every [Num] instance, in particular R; the correspondence run of C08 executes the shared
   runner run/RunModel.v ([chk_hist_both]: model/ModelSem.v and model/ProxySem.v with the node kinds of model/Kinds.v) at
   F := Q.  For rational parameters and data, every combination of stateful / reset / from_state, Model.reset, and a run
   that fails part-way: executed at Q and then embedded with Q2R = executed at R on the embedded data (same success flag,
   embedded outputs, point-wise embedded states, hidden memory, proxies and clamps).  The bridge itself uses no functional
   extensionality (environments and input maps are related point-wise), no shape hypothesis, no side condition.
   After this block the cone of this file imports Reals; the theorems above are unaffected (their Print Assumptions
   output is unchanged: closed, except C08_stateless_repeatable which used functional extensionality before). *)
From Coq Require Import Reals Qreals.
From RV Require Import base.NumHom run.RunModel proofs.QR_bridge_Model.

(* the states an operation starts from (from_state / reset), the restoration of stateful=False, Model.reset *)
Theorem C08_Qstate_contexts_embed (m : @model Q) (mR : @model R) (e : @env Q) (eR : @env R) :
  m_rel Q2R m mR -> env_rel Q2R e eR ->
  (forall reset from fromR, opt_rel Q2R from fromR -> env_rel Q2R (start_env m reset from e) (start_env mR reset fromR eR)) /\
  (forall ids (snap : @env Q) (snapR : @env R), env_rel Q2R snap snapR -> env_rel Q2R (restore_st ids snap e) (restore_st ids snapR eR)) /\
  env_rel Q2R (reset_op m e) (reset_op mR eR).
Proof.
  intros Hm He. split; [|split]; intros.
  - apply (start_env_rel Q2R); assumption.
  - apply (restore_st_rel Q2R); assumption.
  - apply (reset_op_rel Q2R); assumption.
Qed.

(* Model.run / Node.run on one sequence with every combination of the flags, including a failing forward function:
   final environment (restored or not), the rows emitted before the failure, the success flag *)
Theorem C08_Qrun_op_embeds_in_Rrun_op (m : @model Q) (mR : @model R) stateful reset from fromR steps stepsR (e : @env Q) (eR : @env R) :
  m_rel Q2R m mR -> opt_rel Q2R from fromR -> steps_rel Q2R steps stepsR -> env_rel Q2R e eR ->
  let r := run_op m stateful reset from steps e in
  let rR := run_op mR stateful reset fromR stepsR eR in
  env_rel Q2R (fst (fst r)) (fst (fst rR)) /\ snd (fst rR) = map qm2r (snd (fst r)) /\ snd rR = snd r.
Proof. exact (run_op_rel Q2R m mR stateful reset from fromR steps stepsR e eR). Qed.

(* the low-level mechanism: Model.run, Model.call, Model.reset with explicit `_state_proxy` / clamp management; being at rest
   (no proxy, no clamp left) is the same fact on both sides *)
Theorem C08_Qlowlevel_embeds (m : @model Q) (mR : @model R) stateful reset from fromR (el : @lenv Q) (elR : @lenv R) :
  m_rel Q2R m mR -> opt_rel Q2R from fromR -> lenv_rel Q2R el elR ->
  (forall steps stepsR, steps_rel Q2R steps stepsR ->
     let r := run_op_ll m stateful reset from steps el in
     let rR := run_op_ll mR stateful reset fromR stepsR elR in
     lenv_rel Q2R (fst (fst r)) (fst (fst rR)) /\ snd (fst rR) = map qm2r (snd (fst r)) /\ snd rR = snd r) /\
  (forall ext extR forced forcedR, opt_rel Q2R ext extR -> opt_rel Q2R forced forcedR ->
     let r := call_op_ll m stateful reset from ext forced el in
     let rR := call_op_ll mR stateful reset fromR extR forcedR elR in
     lenv_rel Q2R (fst (fst r)) (fst (fst rR)) /\ snd (fst rR) = map qm2r (snd (fst r)) /\ snd rR = snd r) /\
  lenv_rel Q2R (reset_op_ll m el) (reset_op_ll mR elR) /\
  (forall nodes, at_restbR nodes elR = at_restb nodes el).
Proof.
  intros Hm Hf He. split; [|split; [|split]]; intros.
  - apply (run_op_ll_rel Q2R); assumption.
  - apply (call_op_ll_rel Q2R); assumption.
  - apply (reset_op_ll_rel Q2R); assumption.
  - apply at_restb_R; assumption.
Qed.

(* the verdict of the correspondence runner is a statement about the R-instance history *)
Theorem C08_chk_hist_both_is_about_R_model (nodes : list snode) (models : list smodel) (l : list (op * obs)) :
  chk_hist_both nodes models l = true ->
  topo_ok models = true /\ hist_okR nodes models l (init_envR nodes) /\ hist_okR_ll nodes models l (init_envR_ll nodes).
Proof. exact (chk_hist_both_is_about_R_model nodes models l). Qed.
(* ... where, on the low-level model, [hist_okR_ll] reads for a non-empty history: *)
Theorem C08_hist_okR_ll_spelled (nodes : list snode) (models : list smodel) (o : op) (ob : obs) rest (el : @lenv R) :
  hist_okR_ll nodes models ((o, ob) :: rest) el <->
  (let r := run_oneR_ll nodes models o el in
   snd r = ook ob /\
   (snd r = true -> Forall2 (Forall2 (Forall2 rclose)) (snd (fst r)) (map qm2r (oouts ob))) /\
   Forall (fun p => Forall2 rclose (lst (fst (fst r) (fst p))) (qv2r (snd p))) (ostates ob) /\
   (forall b, orest ob = Some b -> at_restbR nodes (fst (fst r)) = b) /\
   hist_okR_ll nodes models rest (fst (fst r))).
Proof. exact (iff_refl _). Qed.

(* non-vacuity: Reservoir with feedback from its readout -> Ridge forward -> a node that raises at its third call.
   stateful run; stateless run from a given state with a forced (shifted) feedback; a stateless call with reset that FAILS
   (success flag false, states as before); Model.reset.  The runner answers true, hence so does the R-model history *)
Definition exB8_nodes : list snode :=
  [mkSN 0 (KResFb [[1#2]] [[1#1]] [0#1] [1#1] AId [[1#2]] AHalf)%Q (Some (FbNode 1)) 1 [];
   mkSN 1 (KLin [[2#1]] [1#2])%Q None 1 [];
   mkSN 2 (KBoom 3) None 1 [[0#1]]%Q].
Definition exB8_models : list smodel := [mkSM [0; 1; 2] [(1, [0]); (2, [1])] [2]].
Definition exB8_hist : list (op * obs) :=
  [(OpRun 0 true false [] [[(0%nat, [1#1])]]%Q false [],
    mkObs true [[[5#2]]]%Q [(0%nat, [1#1]); (1%nat, [5#2]); (2%nat, [5#2])]%Q (Some true));
   (OpRun 0 false false [(0%nat, [3#1])]%Q [[(0%nat, [1#2])]]%Q true [(0%nat, [[1#1]])]%Q,
    mkObs true [[[7#1]]]%Q [(0%nat, [1#1]); (1%nat, [5#2]); (2%nat, [5#2])]%Q (Some true));
   (OpCall 0 false true [] [(0%nat, [1#1])]%Q [],
    mkObs false [] [(0%nat, [1#1]); (1%nat, [5#2]); (2%nat, [5#2])]%Q (Some true));
   (OpReset 0, mkObs true [] [(0%nat, [0#1]); (1%nat, [0#1]); (2%nat, [0#1])]%Q (Some true))].
Example C08_bridge_example :
  chk_hist_both exB8_nodes exB8_models exB8_hist = true /\
  hist_okR exB8_nodes exB8_models exB8_hist (init_envR exB8_nodes) /\
  hist_okR_ll exB8_nodes exB8_models exB8_hist (init_envR_ll exB8_nodes).
Proof.
  assert (E : chk_hist_both exB8_nodes exB8_models exB8_hist = true) by (vm_compute; reflexivity).
  split; [exact E | apply (C08_chk_hist_both_is_about_R_model _ _ _ E)].
Qed.

Print Assumptions C08_Qstate_contexts_embed.
Print Assumptions C08_Qrun_op_embeds_in_Rrun_op.
Print Assumptions C08_Qlowlevel_embeds.
Print Assumptions C08_chk_hist_both_is_about_R_model.
Print Assumptions C08_hist_okR_ll_spelled.


(* ==================================================================================================================
   Tie (T) for the state machinery (added to the correspondence tie (H) of the theorems above).
   gen/Gen_state.v is regenerated on every run by tools/vlib/py2coq_state.py from the CURRENT text of Node.zero_state / state / reset /
   _flag_feedback / with_state (reservoirpy/node.py), call (reservoirpy/_base.py) and Model.reset / Model.with_state
   (reservoirpy/model.py), over the vocabulary of base/CtxPrelude.v: a computation is heap -> heap * outcome A (the heap of node objects
   survives an exception), `try: .. finally: ..` is [try_finally], a @contextmanager generator is a function of the body of the `with`
   statement, which stands where the generator yields, an ExitStack is the nesting of the contexts entered on it.
   proofs/Gen_state_eq.v proves what the generated functions do for EVERY body and both of its outcomes, and that this is
   start_env / restore_st / reset_op / run_op of model/ModelSem.v, the functions the theorems above are stated about. *)
From RV Require Import base.CtxPrelude gen.Gen_state proofs.Gen_state_eq.

(* the generated Node.with_state is the context manager of an explicit (enter, exit) pair: enter = refuse an uninitialised node, save
   `_state`, reset(to_state = given | zero if reset | current); exit (the `finally`) = put `_state` back unless stateful *)
Theorem C08_generated_with_state_is_enter_exit {F : Type} `{Num F} {P A : Type} (check_ok : option nat -> list F -> bool)
        n state stateful reset (body : M (@heap F P) A) (h : @heap F P) :
  GenState.Node_with_state check_ok n state stateful reset body h =
    with_cm (ws_enter check_ok n state reset) (ws_exit n stateful) body h.
Proof. exact (gen_with_state_is_cm check_ok n state stateful reset body h). Qed.

(* stateful=False: `_state` of the node after the `with` block is `_state` before it -- for every body, whether it returned or raised,
   every state / reset argument, accepted by check_one_sequence or not.  (Comes out of the translated try/finally.) *)
Theorem C08_generated_with_state_restores {F : Type} `{Num F} {P A : Type} (check_ok : option nat -> list F -> bool)
        n state reset (body : M (@heap F P) A) (h h' : @heap F P) r :
  GenState.Node_with_state check_ok n state false reset body h = (h', r) -> a_state (h' n) = a_state (h n).
Proof. exact (gen_with_state_restores check_ok n state reset body h h' r). Qed.

Print Assumptions C08_generated_with_state_is_enter_exit.
Print Assumptions C08_generated_with_state_restores.

(* a from_state refused by check_one_sequence: the body is not run, nothing has been written; an uninitialised node: RuntimeError *)
Theorem C08_generated_with_state_rejected {F : Type} `{Num F} {P A : Type} (check_ok : option nat -> list F -> bool)
        n state stateful reset (body : M (@heap F P) A) (h : @heap F P) :
  (a_is_initialized (h n) = false -> GenState.Node_with_state check_ok n state stateful reset body h = (h, Exc RuntimeError)) /\
  (a_is_initialized (h n) = true -> enter_check check_ok (h n) state reset = false ->
   GenState.Node_with_state check_ok n state stateful reset body h = (h, Exc CheckError)).
Proof.
  split; [exact (gen_with_state_uninitialized check_ok n state stateful reset body h)
         |exact (gen_with_state_rejected check_ok n state stateful reset body h)].
Qed.

(* _base.call(node, x, from_state, stateful, reset) with stateful=False: `_state` afterwards is `_state` before, whether the forward
   function returned or raised, for every forward function *)
Theorem C08_generated_call_stateless_restores {F : Type} `{Num F} {P X : Type} (check_ok : option nat -> list F -> bool)
        (fw : nat -> @obj F P -> X -> option (list F * P)) n x from reset (h h' : @heap F P) r :
  GenState.call check_ok fw n x from false reset h = (h', r) -> a_state (h' n) = a_state (h n).
Proof. exact (gen_call_stateless_restores check_ok fw n x from reset h h' r). Qed.

(* _base.call = ModelSem's run_op on the one-node model and one step, for every combination of stateful / reset / from_state and both
   outcomes of the forward function: same states and hidden memory afterwards, same output row, same success flag; `_fb_flag` is
   flipped exactly when the forward function returned.  ([heap_good]: the node is initialised, `_state` an array, `_output_dim` the
   model's; [starts_accepted]: the array the entry hands to check_one_sequence is accepted.) *)
Theorem C08_generated_call_is_run_op {F : Type} `{Num F} (check_ok : option nat -> list F -> bool)
        (d : @ndesc F) par from stateful reset ext forced (h : @heap F (@hidden F)) :
  heap_good (one_node d par) h -> starts_accepted check_ok (one_node d par) reset from h ->
  let m := one_node d par in
  let e0 := start_env m reset from (habs h) in
  let x := (gather m e0 ext (nid d), fbvalue d (proxies m forced e0) (clamps m forced)) in
  let '(h', r) := GenState.call check_ok (fw_of d) (nid d) x (from (nid d)) stateful reset h in
  let '(e', outs, ok) := run_op m stateful reset from [(ext, forced)] (habs h) in
  (forall k, habs h' k = e' k) /\
  a_fb_flag (h' (nid d)) = (if ok then negb (a_fb_flag (h (nid d))) else a_fb_flag (h (nid d))) /\
  match r with Ok s => ok = true /\ outs = [[s]] | Exc _ => ok = false /\ outs = [] end.
Proof. exact (gen_call_is_run_op check_ok d par from stateful reset ext forced h). Qed.

(* Model.with_state(state, stateful, reset) -- snapshot path (state None, no reset) and ExitStack path alike -- around EVERY body:
   the body runs from a heap that stands for start_env m reset state (C08_from_state / C08_start_env), and afterwards the heap stands
   for the body's final environment when stateful, else for restore_st (ids_of m) <the environment before> <the body's final
   environment> -- with the body's outcome [r], Ok or Exc, handed on unchanged: "restored unless stateful, also on failure"
   (C08_stateless_preserves_state is this restore_st).  The contexts write nothing but `_state`. *)
Theorem C08_generated_model_with_state_is_model {F : Type} `{Num F} {A : Type} (check_ok : option nat -> list F -> bool)
        (m : @model F) (state : @mstate F) stateful reset (body : M (@heap F (@hidden F)) A) (h : @heap F (@hidden F)) :
  NoDup (ids_of m) -> heap_good m h -> mstate_is_ndarray state = false ->
  starts_accepted check_ok m reset (mstate_dict state) h ->
  (forall h0 k, a_output_dim (fst (body h0) k) = a_output_dim (h0 k)) ->
  exists h0 : @heap F (@hidden F),
    (forall k, habs h0 k = start_env m reset (mstate_dict state) (habs h) k) /\ same_meta h0 h /\
    let '(h1, r) := body h0 in
    let '(h2, r2) := GenState.Model_with_state check_ok (ids_of m) state stateful reset body h in
    r2 = r /\ same_meta h2 h1 /\
    forall k, habs h2 k = (if stateful then habs h1 else restore_st (ids_of m) (habs h) (habs h1)) k.
Proof. exact (gen_model_with_state_is_model check_ok m state stateful reset body h). Qed.
(* an ndarray as `state`: TypeError before anything is touched *)
Theorem C08_generated_model_with_state_ndarray {F : Type} `{Num F} {P A : Type} (check_ok : option nat -> list F -> bool)
        nodes stateful reset (body : M (@heap F P) A) (h : @heap F P) :
  GenState.Model_with_state check_ok nodes SArray stateful reset body h = (h, Exc TypeError).
Proof. exact (gen_mwith_state_ndarray check_ok nodes stateful reset body h). Qed.

(* Model.reset() = reset_op (C08_reset) *)
Theorem C08_generated_model_reset_is_reset_op {F : Type} `{Num F} (check_ok : option nat -> list F -> bool)
        (m : @model F) (h : @heap F (@hidden F)) :
  NoDup (ids_of m) -> (forall d, In d (ModelSem.order m) -> a_output_dim (h (nid d)) = Some (odim d)) ->
  let '(h', r) := GenState.Model_reset check_ok (ids_of m) None h in
  r = Ok tt /\ same_meta h' h /\ forall k, habs h' k = reset_op m (habs h) k.
Proof. exact (gen_model_reset_is_reset_op check_ok m h). Qed.

(* non-vacuity: a node x -> s + x that raises on the input 9 (the generated call, executed): stateful call from state [1] with input [2];
   stateless call from a given state; a stateless call with reset that FAILS: exception, `_state` back, `_fb_flag` not flipped *)
Definition exG8_fw : nat -> @obj Q unit -> Q -> option (list Q * unit) :=
  fun _ o x => if Qeq_bool x 9 then None else Some (map (fun s => Qplus s x) (match a_state o with Some v => v | None => [] end), tt).
Definition exG8_heap : @heap Q unit := fun _ => mkObj (Some [1%Q]) true (Some 1%nat) false tt.
Example C08_generated_example :
  (let '(h1, r1) := GenState.call (fun _ _ => true) exG8_fw 0%nat 2%Q None true false exG8_heap in (a_state (h1 0%nat), a_fb_flag (h1 0%nat), r1))
    = (Some [(1 + 2)%Q], true, Ok [(1 + 2)%Q]) /\
  (let '(h1, r1) := GenState.call (fun _ _ => true) exG8_fw 0%nat 2%Q (Some [5%Q]) false false exG8_heap in (a_state (h1 0%nat), r1))
    = (Some [1%Q], Ok [(5 + 2)%Q]) /\
  (let '(h1, r1) := GenState.call (fun _ _ => true) exG8_fw 0%nat 9%Q None false true exG8_heap in (a_state (h1 0%nat), a_fb_flag (h1 0%nat), r1))
    = (Some [1%Q], false, Exc ForwardError).
Proof. vm_compute. repeat split; reflexivity. Qed.

Print Assumptions C08_generated_with_state_rejected.
Print Assumptions C08_generated_call_stateless_restores.
Print Assumptions C08_generated_call_is_run_op.
Print Assumptions C08_generated_model_with_state_is_model.
Print Assumptions C08_generated_model_with_state_ndarray.
Print Assumptions C08_generated_model_reset_is_reset_op.
