(* C08 — stateful=False, state contexts, reset and from_state mean what they say.  Statement-only file. *)
From Coq Require Import List Arith Bool QArith Lia.
From RV Require Import base.Num base.LA model.ModelSem model.Kinds model.Windows proofs.ModelSem_proofs.
Import ListNotations.
Close Scope Q_scope.

Section C08.
Context {F : Type} `{Num F}.
Notation vec := (list F).
Notation env := (@env F).
Notation model := (@model F).

(* A stateful=False operation (every combination of reset / from_state) leaves the current state of EVERY node
   unchanged - whether it completes or a forward function raises part-way ([ok] is arbitrary). *)
Theorem C08_stateless_preserves_state (m : model) reset from steps (e e' : env) outs ok :
  run_op m false reset from steps e = (e', outs, ok) -> forall n, st (e' n) = st (e n).
Proof. exact (stateless_preserves_state m reset from steps e e' outs ok). Qed.

(* Repeating it gives the same result, provided the operation did not change any hidden memory
   (always the case for nodes that keep none; see the refutation below for those that do). *)
Theorem C08_stateless_repeatable (m : model) reset from steps (e e1 e2 : env) o1 o2 k1 k2 :
  run_op m false reset from steps e = (e1, o1, k1) -> (forall n, hid (e1 n) = hid (e n)) ->
  run_op m false reset from steps e1 = (e2, o2, k2) -> (forall n, e1 n = e n) /\ o2 = o1 /\ k2 = k1.
Proof. exact (stateless_repeatable m reset from steps e e1 e2 o1 o2 k1 k2). Qed.

(* reset: every node of the model gets the zero state of its output dimension - the state of a freshly initialised
   node; hidden memory is not touched (so the node behaves like a fresh one iff it keeps no hidden memory). *)
Theorem C08_reset (m : model) (e : env) n :
  hid (reset_op m e n) = hid (e n) /\
  (forall d, In d (order m) -> NoDup (map nid (order m)) -> st (reset_op m e (nid d)) = vzeros (odim d)).
Proof. exact (reset_op_spec m e n). Qed.

(* from_state / reset=True: the operation is the plain operation started from exactly the given states *)
Theorem C08_from_state (m : model) stateful reset from steps (e : env) :
  run_op m stateful reset from steps e =
    let '(e1, outs, ok) := run_steps m steps (start_env m reset from e) in
    ((if stateful then e1 else restore_st (ids_of m) e e1), outs, ok).
Proof. exact eq_refl. Qed.
Theorem C08_start_env (m : model) reset from (e : env) d :
  In d (order m) -> NoDup (map nid (order m)) ->
  st (start_env m reset from e (nid d)) =
    match from (nid d) with Some v => v | None => if reset then vzeros (odim d) else st (e (nid d)) end.
Proof. exact (start_env_spec m reset from e d). Qed.
End C08.

(* Hidden memory (kept in node params, outside the state): a Delay line run with stateful=False still shifts its buffer,
   so the same stateless operation repeated gives a different result, and reset() does not make it fresh. *)
Definition ex8_model : @model Q := mkModel [mkND 0 (kfwd KDelay) None 1] (fun _ => []) [0].
Definition ex8_env : @env Q := fun _ => mkNS [0%Q] [[0%Q]].
Definition ex8_steps := [((fun n : nat => Some [5%Q]), (fun _ : nat => @None (list Q)))].
Theorem C08_hidden_memory_refuted :
  let '(e1, o1, _) := run_op ex8_model false false (fun _ => None) ex8_steps ex8_env in
  let '(_, o2, _) := run_op ex8_model false false (fun _ => None) ex8_steps e1 in
  o1 <> o2 /\
  (let '(_, o3, _) := run_op ex8_model true false (fun _ => None) ex8_steps (reset_op ex8_model e1) in o3 <> o1).
Proof. vm_compute. split; discriminate. Qed.

Print Assumptions C08_stateless_preserves_state.
Print Assumptions C08_stateless_repeatable.
Print Assumptions C08_reset.
Print Assumptions C08_from_state.
Print Assumptions C08_start_env.
Print Assumptions C08_hidden_memory_refuted.


(* ---- the same on the LOW-LEVEL model (model/ProxySem.v: explicit `_state_proxy` / clamp management) ----
   A stateful=False Model.run from a state at rest leaves every node's `_state` as it was and leaves no proxy and no
   clamp behind, whether it completes or a forward function raises part-way.  Through the refinement to ModelSem. *)
From RV Require Import model.ProxySem proofs.Refine_proofs.
Theorem C08_lowlevel_stateless_preserves_state {F : Type} `{Num F} (m : @model F) reset from steps (el el' : @lenv F) outs ok :
  NoDup (ids_of m) -> at_rest el ->
  run_op_ll m false reset from steps el = (el', outs, ok) ->
  (forall n, lst (el' n) = lst (el n)) /\ at_rest el'.
Proof. exact (stateless_preserves_state_ll m reset from steps el el' outs ok). Qed.

(* non-vacuity: a run that fails at its second step (KBoom 2), stateless: state 0 is back, nothing is left in the proxies *)
Example C08_lowlevel_example :
  let m : @model Q := mkModel [mkND 0 (kfwd (KBoom 2)) None 1] (fun _ => []) [0] in
  let steps := [((fun n : nat => Some [5%Q]), (fun _ : nat => @None (list Q))); ((fun n : nat => Some [6%Q]), (fun _ : nat => @None (list Q)))] in
  (let '(el, outs, ok) := run_op_ll m false false (fun _ => None) steps (inject (fun _ => mkNS [0%Q] [[0%Q]])) in
   (ok, outs, lst (el 0), proxy (el 0), clamp (el 0))) = (false, [[[5%Q]]], [0%Q], None, None).
Proof. vm_compute. reflexivity. Qed.

Print Assumptions C08_lowlevel_stateless_preserves_state.
