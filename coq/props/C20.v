(* C20 — Dataset helpers align, split and encode exactly; map generators obey their maps.
   Statement-only file: every theorem is closed by [exact <lemma>]; proofs live in proofs/Datasets_proofs.v.
   Models (model/Datasets.v): to_forecasting (reservoirpy/datasets/__init__.py), one_hot_encode (datasets/_utils.py),
   logistic_map / henon_map / narma (datasets/_chaos.py). *)
From Coq Require Import List Arith Bool Sorted ZArith QArith Qabs Reals.
From Coq Require String.
From RV Require Import base.Num base.LA base.BSum model.Datasets proofs.Datasets_proofs.
Import ListNotations.
Close Scope R_scope.
Close Scope Q_scope.

(* ================================================================== to_forecasting *)
Section C20_forecast.
Context {A : Type}.     (* a row: whatever lies behind the time axis *)

(* No test part (test_size None, 0, a negative int, or a ratio rounding to 0): for every series and forecast >= 1,
   X and y have n - forecast rows, X[i] = series[i] and y[i] = series[i + forecast]. *)
Theorem C20_forecast_alignment (f : nat) (tl : Z) (s : list A) (d : A) : 1 <= f -> (tl <= 0)%Z ->
  exists X y, forecast_rows f tl s = [X; y] /\
    length X = length s - f /\ length y = length s - f /\
    forall i, i < length s - f -> nth i X d = nth i s d /\ nth i y d = nth (i + f) s d.
Proof. exact (forecast_alignment f tl s d). Qed.

(* With test_len = k > 0: train ++ test is the whole (contiguous, in order, non-overlapping), inputs and targets are
   cut at the same place, the test parts have min(k, n - forecast) rows, and every row is the aligned series row. *)
Theorem C20_split (f : nat) (tl : Z) (s : list A) (d : A) : 1 <= f -> (0 < tl)%Z ->
  let k := Z.to_nat tl in let m := length s - f in
  exists Xtr Xte ytr yte, forecast_rows f tl s = [Xtr; Xte; ytr; yte] /\
    Xtr ++ Xte = upto_neg f s /\ ytr ++ yte = skipn f s /\
    length Xtr = m - k /\ length ytr = m - k /\ length Xte = Nat.min k m /\ length yte = Nat.min k m /\
    (forall i, i < m - k -> nth i Xtr d = nth i s d /\ nth i ytr d = nth (i + f) s d) /\
    (forall i, i < Nat.min k m -> nth i Xte d = nth (m - k + i) s d /\ nth i yte d = nth (m - k + i + f) s d).
Proof. exact (forecast_split f tl s d). Qed.
End C20_forecast.

(* The number of test rows: the int itself, or a nearest integer of time_len * ratio (Python round). *)
Theorem C20_test_len (n : nat) (ts : test_size) :
  match ts with
  | TsNone => test_len_of n ts = Some 0%Z
  | TsInt k => test_len_of n ts = Some k
  | TsRatio r => (0 <= r)%Q -> (r < 1)%Q ->
      exists z, test_len_of n ts = Some z /\ (Qabs (inject_Z z - inject_Z (Z.of_nat n) * r) <= 1 # 2)%Q
  end.
Proof. exact (test_len_spec n ts). Qed.

(* Time axis 1 of a 2-D series (partial: the property says "any time axis" of an N-D array; the list model has
   depth 2, 3-D series and negative axes are decided on the real function by the implementation oracle).
   Every returned part is the transpose of the part computed on the transposed series, so C20_forecast_alignment
   and C20_split transfer verbatim with rows and columns exchanged ... *)
Section C20_axis.
Context {F : Type} `{Num F}.
Theorem C20_any_axis_partial (f : nat) (ts : test_size) (series : list (list F)) (parts2 : list (list (list F))) :
  to_forecasting_2d 1 f ts series = Some parts2 ->
  let R := length series in let T := length (hd [] series) in
  exists parts, to_forecasting_rows f ts (transpose series T) = Some parts /\
    length parts2 = length parts /\
    (forall t r, t < T -> mget (transpose series T) t r = mget series r t) /\
    forall k r j, k < length parts -> r < R ->
      mget (nth k parts2 []) r j = mget (nth k parts []) j r /\ length (nth k parts2 []) = R.
Proof. exact (forecast_axis1 f ts series parts2). Qed.

(* ... in particular, without a test part: X[r][j] = series[r][j], y[r][j] = series[r][j + forecast]. *)
Theorem C20_any_axis_alignment (f : nat) (series : list (list F)) : 1 <= f ->
  let R := length series in let T := length (hd [] series) in
  exists X y, to_forecasting_2d 1 f TsNone series = Some [X; y] /\ length X = R /\ length y = R /\
    forall r j, r < R -> j < T - f ->
      mget X r j = mget series r j /\ mget y r j = mget series r (j + f).
Proof. exact (forecast_axis1_alignment f series). Qed.
End C20_axis.

(* ================================================================== one_hot_encode *)
Section C20_one_hot.
Context {F : Type} `{Num F}.

(* For every label type with a total order [leb] (numpy's sort order): the class list is strictly sorted and
   duplicate-free, contains exactly the labels, and row i is the unit vector (length = number of classes, a single
   1 at idx) where classes[idx] = labels[i]. *)
Theorem C20_one_hot {A : Type} (leb : A -> A -> bool) :
  (forall a b, leb a b = true \/ leb b a = true) ->
  (forall a b c, leb a b = true -> leb b c = true -> leb a c = true) ->
  (forall a b, leb a b = true -> leb b a = true -> a = b) ->
  forall (labels : list A) (d : A),
  let enc := fst (one_hot (F:=F) leb labels) in let cls := snd (one_hot (F:=F) leb labels) in
  StronglySorted (llt leb) cls /\ NoDup cls /\ (forall x, In x cls <-> In x labels) /\
  length enc = length labels /\
  forall i, i < length labels ->
    exists idx, idx < length cls /\ nth idx cls d = nth i labels d /\
      length (nth i enc []) = length cls /\
      forall j, nth j (nth i enc []) n0 = if j =? idx then n1 else n0.
Proof. intros Ht Htr Ha. exact (one_hot_spec leb Ht Htr Ha). Qed.

(* closed instances: integer labels, string labels *)
Theorem C20_one_hot_Z (labels : list Z) (d : Z) :
  let enc := fst (one_hot (F:=F) Z.leb labels) in let cls := snd (one_hot (F:=F) Z.leb labels) in
  StronglySorted (fun a b => (a < b)%Z) cls /\ NoDup cls /\ (forall x, In x cls <-> In x labels) /\
  length enc = length labels /\
  forall i, i < length labels ->
    exists idx, idx < length cls /\ nth idx cls d = nth i labels d /\
      length (nth i enc []) = length cls /\
      forall j, nth j (nth i enc []) n0 = if j =? idx then n1 else n0.
Proof. exact (one_hot_spec_Z labels d). Qed.

Theorem C20_one_hot_string (labels : list String.string) (d : String.string) :
  let enc := fst (one_hot (F:=F) String.leb labels) in let cls := snd (one_hot (F:=F) String.leb labels) in
  StronglySorted (llt String.leb) cls /\ NoDup cls /\ (forall x, In x cls <-> In x labels) /\
  length enc = length labels /\
  forall i, i < length labels ->
    exists idx, idx < length cls /\ nth idx cls d = nth i labels d /\
      length (nth i enc []) = length cls /\
      forall j, nth j (nth i enc []) n0 = if j =? idx then n1 else n0.
Proof. exact (one_hot_spec String.leb String.leb_total string_leb_trans String.leb_antisym labels d). Qed.

(* A list of sequences: one common class list (that of the concatenation); every sequence is encoded with it,
   label by label, and keeps its length. *)
Theorem C20_one_hot_multi {A : Type} (leb : A -> A -> bool) (seqs : list (list A)) : seqs <> [] ->
  let cls := unique leb (concat seqs) in
  one_hot_multi (F:=F) leb seqs = (map (map (encode_with leb cls)) seqs, cls).
Proof. exact (one_hot_multi_spec leb seqs). Qed.

(* A 2-D label array (n, m): m = 1 is squeezed to (n, k); otherwise (n, m, k), element-wise. *)
Theorem C20_one_hot_2d {A : Type} (leb : A -> A -> bool) (rows : list (list A)) (m : nat) : rows <> [] ->
  Forall (fun r => length r = m) rows ->
  let cls := unique leb (concat rows) in
  one_hot_2d (F:=F) leb rows =
    if m =? 1 then (inl (map (encode_with leb cls) (concat rows)), cls)
    else (inr (map (map (encode_with leb cls)) rows), cls).
Proof. exact (one_hot_2d_spec leb rows m). Qed.

(* the encoded row of any label of the class list is the unit vector at its position *)
Theorem C20_one_hot_row {A : Type} (leb : A -> A -> bool) :
  (forall a b, leb a b = true \/ leb b a = true) ->
  (forall a b, leb a b = true -> leb b a = true -> a = b) ->
  forall (cls : list A) (a d : A), In a cls ->
  let idx := index_of leb a cls in
  idx < length cls /\ nth idx cls d = a /\ encode_with leb cls a = unitv (F:=F) (length cls) idx.
Proof. intros Ht Ha. exact (encode_with_spec leb Ht Ha). Qed.
End C20_one_hot.

(* ================================================================== logistic / Henon *)
Section C20_maps.
Context {F : Type} `{Num F}.

(* whenever logistic_map returns: n rows, the first is x0, every consecutive pair satisfies x' = r x (1 - x) *)
Theorem C20_logistic (n : nat) (r x0 : F) (rows : list (list F)) :
  logistic_map n r x0 = Some rows ->
  length rows = n /\ nth 0 rows [] = [x0] /\
  forall i, S i < n -> exists x, nth i rows [] = [x] /\ nth (S i) rows [] = [nmul (nmul r x) (nsub n1 x)].
Proof. exact (logistic_spec n r x0 rows). Qed.

(* and it returns for every n >= 1, r > 0, 0 < x0 < 1 *)
Theorem C20_logistic_defined (n : nat) (r x0 : F) :
  1 <= n -> nltb n0 r = true -> nltb n0 x0 = true -> nltb x0 n1 = true -> exists rows, logistic_map n r x0 = Some rows.
Proof. exact (logistic_defined n r x0). Qed.

Theorem C20_henon (n : nat) (a b x0 y0 : F) (rows : list (list F)) :
  henon_map n a b x0 y0 = Some rows ->
  length rows = n /\ nth 0 rows [] = [x0; y0] /\
  forall i, S i < n -> exists x y, nth i rows [] = [x; y] /\
    nth (S i) rows [] = [nadd (nsub n1 (nmul a (nmul x x))) y; nmul b x].
Proof. exact (henon_spec n a b x0 y0 rows). Qed.
End C20_maps.

(* the same at R, in plain arithmetic *)
Theorem C20_logistic_R (n : nat) (r x0 : R) (rows : list (list R)) :
  logistic_map n r x0 = Some rows ->
  length rows = n /\ nth 0 rows [] = [x0] /\
  forall i, S i < n -> exists x, nth i rows [] = [x] /\ nth (S i) rows [] = [(r * x * (1 - x))%R].
Proof. exact (logistic_spec n r x0 rows). Qed.

Theorem C20_henon_R (n : nat) (a b x0 y0 : R) (rows : list (list R)) :
  henon_map n a b x0 y0 = Some rows ->
  length rows = n /\ nth 0 rows [] = [x0; y0] /\
  forall i, S i < n -> exists x y, nth i rows [] = [x; y] /\ nth (S i) rows [] = [(1 - a * (x * x) + y)%R; (b * x)%R].
Proof. exact (henon_spec n a b x0 y0 rows). Qed.

(* ================================================================== NARMA *)
(* The array y (length n + order) built by the loop: its first order+1 entries are the zero-padded x0, and every
   step t of range(order, n + order - 1) satisfies the documented recurrence
       y[t+1] = a1 y[t] + a2 y[t] sum_{i<order} y[t-i] + b u[t-(order-1)] u[t] + c ;
   the function returns y[order:], n rows. *)
Theorem C20_narma (n order : nat) (a1 a2 b c : R) (x0 u : list R) :
  1 <= order -> length x0 <= n + order ->
  let y := narma_array n order a1 a2 b c x0 u in
  length y = n + order /\
  (forall j, j <= order -> nth j y 0%R = nth j (x0 ++ repeat 0%R (n + order - length x0)) 0%R) /\
  (forall t, order <= t < n + order - 1 ->
     (nth (t + 1) y 0 = a1 * nth t y 0 + a2 * nth t y 0 * bsum order (fun i => nth (t - i) y 0)
                        + b * nth (t - (order - 1)) u 0 * nth t u 0 + c)%R) /\
  length (narma n order a1 a2 b c x0 u) = n /\
  forall k, k < n -> nth k (narma n order a1 a2 b c x0 u) [] = [nth (order + k) y 0%R].
Proof. exact (narma_documented_spec n order a1 a2 b c x0 u). Qed.

(* for every Num instance (so also for the Q runs), with the window summed in array order *)
Theorem C20_narma_generic {F : Type} `{Num F} (n order : nat) (a1 a2 b c : F) (x0 u : list F) :
  length x0 <= n + order ->
  let y := narma_array n order a1 a2 b c x0 u in
  length y = n + order /\
  (forall j, j <= order -> nth j y n0 = nth j (x0 ++ vzeros (n + order - length x0)) n0) /\
  (forall t, order <= t < n + order - 1 ->
     nth (t + 1) y n0 = narma_rhs a1 a2 b c (nth t y n0)
                          (vsum (map (fun j => nth j y n0) (seq (t + 1 - order) order)))
                          (nth (t + 1 - order) u n0) (nth t u n0)) /\
  narma n order a1 a2 b c x0 u = map (fun v => [v]) (skipn order y) /\
  length (narma n order a1 a2 b c x0 u) = n.
Proof. exact (narma_spec order a1 a2 b c u n x0). Qed.

(* The loop as it was before commit b06336b (sum over y[t-order..t-1], u[t-order]) violates the documented
   recurrence: concrete witness, executed. *)
Theorem C20_narma_prefix_refuted :
  exists (n order : nat) (a1 a2 b c : Q) (x0 u : list Q) (t : nat),
    1 <= order /\ length x0 <= n + order /\ order <= t < n + order - 1 /\
    let y := narma_array_old (F:=Q) n order a1 a2 b c x0 u in
    Qeq_bool (nth (t + 1) y 0%Q)
             (narma_rhs a1 a2 b c (nth t y 0%Q) (vsum (map (fun j => nth j y 0%Q) (seq (t + 1 - order) order)))
                        (nth (t + 1 - order) u 0%Q) (nth t u 0%Q)) = false.
Proof. exact narma_old_refuted. Qed.

(* ================================================================== non-vacuity *)
Open Scope Q_scope.
Example C20_forecast_example :
  forecast_rows 2 2 [0;1;2;3;4;5;6;7;8;9] = [[0;1;2;3;4;5]; [6;7]; [2;3;4;5;6;7]; [8;9]]
  /\ test_len_of 10 (TsRatio (1#4)) = Some 2%Z          (* round(2.5) = 2: half to even *)
  /\ test_len_of 6 (TsRatio (1#4)) = Some 2%Z           (* round(1.5) = 2 *)
  /\ to_forecasting_2d (F:=Q) 1 2 (TsInt 1) [[0;1;2;3;4];[5;6;7;8;9]]%Q
     = Some [[[0;1];[5;6]]; [[2];[7]]; [[2;3];[7;8]]; [[4];[9]]]%Q.
Proof. vm_compute. repeat split; reflexivity. Qed.

Example C20_one_hot_example :
  one_hot (F:=Q) Z.leb [3;1;2;1]%Z = ([[0;0;1];[1;0;0];[0;1;0];[1;0;0]]%Q, [1;2;3]%Z)
  /\ one_hot_multi (F:=Q) Z.leb [[3;1];[2];[1;1;3]]%Z
     = ([[[0;0;1];[1;0;0]]; [[0;1;0]]; [[1;0;0];[1;0;0];[0;0;1]]]%Q, [1;2;3]%Z).
Proof. vm_compute. split; reflexivity. Qed.

Example C20_maps_example :
  logistic_map (F:=Q) 3 (4#1) (1#4) = Some [[1#4];[3#4];[3#4]]%Q
  /\ henon_map (F:=Q) 3 (1#1) (1#2) (1#2) (1#4) = Some [[1#2;1#4];[1#1;1#4];[1#4;1#2]]%Q
  /\ narma (F:=Q) 3 2 (1#2) (1#4) (1#1) (1#8) [1#2;1#2;1#2]%Q [1#2;1#4;1#2;1#4;1#2]%Q
     = [[1#2];[5#8];[189#256]]%Q.
Proof. vm_compute. repeat split; reflexivity. Qed.

Close Scope Q_scope.

Print Assumptions C20_forecast_alignment.
Print Assumptions C20_split.
Print Assumptions C20_test_len.
Print Assumptions C20_any_axis_partial.
Print Assumptions C20_any_axis_alignment.
Print Assumptions C20_one_hot.
Print Assumptions C20_one_hot_Z.
Print Assumptions C20_one_hot_string.
Print Assumptions C20_one_hot_multi.
Print Assumptions C20_one_hot_2d.
Print Assumptions C20_one_hot_row.
Print Assumptions C20_logistic.
Print Assumptions C20_logistic_defined.
Print Assumptions C20_henon.
Print Assumptions C20_logistic_R.
Print Assumptions C20_henon_R.
Print Assumptions C20_narma.
Print Assumptions C20_narma_generic.
Print Assumptions C20_narma_prefix_refuted.

(* ================================================================================================================ *)
(* Tie (T): logistic_map, henon_map and narma as translated on this run from the current source text of datasets/_chaos.py
   (coq/gen/Gen_maps.v: the arrays are filled element by element inside `for i in range(a, b)`, exactly as written) ARE the models
   the theorems above are about, for every Num instance.  (n >= 1: for n = 0 the source raises IndexError on X[0] = x0.)        *)
From RV Require Import base.GenPrelude gen.Gen_maps proofs.Gen_maps_eq.

Theorem C20_generated_logistic_is_model {F : Type} `{Num F} (n : nat) (r x0 : F) : 1 <= n ->
  option_map (map (fun x => [x])) (GenMaps.logistic_map n r x0) = logistic_map n r x0.
Proof. exact (gen_logistic_eq n r x0). Qed.

Theorem C20_generated_henon_is_model {F : Type} `{Num F} (n : nat) (a b x y : F) : 1 <= n ->
  Some (GenMaps.henon_map n a b [x; y]) = henon_map n a b x y.
Proof. exact (gen_henon_eq n a b x y). Qed.

Theorem C20_generated_narma_is_model {F : Type} `{Num F} (n order : nat) (a1 a2 b c : F) (x0 u : list F) :
  GenMaps.narma n order a1 a2 b c x0 u = skipn order (narma_array n order a1 a2 b c x0 u)
  /\ narma n order a1 a2 b c x0 u = map (fun v => [v]) (GenMaps.narma n order a1 a2 b c x0 u).
Proof. exact (gen_narma_eq n order a1 a2 b c x0 u). Qed.

Print Assumptions C20_generated_logistic_is_model.
Print Assumptions C20_generated_henon_is_model.
Print Assumptions C20_generated_narma_is_model.

(* ================================================================================================================ *)
(* Tie (T) for the HELPERS: to_forecasting (datasets/__init__.py) and one_hot_encode (datasets/_utils.py) as translated on this
   run from their current source text (coq/gen/Gen_datasets.v, translator tools/vlib/py2coq_ds.py, over the Python/numpy
   vocabulary of base/DSPrelude.v: slices with negative bounds incl. the -0 corner, round(), isinstance on test_size,
   np.moveaxis as an axis view, np.unique / np.eye[...] / np.cumsum / np.split) ARE the models the theorems above are about.
   [ts_model] maps the Python argument None | int | float to the model's TsNone | TsInt | TsRatio.                         *)
From RV Require Import base.DSPrelude gen.Gen_datasets proofs.Gen_datasets_eq.

(* every axis view, every forecast >= 0, every test_size, every array: no guard *)
Theorem C20_generated_to_forecasting {arr row : Type} (ax : axis_view arr row) (a : arr) (f : nat) (ts : py_arg) :
  GenDatasets.to_forecasting a f ax ts
  = option_map (map (mv_out ax a)) (to_forecasting_rows f (ts_model ts) (mv_in ax a)).
Proof. exact (gen_to_forecasting_view ax a f ts). Qed.

(* time axis 0: C20_forecast_alignment, C20_split and C20_test_len are statements about the translated code *)
Theorem C20_generated_to_forecasting_axis0 {A : Type} (s : list A) (f : nat) (ts : py_arg) :
  GenDatasets.to_forecasting s f (axis0_view A) ts = to_forecasting_rows f (ts_model ts) s.
Proof. exact (gen_to_forecasting_axis0 s f ts). Qed.

(* 2-D series, time axis 0 / 1: C20_any_axis_partial and C20_any_axis_alignment transfer *)
Theorem C20_generated_to_forecasting_2d {F : Type} `{Num F} (series : list (list F)) (f : nat) (ts : py_arg) :
  GenDatasets.to_forecasting series f (axis0_view (list F)) ts = to_forecasting_2d 0 f (ts_model ts) series
  /\ forall axis, axis <> 0 ->
     GenDatasets.to_forecasting series f (axis1_view F) ts = to_forecasting_2d axis f (ts_model ts) series.
Proof. exact (gen_to_forecasting_2d series f ts). Qed.

(* one_hot_encode on a 1-D array / list of labels, on a 2-D array, and on a Python list of 1-D arrays, for every label order
   that is transitive and antisymmetric (hypotheses of C20_one_hot): C20_one_hot*, C20_one_hot_2d, C20_one_hot_multi transfer *)
Theorem C20_generated_one_hot {F : Type} `{Num F} {A : Type} (leb : A -> A -> bool) :
  (forall a b c, leb a b = true -> leb b c = true -> leb a c = true) ->
  (forall a b, leb a b = true -> leb b a = true -> a = b) ->
  (forall labels : list A,
     GenDatasets.one_hot_encode_arr leb (A1 labels)
     = Some (A1 (fst (one_hot (F:=F) leb labels)), snd (one_hot (F:=F) leb labels))) /\
  (forall rows : list (list A),
     GenDatasets.one_hot_encode_arr leb (A2 rows)
     = Some (match fst (one_hot_2d (F:=F) leb rows) with inl e => A1 e | inr e => A2 e end,
             snd (one_hot_2d (F:=F) leb rows))) /\
  (forall seqs : list (list A),
     GenDatasets.one_hot_encode_seqs leb seqs
     = Some (map A1 (fst (one_hot_multi (F:=F) leb seqs)), snd (one_hot_multi (F:=F) leb seqs))).
Proof.
  intros Htr Ha. exact (conj (gen_one_hot_1d leb Htr Ha) (conj (gen_one_hot_2d leb Htr Ha) (gen_one_hot_seqs leb Htr Ha))).
Qed.

(* non-vacuity: the translated code, executed (incl. the corners forecast = 0 and test_size = 0) *)
Open Scope Q_scope.
Example C20_generated_helpers_example :
  GenDatasets.to_forecasting [0;1;2;3;4;5;6;7;8;9] 2 (axis0_view Q) (PyInt 2)
    = Some [[0;1;2;3;4;5]; [6;7]; [2;3;4;5;6;7]; [8;9]]
  /\ GenDatasets.to_forecasting [0;1;2;3;4;5;6;7;8;9] 2 (axis0_view Q) (PyFloat (1#4))
    = Some [[0;1;2;3;4;5]; [6;7]; [2;3;4;5;6;7]; [8;9]]              (* round(2.5) = 2 *)
  /\ GenDatasets.to_forecasting [0;1;2] 0 (axis0_view Q) (PyInt 0) = Some [[]; [0;1;2]]       (* a[:-0] is empty *)
  /\ GenDatasets.to_forecasting [0;1;2] 1 (axis0_view Q) (PyFloat 1) = None
  /\ GenDatasets.to_forecasting [[0;1;2;3;4];[5;6;7;8;9]] 2 (axis1_view Q) (PyInt 1)
     = Some [[[0;1];[5;6]]; [[2];[7]]; [[2;3];[7;8]]; [[4];[9]]]
  /\ GenDatasets.one_hot_encode_seqs (F:=Q) Z.leb [[3;1];[2];[1;1;3]]%Z
     = Some ([A1 [[0;0;1];[1;0;0]]; A1 [[0;1;0]]; A1 [[1;0;0];[1;0;0];[0;0;1]]], [1;2;3]%Z)
  /\ GenDatasets.one_hot_encode_arr (F:=Q) Z.leb (A2 [[3];[1]]%Z) = Some (A1 [[0;1];[1;0]], [1;3]%Z).
Proof. vm_compute. repeat split; reflexivity. Qed.
Close Scope Q_scope.

Print Assumptions C20_generated_to_forecasting.
Print Assumptions C20_generated_to_forecasting_axis0.
Print Assumptions C20_generated_to_forecasting_2d.
Print Assumptions C20_generated_one_hot.

(* ================================================================================================================
   The R-vs-Q instance gap, closed by proof (base/NumHom.v, proofs/QR_bridge_C20.v).
   The map-generator theorems above are about model/Datasets.v at F := R (or any F); the correspondence run (run/RunC20.v)
   evaluates the SAME terms at F := Q.  [Q2R] is a homomorphism of the [Num] class, strict comparison included (the guards of
   logistic_map), so running at Q and embedding entry-wise ([qv2r], [qm2r], [qt2r] for 1/2/3 levels of lists) = running at R
   on the embedded parameters.  The helpers are STRUCTURAL and this is stated as such: to_forecasting commutes with [map f]
   for ANY function f on the rows (no algebra), one_hot computes on the labels and only selects rows of the identity, so its
   output at R is the entry-wise image of its output at Q with the same classes.  test_len_of / round_half_even are
   rational-only functions: no instance gap exists for them.  No shape hypothesis and no side condition. *)
From RV Require Import base.NumHom proofs.QR_bridge_C20.

(* logistic_map (None = rejected parameters or n = 0, on both sides), henon_map, narma of any order / length / start values,
   and the pre-fix narma array of C20_narma_prefix_refuted *)
Theorem C20_Qmaps_embed :
  (forall (n : nat) (r x0 : Q), logistic_map n (Q2R r) (Q2R x0) = option_map qm2r (logistic_map n r x0)) /\
  (forall (n : nat) (a b x0 y0 : Q), henon_map n (Q2R a) (Q2R b) (Q2R x0) (Q2R y0) = option_map qm2r (henon_map n a b x0 y0)) /\
  (forall (n order : nat) (a1 a2 b c : Q) (x0 u : list Q),
     narma n order (Q2R a1) (Q2R a2) (Q2R b) (Q2R c) (qv2r x0) (qv2r u) = qm2r (narma n order a1 a2 b c x0 u)) /\
  (forall (n order : nat) (a1 a2 b c : Q) (x0 u : list Q),
     narma_array_old n order (Q2R a1) (Q2R a2) (Q2R b) (Q2R c) (qv2r x0) (qv2r u) = qv2r (narma_array_old n order a1 a2 b c x0 u)).
Proof. exact Qmaps_embed. Qed.

(* the helpers are structural *)
Theorem C20_Qhelpers_structural :
  (forall (A B : Type) (f : A -> B) (fc : nat) (ts : test_size) (s : list A),
     to_forecasting_rows fc ts (map f s) = option_map (map (map f)) (to_forecasting_rows fc ts s)) /\
  (forall (axis fc : nat) (ts : test_size) (series : list (list Q)),
     to_forecasting_2d axis fc ts (qm2r series) = option_map qt2r (to_forecasting_2d axis fc ts series)) /\
  (forall (A : Type) (leb : A -> A -> bool) (labels : list A),
     one_hot leb (F:=R) labels = (qm2r (fst (one_hot leb (F:=Q) labels)), snd (one_hot leb (F:=Q) labels))) /\
  (forall (A : Type) (leb : A -> A -> bool) (rows : list (list A)),
     one_hot_2d leb (F:=R) rows = e2d Q2R (one_hot_2d leb (F:=Q) rows)) /\
  (forall (A : Type) (leb : A -> A -> bool) (seqs : list (list A)),
     one_hot_multi leb (F:=R) seqs = (qt2r (fst (one_hot_multi leb (F:=Q) seqs)), snd (one_hot_multi leb (F:=Q) seqs))).
Proof. exact Qhelpers_structural. Qed.

(* non-vacuity: four steps of the Henon map with a = 7/5, b = 3/10 from (0,0), evaluated at R *)
Example C20_Qmaps_henon_example :
  henon_map 4 (Q2R (7#5)%Q) (Q2R (3#10)%Q) (Q2R 0%Q) (Q2R 0%Q)
  = Some (qm2r [[0%Q; 0%Q]; [1%Q; 0%Q]; [(-2#5)%Q; (3#10)%Q]; [(269#250)%Q; (-3#25)%Q]]).
Proof. exact Qmaps_henon_example. Qed.

Print Assumptions C20_Qmaps_embed.
Print Assumptions C20_Qhelpers_structural.

(* ---- the verdict of the correspondence runner, read at R ----
   [rclose m o] is |m - o| <= 1e-9 * max(1,|m|) on reals; [mrclose] / [trclose]: entry-wise on 2 / 3 levels, same shape.
   A verdict [true] of the C20 runner IS a statement about the R-instance of model/Datasets.v on the embedded arguments. *)
From RV Require Import run.RunC20.

Theorem C20_chk_maps_are_about_R_model :
  (forall n r x0 obs, chk_logistic n r x0 obs = true ->
     exists v, logistic_map n (Q2R r) (Q2R x0) = Some v /\ mrclose v (qm2r obs)) /\
  (forall n r x0, chk_logistic_rejects n r x0 = true -> logistic_map n (Q2R r) (Q2R x0) = None) /\
  (forall n a b x0 y0 obs, chk_henon n a b x0 y0 obs = true ->
     exists v, henon_map n (Q2R a) (Q2R b) (Q2R x0) (Q2R y0) = Some v /\ mrclose v (qm2r obs)) /\
  (forall n order a1 a2 b c x0 u obs, chk_narma n order a1 a2 b c x0 u obs = true ->
     mrclose (narma n order (Q2R a1) (Q2R a2) (Q2R b) (Q2R c) (qv2r x0) (qv2r u)) (qm2r obs)).
Proof. exact chk_maps_are_about_R_model. Qed.

Theorem C20_chk_helpers_are_about_R_model :
  (forall fc ts series obs, chk_fc1 fc ts series obs = true ->
     exists v, to_forecasting_rows fc ts (qv2r series) = Some v /\ mrclose v (qm2r obs)) /\
  (forall axis fc ts series obs, chk_fc2 axis fc ts series obs = true ->
     exists v, to_forecasting_2d axis fc ts (qm2r series) = Some v /\ trclose v (qt2r obs)) /\
  (forall labels enc cls, chk_onehot_z labels enc cls = true ->
     mrclose (fst (one_hot (F:=R) Z.leb labels)) (qm2r enc) /\ list_eqb Z.eqb (snd (one_hot (F:=R) Z.leb labels)) cls = true) /\
  (forall labels enc cls, chk_onehot_s labels enc cls = true ->
     mrclose (fst (one_hot (F:=R) String.leb labels)) (qm2r enc) /\ list_eqb String.eqb (snd (one_hot (F:=R) String.leb labels)) cls = true) /\
  (forall seqs enc cls, chk_onehot_multi_z seqs enc cls = true ->
     trclose (fst (one_hot_multi (F:=R) Z.leb seqs)) (qt2r enc) /\ list_eqb Z.eqb (snd (one_hot_multi (F:=R) Z.leb seqs)) cls = true) /\
  (forall seqs enc cls, chk_onehot_multi_s seqs enc cls = true ->
     trclose (fst (one_hot_multi (F:=R) String.leb seqs)) (qt2r enc) /\ list_eqb String.eqb (snd (one_hot_multi (F:=R) String.leb seqs)) cls = true) /\
  (forall rows enc cls, chk_onehot_col_z rows enc cls = true ->
     exists e, one_hot_2d (F:=R) Z.leb rows = (inl e, snd (one_hot_2d (F:=R) Z.leb rows)) /\ mrclose e (qm2r enc)
               /\ list_eqb Z.eqb (snd (one_hot_2d (F:=R) Z.leb rows)) cls = true) /\
  (forall rows enc cls, chk_onehot_col_s rows enc cls = true ->
     exists e, one_hot_2d (F:=R) String.leb rows = (inl e, snd (one_hot_2d (F:=R) String.leb rows)) /\ mrclose e (qm2r enc)
               /\ list_eqb String.eqb (snd (one_hot_2d (F:=R) String.leb rows)) cls = true) /\
  (forall rows enc cls, chk_onehot_grid_z rows enc cls = true ->
     exists e, one_hot_2d (F:=R) Z.leb rows = (inr e, snd (one_hot_2d (F:=R) Z.leb rows)) /\ trclose e (qt2r enc)
               /\ list_eqb Z.eqb (snd (one_hot_2d (F:=R) Z.leb rows)) cls = true) /\
  (forall rows enc cls, chk_onehot_grid_s rows enc cls = true ->
     exists e, one_hot_2d (F:=R) String.leb rows = (inr e, snd (one_hot_2d (F:=R) String.leb rows)) /\ trclose e (qt2r enc)
               /\ list_eqb String.eqb (snd (one_hot_2d (F:=R) String.leb rows)) cls = true).
Proof. exact chk_helpers_are_about_R_model. Qed.

(* non-vacuity: scenarios on which the runner answers true (Henon, NARMA order 2, a rejected logistic call, one_hot) *)
Example C20_chk_maps_example :
  chk_henon 4 (7#5)%Q (3#10)%Q 0%Q 0%Q [[0%Q; 0%Q]; [1%Q; 0%Q]; [(-2#5)%Q; (3#10)%Q]; [(269#250)%Q; (-3#25)%Q]] = true /\
  chk_narma 3 2 (3#10)%Q (1#20)%Q (3#2)%Q (1#10)%Q [(1#2)%Q; (1#4)%Q] [(1#2)%Q; (1#4)%Q; (1#2)%Q; (1#8)%Q; (1#4)%Q]
            (narma 3 2 (3#10)%Q (1#20)%Q (3#2)%Q (1#10)%Q [(1#2)%Q; (1#4)%Q] [(1#2)%Q; (1#4)%Q; (1#2)%Q; (1#8)%Q; (1#4)%Q]) = true /\
  length (narma 3 2 (3#10)%Q (1#20)%Q (3#2)%Q (1#10)%Q [(1#2)%Q; (1#4)%Q] [(1#2)%Q; (1#4)%Q; (1#2)%Q; (1#8)%Q; (1#4)%Q]) = 3 /\
  chk_logistic_rejects 5 (-1#1)%Q (1#2)%Q = true /\
  chk_onehot_z [3; 1; 3]%Z [[0%Q; 1%Q]; [1%Q; 0%Q]; [0%Q; 1%Q]] [1; 3]%Z = true.
Proof. vm_compute. repeat split; reflexivity. Qed.

Print Assumptions C20_chk_maps_are_about_R_model.
Print Assumptions C20_chk_helpers_are_about_R_model.
