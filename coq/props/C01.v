(* C01 — reservoir states obey the documented leaky-integrator recurrence.
   Statement-only file: every theorem is closed by [exact <lemma>]; proofs are in proofs/Reservoir_proofs.v,
   the model (reservoir_kernel, forward_internal, forward_external, initialize, noise, run) in model/Reservoir.v.

   Reading guide.  [rcfg] holds W, Win, bias, Wfb (None = no feedback connection), the leak rate (python scalar [LrS] or
   per-unit array [LrV]), activation and fb_activation (arbitrary functions on the (units,1) column) and the three noise
   gains.  [rin] is what one step consumes: input row, feedback vector, and the three generator draws (arbitrary).
   A state is the pair (internal_state, state) the node really carries.  [shaped n c]: shapes of an initialised node with n
   units (no hypothesis on the values); [quiet c]: the three gains are 0 (the property's premise).
   [law_pre c r x i] = (W.r)_i + (Win.u)_i + bias_i [+ (Wfb.g(fb))_i], each product being the row-by-column sum [dot]. *)
From Coq Require Import Reals List Arith QArith.
From RV Require Import base.Num base.LA base.BSum model.Reservoir proofs.Reservoir_proofs.
Import ListNotations.
Close Scope Q_scope.
Open Scope R_scope.

(* the pre-activation computed by reservoir_kernel is W.r + Win.u + bias (+ Wfb.g(feedback)), for every noise draw *)
Theorem C01_kernel (n : nat) (c : rcfg R) (r : list R) (x : rin R) (i : nat) :
  shaped n c -> quiet c -> (i < n)%nat ->
  nth i (kernel c r x) 0 =
    dot (nth i (rW c) []) r + dot (nth i (rWin c) []) (i_u x) + nth i (rbias c) 0
    + match rWfb c with None => 0 | Some Wfb => dot (nth i Wfb []) (rfbact c (i_fb x)) end.
Proof. exact (kernel_nth n c r x i). Qed.

(* the row-by-column product is the textbook sum *)
Theorem C01_dot_is_sum (a b : list R) (n : nat) : length a = n -> length b = n ->
  dot a b = bsum n (fun j => nth j a 0 * nth j b 0).
Proof. exact (dot_bsum a b n). Qed.

(* 'internal' equation: x' = (1-lr)*x + lr*f(pre), component by component; internal_state untouched *)
Theorem C01_internal_step (n : nat) (c : rcfg R) (s r : list R) (x : rin R) (i : nat) :
  shaped n c -> quiet c -> length r = n -> (i < n)%nat ->
  fst (step_internal c (s, r) x) = s /\
  nth i (snd (step_internal c (s, r) x)) 0
    = (1 - lr_at (rlr c) i) * nth i r 0 + lr_at (rlr c) i * nth i (ract c (kernel c r x)) 0.
Proof. exact (internal_step_law n c s r x i). Qed.

Theorem C01_internal_step_elementwise (n : nat) (c : rcfg R) (f : R -> R) (s r : list R) (x : rin R) (i : nat) :
  shaped n c -> quiet c -> (forall v, ract c v = map f v) -> length r = n -> (i < n)%nat ->
  nth i (snd (step_internal c (s, r) x)) 0
    = (1 - lr_at (rlr c) i) * nth i r 0 + lr_at (rlr c) i * f (law_pre c r x i).
Proof. exact (internal_step_law_elementwise n c f s r x i). Qed.

(* 'external' equation: the leaky integration acts on the stored pre-activation s (the recurrent term uses the emitted
   state r), and the emitted state is f of the new s *)
Theorem C01_external_step (n : nat) (c : rcfg R) (s r : list R) (x : rin R) (i : nat) :
  shaped n c -> quiet c -> length s = n -> length r = n -> (i < n)%nat ->
  snd (step_external c (s, r) x) = ract c (fst (step_external c (s, r) x)) /\
  nth i (fst (step_external c (s, r) x)) 0
    = (1 - lr_at (rlr c) i) * nth i s 0 + lr_at (rlr c) i * nth i (kernel c r x) 0.
Proof. exact (external_step_law n c s r x i). Qed.

Theorem C01_external_step_elementwise (n : nat) (c : rcfg R) (f : R -> R) (s r : list R) (x : rin R) (i : nat) :
  shaped n c -> quiet c -> (forall v, ract c v = map f v) -> length s = n -> length r = n -> (i < n)%nat ->
  let s' := (1 - lr_at (rlr c) i) * nth i s 0 + lr_at (rlr c) i * law_pre c r x i in
  nth i (fst (step_external c (s, r) x)) 0 = s' /\ nth i (snd (step_external c (s, r) x)) 0 = f s'.
Proof. exact (external_step_law_elementwise n c f s r x i). Qed.

(* every step t of a run, from an arbitrary start state, obeys the law w.r.t. the state of step t-1 *)
Theorem C01_run (n : nat) (c : rcfg R) (xs : list (rin R)) (st : rstate R) (t i : nat) (d : rstate R) (dx : rin R) :
  shaped n c -> quiet c -> st_len n st -> (t < length xs)%nat -> (i < n)%nat ->
  let sts := run_states Internal c st xs in
  let prev := match t with O => st | S t' => nth t' sts d end in
  nth i (snd (nth t sts d)) 0
  = (1 - lr_at (rlr c) i) * nth i (snd prev) 0 + lr_at (rlr c) i * nth i (ract c (kernel c (snd prev) (nth t xs dx))) 0.
Proof. exact (run_internal_law n c xs st t i d dx). Qed.

Theorem C01_run_external (n : nat) (c : rcfg R) (xs : list (rin R)) (st : rstate R) (t i : nat) (d : rstate R) (dx : rin R) :
  shaped n c -> quiet c -> st_len n st -> (t < length xs)%nat -> (i < n)%nat ->
  let sts := run_states External c st xs in
  let prev := match t with O => st | S t' => nth t' sts d end in
  snd (nth t sts d) = ract c (fst (nth t sts d)) /\
  nth i (fst (nth t sts d)) 0
  = (1 - lr_at (rlr c) i) * nth i (fst prev) 0 + lr_at (rlr c) i * nth i (kernel c (snd prev) (nth t xs dx)) 0.
Proof. exact (run_external_law n c xs st t i d dx). Qed.

(* shapes are invariant along a run *)
Theorem C01_run_shapes (n : nat) (e : equation) (c : rcfg R) (xs : list (rin R)) (st : rstate R) :
  shaped n c -> quiet c -> st_len n st ->
  length (run_states e c st xs) = length xs /\ Forall (st_len n) (run_states e c st xs).
Proof. intros Hs Hq Hst. split; [apply run_states_length | now apply run_states_len]. Qed.

(* with zero gains the generator draws do not matter *)
Theorem C01_noise_draws_irrelevant (e : equation) (c : rcfg R) (st : rstate R) (x y : rin R) :
  quiet c -> i_u x = i_u y -> i_fb x = i_fb y -> step e c st x = step e c st y.
Proof. intros Hq Hu Hf. apply step_ignores_draws; [exact Hq | split; assumption]. Qed.

(* a python-scalar leak rate is the constant per-unit vector *)
Theorem C01_scalar_lr_is_constant_vector (n : nat) (e : equation) (c : rcfg R) (a : R) (st : rstate R) (x : rin R) :
  shaped n c -> quiet c -> st_len n st ->
  step e (set_lr c (LrS a)) st x = step e (set_lr c (LrV (repeat a n))) st x.
Proof. exact (step_scalar_lr n e c a st x). Qed.

(* initialize(): a Win with a bias column (input_bias=True) is the split (bias = first column, Win' = the rest),
   and acts on an input u as the full matrix acts on (1, u) *)
Theorem C01_win_bias_column (Wfull : list (list R)) (bias_arg : list R) (d : nat) (u : list R) :
  ncols Wfull = S d ->
  init_win_bias true Wfull bias_arg d = Some (map (@tl R) Wfull, map (hd 0) Wfull) /\
  vadd (mv (map (@tl R) Wfull) u) (map (hd 0) Wfull) = mv Wfull (1 :: u).
Proof. intros E. split; [now apply init_bias_column | symmetry; apply win_bias_column]. Qed.

Theorem C01_win_plain (Win : list (list R)) (bias_arg : list R) (d : nat) :
  ncols Win = d ->
  init_win_bias true Win bias_arg d = Some (Win, bias_arg) /\
  init_win_bias false Win bias_arg d = Some (Win, vzeros (length Win)).
Proof. exact (init_split Win bias_arg d). Qed.

Theorem C01_win_bad_shape_rejected (Win : list (list R)) (bias_arg : list R) (d : nat) (input_bias : bool) :
  ncols Win <> d -> (ncols Win <> S d \/ input_bias = false) -> init_win_bias input_bias Win bias_arg d = None.
Proof. exact (init_reject Win bias_arg d input_bias). Qed.

(* ---- consequences with content beyond the definition ---- *)
Section Generic.
Context {F : Type} `{Num F}.
(* time-compositionality of the node loop (used by C07): running xs ++ ys = running ys after xs *)
Theorem C01_run_app (e : equation) (c : rcfg F) (st : rstate F) (xs ys : list (rin F)) :
  run_outputs e c st (xs ++ ys) = run_outputs e c st xs ++ run_outputs e c (run_final e c st xs) ys /\
  run_final e c st (xs ++ ys) = run_final e c (run_final e c st xs) ys.
Proof. split; [apply run_outputs_app | apply run_final_app]. Qed.
(* the state left behind is the last returned one *)
Theorem C01_final_is_last (e : equation) (c : rcfg F) (st : rstate F) (xs : list (rin F)) :
  run_final e c st xs = last (run_states e c st xs) st.
Proof. exact (run_final_last e c st xs). Qed.
End Generic.

(* with lr = 1 the new state is f(pre): the previous state enters only through W.r *)
Theorem C01_lr_one (n : nat) (c : rcfg R) (s1 s2 r1 r2 : list R) (x : rin R) :
  shaped n c -> quiet c -> rlr c = LrS 1 -> length r1 = n -> length r2 = n ->
  snd (step_internal c (s1, r1) x) = ract c (kernel c r1 x) /\
  (mv (rW c) r1 = mv (rW c) r2 -> snd (step_internal c (s1, r1) x) = snd (step_internal c (s2, r2) x)).
Proof. intros. split; [now apply (lr_one_step n) | now apply (lr_one_only_Wr n)]. Qed.

(* ---- non-vacuity ---- *)
(* a 2-unit reservoir with lr = 1/2, relu, a bias and a feedback connection: the hypotheses hold ... *)
Definition ex_cfg {F} `{Num F} (q : Z -> Z -> F) : rcfg F :=
  {| rW := [[q 1 2; q (-1) 1]; [q 1 4; q 1 2]]%Z; rWin := [[q 1 1]; [q (-2) 1]]%Z; rbias := [q 1 2; q 0 1]%Z;
     rWfb := Some [[q 1 1]; [q 1 1]]%Z; rlr := LrS (q 1 2)%Z; ract := map a_relu; rfbact := map a_half;
     g_in := n0; g_fb := n0; g_rc := n0 |}.
Example C01_hypotheses_satisfiable : shaped 2 (ex_cfg (fun a b => IZR a / IZR b)) /\ quiet (ex_cfg (fun a b => IZR a / IZR b)).
Proof. unfold shaped, quiet; cbn. repeat split; auto; intros; try apply map_length. now inversion H. Qed.
(* ... and its step is not the identity: from state (1, 2), input 1, feedback 4:  (1, 2) -> (3/2, 13/8) *)
Example C01_step_example :
  snd (step_internal (ex_cfg (fun a b => Qmake a (Z.to_pos b))) ([0;0]%Q, [1;2]%Q)
        {| i_u := [1%Q]; i_fb := [4%Q]; xi_in := []; xi_fb := []; xi_rc := [] |}) = [(3#2)%Q; (13#8)%Q].
Proof. vm_compute. reflexivity. Qed.

Print Assumptions C01_kernel.
Print Assumptions C01_internal_step.
Print Assumptions C01_internal_step_elementwise.
Print Assumptions C01_external_step.
Print Assumptions C01_external_step_elementwise.
Print Assumptions C01_run.
Print Assumptions C01_run_external.
Print Assumptions C01_run_shapes.
Print Assumptions C01_noise_draws_irrelevant.
Print Assumptions C01_scalar_lr_is_constant_vector.
Print Assumptions C01_win_bias_column.
Print Assumptions C01_win_plain.
Print Assumptions C01_win_bad_shape_rejected.
Print Assumptions C01_run_app.
Print Assumptions C01_final_is_last.
Print Assumptions C01_lr_one.

(* ================================================================================================================ *)
(* Tie (T): the definitions GENERATED on this run from the current source text of nodes/reservoirs/base.py and
   utils/random.py (coq/gen/Gen_reservoir.v) ARE the model every theorem above is about -- for every configuration, state,
   input, feedback value and generator draw, scalar and per-unit leak rates, both equations.  If the source changes the
   recurrence, the generated term changes and these stop checking.                                                    *)
From RV Require Import base.GenPrelude gen.Gen_reservoir proofs.Gen_reservoir_eq.

Theorem C01_generated_kernel_is_model (c : rcfg R) (r : list R) (x : rin R) :
  GenReservoir_LrS.reservoir_kernel (rW c) (rWin c) (rbias c) (c_has_fb c) (c_Wfb c) (rfbact c) (g_in c) (g_fb c)
                                    (i_fb x) (xi_in x) (xi_fb x) (i_u x) r
  = kernel c r x.
Proof. exact (gen_kernel_eq c r x). Qed.

Theorem C01_generated_noise_is_model (g : R) (xi : list R) (n : nat) : GenReservoir_LrS.noise xi n g = noise g xi n.
Proof. exact (gen_noise_eq g xi n). Qed.

Theorem C01_generated_forward_internal_is_model (c : rcfg R) (a : R) (s r : list R) (x : rin R) : rlr c = LrS a ->
  GenReservoir_LrS.forward_internal (rW c) (rWin c) (rbias c) (c_has_fb c) (c_Wfb c) a (ract c) (rfbact c)
                                    (g_in c) (g_fb c) (g_rc c) r (i_fb x) (xi_in x) (xi_fb x) (xi_rc x) (i_u x)
  = snd (step_internal c (s, r) x)
  /\ fst (step_internal c (s, r) x) = s.
Proof. exact (gen_forward_internal_eq c a s r x). Qed.

Theorem C01_generated_forward_internal_is_model_per_unit_lr (c : rcfg R) (v : list R) (s r : list R) (x : rin R) : rlr c = LrV v ->
  GenReservoir_LrV.forward_internal (rW c) (rWin c) (rbias c) (c_has_fb c) (c_Wfb c) v (ract c) (rfbact c)
                                    (g_in c) (g_fb c) (g_rc c) r (i_fb x) (xi_in x) (xi_fb x) (xi_rc x) (i_u x)
  = snd (step_internal c (s, r) x)
  /\ fst (step_internal c (s, r) x) = s.
Proof. exact (gen_forward_internal_eq_V c v s r x). Qed.

(* forward_external returns (new Node state, value written to params['internal_state']) *)
Theorem C01_generated_forward_external_is_model (c : rcfg R) (a : R) (s r : list R) (x : rin R) : rlr c = LrS a ->
  GenReservoir_LrS.forward_external (rW c) (rWin c) (rbias c) (c_has_fb c) (c_Wfb c) a (ract c) (rfbact c)
                                    (g_in c) (g_fb c) (g_rc c) r (i_fb x) s (xi_in x) (xi_fb x) (xi_rc x) (i_u x)
  = (snd (step_external c (s, r) x), fst (step_external c (s, r) x)).
Proof. exact (gen_forward_external_eq c a s r x). Qed.

Theorem C01_generated_forward_external_is_model_per_unit_lr (c : rcfg R) (v : list R) (s r : list R) (x : rin R) : rlr c = LrV v ->
  GenReservoir_LrV.forward_external (rW c) (rWin c) (rbias c) (c_has_fb c) (c_Wfb c) v (ract c) (rfbact c)
                                    (g_in c) (g_fb c) (g_rc c) r (i_fb x) s (xi_in x) (xi_fb x) (xi_rc x) (i_u x)
  = (snd (step_external c (s, r) x), fst (step_external c (s, r) x)).
Proof. exact (gen_forward_external_eq_V c v s r x). Qed.

(* the documented law, stated directly about the generated forward_internal *)
Theorem C01_generated_internal_law (n : nat) (c : rcfg R) (a : R) (r : list R) (x : rin R) (i : nat) :
  shaped n c -> quiet c -> rlr c = LrS a -> length r = n -> (i < n)%nat ->
  nth i (GenReservoir_LrS.forward_internal (rW c) (rWin c) (rbias c) (c_has_fb c) (c_Wfb c) a (ract c) (rfbact c)
                                    (g_in c) (g_fb c) (g_rc c) r (i_fb x) (xi_in x) (xi_fb x) (xi_rc x) (i_u x)) 0
  = (1 - a) * nth i r 0 + a * nth i (ract c (kernel c r x)) 0.
Proof.
  intros Hs Hq Hl Hr Hi. destruct (gen_forward_internal_eq c a [] r x Hl) as [E _]. rewrite E.
  destruct (internal_step_law n c [] r x i Hs Hq Hr Hi) as [_ L]. rewrite L, Hl. reflexivity.
Qed.

Print Assumptions C01_generated_kernel_is_model.
Print Assumptions C01_generated_forward_internal_is_model.
Print Assumptions C01_generated_forward_internal_is_model_per_unit_lr.
Print Assumptions C01_generated_forward_external_is_model.
Print Assumptions C01_generated_forward_external_is_model_per_unit_lr.
Print Assumptions C01_generated_internal_law.

(* ================================================================================================================
   The R-vs-Q instance gap, closed by proof (base/NumHom.v, proofs/QR_bridge_C01.v).
   The theorems above are about model/Reservoir.v at F := R; the correspondence run (run/RunC01.v, chk_res) evaluates the SAME
   term at F := Q.  [Q2R] is a homomorphism of the [Num] class (division included: x/0 = 0 on both sides, Rinv_0), so every
   function of the model commutes with the entry-wise embedding [qv2r := map Q2R], [qm2r := map (map Q2R)]:
   running at Q and embedding = running at R on the embedded data.  Hence [chk_res ... = true] (exact activations) says that
   the values of the R-MODEL OF THE THEOREMS on those rational parameters and inputs are within 1e-9 of what reservoirpy
   returned -- no longer an informal reading of the Q run.
   [cfg2r c fR gR]: every array/scalar of c embedded, activations replaced by fR / gR; [st2r], [in2r]: states and step inputs
   embedded component-wise.  No shape hypothesis and no side condition. *)
From RV Require Import base.GenPrelude base.NumHom proofs.QR_bridge_C01.

Theorem C01_Q2R_is_a_Num_homomorphism :
  Q2R n0 = n0 /\ Q2R n1 = n1 /\
  (forall a b : Q, Q2R (nadd a b) = nadd (Q2R a) (Q2R b)) /\ (forall a b : Q, Q2R (nsub a b) = nsub (Q2R a) (Q2R b)) /\
  (forall a b : Q, Q2R (nmul a b) = nmul (Q2R a) (Q2R b)) /\ (forall a b : Q, Q2R (ndiv a b) = ndiv (Q2R a) (Q2R b)) /\
  (forall a : Q, Q2R (nopp a) = nopp (Q2R a)) /\ (forall z : Z, Q2R (nofZ z) = nofZ z) /\
  (forall a : Q, Q2R (nabs a) = nabs (Q2R a)) /\
  (forall a b : Q, nltb a b = nltb (Q2R a) (Q2R b)) /\ (forall a b : Q, nleb a b = nleb (Q2R a) (Q2R b)).
Proof. exact Q2R_hom_spelled. Qed.

(* one step of either equation (internal / external), scalar or per-unit leak, with or without feedback, any noise gains and
   draws, any pair of related activations *)
Theorem C01_Qstep_embeds_in_Rstep (e : equation) (c : rcfg Q) (fR gR : list R -> list R) (st : rstate Q) (x : rin Q) :
  (forall v, qv2r (ract c v) = fR (qv2r v)) -> (forall v, qv2r (rfbact c v) = gR (qv2r v)) ->
  st2r (step e c st x) = step e (cfg2r c fR gR) (st2r st) (in2r x).
Proof. exact (Qstep_embeds_in_Rstep e c fR gR st x). Qed.

(* a whole run over any input list: all intermediate (internal_state, state) pairs, all emitted rows, the final pair *)
Theorem C01_Qrun_embeds_in_Rrun (e : equation) (c : rcfg Q) (fR gR : list R -> list R) (st : rstate Q) (xs : list (rin Q)) :
  (forall v, qv2r (ract c v) = fR (qv2r v)) -> (forall v, qv2r (rfbact c v) = gR (qv2r v)) ->
  map st2r (run_states e c st xs) = run_states e (cfg2r c fR gR) (st2r st) (map in2r xs) /\
  qm2r (run_outputs e c st xs) = run_outputs e (cfg2r c fR gR) (st2r st) (map in2r xs) /\
  st2r (run_final e c st xs) = run_final e (cfg2r c fR gR) (st2r st) (map in2r xs).
Proof. exact (Qrun_embeds_in_Rrun e c fR gR st xs). Qed.

(* the activation premise holds for the four exactly computable activations the harness passes to reservoirpy *)
Theorem C01_exact_activations_embed :
  (forall v, qv2r (map a_id v) = map a_id (qv2r v)) /\ (forall v, qv2r (map a_relu v) = map a_relu (qv2r v)) /\
  (forall v, qv2r (map a_hardtanh v) = map a_hardtanh (qv2r v)) /\ (forall v, qv2r (map a_half v) = map a_half (qv2r v)).
Proof. exact Qexact_activations_embed. Qed.

(* ... which at R are max(x,0), clip(x,-1,1) and x/2 *)
Theorem C01_exact_activations_at_R (x : R) :
  a_relu x = Rmax x 0 /\ a_hardtanh x = Rmax (-1) (Rmin 1 x) /\ a_half x = x / 2.
Proof. exact (conj (a_relu_R x) (conj (a_hardtanh_R x) (a_half_R x))). Qed.

(* initialize(): the Win / bias split commutes with the embedding too (rejected shapes stay rejected) *)
Theorem C01_Qinit_embeds (ib : bool) (Win : list (list Q)) (bias_arg : list Q) (in_dim : nat) :
  option_map (fun p => (qm2r (fst p), qv2r (snd p))) (init_win_bias ib Win bias_arg in_dim)
  = init_win_bias ib (qm2r Win) (qv2r bias_arg) in_dim.
Proof. exact (Qinit_embeds ib Win bias_arg in_dim). Qed.

(* non-vacuity: 2 units, feedback through relu, per-unit leak, hard-tanh, external equation, two steps -- the R-model on the
   embedded data yields exactly the embedded numbers the Q run computes (vm_compute on the Q side only) *)
Example C01_Qrun_embeds_example :
  run_outputs External (cfg2r excfg (map a_hardtanh) (map a_relu)) (qv2r [0%Q; 0%Q], qv2r [(1#2)%Q; (-1#2)%Q])
              [in2r (exin (1#4) (1#2)); in2r (exin (-1#2) (-1#1))]
  = qm2r [[(5#8)%Q; (9#64)%Q]; [(7#512)%Q; (1011#2048)%Q]].
Proof. exact Qrun_embeds_example. Qed.

Print Assumptions C01_Q2R_is_a_Num_homomorphism.
Print Assumptions C01_Qstep_embeds_in_Rstep.
Print Assumptions C01_Qrun_embeds_in_Rrun.
Print Assumptions C01_exact_activations_embed.
Print Assumptions C01_exact_activations_at_R.
Print Assumptions C01_Qinit_embeds.

(* ---- the verdict of the correspondence runner, read at R ----
   [chk_res] (run/RunC01.v) is the boolean evaluated at Q by vm_compute for every C01 / C15 scenario; [rclose m o] is
   |m - o| <= 1e-9 * max(1,|m|) on reals ([vrclose], [mrclose]: entry-wise, same shape).  With exactly computable activations
   ([exact_act]: not a recorded table), a verdict [true] IS a statement about the R-instance of the model, the object of the
   theorems of this file: initialised (Win / bias split) and run on the embedded parameters and inputs, it yields rows, a final
   state and a final internal state within tolerance of the embedded observations of reservoirpy's node. *)
From RV Require Import run.RunC01.

Theorem C01_tolerance_test_at_R (m o : Q) :
  (qclose m o = true <-> rclose (Q2R m) (Q2R o)) /\
  (rclose (Q2R m) (Q2R o) -> Rabs (Q2R m - Q2R o) <= 1 / 1000000000 * Rmax 1 (Rabs (Q2R m))).
Proof. exact (conj (qclose_rclose m o) (rclose_abs (Q2R m) (Q2R o))). Qed.

Theorem C01_chk_res_is_about_R_model (e : equation) (W : list (list Q)) (ib : bool) (Win_arg : list (list Q)) (bias_arg : list Q)
    (in_dim : nat) (Wfb : option (list (list Q))) (lr : leak Q) (act fbact : actc) (s0 r0 : list Q) (us fbs : list (list Q))
    (outs : list (list Q)) (sfin rfin : list Q) (obsWin : list (list Q)) (obsbias : list Q) :
  exact_act act = true -> exact_act fbact = true ->
  chk_res e W ib Win_arg bias_arg in_dim Wfb lr act fbact s0 r0 us fbs outs sfin rfin obsWin obsbias = true ->
  exists (Win : list (list Q)) (bias : list Q),
    init_win_bias ib (qm2r Win_arg) (qv2r bias_arg) in_dim = Some (qm2r Win, qv2r bias) /\
    let cR := cfg2r (mkcfg W Win bias Wfb lr act fbact) (act_funR act) (act_funR fbact) in
    let xs := map in2r (map mkin (combine us fbs)) in
    let st0 := (qv2r s0, qv2r r0) in
    mrclose (qm2r Win) (qm2r obsWin) /\ vrclose (qv2r bias) (qv2r obsbias) /\
    mrclose (run_outputs e cR st0 xs) (qm2r outs) /\
    vrclose (fst (run_final e cR st0 xs)) (qv2r sfin) /\ vrclose (snd (run_final e cR st0 xs)) (qv2r rfin).
Proof. exact (chk_res_is_about_R_model e W ib Win_arg bias_arg in_dim Wfb lr act fbact s0 r0 us fbs outs sfin rfin obsWin obsbias). Qed.

(* the R configuration of that statement, spelled out: embedded arrays, the real activation functions, noise gains 0 *)
Theorem C01_chk_res_R_config W Win bias Wfb lr act fbact :
  cfg2r (mkcfg W Win bias Wfb lr act fbact) (act_funR act) (act_funR fbact)
  = {| rW := qm2r W; rWin := qm2r Win; rbias := qv2r bias; rWfb := option_map qm2r Wfb; rlr := leak2r lr;
       ract := act_funR act; rfbact := act_funR fbact; g_in := 0; g_fb := 0; g_rc := 0 |}.
Proof. exact (cfg2r_mkcfg W Win bias Wfb lr act fbact). Qed.

(* non-vacuity: a scenario on which the runner answers true *)
Example C01_chk_res_example :
  chk_res Internal exW false exWin [] 1 None (LrS (1#2)%Q) AHard AId [0%Q; 0%Q] [(1#2)%Q; (-1#2)%Q] [[(1#4)%Q]] [[]]
          [[(11#16)%Q; (-5#32)%Q]] [0%Q; 0%Q] [(11#16)%Q; (-5#32)%Q] exWin [0%Q; 0%Q] = true.
Proof. exact chk_res_example. Qed.

Print Assumptions C01_tolerance_test_at_R.
Print Assumptions C01_chk_res_is_about_R_model.
Print Assumptions C01_chk_res_R_config.
