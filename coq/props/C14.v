(* C14 — every stochastic component is a deterministic function of its seed.
   Statement-only file; the model is model/Prov.v (provenance semantics of the seed plumbing), the proofs are in
   proofs/Prov_proofs.v.  Reading guide:
     exec st h             runs the history h (list of operations) from program state st, returns (state, produced arrays)
     proj i evs            the arrays (W, Win, bias, Wfb, trajectories) produced by reservoir i
     touches i o           operation o is addressed to reservoir i (construct / initialize / initialize_feedback / run)
     a produced array is a *provenance term*: which stream (root seed), after which requests, which request. *)
From Coq Require Import List Arith Bool.
From RV Require Import model.Prov proofs.Prov_proofs.
Import ListNotations.
Set Warnings "-abstract-large-number".

(* ---- non-interference: integer seed => the arrays of a reservoir do not depend on the history ------------------------
   For ANY two program states a, b (arbitrary global-generator state, arbitrary other nodes and generator objects) in which
   the name i is fresh, and ANY two histories whose operations addressed to i are the same (Reservoir(..., seed=int), then
   initialize / initialize_feedback / run in the same order) but which interleave them with arbitrary other operations
   (set_seed, global draws, other reservoirs -- seeded, unseeded or sharing Generators --, datasets, scikit-learn nodes):
   W, Win, bias, Wfb and every noisy trajectory of i have the same provenance. *)
Theorem C14_seeded_component_history_free (i : nat) (a b : state) (h1 h2 : list op) :
  nodes a i = None -> nodes b i = None -> wf i a -> wf i b ->
  Forall (seeded_op i) h1 -> Forall (seeded_op i) h2 ->
  filter (touches i) h1 = filter (touches i) h2 ->
  proj i (snd (exec a h1)) = proj i (snd (exec b h2)).
Proof. intros Na Nb Wa Wb. apply seeded_history_free. apply rel_fresh; assumption. Qed.

(* same statement from a state where i already exists (built with an integer seed), e.g. between two runs *)
Theorem C14_seeded_component_history_free_general (i : nat) (a b : state) (h1 h2 : list op) :
  view i a = view i b -> own_seeded i a -> wf i a -> wf i b ->
  Forall (seeded_op i) h1 -> Forall (seeded_op i) h2 ->
  filter (touches i) h1 = filter (touches i) h2 ->
  proj i (snd (exec a h1)) = proj i (snd (exec b h2)).
Proof. intros V S Wa Wb. apply seeded_history_free. constructor; assumption. Qed.

(* ... they are an explicit function of the operations addressed to i alone (of its seed and arguments only) *)
Theorem C14_seeded_component_function_of_own_ops (i : nat) (a : state) (h : list op) :
  nodes a i = None -> wf i a -> Forall (seeded_op i) h ->
  proj i (snd (exec a h)) = snd (exec (init_state 0) (filter (touches i) h)).
Proof.
  intros Na Wa. apply skip_others. apply rel_fresh; [assumption | reflexivity | assumption | intros j n H; discriminate].
Qed.

(* ---- rpy.set_seed makes a whole script reproducible ----------------------------------------------------------------------
   Two program states that differ only in the content of the (past and present) global generator objects, and in which no
   existing node captured such an object: after set_seed(s), every array produced by any script is the same. *)
Theorem C14_global_seed_reproducible (a b : state) (s : nat) (script : list op) :
  same_but_global a b ->
  snd (exec a (OSetSeed s :: script)) = snd (exec b (OSetSeed s :: script)).
Proof. apply global_seed_reproducible. Qed.

(* in particular from two fresh processes (whatever entropy seeded their global generators) *)
Theorem C14_global_seed_reproducible_fresh_process (k1 k2 s : nat) (script : list op) :
  snd (exec (init_state k1) (OSetSeed s :: script)) = snd (exec (init_state k2) (OSetSeed s :: script)).
Proof. apply global_seed_reproducible, init_same_but_global. Qed.

(* ---- gain 0 means exactly no noise ------------------------------------------------------------------------------------------
   utils/random.noise with gain 0 returns the zero literal and leaves every generator untouched ... *)
Theorem C14_zero_gain_no_noise (st : state) (p : gid) (r : req) : noise st p 0 r = (st, None).
Proof. exact (noise_zero_gain st p r). Qed.

(* ... so a run of a reservoir whose three gains are 0 changes no generator object at all (global, shared or private) and
   its trajectory term carries an empty noise list: it is the term of the noiseless recurrence *)
Theorem C14_zero_gain_run (st : state) (i : nat) (n : rnode) (x din T : nat) :
  nodes st i = Some n -> c_gin (n_cfg n) = 0 /\ c_gfb (n_cfg n) = 0 /\ c_grc (n_cfg n) = 0 -> n_params n <> None ->
  heap (fst (step st (ORun i x din T))) = heap st /\
  epoch (fst (step st (ORun i x din T))) = epoch st /\
  forall e, In e (snd (step st (ORun i x din T))) ->
    exists W Win b, e_term e = TRun (c_hyp (n_cfg n)) W Win b (wfb_mat n) (n_log n ++ [mkRun x T (fb_active n) []]).
Proof. exact (run_zero_gain st i n x din T). Qed.

(* ---- the seed reaches every component ------------------------------------------------------------------------------------------
   Every draw inside every array of a reservoir built with the integer seed s (W, Win, bias, Wfb, each noise draw of each
   run) is rooted in default_rng(s): none falls back to the global generator, whatever the history. *)
Theorem C14_seed_reaches_every_component (i s : nat) (st : state) (h : list op) :
  nodes st i = None -> wf i st -> Forall (seeded_op_with i s) h ->
  Forall (fun e => term_rooted s (e_term e)) (proj i (snd (exec st h))).
Proof. exact (seed_reaches_fresh i s st h). Qed.

(* in particular the feedback weights: whatever the node did before its feedback connection was initialised (noisy runs
   that advanced its noise generator, any state of the program), Wfb of a reservoir built with the integer seed s is the
   draw at position 0 of default_rng(s) *)
Theorem C14_seeded_Wfb_is_position_zero (st : state) (i : nat) (n : rnode) (dfb s : nat) :
  c_src (n_cfg n) = SInt s ->
  map e_term (snd (do_initfb st i n dfb)) =
    [TMat (MDraw (mkDraw (Seeded s) [] (mkReq DBERN (c_units (n_cfg n)) dfb (fst (c_Fb (n_cfg n)))) (snd (c_Fb (n_cfg n)))))].
Proof. intros H. rewrite (do_initfb_int st i n dfb s H). reflexivity. Qed.

(* ---- different seeds, different streams ------------------------------------------------------------------------------------------ *)
Theorem C14_different_seeds_different_streams (i j s1 s2 : nat) (st : state) (h : list op) (e1 e2 : event) :
  s1 <> s2 -> nodes st i = None -> nodes st j = None -> wf i st -> wf j st ->
  Forall (seeded_op_with i s1) h -> Forall (seeded_op_with j s2) h ->
  In e1 (proj i (snd (exec st h))) -> In e2 (proj j (snd (exec st h))) -> term_random (e_term e1) ->
  e_term e1 <> e_term e2.
Proof. exact (different_seeds_different_streams i j s1 s2 st h e1 e2). Qed.

(* ---- numpy as an oracle ------------------------------------------------------------------------------------------
   Hypothesis (TRUSTED): the bytes of a produced array are a function of its provenance term, i.e. of the stream root, the
   requests served before (the position) and the request -- "same stream-id /\ same position => same values". *)
Section Numpy.
  Variable V : Type.
  Variable np_value : term -> V.
  Theorem C14_same_seed_bit_identical (i : nat) (a b : state) (h1 h2 : list op) :
    nodes a i = None -> nodes b i = None -> wf i a -> wf i b ->
    Forall (seeded_op i) h1 -> Forall (seeded_op i) h2 ->
    filter (touches i) h1 = filter (touches i) h2 ->
    map (fun e => np_value (e_term e)) (proj i (snd (exec a h1))) = map (fun e => np_value (e_term e)) (proj i (snd (exec b h2))).
  Proof. intros. f_equal. apply C14_seeded_component_history_free; assumption. Qed.
End Numpy.

(* ---- non-vacuity and sharpness ------------------------------------------------------------------------------------------ *)
Definition ex_cfg (sd : src) : rcfg := mkCfg 6 sd true 1 2 3 0 true (0,0) (0,0) (0,0) (0,0) 0.
Definition ex_own (i : nat) (sd : src) : list op := [OConstruct i (ex_cfg sd); OInit i 2; OInitFb i 2; ORun i 0 2 3].
Definition ex_junk : list op :=
  [OGlobalDraw (mkReq DUSER 3 3 0); OConstruct 7 (ex_cfg SNone); OInit 7 2; OInitFb 7 2; ORun 7 0 2 2; OSetSeed 5;
   OSkNode 0 None true 0; ODataset SNone (mg_req 17) 0].
(* the hypotheses of the non-interference theorem hold for a concrete interleaving and the reservoir produces 5 arrays *)
Example C14_history_free_example :
  let h1 := ex_own 1 (SInt 3) in
  let h2 := [OSetSeed 9; OConstruct 1 (ex_cfg (SInt 3))] ++ ex_junk ++ [OInit 1 2; OGlobalDraw (mkReq DUSER 1 1 0); OInitFb 1 2; ORun 7 1 2 4; ORun 1 0 2 3] in
  filter (touches 1) h1 = filter (touches 1) h2 /\
  length (proj 1 (snd (exec (init_state 0) h1))) = 5 /\
  proj 1 (snd (exec (init_state 0) h1)) = proj 1 (snd (exec (init_state 1) h2)).
Proof. vm_compute. repeat split; reflexivity. Qed.
(* sharpness: without a seed the same interleaving changes the arrays of the reservoir (the integer seed is necessary) *)
Example C14_unseeded_depends_on_history :
  proj 1 (snd (exec (init_state 0) (ex_own 1 SNone))) <> proj 1 (snd (exec (init_state 0) (OGlobalDraw (mkReq DUSER 3 3 0) :: ex_own 1 SNone))).
Proof. vm_compute. discriminate. Qed.
(* a shared Generator object is advanced by earlier constructions: a second reservoir given the *same object* differs,
   two reservoirs given two fresh generators made from the same integer agree *)
Example C14_shared_generator_advances :
  let same_object := [ONewGen 0 4] ++ ex_own 1 (SGen 0) ++ ex_own 2 (SGen 0) in
  let fresh_objects := [ONewGen 0 4] ++ ex_own 1 (SGen 0) ++ [ONewGen 1 4] ++ ex_own 2 (SGen 1) in
  map e_term (proj 1 (snd (exec (init_state 0) same_object))) <> map e_term (proj 2 (snd (exec (init_state 0) same_object))) /\
  map e_term (proj 1 (snd (exec (init_state 0) fresh_objects))) = map e_term (proj 2 (snd (exec (init_state 0) fresh_objects))).
Proof. vm_compute. split; [discriminate | reflexivity]. Qed.
(* feedback attached after noisy warm-up runs of different lengths: same Wfb (same W, Win, bias too) *)
Definition ex_late (i warm : nat) : list op :=
  [OConstruct i (mkCfg 6 (SInt 3) false 0 0 2 0 true (0,0) (0,0) (0,0) (0,0) 0); ORun i 0 1 warm; OAttachFb i; OInitFb i 2; ORun i 1 1 2].
Example C14_wfb_after_warmup :
  let evs := snd (exec (init_state 0) (ex_late 1 0 ++ ex_late 2 7)) in
  map e_term (filter (fun e => e_tag e <? 4) (proj 1 evs)) = map e_term (filter (fun e => e_tag e <? 4) (proj 2 evs)) /\
  length (filter (fun e => e_tag e =? TAG_WFB) evs) = 2.
Proof. vm_compute. split; reflexivity. Qed.
(* with an integer seed every initialiser restarts default_rng(seed): Win and bias of the same shape are the same draw *)
Example C14_int_seed_same_position :
  exists d, map e_term (snd (exec (init_state 0) [OConstruct 0 (ex_cfg (SInt 3)); OInit 0 1])) =
            [TMat (MDraw (mkDraw (Seeded 3) [] (mkReq DNORM 6 6 0) 0)); TMat (MDraw d); TMat (MDraw d)].
Proof. eexists. vm_compute. reflexivity. Qed.
(* after set_seed(3) an unseeded reservoir draws W exactly like Reservoir(seed=3) *)
Example C14_set_seed_is_default_rng :
  nth 0 (map e_term (snd (exec (init_state 0) [OSetSeed 3; OConstruct 0 (ex_cfg SNone); OInit 0 1]))) (TMat (MZero 0 0)) =
  nth 0 (map e_term (snd (exec (init_state 0) [OConstruct 0 (ex_cfg (SInt 3)); OInit 0 1]))) (TMat (MZero 0 0)).
Proof. vm_compute. reflexivity. Qed.

Print Assumptions C14_seeded_component_history_free.
Print Assumptions C14_seeded_component_history_free_general.
Print Assumptions C14_seeded_component_function_of_own_ops.
Print Assumptions C14_global_seed_reproducible.
Print Assumptions C14_global_seed_reproducible_fresh_process.
Print Assumptions C14_zero_gain_no_noise.
Print Assumptions C14_zero_gain_run.
Print Assumptions C14_seed_reaches_every_component.
Print Assumptions C14_seeded_Wfb_is_position_zero.
Print Assumptions C14_different_seeds_different_streams.
Print Assumptions C14_same_seed_bit_identical.
