(* C14 — every stochastic component is a deterministic function of its seed.
   Statement-only file; the model is model/Prov.v (provenance semantics of the seed plumbing), the proofs are in
   proofs/Prov_proofs.v.  Reading guide:
     exec st h             runs the history h (list of operations) from program state st, returns (state, produced arrays)
     proj i evs            the arrays (W, Win, bias, Wfb, trajectories) produced by reservoir i
     touches i o           operation o is addressed to reservoir i (construct / initialize / initialize_feedback / run)
     a produced array is a *provenance term*: which stream (root seed), after which requests, which request. *)
From Coq Require Import List Arith Bool.
From RV Require Import model.Prov proofs.Prov_proofs.
Import ListNotations.
Set Warnings "-abstract-large-number".

(* ---- non-interference: integer seed => the arrays of a reservoir do not depend on the history ------------------------
   For ANY two program states a, b (arbitrary global-generator state, arbitrary other nodes and generator objects) in which
   the name i is fresh, and ANY two histories whose operations addressed to i are the same (Reservoir(..., seed=int), then
   initialize / initialize_feedback / run in the same order) but which interleave them with arbitrary other operations
   (set_seed, global draws, other reservoirs -- seeded, unseeded or sharing Generators --, datasets, scikit-learn nodes):
   W, Win, bias, Wfb and every noisy trajectory of i have the same provenance. *)
Theorem C14_seeded_component_history_free (i : nat) (a b : state) (h1 h2 : list op) :
  nodes a i = None -> nodes b i = None -> wf i a -> wf i b ->
  Forall (seeded_op i) h1 -> Forall (seeded_op i) h2 ->
  filter (touches i) h1 = filter (touches i) h2 ->
  proj i (snd (exec a h1)) = proj i (snd (exec b h2)).
Proof. intros Na Nb Wa Wb. apply seeded_history_free. apply rel_fresh; assumption. Qed.

(* same statement from a state where i already exists (built with an integer seed), e.g. between two runs *)
Theorem C14_seeded_component_history_free_general (i : nat) (a b : state) (h1 h2 : list op) :
  view i a = view i b -> own_seeded i a -> wf i a -> wf i b ->
  Forall (seeded_op i) h1 -> Forall (seeded_op i) h2 ->
  filter (touches i) h1 = filter (touches i) h2 ->
  proj i (snd (exec a h1)) = proj i (snd (exec b h2)).
Proof. intros V S Wa Wb. apply seeded_history_free. constructor; assumption. Qed.

(* ... they are an explicit function of the operations addressed to i alone (of its seed and arguments only) *)
Theorem C14_seeded_component_function_of_own_ops (i : nat) (a : state) (h : list op) :
  nodes a i = None -> wf i a -> Forall (seeded_op i) h ->
  proj i (snd (exec a h)) = snd (exec (init_state 0) (filter (touches i) h)).
Proof.
  intros Na Wa. apply skip_others. apply rel_fresh; [assumption | reflexivity | assumption | intros j n H; discriminate].
Qed.

(* ---- rpy.set_seed makes a whole script reproducible ----------------------------------------------------------------------
   Two program states that differ only in the content of the (past and present) global generator objects, and in which no
   existing node captured such an object: after set_seed(s), every array produced by any script is the same. *)
Theorem C14_global_seed_reproducible (a b : state) (s : nat) (script : list op) :
  same_but_global a b ->
  snd (exec a (OSetSeed s :: script)) = snd (exec b (OSetSeed s :: script)).
Proof. apply global_seed_reproducible. Qed.

(* in particular from two fresh processes (whatever entropy seeded their global generators) *)
Theorem C14_global_seed_reproducible_fresh_process (k1 k2 s : nat) (script : list op) :
  snd (exec (init_state k1) (OSetSeed s :: script)) = snd (exec (init_state k2) (OSetSeed s :: script)).
Proof. apply global_seed_reproducible, init_same_but_global. Qed.

(* ---- gain 0 means exactly no noise ------------------------------------------------------------------------------------------
   utils/random.noise with gain 0 returns the zero literal and leaves every generator untouched ... *)
Theorem C14_zero_gain_no_noise (st : state) (p : gid) (r : req) : noise st p 0 r = (st, None).
Proof. exact (noise_zero_gain st p r). Qed.

(* ... so a run of a reservoir whose three gains are 0 changes no generator object at all (global, shared or private) and
   its trajectory term carries an empty noise list: it is the term of the noiseless recurrence *)
Theorem C14_zero_gain_run (st : state) (i : nat) (n : rnode) (x din T : nat) :
  nodes st i = Some n -> c_gin (n_cfg n) = 0 /\ c_gfb (n_cfg n) = 0 /\ c_grc (n_cfg n) = 0 -> n_params n <> None ->
  heap (fst (step st (ORun i x din T))) = heap st /\
  epoch (fst (step st (ORun i x din T))) = epoch st /\
  forall e, In e (snd (step st (ORun i x din T))) ->
    exists W Win b, e_term e = TRun (c_hyp (n_cfg n)) W Win b (wfb_mat n) (n_log n ++ [mkRun x T (fb_active n) []]).
Proof. exact (run_zero_gain st i n x din T). Qed.

(* ---- the seed reaches every component ------------------------------------------------------------------------------------------
   Every draw inside every array of a reservoir built with the integer seed s (W, Win, bias, Wfb, each noise draw of each
   run) is rooted in default_rng(s): none falls back to the global generator, whatever the history. *)
Theorem C14_seed_reaches_every_component (i s : nat) (st : state) (h : list op) :
  nodes st i = None -> wf i st -> Forall (seeded_op_with i s) h ->
  Forall (fun e => term_rooted s (e_term e)) (proj i (snd (exec st h))).
Proof. exact (seed_reaches_fresh i s st h). Qed.

(* in particular the feedback weights: whatever the node did before its feedback connection was initialised (noisy runs
   that advanced its noise generator, any state of the program), Wfb of a reservoir built with the integer seed s is the
   draw at position 0 of default_rng(s) *)
Theorem C14_seeded_Wfb_is_position_zero (st : state) (i : nat) (n : rnode) (dfb s : nat) :
  c_src (n_cfg n) = SInt s ->
  map e_term (snd (do_initfb st i n dfb)) =
    [TMat (MDraw (mkDraw (Seeded s) [] (mkReq DBERN (c_units (n_cfg n)) dfb (fst (c_Fb (n_cfg n)))) (snd (c_Fb (n_cfg n)))))].
Proof. intros H. rewrite (do_initfb_int st i n dfb s H). reflexivity. Qed.

(* ---- different seeds, different streams ------------------------------------------------------------------------------------------ *)
Theorem C14_different_seeds_different_streams (i j s1 s2 : nat) (st : state) (h : list op) (e1 e2 : event) :
  s1 <> s2 -> nodes st i = None -> nodes st j = None -> wf i st -> wf j st ->
  Forall (seeded_op_with i s1) h -> Forall (seeded_op_with j s2) h ->
  In e1 (proj i (snd (exec st h))) -> In e2 (proj j (snd (exec st h))) -> term_random (e_term e1) ->
  e_term e1 <> e_term e2.
Proof. exact (different_seeds_different_streams i j s1 s2 st h e1 e2). Qed.

(* ---- numpy as an oracle ------------------------------------------------------------------------------------------
   Hypothesis (TRUSTED): the bytes of a produced array are a function of its provenance term, i.e. of the stream root, the
   requests served before (the position) and the request -- "same stream-id /\ same position => same values". *)
Section Numpy.
  Variable V : Type.
  Variable np_value : term -> V.
  Theorem C14_same_seed_bit_identical (i : nat) (a b : state) (h1 h2 : list op) :
    nodes a i = None -> nodes b i = None -> wf i a -> wf i b ->
    Forall (seeded_op i) h1 -> Forall (seeded_op i) h2 ->
    filter (touches i) h1 = filter (touches i) h2 ->
    map (fun e => np_value (e_term e)) (proj i (snd (exec a h1))) = map (fun e => np_value (e_term e)) (proj i (snd (exec b h2))).
  Proof. intros. f_equal. apply C14_seeded_component_history_free; assumption. Qed.
End Numpy.

(* ---- non-vacuity and sharpness ------------------------------------------------------------------------------------------ *)
Definition ex_cfg (sd : src) : rcfg := mkCfg 6 sd true 1 2 3 0 true (0,0) (0,0) (0,0) (0,0) 0.
Definition ex_own (i : nat) (sd : src) : list op := [OConstruct i (ex_cfg sd); OInit i 2; OInitFb i 2; ORun i 0 2 3].
Definition ex_junk : list op :=
  [OGlobalDraw (mkReq DUSER 3 3 0); OConstruct 7 (ex_cfg SNone); OInit 7 2; OInitFb 7 2; ORun 7 0 2 2; OSetSeed 5;
   OSkNode 0 None true 0; ODataset SNone (mg_req 17) 0].
(* the hypotheses of the non-interference theorem hold for a concrete interleaving and the reservoir produces 5 arrays *)
Example C14_history_free_example :
  let h1 := ex_own 1 (SInt 3) in
  let h2 := [OSetSeed 9; OConstruct 1 (ex_cfg (SInt 3))] ++ ex_junk ++ [OInit 1 2; OGlobalDraw (mkReq DUSER 1 1 0); OInitFb 1 2; ORun 7 1 2 4; ORun 1 0 2 3] in
  filter (touches 1) h1 = filter (touches 1) h2 /\
  length (proj 1 (snd (exec (init_state 0) h1))) = 5 /\
  proj 1 (snd (exec (init_state 0) h1)) = proj 1 (snd (exec (init_state 1) h2)).
Proof. vm_compute. repeat split; reflexivity. Qed.
(* sharpness: without a seed the same interleaving changes the arrays of the reservoir (the integer seed is necessary) *)
Example C14_unseeded_depends_on_history :
  proj 1 (snd (exec (init_state 0) (ex_own 1 SNone))) <> proj 1 (snd (exec (init_state 0) (OGlobalDraw (mkReq DUSER 3 3 0) :: ex_own 1 SNone))).
Proof. vm_compute. discriminate. Qed.
(* a shared Generator object is advanced by earlier constructions: a second reservoir given the *same object* differs,
   two reservoirs given two fresh generators made from the same integer agree *)
Example C14_shared_generator_advances :
  let same_object := [ONewGen 0 4] ++ ex_own 1 (SGen 0) ++ ex_own 2 (SGen 0) in
  let fresh_objects := [ONewGen 0 4] ++ ex_own 1 (SGen 0) ++ [ONewGen 1 4] ++ ex_own 2 (SGen 1) in
  map e_term (proj 1 (snd (exec (init_state 0) same_object))) <> map e_term (proj 2 (snd (exec (init_state 0) same_object))) /\
  map e_term (proj 1 (snd (exec (init_state 0) fresh_objects))) = map e_term (proj 2 (snd (exec (init_state 0) fresh_objects))).
Proof. vm_compute. split; [discriminate | reflexivity]. Qed.
(* feedback attached after noisy warm-up runs of different lengths: same Wfb (same W, Win, bias too) *)
Definition ex_late (i warm : nat) : list op :=
  [OConstruct i (mkCfg 6 (SInt 3) false 0 0 2 0 true (0,0) (0,0) (0,0) (0,0) 0); ORun i 0 1 warm; OAttachFb i; OInitFb i 2; ORun i 1 1 2].
Example C14_wfb_after_warmup :
  let evs := snd (exec (init_state 0) (ex_late 1 0 ++ ex_late 2 7)) in
  map e_term (filter (fun e => e_tag e <? 4) (proj 1 evs)) = map e_term (filter (fun e => e_tag e <? 4) (proj 2 evs)) /\
  length (filter (fun e => e_tag e =? TAG_WFB) evs) = 2.
Proof. vm_compute. split; reflexivity. Qed.
(* with an integer seed every initialiser restarts default_rng(seed): Win and bias of the same shape are the same draw *)
Example C14_int_seed_same_position :
  exists d, map e_term (snd (exec (init_state 0) [OConstruct 0 (ex_cfg (SInt 3)); OInit 0 1])) =
            [TMat (MDraw (mkDraw (Seeded 3) [] (mkReq DNORM 6 6 0) 0)); TMat (MDraw d); TMat (MDraw d)].
Proof. eexists. vm_compute. reflexivity. Qed.
(* after set_seed(3) an unseeded reservoir draws W exactly like Reservoir(seed=3) *)
Example C14_set_seed_is_default_rng :
  nth 0 (map e_term (snd (exec (init_state 0) [OSetSeed 3; OConstruct 0 (ex_cfg SNone); OInit 0 1]))) (TMat (MZero 0 0)) =
  nth 0 (map e_term (snd (exec (init_state 0) [OConstruct 0 (ex_cfg (SInt 3)); OInit 0 1]))) (TMat (MZero 0 0)).
Proof. vm_compute. reflexivity. Qed.

Print Assumptions C14_seeded_component_history_free.
Print Assumptions C14_seeded_component_history_free_general.
Print Assumptions C14_seeded_component_function_of_own_ops.
Print Assumptions C14_global_seed_reproducible.
Print Assumptions C14_global_seed_reproducible_fresh_process.
Print Assumptions C14_zero_gain_no_noise.
Print Assumptions C14_zero_gain_run.
Print Assumptions C14_seed_reaches_every_component.
Print Assumptions C14_seeded_Wfb_is_position_zero.
Print Assumptions C14_different_seeds_different_streams.
Print Assumptions C14_same_seed_bit_identical.

(* ==== tie (T): the seed plumbing TRANSLATED from the current source ====================================================================
   gen/Gen_seed.v is regenerated on every run by tools/vlib/py2coq_seed.py from reservoirpy/utils/random.py (set_seed, rand_generator,
   noise), datasets/_seed.py (get_seed, set_seed) and, as an extracted table, from the seed arguments of Reservoir.__init__ /
   reservoirs/base.py; base/SeedPrelude.v is the meaning of its vocabulary (the module globals and the heap of Generator objects are an
   explicit `world`); proofs/Gen_seed_eq.v proves the generated functions equal to the functions of model/Prov.v the theorems above are
   about.  world_of st a b = the Python world the model state st stands for (a, b: __SEED and numpy's legacy seed, not tracked by the
   model: arbitrary); val_of_src injects SNone | SInt s | SGen u into Python values. *)
From RV Require Import base.SeedPrelude gen.Gen_seed proofs.Gen_seed_eq.

(* utils/random.set_seed(int) is Prov.do_set_seed: __global_rg is re-bound to a brand-new default_rng(s) *)
Theorem C14_generated_set_seed (st : state) (a b : pyval) (s : nat) :
  GenSeed.set_seed (world_of st a b) (VInt s) = Ok (world_of (do_set_seed st s) (VInt s) (VInt s)).
Proof. exact (gen_set_seed_eq st a b s). Qed.
(* ... anything whose type is not exactly int is refused before any global is written *)
Theorem C14_generated_set_seed_rejects (w : world) (v : pyval) :
  py_type_is_int v = false -> GenSeed.set_seed w v = Raise TypeError.
Proof. exact (gen_set_seed_rejects w v). Qed.
(* ... in any world: afterwards the global generator is a new object at position 0 of the stream rooted in s, all others untouched *)
Theorem C14_generated_set_seed_fresh_global (w : world) (s : nat) :
  exists w', GenSeed.set_seed w (VInt s) = Ok w' /\
    w_global_rg w' = GGlob (S (w_binds w)) /\ w_heap w' (w_global_rg w') = (Seeded s, []) /\
    (forall g, g <> GGlob (S (w_binds w)) -> w_heap w' g = w_heap w g).
Proof. exact (gen_set_seed_fresh_global w s). Qed.

(* utils/random.rand_generator followed by one draw is Prov.draw_src, for every state, every seed form, every request *)
Theorem C14_generated_rand_generator_draw (st : state) (a b : pyval) (sd : src) (r : req) (post : nat) :
  bind (GenSeed.rand_generator (world_of st a b) (val_of_src sd)) (fun g => draw_on (world_of st a b) g r post)
  = Ok (world_of (fst (draw_src st sd r post)) a b, snd (draw_src st sd r post)).
Proof. exact (gen_draw_src_eq st a b sd r post). Qed.
(* utils/random.rand_generator whose result is kept by a node is Prov.construct *)
Theorem C14_generated_rand_generator_construct (st : state) (a b : pyval) (i : nat) (c : rcfg) :
  exists p,
    bind (GenSeed.rand_generator (world_of st a b) (val_of_src (c_src c))) (fun g => keep_gen (world_of st a b) (GPriv i) g)
    = Ok (world_of (construct st i c) a b, p)
    /\ nodes (construct st i c) i = Some (mkNode c p None None []).
Proof. exact (gen_construct_eq st a b i c). Qed.
(* with an int seed the result is a brand-new stream rooted in the seed, in every world: never the global generator *)
Theorem C14_generated_rand_generator_int (w : world) (s : nat) :
  GenSeed.rand_generator w (VInt s) = Ok (GNew (Seeded s, [])).
Proof. exact (gen_rand_generator_int w s). Qed.

(* utils/random.noise is Prov.noise *)
Theorem C14_generated_noise (st : state) (a b : pyval) (p : gid) (gain : nat) (r : req) :
  GenSeed.noise (world_of st a b) p (q_dist r) (q_rows r, q_cols r) gain (q_args r)
  = Ok (world_of (fst (Prov.noise st p gain r)) a b, mat_of_noise r (snd (Prov.noise st p gain r))).
Proof. exact (gen_noise_eq st a b p gain r). Qed.
(* gain 0 on the translated code: literal zeros, the whole world (every generator object, every global) as it was *)
Theorem C14_generated_zero_gain_no_noise (w : world) (rng : gid) (dist kwargs : nat) (shape : nat * nat) :
  GenSeed.noise w rng dist shape 0 kwargs = Ok (w, MZero (fst shape) (snd shape)).
Proof. exact (gen_noise_zero_gain w rng dist kwargs shape). Qed.
(* gain <> 0: exactly one request served, by the object that was passed *)
Theorem C14_generated_noise_draws_once (w : world) (rng : gid) (dist kwargs gain : nat) (shape : nat * nat) :
  gain <> 0 ->
  exists w' d, GenSeed.noise w rng dist shape gain kwargs = Ok (w', MDraw d) /\
    w_heap w' rng = (fst (w_heap w rng), snd (w_heap w rng) ++ [mkReq dist (fst shape) (snd shape) kwargs]) /\
    d_root d = fst (w_heap w rng) /\ d_trace d = snd (w_heap w rng) /\ d_post d = gain.
Proof. exact (gen_noise_draws_once w rng dist kwargs gain shape). Qed.

(* datasets/_seed.py *)
Theorem C14_generated_dataset_seed (st : state) (a b : pyval) (s : nat) :
  GenSeed.ds_get_seed (world_of st a b) = Ok (val_of_src (SInt (ds_default st))) /\
  GenSeed.ds_set_seed (world_of st a b) (VInt s) = Ok (world_of (fst (step st (ODsSetSeed s))) a b).
Proof. exact (conj (gen_ds_get_seed_eq st a b) (gen_ds_set_seed_eq st a b s)). Qed.

(* the seed table extracted from Reservoir.__init__ / initialize / initialize_feedback: W, Win, bias, Wfb receive `seed` as given,
   the noise receives rng = rand_generator(seed) *)
Theorem C14_generated_reservoir_seed_table :
  GenSeed.reservoir_seed_table = [(CW, ESeed); (CWin, ESeed); (CBias, ESeed); (CWfb, ESeed); (CNoise, ERng)]
  /\ GenSeed.reservoir_rng_arg = ESeed.
Proof. exact gen_seed_table_eq. Qed.
(* ... so each matrix draws, through the table and the translated rand_generator, exactly like Prov.draw_src on the node's seed *)
Theorem C14_generated_table_matrix_draw (c : component) (st : state) (a b : pyval) (n : rnode) (r : req) (post : nat) :
  c <> CNoise ->
  table_draw c (world_of st a b) (val_of_src (c_src (n_cfg n))) (n_rng n) r post
  = Ok (world_of (fst (draw_src st (c_src (n_cfg n)) r post)) a b, snd (draw_src st (c_src (n_cfg n)) r post)).
Proof. exact (gen_table_matrix_draw c st a b n r post). Qed.
(* ... Prov.do_initfb is the table's draw for Wfb (array produced and world afterwards) *)
Theorem C14_generated_table_initfb (st : state) (a b : pyval) (i : nat) (n : rnode) (dfb : nat) :
  let c := n_cfg n in
  exists w' d,
    table_draw CWfb (world_of st a b) (val_of_src (c_src c)) (n_rng n) (mkReq DBERN (c_units c) dfb (fst (c_Fb c))) (snd (c_Fb c)) = Ok (w', d)
    /\ snd (do_initfb st i n dfb) = [mkEv (Some i) TAG_WFB (TMat (MDraw d))]
    /\ w' = world_of (fst (do_initfb st i n dfb)) a b.
Proof. exact (gen_table_initfb st a b i n dfb). Qed.
(* ... Prov.do_init is the table's draws for W, Win and (when input_bias) bias, in this order *)
Theorem C14_generated_table_init (st : state) (a b : pyval) (i : nat) (n : rnode) (din : nat) :
  let c := n_cfg n in
  let sd := val_of_src (c_src c) in
  exists w1 dW w2 dWin,
    table_draw CW (world_of st a b) sd (n_rng n) (mkReq DNORM (c_units c) (c_units c) (fst (c_W c))) (snd (c_W c)) = Ok (w1, dW)
    /\ table_draw CWin w1 sd (n_rng n) (mkReq DBERN (c_units c) din (fst (c_Win c))) (snd (c_Win c)) = Ok (w2, dWin)
    /\ (c_bias c = false ->
          snd (do_init st i n din)
          = [mkEv (Some i) TAG_W (TMat (MDraw dW)); mkEv (Some i) TAG_WIN (TMat (MDraw dWin)); mkEv (Some i) TAG_BIAS (TMat (MZero (c_units c) 1))]
          /\ w2 = world_of (fst (do_init st i n din)) a b)
    /\ (c_bias c = true -> exists w3 dB,
          table_draw CBias w2 sd (n_rng n) (mkReq DBERN (c_units c) 1 (fst (c_B c))) (snd (c_B c)) = Ok (w3, dB)
          /\ snd (do_init st i n din)
             = [mkEv (Some i) TAG_W (TMat (MDraw dW)); mkEv (Some i) TAG_WIN (TMat (MDraw dWin)); mkEv (Some i) TAG_BIAS (TMat (MDraw dB))]
          /\ w3 = world_of (fst (do_init st i n din)) a b).
Proof. exact (gen_table_init st a b i n din). Qed.
(* ... the noise generator of a node is the object kept at construction *)
Theorem C14_generated_table_noise_generator (w : world) (seed : pyval) (rng : gid) :
  receives GenSeed.rand_generator (table_get GenSeed.reservoir_seed_table CNoise) w seed rng = Ok (GRef rng).
Proof. exact (gen_table_noise_generator w seed rng). Qed.
(* ... with an int seed each matrix is the draw at position 0 of default_rng(s) in every world, whatever the node's generator served *)
Theorem C14_generated_int_seed_position_zero (c : component) (w : world) (s : nat) (rng : gid) (r : req) (post : nat) :
  c <> CNoise -> table_draw c w (VInt s) rng r post = Ok (w, mkDraw (Seeded s) [] r post).
Proof. exact (gen_table_int_seed_position_zero c w s rng r post). Qed.

(* non-vacuity: the translated functions run; after set_seed(3) an unseeded draw is the draw Reservoir(seed=3) makes for W; a noisy
   call advances only the generator it was given; a Generator seed is shared (second draw at position 1) *)
Example C14_generated_example :
  let w0 := world_of (init_state 0) VNone VNone in
  let r := mkReq DNORM 6 6 0 in
  (exists w1, GenSeed.set_seed w0 (VInt 3) = Ok w1 /\
     bind (GenSeed.rand_generator w1 VNone) (fun g => draw_on w1 g r 0)
     = bind (bind (GenSeed.rand_generator w0 (VInt 3)) (fun g => draw_on w0 g r 0)) (fun p => Ok (with_heap w1 (heap_set (w_heap w1) (w_global_rg w1) (Seeded 3, [r])), snd p)))
  /\ GenSeed.set_seed w0 (VNpInt 3) = Raise TypeError
  /\ (exists w1 d, GenSeed.noise w0 (GUser 1) 2 (4, 1) 5 0 = Ok (w1, MDraw d) /\ d_post d = 5 /\ w_heap w1 (GGlob 0) = w_heap w0 (GGlob 0)
        /\ length (snd (w_heap w1 (GUser 1))) = 1)
  /\ (exists w1 d1 w2 d2, table_draw CW w0 (VGenerator (GUser 2)) (GUser 2) r 0 = Ok (w1, d1) /\
        table_draw CWin w1 (VGenerator (GUser 2)) (GUser 2) r 0 = Ok (w2, d2) /\ d_trace d1 = [] /\ d_trace d2 = [r]).
Proof.
  cbv zeta. split; [eexists; split; reflexivity|]. split; [reflexivity|].
  split; [eexists; eexists; repeat split|]. eexists. eexists. eexists. eexists. repeat split.
Qed.

Print Assumptions C14_generated_set_seed.
Print Assumptions C14_generated_set_seed_rejects.
Print Assumptions C14_generated_set_seed_fresh_global.
Print Assumptions C14_generated_rand_generator_draw.
Print Assumptions C14_generated_rand_generator_construct.
Print Assumptions C14_generated_rand_generator_int.
Print Assumptions C14_generated_noise.
Print Assumptions C14_generated_zero_gain_no_noise.
Print Assumptions C14_generated_noise_draws_once.
Print Assumptions C14_generated_dataset_seed.
Print Assumptions C14_generated_reservoir_seed_table.
Print Assumptions C14_generated_table_matrix_draw.
Print Assumptions C14_generated_table_initfb.
Print Assumptions C14_generated_table_init.
Print Assumptions C14_generated_table_noise_generator.
Print Assumptions C14_generated_int_seed_position_zero.
