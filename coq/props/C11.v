(* C11 — Training touches only what it should and sessions are isolated.
   Statement-only file: every theorem is closed by [exact <lemma>]; proofs live in proofs/TrainSem_proofs.v (general, for every
   choice of the numeric kernels) and proofs/TrainSemQ_proofs.v (vm_compute witnesses with the Q kernels).
   Model: model/TrainSem.v.  A store is a list of node records (fixed side, learned side, state, _trainable, _fitted, _buffers,
   _X, _Y and the flag `_X is _Y`); an operation is run / partial_fit / fit / train / freeze on a node or Model.fit / Model.train /
   Model.run on a set of nodes; [step c] executes one operation under the clean-up configuration c (HEAD: the tree as it is;
   PREFIX: the tree before the three `fix:` commits), [run_ops c] a whole history (an operation that raises leaves the store
   it had reached, and the history goes on).  [targets st o i]: node i is a training target of o in store st -- the node
   (or a member of the model) the operation is applied to, trainable, with the learning rule the operation uses. *)
From Coq Require Import List Arith Bool QArith.
From RV Require Import base.Num base.LA model.Online model.TrainSem model.TrainSemQ proofs.TrainSem_proofs proofs.TrainSemQ_proofs.
Import ListNotations.
Close Scope Q_scope.

Section C11.
Context {P L St Row A : Type}.
Variable acc0 : P -> A.
Variable acc_step : P -> A -> list Row -> option (list Row) -> A.
Variable bk_buf : P -> A -> option L.
Variable bk_def : P -> list (list Row) -> list (list Row) -> option L.
Variable train_fn : P -> L -> St -> list Row -> option (list Row) -> L * St.
Variable fwd : P -> L -> St -> list Row -> St.
Notation node := (node P L St Row A).
Notation store := (list node).
Notation op := (op Row).
Notation D := (list Row * option (list Row))%type.
Notation step := (step acc0 acc_step bk_buf bk_def train_fn fwd).
Notation run_ops := (run_ops acc0 acc_step bk_buf bk_def train_fn fwd).
Notation fit := (fit acc0 acc_step bk_buf bk_def).
Notation never_targeted := (never_targeted acc0 acc_step bk_buf bk_def train_fn fwd).

(* ---- Inference never changes any weight: run / call of any set of nodes leaves every field of every node but the state
        (parameters, flags, buffers) as it was. *)
Theorem C11_inference_pure (c : cfg) (st : store) (xs : list (nat * list Row)) :
  let st' := fst (step c st (ORun xs)) in
  length st' = length st /\
  forall i n, nth_error st i = Some n -> exists n', nth_error st' i = Some n' /\ same_but_state n n'.
Proof. apply (inference_pure acc0 acc_step bk_buf bk_def train_fn fwd). Qed.

(* ---- A training call changes only the learned parameters of the trainable nodes it targets: whatever the operation and
        whatever its outcome, every node keeps its class and its fixed side, and a node that is not a target keeps its learned
        side. *)
Theorem C11_train_frame (c : cfg) (st : store) (o : op) :
  let st' := fst (step c st o) in
  length st' = length st /\
  forall i n, nth_error st i = Some n ->
    exists n', nth_error st' i = Some n' /\ n_kind n' = n_kind n /\ n_fixed n' = n_fixed n /\
               (targets st o i = false -> n_learned n' = n_learned n).
Proof. apply (step_frame acc0 acc_step bk_buf bk_def train_fn fwd). Qed.

Theorem C11_targets_are_trainable (st : store) (o : op) (i : nat) :
  targets st o i = true ->
  exists n, nth_error st i = Some n /\ n_trainable n = true /\
            (is_trained_offline n = true \/ is_trained_online n = true).
Proof. apply (targets_trainable acc0 acc_step bk_buf bk_def train_fn fwd). Qed.

(* ---- ... through any sequence of run, partial_fit, fit, train, freeze, Model.fit, Model.train calls, completed or failed:
        the fixed side (W, Win, bias, Wfb, hypers) of every node is identical at the end, *)
Theorem C11_fixed_forever (c : cfg) (ops : list op) (st : store) :
  let st' := run_ops c st ops in
  length st' = length st /\
  forall i n, nth_error st i = Some n ->
    exists n', nth_error st' i = Some n' /\ n_kind n' = n_kind n /\ n_fixed n' = n_fixed n.
Proof. apply (fixed_forever acc0 acc_step bk_buf bk_def train_fn fwd). Qed.

(* the learned side of a node that is never a target is identical at the end, *)
Theorem C11_untargeted_forever (c : cfg) (ops : list op) (st : store) (i : nat) (n : node) :
  nth_error st i = Some n -> never_targeted c st ops i ->
  exists n', nth_error (run_ops c st ops) i = Some n' /\ n_learned n' = n_learned n.
Proof. apply (untargeted_learned_forever acc0 acc_step bk_buf bk_def train_fn fwd). Qed.

(* and a node that is not trainable -- a reservoir, a frozen readout -- keeps ALL its parameters and stays untrainable,
   whatever is done to it or to the models that contain it (is_trainable = True on a frozen node has no effect in the code). *)
Theorem C11_frozen_forever (c : cfg) (ops : list op) (st : store) (i : nat) (n : node) :
  nth_error st i = Some n -> n_trainable n = false ->
  exists n', nth_error (run_ops c st ops) i = Some n' /\
             n_kind n' = n_kind n /\ n_fixed n' = n_fixed n /\ n_learned n' = n_learned n /\ n_trainable n' = false.
Proof. apply (frozen_forever acc0 acc_step bk_buf bk_def train_fn fwd). Qed.

(* ---- Sessions.  Every completed fit ends with no buffers and nothing under _X / _Y; *)
Theorem C11_fit_completed_clean (c : cfg) (w : nat) (n n' : node) (seqs : option (list D)) :
  fit c w n seqs = (n', Done) -> session_clean n' /\ n_aliased n' = true /\ n_fitted n' = true.
Proof. apply (fit_completed_clean acc0 acc_step bk_buf bk_def train_fn fwd). Qed.

(* in HEAD so does every failed fit -- a sequence of the batch rejected at any index, or the learning rule raising -- and
   it leaves the learned parameters as they were; *)
Theorem C11_fit_failed_clean (w : nat) (n n' : node) (seqs : option (list D)) (o : outcome) :
  fit HEAD w n seqs = (n', o) -> o = FailedPartial \/ o = FailedBackward ->
  session_clean n' /\ n_aliased n' = true /\ n_learned n' = n_learned n.
Proof. apply (fit_failed_clean_HEAD acc0 acc_step bk_buf bk_def train_fn fwd). Qed.

(* likewise for every offline-trainable member of a model after Model.fit, whatever its outcome; *)
Theorem C11_model_fit_clean (ms : list nat) (w : nat) (runs : list (nat * list Row)) (seqs : list (list (nat * D)))
        (st st' : store) (o : outcome) (i : nat) :
  step HEAD st (OMFit ms w runs seqs) = (st', o) -> o <> Rejected -> In i ms -> offline_at st i = true ->
  exists n', nth_error st' i = Some n' /\ session_clean n' /\ n_aliased n' = true.
Proof. apply (model_fit_clean_HEAD acc0 acc_step bk_buf bk_def train_fn fwd). Qed.

(* a fit that starts without session data is a function of the data it is given and of the fixed side of the node (for a
   default-buffer node: and of whether its two lists are one); *)
Theorem C11_fit_function_of_data (c : cfg) (w : nat) (n1 n2 : node) (seqs : option (list D)) :
  n_kind n1 = n_kind n2 -> n_fixed n1 = n_fixed n2 -> n_trainable n1 = n_trainable n2 ->
  session_clean n1 -> session_clean n2 -> (n_kind n1 = KDef -> n_aliased n1 = n_aliased n2) ->
  snd (fit c w n1 seqs) = snd (fit c w n2 seqs) /\
  (snd (fit c w n1 seqs) = Done -> n_learned (fst (fit c w n1 seqs)) = n_learned (fst (fit c w n2 seqs))).
Proof. apply (fit_function_of_data acc0 acc_step bk_buf bk_def train_fn fwd). Qed.

(* hence: what an offline fit computes depends only on the data supplied since the previous fit ended.  Take ANY two histories,
   from any two stores, whose last operation is an offline fit involving node i (Node.fit, or Model.fit of a model containing
   it), completed OR failed.  If node i has the same class and fixed side in both and is trainable offline, the next fit of
   node i on the same data ends the same way in both, and when it completes it yields the same learned parameters:
   nothing of the earlier data -- completed fits, partial_fit calls, partial sums of the failed fit -- is left. *)
Theorem C11_session_isolated (st1 st2 : store) (h1 h2 : list op) (o1 o2 : op) (i : nat) (m1 m2 : node)
        (w : nat) (seqs : option (list D)) :
  fit_on i o1 -> fit_on i o2 ->
  nth_error (run_ops HEAD st1 (h1 ++ [o1])) i = Some m1 -> nth_error (run_ops HEAD st2 (h2 ++ [o2])) i = Some m2 ->
  n_kind m1 = n_kind m2 -> n_fixed m1 = n_fixed m2 -> is_trained_offline m1 = true -> is_trained_offline m2 = true ->
  snd (step HEAD (run_ops HEAD st1 h1) o1) <> Rejected -> snd (step HEAD (run_ops HEAD st2 h2) o2) <> Rejected ->
  snd (fit HEAD w m1 seqs) = snd (fit HEAD w m2 seqs) /\
  (snd (fit HEAD w m1 seqs) = Done -> n_learned (fst (fit HEAD w m1 seqs)) = n_learned (fst (fit HEAD w m2 seqs))).
Proof. apply (session_isolated acc0 acc_step bk_buf bk_def train_fn fwd). Qed.

(* a node with its own buffers (Ridge) re-fits, after any such history, exactly like a fresh node *)
Theorem C11_refit_buffers_equals_fresh (st : store) (h : list op) (o : op) (i : nat) (m : node) (l0 : L) (s0 : St)
        (w : nat) (seqs : option (list D)) :
  fit_on i o -> nth_error (run_ops HEAD st (h ++ [o])) i = Some m -> n_kind m = KBuf -> n_trainable m = true ->
  snd (step HEAD (run_ops HEAD st h) o) <> Rejected ->
  let f := fresh KBuf (n_fixed m) l0 s0 in
  snd (fit HEAD w m seqs) = snd (fit HEAD w f seqs) /\
  (snd (fit HEAD w m seqs) = Done -> n_learned (fst (fit HEAD w m seqs)) = n_learned (fst (fit HEAD w f seqs))).
Proof. apply (refit_buf_equals_fresh acc0 acc_step bk_buf bk_def train_fn fwd). Qed.

(* a default-buffer node re-fits like a fresh node PROVIDED its two lists are not one object (see C11_alias_refuted) *)
Theorem C11_refit_default_buffers_ok_unaliased (c : cfg) (n : node) (l0 : L) (s0 : St) (w : nat) (seqs : option (list D)) :
  n_kind n = KDef -> n_trainable n = true -> session_clean n -> n_aliased n = false ->
  let f := fresh KDef (n_fixed n) l0 s0 in
  snd (fit c w n seqs) = snd (fit c w f seqs) /\
  (snd (fit c w n seqs) = Done -> n_learned (fst (fit c w n seqs)) = n_learned (fst (fit c w f seqs))).
Proof. apply (refit_default_unaliased acc0 acc_step bk_buf bk_def train_fn fwd). Qed.

(* the flag `_X is _Y` of the model means what it says along every history *)
Theorem C11_alias_flag_faithful (c : cfg) (ops : list op) (st : store) :
  Forall alias_wf st -> Forall alias_wf (run_ops c st ops).
Proof. apply (alias_wf_forever acc0 acc_step bk_buf bk_def train_fn fwd). Qed.
End C11.

(* ---- refutations: the faithful model of the pre-fix tree, and of HEAD's clean_buffers, violates the property ---- *)
(* pre-fix Node.fit (before 2730dd5): a fit failing at sequence k >= 1 changes the result of the next fit *)
Theorem C11_failed_fit_prefix_refuted :
  exists (n : nodeQ) (w : nat) (bad good : list (qm * option qm)),
    n_kind n = KBuf /\ session_clean n /\
    snd (fitQ PREFIX w n (Some bad)) = FailedPartial /\
    let n1 := fst (fitQ PREFIX w n (Some bad)) in
    snd (fitQ PREFIX w n1 (Some good)) = Done /\ snd (fitQ PREFIX w n (Some good)) = Done /\
    n_learned (fst (fitQ PREFIX w n1 (Some good))) <> n_learned (fst (fitQ PREFIX w n (Some good))).
Proof. exact failed_fit_prefix_refuted. Qed.

(* pre-fix Model.fit (before 4711578) *)
Theorem C11_failed_model_fit_prefix_refuted :
  exists (st : list nodeQ) (ms : list nat) (w : nat) (bad good : list (list (nat * (qm * option qm)))),
    snd (stepQ PREFIX st (OMFit ms w [] bad)) = FailedPartial /\
    let st1 := fst (stepQ PREFIX st (OMFit ms w [] bad)) in
    snd (stepQ PREFIX st1 (OMFit ms w [] good)) = Done /\ snd (stepQ PREFIX st (OMFit ms w [] good)) = Done /\
    option_map (@n_learned _ _ _ _ _) (nth_error (fst (stepQ PREFIX st1 (OMFit ms w [] good))) 1)
    <> option_map (@n_learned _ _ _ _ _) (nth_error (fst (stepQ PREFIX st (OMFit ms w [] good))) 1).
Proof. exact failed_model_fit_prefix_refuted. Qed.

(* before 36d5a16 (found by this check): the learning rule raising (singular system, ridge = 0) kept the sums *)
Theorem C11_backward_failure_refuted :
  exists (n : nodeQ) (sing good : list (qm * option qm)),
    let c := mkCfg true true false in
    n_kind n = KBuf /\ session_clean n /\
    snd (fitQ c 0 n (Some sing)) = FailedBackward /\
    let n1 := fst (fitQ c 0 n (Some sing)) in
    snd (fitQ c 0 n1 (Some good)) = Done /\ snd (fitQ c 0 n (Some good)) = Done /\
    n_learned (fst (fitQ c 0 n1 (Some good))) <> n_learned (fst (fitQ c 0 n (Some good))).
Proof. exact backward_failure_refuted. Qed.

(* HEAD, open (known finding refit:XY-aliased-default-buffers): after one completed fit, the second fit of a default-buffer node
   differs from the fit of a fresh node on the same data -- its learning rule receives inputs mixed with targets *)
Theorem C11_alias_refuted :
  exists (n : nodeQ) (d1 d2 : list (qm * option qm)),
    n_kind n = KDef /\ session_clean n /\ n_aliased n = false /\
    snd (fitQ HEAD 0 n (Some d1)) = Done /\
    let n1 := fst (fitQ HEAD 0 n (Some d1)) in
    session_clean n1 /\ n_aliased n1 = true /\
    snd (fitQ HEAD 0 n1 (Some d2)) = Done /\ snd (fitQ HEAD 0 n (Some d2)) = Done /\
    n_learned (fst (fitQ HEAD 0 n1 (Some d2))) <> n_learned (fst (fitQ HEAD 0 n (Some d2))).
Proof. exact alias_refuted. Qed.

(* ---- non-vacuity ---- *)
Example C11_example_inference :
  let st' := fst (stepQ HEAD w_store3 (ORun [(0, [[1];[2]]%Q)])) in
  option_map (@n_state _ _ _ _ _) (nth_error st' 0) = Some 2 /\
  option_map (@n_state _ _ _ _ _) (nth_error w_store3 0) = Some 0 /\
  option_map (@n_learned _ _ _ _ _) (nth_error st' 1) = option_map (@n_learned _ _ _ _ _) (nth_error w_store3 1).
Proof. exact example_inference. Qed.
Example C11_example_training :
  let o := OMFit [0; 1] 1 [] (w_mbatch w_good) in
  targets w_store3 o 1 = true /\ targets w_store3 o 0 = false /\ targets w_store3 o 2 = false /\
  snd (stepQ HEAD w_store3 o) = Done /\
  option_map (fun n : nodeQ => Wout (n_learned n)) (nth_error (fst (stepQ HEAD w_store3 o)) 1) = Some [[3#2]]%Q /\
  option_map (fun n : nodeQ => Wout (n_learned n)) (nth_error w_store3 1) = Some [[0]]%Q.
Proof. exact example_training. Qed.
Example C11_example_failed_fit_HEAD :
  snd (fitQ HEAD 1 w_ridge (Some w_bad)) = FailedPartial /\
  let n1 := fst (fitQ HEAD 1 w_ridge (Some w_bad)) in
  n_buffers n1 = None /\
  n_learned (fst (fitQ HEAD 1 n1 (Some w_good))) = n_learned (fst (fitQ HEAD 1 w_ridge (Some w_good))) /\
  Wout (n_learned (fst (fitQ HEAD 1 n1 (Some w_good)))) = [[3#2]]%Q.
Proof. exact example_failed_fit_HEAD. Qed.
Example C11_example_two_histories :
  let h1 := [OFit 1 0 (Some [([[4]], Some [[7]])]%Q)] in
  let h2 := [ORun [(1, [[1]]%Q)]; OPartialFit 1 0 w_good; OFit 1 1 (Some w_bad)] in
  map snd (trace acc0Q acc_stepQ bk_bufQ bk_defQ train_fnQ fwdQ HEAD w_store3 h1) = [Done] /\
  map snd (trace acc0Q acc_stepQ bk_bufQ bk_defQ train_fnQ fwdQ HEAD w_store3 h2) = [Done; Done; FailedPartial] /\
  option_map (fun n : nodeQ => Wout (n_learned (fst (fitQ HEAD 1 n (Some w_good))))) (nth_error (run_opsQ HEAD w_store3 h1) 1) = Some [[3#2]]%Q /\
  option_map (fun n : nodeQ => Wout (n_learned (fst (fitQ HEAD 1 n (Some w_good))))) (nth_error (run_opsQ HEAD w_store3 h2) 1) = Some [[3#2]]%Q.
Proof. exact example_two_histories. Qed.
Example C11_example_alias_buffers :
  let n1 := fst (fitQ HEAD 0 w_def (Some w_d1)) in
  let n2 := fst (partial_fit acc0Q acc_stepQ 0 n1 w_d2) in
  n_X n2 = [[[1]]; [[5]]]%Q /\ n_Y n2 = [[[1]]; [[5]]]%Q /\
  n_X (fst (partial_fit acc0Q acc_stepQ 0 w_def w_d2)) = [[[1]]]%Q /\ n_Y (fst (partial_fit acc0Q acc_stepQ 0 w_def w_d2)) = [[[5]]]%Q.
Proof. exact alias_buffers_mixed. Qed.

Print Assumptions C11_inference_pure.
Print Assumptions C11_train_frame.
Print Assumptions C11_targets_are_trainable.
Print Assumptions C11_fixed_forever.
Print Assumptions C11_untargeted_forever.
Print Assumptions C11_frozen_forever.
Print Assumptions C11_fit_completed_clean.
Print Assumptions C11_fit_failed_clean.
Print Assumptions C11_model_fit_clean.
Print Assumptions C11_fit_function_of_data.
Print Assumptions C11_session_isolated.
Print Assumptions C11_refit_buffers_equals_fresh.
Print Assumptions C11_refit_default_buffers_ok_unaliased.
Print Assumptions C11_alias_flag_faithful.
Print Assumptions C11_failed_fit_prefix_refuted.
Print Assumptions C11_failed_model_fit_prefix_refuted.
Print Assumptions C11_backward_failure_refuted.
Print Assumptions C11_alias_refuted.
