(* C11 — Training touches only what it should and sessions are isolated.
   Statement-only file: every theorem is closed by [exact <lemma>]; proofs live in proofs/TrainSem_proofs.v (general, for every
   choice of the numeric kernels) and proofs/TrainSemQ_proofs.v (vm_compute witnesses with the Q kernels).
   Model: model/TrainSem.v.  A store is a list of node records (fixed side, learned side, state, _trainable, _fitted, _buffers,
   _X, _Y and the flag `_X is _Y`); an operation is run / partial_fit / fit / train / freeze on a node or Model.fit / Model.train /
   Model.run on a set of nodes; [step c] executes one operation under the clean-up configuration c (HEAD: the tree as it is;
   PREFIX: the tree before the three `fix:` commits), [run_ops c] a whole history (an operation that raises leaves the store
   it had reached, and the history goes on).  [targets st o i]: node i is a training target of o in store st -- the node
   (or a member of the model) the operation is applied to, trainable, with the learning rule the operation uses. *)
From Coq Require Import List Arith Bool QArith.
From RV Require Import base.Num base.LA model.Online model.TrainSem model.TrainSemQ proofs.TrainSem_proofs proofs.TrainSemQ_proofs.
Import ListNotations.
Close Scope Q_scope.

Section C11.
Context {P L St Row A : Type}.
Variable acc0 : P -> A.
Variable acc_step : P -> A -> list Row -> option (list Row) -> A.
Variable bk_buf : P -> A -> option L.
Variable bk_def : P -> list (list Row) -> list (list Row) -> option L.
Variable train_fn : P -> L -> St -> list Row -> option (list Row) -> L * St.
Variable fwd : P -> L -> St -> list Row -> St.
Notation node := (node P L St Row A).
Notation store := (list node).
Notation op := (op Row).
Notation D := (list Row * option (list Row))%type.
Notation step := (step acc0 acc_step bk_buf bk_def train_fn fwd).
Notation run_ops := (run_ops acc0 acc_step bk_buf bk_def train_fn fwd).
Notation fit := (fit acc0 acc_step bk_buf bk_def).
Notation never_targeted := (never_targeted acc0 acc_step bk_buf bk_def train_fn fwd).

(* ---- Inference never changes any weight: run / call of any set of nodes leaves every field of every node but the state
        (parameters, flags, buffers) as it was. *)
Theorem C11_inference_pure (c : cfg) (st : store) (xs : list (nat * list Row)) :
  let st' := fst (step c st (ORun xs)) in
  length st' = length st /\
  forall i n, nth_error st i = Some n -> exists n', nth_error st' i = Some n' /\ same_but_state n n'.
Proof. apply (inference_pure acc0 acc_step bk_buf bk_def train_fn fwd). Qed.

(* ---- A training call changes only the learned parameters of the trainable nodes it targets: whatever the operation and
        whatever its outcome, every node keeps its class and its fixed side, and a node that is not a target keeps its learned
        side. *)
Theorem C11_train_frame (c : cfg) (st : store) (o : op) :
  let st' := fst (step c st o) in
  length st' = length st /\
  forall i n, nth_error st i = Some n ->
    exists n', nth_error st' i = Some n' /\ n_kind n' = n_kind n /\ n_fixed n' = n_fixed n /\
               (targets st o i = false -> n_learned n' = n_learned n).
Proof. apply (step_frame acc0 acc_step bk_buf bk_def train_fn fwd). Qed.

Theorem C11_targets_are_trainable (st : store) (o : op) (i : nat) :
  targets st o i = true ->
  exists n, nth_error st i = Some n /\ n_trainable n = true /\
            (is_trained_offline n = true \/ is_trained_online n = true).
Proof. apply (targets_trainable acc0 acc_step bk_buf bk_def train_fn fwd). Qed.

(* ---- ... through any sequence of run, partial_fit, fit, train, freeze, Model.fit, Model.train calls, completed or failed:
        the fixed side (W, Win, bias, Wfb, hypers) of every node is identical at the end, *)
Theorem C11_fixed_forever (c : cfg) (ops : list op) (st : store) :
  let st' := run_ops c st ops in
  length st' = length st /\
  forall i n, nth_error st i = Some n ->
    exists n', nth_error st' i = Some n' /\ n_kind n' = n_kind n /\ n_fixed n' = n_fixed n.
Proof. apply (fixed_forever acc0 acc_step bk_buf bk_def train_fn fwd). Qed.

(* the learned side of a node that is never a target is identical at the end, *)
Theorem C11_untargeted_forever (c : cfg) (ops : list op) (st : store) (i : nat) (n : node) :
  nth_error st i = Some n -> never_targeted c st ops i ->
  exists n', nth_error (run_ops c st ops) i = Some n' /\ n_learned n' = n_learned n.
Proof. apply (untargeted_learned_forever acc0 acc_step bk_buf bk_def train_fn fwd). Qed.

(* and a node that is not trainable -- a reservoir, a frozen readout -- keeps ALL its parameters and stays untrainable,
   whatever is done to it or to the models that contain it (is_trainable = True on a frozen node has no effect in the code). *)
Theorem C11_frozen_forever (c : cfg) (ops : list op) (st : store) (i : nat) (n : node) :
  nth_error st i = Some n -> n_trainable n = false ->
  exists n', nth_error (run_ops c st ops) i = Some n' /\
             n_kind n' = n_kind n /\ n_fixed n' = n_fixed n /\ n_learned n' = n_learned n /\ n_trainable n' = false.
Proof. apply (frozen_forever acc0 acc_step bk_buf bk_def train_fn fwd). Qed.

(* ---- Sessions.  Every completed fit ends with no buffers and nothing under _X / _Y; *)
Theorem C11_fit_completed_clean (c : cfg) (w : nat) (n n' : node) (seqs : option (list D)) :
  fit c w n seqs = (n', Done) -> session_clean n' /\ n_aliased n' = true /\ n_fitted n' = true.
Proof. apply (fit_completed_clean acc0 acc_step bk_buf bk_def train_fn fwd). Qed.

(* in HEAD so does every failed fit -- a sequence of the batch rejected at any index, or the learning rule raising -- and
   it leaves the learned parameters as they were; *)
Theorem C11_fit_failed_clean (w : nat) (n n' : node) (seqs : option (list D)) (o : outcome) :
  fit HEAD w n seqs = (n', o) -> o = FailedPartial \/ o = FailedBackward ->
  session_clean n' /\ n_aliased n' = true /\ n_learned n' = n_learned n.
Proof. apply (fit_failed_clean_HEAD acc0 acc_step bk_buf bk_def train_fn fwd). Qed.

(* likewise for every offline-trainable member of a model after Model.fit, whatever its outcome; *)
Theorem C11_model_fit_clean (ms : list nat) (w : nat) (runs : list (nat * list Row)) (seqs : list (list (nat * D)))
        (st st' : store) (o : outcome) (i : nat) :
  step HEAD st (OMFit ms w runs seqs) = (st', o) -> o <> Rejected -> In i ms -> offline_at st i = true ->
  exists n', nth_error st' i = Some n' /\ session_clean n' /\ n_aliased n' = true.
Proof. apply (model_fit_clean_HEAD acc0 acc_step bk_buf bk_def train_fn fwd). Qed.

(* a fit that starts without session data is a function of the data it is given and of the fixed side of the node (for a
   default-buffer node: and of whether its two lists are one); *)
Theorem C11_fit_function_of_data (c : cfg) (w : nat) (n1 n2 : node) (seqs : option (list D)) :
  n_kind n1 = n_kind n2 -> n_fixed n1 = n_fixed n2 -> n_trainable n1 = n_trainable n2 ->
  session_clean n1 -> session_clean n2 -> (n_kind n1 = KDef -> n_aliased n1 = n_aliased n2) ->
  snd (fit c w n1 seqs) = snd (fit c w n2 seqs) /\
  (snd (fit c w n1 seqs) = Done -> n_learned (fst (fit c w n1 seqs)) = n_learned (fst (fit c w n2 seqs))).
Proof. apply (fit_function_of_data acc0 acc_step bk_buf bk_def train_fn fwd). Qed.

(* hence: what an offline fit computes depends only on the data supplied since the previous fit ended.  Take ANY two histories,
   from any two stores, whose last operation is an offline fit involving node i (Node.fit, or Model.fit of a model containing
   it), completed OR failed.  If node i has the same class and fixed side in both and is trainable offline, the next fit of
   node i on the same data ends the same way in both, and when it completes it yields the same learned parameters:
   nothing of the earlier data -- completed fits, partial_fit calls, partial sums of the failed fit -- is left. *)
Theorem C11_session_isolated (st1 st2 : store) (h1 h2 : list op) (o1 o2 : op) (i : nat) (m1 m2 : node)
        (w : nat) (seqs : option (list D)) :
  fit_on i o1 -> fit_on i o2 ->
  nth_error (run_ops HEAD st1 (h1 ++ [o1])) i = Some m1 -> nth_error (run_ops HEAD st2 (h2 ++ [o2])) i = Some m2 ->
  n_kind m1 = n_kind m2 -> n_fixed m1 = n_fixed m2 -> is_trained_offline m1 = true -> is_trained_offline m2 = true ->
  snd (step HEAD (run_ops HEAD st1 h1) o1) <> Rejected -> snd (step HEAD (run_ops HEAD st2 h2) o2) <> Rejected ->
  snd (fit HEAD w m1 seqs) = snd (fit HEAD w m2 seqs) /\
  (snd (fit HEAD w m1 seqs) = Done -> n_learned (fst (fit HEAD w m1 seqs)) = n_learned (fst (fit HEAD w m2 seqs))).
Proof. apply (session_isolated acc0 acc_step bk_buf bk_def train_fn fwd). Qed.

(* a node with its own buffers (Ridge) re-fits, after any such history, exactly like a fresh node *)
Theorem C11_refit_buffers_equals_fresh (st : store) (h : list op) (o : op) (i : nat) (m : node) (l0 : L) (s0 : St)
        (w : nat) (seqs : option (list D)) :
  fit_on i o -> nth_error (run_ops HEAD st (h ++ [o])) i = Some m -> n_kind m = KBuf -> n_trainable m = true ->
  snd (step HEAD (run_ops HEAD st h) o) <> Rejected ->
  let f := fresh KBuf (n_fixed m) l0 s0 in
  snd (fit HEAD w m seqs) = snd (fit HEAD w f seqs) /\
  (snd (fit HEAD w m seqs) = Done -> n_learned (fst (fit HEAD w m seqs)) = n_learned (fst (fit HEAD w f seqs))).
Proof. apply (refit_buf_equals_fresh acc0 acc_step bk_buf bk_def train_fn fwd). Qed.

(* a default-buffer node re-fits like a fresh node PROVIDED its two lists are not one object (see C11_alias_refuted) *)
Theorem C11_refit_default_buffers_ok_unaliased (c : cfg) (n : node) (l0 : L) (s0 : St) (w : nat) (seqs : option (list D)) :
  n_kind n = KDef -> n_trainable n = true -> session_clean n -> n_aliased n = false ->
  let f := fresh KDef (n_fixed n) l0 s0 in
  snd (fit c w n seqs) = snd (fit c w f seqs) /\
  (snd (fit c w n seqs) = Done -> n_learned (fst (fit c w n seqs)) = n_learned (fst (fit c w f seqs))).
Proof. apply (refit_default_unaliased acc0 acc_step bk_buf bk_def train_fn fwd). Qed.

(* the flag `_X is _Y` of the model means what it says along every history *)
Theorem C11_alias_flag_faithful (c : cfg) (ops : list op) (st : store) :
  Forall alias_wf st -> Forall alias_wf (run_ops c st ops).
Proof. apply (alias_wf_forever acc0 acc_step bk_buf bk_def train_fn fwd). Qed.
End C11.

(* ---- refutations: the faithful model of the pre-fix tree, and of HEAD's clean_buffers, violates the property ---- *)
(* pre-fix Node.fit (before 2730dd5): a fit failing at sequence k >= 1 changes the result of the next fit *)
Theorem C11_failed_fit_prefix_refuted :
  exists (n : nodeQ) (w : nat) (bad good : list (qm * option qm)),
    n_kind n = KBuf /\ session_clean n /\
    snd (fitQ PREFIX w n (Some bad)) = FailedPartial /\
    let n1 := fst (fitQ PREFIX w n (Some bad)) in
    snd (fitQ PREFIX w n1 (Some good)) = Done /\ snd (fitQ PREFIX w n (Some good)) = Done /\
    n_learned (fst (fitQ PREFIX w n1 (Some good))) <> n_learned (fst (fitQ PREFIX w n (Some good))).
Proof. exact failed_fit_prefix_refuted. Qed.

(* pre-fix Model.fit (before 4711578) *)
Theorem C11_failed_model_fit_prefix_refuted :
  exists (st : list nodeQ) (ms : list nat) (w : nat) (bad good : list (list (nat * (qm * option qm)))),
    snd (stepQ PREFIX st (OMFit ms w [] bad)) = FailedPartial /\
    let st1 := fst (stepQ PREFIX st (OMFit ms w [] bad)) in
    snd (stepQ PREFIX st1 (OMFit ms w [] good)) = Done /\ snd (stepQ PREFIX st (OMFit ms w [] good)) = Done /\
    option_map (@n_learned _ _ _ _ _) (nth_error (fst (stepQ PREFIX st1 (OMFit ms w [] good))) 1)
    <> option_map (@n_learned _ _ _ _ _) (nth_error (fst (stepQ PREFIX st (OMFit ms w [] good))) 1).
Proof. exact failed_model_fit_prefix_refuted. Qed.

(* before 36d5a16 (found by this check): the learning rule raising (singular system, ridge = 0) kept the sums *)
Theorem C11_backward_failure_refuted :
  exists (n : nodeQ) (sing good : list (qm * option qm)),
    let c := mkCfg true true false in
    n_kind n = KBuf /\ session_clean n /\
    snd (fitQ c 0 n (Some sing)) = FailedBackward /\
    let n1 := fst (fitQ c 0 n (Some sing)) in
    snd (fitQ c 0 n1 (Some good)) = Done /\ snd (fitQ c 0 n (Some good)) = Done /\
    n_learned (fst (fitQ c 0 n1 (Some good))) <> n_learned (fst (fitQ c 0 n (Some good))).
Proof. exact backward_failure_refuted. Qed.

(* HEAD, open (known finding refit:XY-aliased-default-buffers): after one completed fit, the second fit of a default-buffer node
   differs from the fit of a fresh node on the same data -- its learning rule receives inputs mixed with targets *)
Theorem C11_alias_refuted :
  exists (n : nodeQ) (d1 d2 : list (qm * option qm)),
    n_kind n = KDef /\ session_clean n /\ n_aliased n = false /\
    snd (fitQ HEAD 0 n (Some d1)) = Done /\
    let n1 := fst (fitQ HEAD 0 n (Some d1)) in
    session_clean n1 /\ n_aliased n1 = true /\
    snd (fitQ HEAD 0 n1 (Some d2)) = Done /\ snd (fitQ HEAD 0 n (Some d2)) = Done /\
    n_learned (fst (fitQ HEAD 0 n1 (Some d2))) <> n_learned (fst (fitQ HEAD 0 n (Some d2))).
Proof. exact alias_refuted. Qed.

(* ---- non-vacuity ---- *)
Example C11_example_inference :
  let st' := fst (stepQ HEAD w_store3 (ORun [(0, [[1];[2]]%Q)])) in
  option_map (@n_state _ _ _ _ _) (nth_error st' 0) = Some 2 /\
  option_map (@n_state _ _ _ _ _) (nth_error w_store3 0) = Some 0 /\
  option_map (@n_learned _ _ _ _ _) (nth_error st' 1) = option_map (@n_learned _ _ _ _ _) (nth_error w_store3 1).
Proof. exact example_inference. Qed.
Example C11_example_training :
  let o := OMFit [0; 1] 1 [] (w_mbatch w_good) in
  targets w_store3 o 1 = true /\ targets w_store3 o 0 = false /\ targets w_store3 o 2 = false /\
  snd (stepQ HEAD w_store3 o) = Done /\
  option_map (fun n : nodeQ => Wout (n_learned n)) (nth_error (fst (stepQ HEAD w_store3 o)) 1) = Some [[3#2]]%Q /\
  option_map (fun n : nodeQ => Wout (n_learned n)) (nth_error w_store3 1) = Some [[0]]%Q.
Proof. exact example_training. Qed.
Example C11_example_failed_fit_HEAD :
  snd (fitQ HEAD 1 w_ridge (Some w_bad)) = FailedPartial /\
  let n1 := fst (fitQ HEAD 1 w_ridge (Some w_bad)) in
  n_buffers n1 = None /\
  n_learned (fst (fitQ HEAD 1 n1 (Some w_good))) = n_learned (fst (fitQ HEAD 1 w_ridge (Some w_good))) /\
  Wout (n_learned (fst (fitQ HEAD 1 n1 (Some w_good)))) = [[3#2]]%Q.
Proof. exact example_failed_fit_HEAD. Qed.
Example C11_example_two_histories :
  let h1 := [OFit 1 0 (Some [([[4]], Some [[7]])]%Q)] in
  let h2 := [ORun [(1, [[1]]%Q)]; OPartialFit 1 0 w_good; OFit 1 1 (Some w_bad)] in
  map snd (trace acc0Q acc_stepQ bk_bufQ bk_defQ train_fnQ fwdQ HEAD w_store3 h1) = [Done] /\
  map snd (trace acc0Q acc_stepQ bk_bufQ bk_defQ train_fnQ fwdQ HEAD w_store3 h2) = [Done; Done; FailedPartial] /\
  option_map (fun n : nodeQ => Wout (n_learned (fst (fitQ HEAD 1 n (Some w_good))))) (nth_error (run_opsQ HEAD w_store3 h1) 1) = Some [[3#2]]%Q /\
  option_map (fun n : nodeQ => Wout (n_learned (fst (fitQ HEAD 1 n (Some w_good))))) (nth_error (run_opsQ HEAD w_store3 h2) 1) = Some [[3#2]]%Q.
Proof. exact example_two_histories. Qed.
Example C11_example_alias_buffers :
  let n1 := fst (fitQ HEAD 0 w_def (Some w_d1)) in
  let n2 := fst (partial_fit acc0Q acc_stepQ 0 n1 w_d2) in
  n_X n2 = [[[1]]; [[5]]]%Q /\ n_Y n2 = [[[1]]; [[5]]]%Q /\
  n_X (fst (partial_fit acc0Q acc_stepQ 0 w_def w_d2)) = [[[1]]]%Q /\ n_Y (fst (partial_fit acc0Q acc_stepQ 0 w_def w_d2)) = [[[5]]]%Q.
Proof. exact alias_buffers_mixed. Qed.

Print Assumptions C11_inference_pure.
Print Assumptions C11_train_frame.
Print Assumptions C11_targets_are_trainable.
Print Assumptions C11_fixed_forever.
Print Assumptions C11_untargeted_forever.
Print Assumptions C11_frozen_forever.
Print Assumptions C11_fit_completed_clean.
Print Assumptions C11_fit_failed_clean.
Print Assumptions C11_model_fit_clean.
Print Assumptions C11_fit_function_of_data.
Print Assumptions C11_session_isolated.
Print Assumptions C11_refit_buffers_equals_fresh.
Print Assumptions C11_refit_default_buffers_ok_unaliased.
Print Assumptions C11_alias_flag_faithful.
Print Assumptions C11_failed_fit_prefix_refuted.
Print Assumptions C11_failed_model_fit_prefix_refuted.
Print Assumptions C11_backward_failure_refuted.
Print Assumptions C11_alias_refuted.

(* ================================================================================================================
   The R-vs-Q instance gap, closed by proof (base/NumHom.v, proofs/QR_bridge_C11.v).
   The theorems of Section C11 hold for EVERY choice of carrier types and kernels, hence for the Q kernels of
   model/TrainSemQ.v that the correspondence run (run/RunC11.v, chk_hist) executes, and for the same kernels over the reals
   ([acc0F] ... [fwdF] of QR_bridge_C11.v at F := R: Ridge accumulation and solve, the default-buffer learner, RLS / LMS --
   the kernels of TrainSemQ.v written once over [Num F]; at F := Q with Gauss-Jordan they are TrainSemQ's, C11_Qkernels_are_generic).
   A morphism of kernels is a simulation of the whole state machine (C11_kernel_morphism_simulates, no numbers involved), and
   the entry-wise embedding [Q2R] is such a morphism.  So: run any operation / history at Q, embed node by node = run it at R
   on the embedded store and embedded operations -- same outcome (Done / Rejected / FailedPartial / FailedBackward), same
   flags, buffers, _X/_Y lists and aliasing, embedded learned parameters; the [targets] are the same.
   Only hypothesis, for the operations that solve a linear system (Ridge backward in fit / Model.fit): the real solver is
   related to the Gauss-Jordan routine LA.qsolve ([related_solvers]: fails on the same systems, embedded solution otherwise).
   That relation is what stays trusted (LA.qsolve's soundness is not proved here).  partial_fit, train, run, freeze need nothing. *)
From Coq Require Import Reals Qreals.
From RV Require Import base.NumHom proofs.QR_bridge_C04 proofs.QR_bridge_C10 proofs.QR_bridge_C11 run.RunC11.

(* the generic kernels at Q, with Gauss-Jordan, are the kernels of model/TrainSemQ.v *)
Theorem C11_Qkernels_are_generic :
  (forall p, acc0Q p = acc0F (fx2F p)) /\ (forall p a x y, acc_stepQ p a x y = acc_stepF (fx2F p) a x y) /\
  (forall p a, bk_bufQ p a = bk_bufF qsolve (fx2F p) a) /\ (forall p X Y, bk_defQ p X Y = bk_defF (fx2F p) X Y) /\
  (forall p l s x y, train_fnQ p l s x y = train_fnF (fx2F p) l s x y) /\ (forall p l s x, fwdQ p l s x = fwdF (fx2F p) l s x).
Proof. exact kernelsQ_are_kernelsF. Qed.
Print Assumptions C11_Qkernels_are_generic.

(* Part A, number-free: maps of the five carriers that commute with the six kernels commute with one [step] (store and
   outcome), for every operation and every clean-up configuration *)
Theorem C11_kernel_morphism_simulates (P1 L1 St1 Row1 A1 P2 L2 St2 Row2 A2 : Type)
    (acc0_1 : P1 -> A1) (acc_step_1 : P1 -> A1 -> list Row1 -> option (list Row1) -> A1) (bk_buf_1 : P1 -> A1 -> option L1)
    (bk_def_1 : P1 -> list (list Row1) -> list (list Row1) -> option L1)
    (train_fn_1 : P1 -> L1 -> St1 -> list Row1 -> option (list Row1) -> L1 * St1) (fwd_1 : P1 -> L1 -> St1 -> list Row1 -> St1)
    (acc0_2 : P2 -> A2) (acc_step_2 : P2 -> A2 -> list Row2 -> option (list Row2) -> A2) (bk_buf_2 : P2 -> A2 -> option L2)
    (bk_def_2 : P2 -> list (list Row2) -> list (list Row2) -> option L2)
    (train_fn_2 : P2 -> L2 -> St2 -> list Row2 -> option (list Row2) -> L2 * St2) (fwd_2 : P2 -> L2 -> St2 -> list Row2 -> St2)
    (eP : P1 -> P2) (eL : L1 -> L2) (eS : St1 -> St2) (eR : Row1 -> Row2) (eA : A1 -> A2) :
  (forall p, eA (acc0_1 p) = acc0_2 (eP p)) ->
  (forall p a x y, eA (acc_step_1 p a x y) = acc_step_2 (eP p) (eA a) (map eR x) (option_map (map eR) y)) ->
  (forall p a, option_map eL (bk_buf_1 p a) = bk_buf_2 (eP p) (eA a)) ->
  (forall p X Y, option_map eL (bk_def_1 p X Y) = bk_def_2 (eP p) (map (map eR) X) (map (map eR) Y)) ->
  (forall p l s x y, (eL (fst (train_fn_1 p l s x y)), eS (snd (train_fn_1 p l s x y)))
                     = train_fn_2 (eP p) (eL l) (eS s) (map eR x) (option_map (map eR) y)) ->
  (forall p l s x, eS (fwd_1 p l s x) = fwd_2 (eP p) (eL l) (eS s) (map eR x)) ->
  forall (c : cfg) (st : list (node P1 L1 St1 Row1 A1)) (o : op Row1),
    (map (enode eP eL eS eR eA) (fst (step acc0_1 acc_step_1 bk_buf_1 bk_def_1 train_fn_1 fwd_1 c st o)),
     snd (step acc0_1 acc_step_1 bk_buf_1 bk_def_1 train_fn_1 fwd_1 c st o))
    = step acc0_2 acc_step_2 bk_buf_2 bk_def_2 train_fn_2 fwd_2 c (map (enode eP eL eS eR eA) st) (eop eR o).
Proof. intros; apply sim_step; assumption. Qed.
Print Assumptions C11_kernel_morphism_simulates.

(* one operation of the Q machine: partial_fit, fit, train, run, freeze, Model.fit, Model.train; every outcome *)
Theorem C11_Qstep_embeds (solveR : list (list R) -> list (list R) -> option (list (list R))) (c : cfg) (st : list nodeQ) (o : opQ) :
  related_solvers solveR ->
  (map node2r (fst (stepQ c st o)), snd (stepQ c st o)) = stepF solveR c (map node2r st) (op2r o).
Proof. exact (Qstep_embeds solveR c st o). Qed.
Print Assumptions C11_Qstep_embeds.

(* whole histories: the final store, and the store and outcome after every operation *)
Theorem C11_Qhistory_embeds (solveR : list (list R) -> list (list R) -> option (list (list R))) (c : cfg) (ops : list opQ) (st : list nodeQ) :
  related_solvers solveR ->
  map node2r (run_opsQ c st ops) = run_opsF solveR c (map node2r st) (map op2r ops) /\
  map (fun r => (map node2r (fst r), snd r)) (trace acc0Q acc_stepQ bk_bufQ bk_defQ train_fnQ fwdQ c st ops)
  = traceF solveR c (map node2r st) (map op2r ops).
Proof. intros Hs. split; [exact (Qrun_ops_embeds solveR c ops st Hs) | exact (Qtrace_embeds solveR c ops st Hs)]. Qed.
Print Assumptions C11_Qhistory_embeds.

(* the training targets of an operation are the same on both sides *)
Theorem C11_Qtargets_embed (st : list nodeQ) (o : opQ) (i : nat) : targets (map node2r st) (op2r o) i = targets st o i.
Proof. exact (Qtargets_embed st o i). Qed.
Print Assumptions C11_Qtargets_embed.

(* Node.fit on a single node (accumulation, rejection of a short sequence, solve, the clean-ups) *)
Theorem C11_Qfit_embeds (solveR : list (list R) -> list (list R) -> option (list (list R))) (c : cfg) (w : nat) (n : nodeQ)
        (seqs : option (list (qm * option qm))) :
  related_solvers solveR ->
  (node2r (fst (fitQ c w n seqs)), snd (fitQ c w n seqs)) = fitF solveR c w (node2r n) (option_map (map D2r) seqs).
Proof. exact (Qfit_node_embeds solveR c w n seqs). Qed.
Print Assumptions C11_Qfit_embeds.

(* no linear solve: partial_fit (accumulation and rejection), the online train (RLS / LMS loop), run -- no hypothesis at all *)
Theorem C11_Qsolverfree_embed (w : nat) (n : nodeQ) (seqs : list (qm * option qm)) (d : qm * option qm) (x : qm) :
  (node2r (fst (partial_fit acc0Q acc_stepQ w n seqs)), snd (partial_fit acc0Q acc_stepQ w n seqs))
    = partial_fitF w (node2r n) (map D2r seqs) /\
  (node2r (fst (train train_fnQ n d)), snd (train train_fnQ n d)) = trainF (node2r n) (D2r d) /\
  node2r (run fwdQ n x) = runF (node2r n) (qm2r x).
Proof. exact (Qsolverfree_embed w n seqs d x). Qed.
Print Assumptions C11_Qsolverfree_embed.

(* the nodes the harness starts from (zero readouts, P = I/alpha for RLS) *)
Theorem C11_Qfresh_embeds (k : kind) (h : hyp) : node2r (freshQ k h) = freshF k (hyp2r h).
Proof. exact (Qfresh_embeds k h). Qed.
Print Assumptions C11_Qfresh_embeds.

(* ---- the verdict of the correspondence runner, read at R ----
   [chk_hist] (run/RunC11.v) is the boolean evaluated at Q by vm_compute for every recorded history.  [hist_close] is the same
   walk performed with the R machine ([stepF solveR HEAD]) from the embedded store on the embedded operations: after every
   operation the observed outcome code, for every node the number-free observations ([struct_ok]: no fixed array changed, a
   learned array changed only on a target, buffer count, aliasing, lengths of _X / _Y, fitted, trainable) and the observed
   Wout / bias within the real inequality |m - o| <= 1e-9 * max(1,|m|) ([mrclose] / [vrclose], base/NumHom.v). *)
Theorem C11_chk_hist_is_about_R_model (solveR : list (list R) -> list (list R) -> option (list (list R))) :
  related_solvers solveR ->
  forall (h : list (opQ * (nat * list nobs))) (st : list nodeQ),
  chk_hist st h = true -> hist_close solveR (map node2r st) (hist2r h).
Proof. exact (chk_hist_is_about_R_model solveR). Qed.
Print Assumptions C11_chk_hist_is_about_R_model.

(* non-vacuity: the R machine trains an RLS readout (bias, 2 inputs, 1 output, alpha = 1/2) on two samples and ends in
   exactly the embedded node of the Q run; and a history on which the runner answers true *)
Example C11_Qtrain_example :
  trainF (freshF KOnline (hyp2r (mkHyp true 0 2 1 true (1#2)))) (D2r ex_d)
  = (node2r (mkNode KOnline (mkHyp true 0 2 1 true (1#2), 0)
               {| Wout := [[(18#155)%Q]; [(-331#930)%Q]]; bias := [(193#930)%Q];
                  Pm := [[(286#465)%Q; (-88#155)%Q; (-52#465)%Q]; [(-88#155)%Q; (272#155)%Q; (16#155)%Q];
                         [(-52#465)%Q; (16#155)%Q; (94#465)%Q]]; cursor := 0 |} 2 true true None [] [] false), Done).
Proof. exact Qtrain_example. Qed.
(* a failure outcome at R: the second sequence is not longer than the warm-up; the first one has been accumulated *)
Example C11_Qpartial_fit_reject_example :
  snd (partial_fitF 1 (freshF KBuf (hyp2r (mkHyp true (1#2) 2 1 false 0))) (map D2r ex_bad)) = FailedPartial /\
  n_buffers (fst (partial_fitF 1 (freshF KBuf (hyp2r (mkHyp true (1#2) 2 1 false 0))) (map D2r ex_bad)))
  = Some (acc2r ([[1%Q; 3%Q; 4%Q]; [3%Q; 9%Q; 12%Q]; [4%Q; 12%Q; 16%Q]], [[2%Q; 6%Q; 8%Q]])).
Proof. exact Qpartial_fit_reject_example. Qed.
Example C11_chk_hist_example :
  chk_hist [nd_rls true (1#2) 2 1]
    [(OTrain 0 ex_d, (0, [mkObs false true 0 false 0 0 true true (Some ([[(18#155)%Q]; [(-331#930)%Q]], [(193#930)%Q]))]));
     (OFreeze 0 false, (0, [mkObs false false 0 false 0 0 true false None]))] = true.
Proof. exact chk_hist_example. Qed.

(* the existing theorems of this file do not depend on the reals: re-printed after the import *)
Print Assumptions C11_session_isolated.
Print Assumptions C11_alias_refuted.

(* ================================================================================================================================
   Tie (T) for the offline-training skeleton: the functions GENERATED on every run from the current text of reservoirpy/node.py --
   Node.is_trainable (getter and setter) / is_trained_offline / is_trained_online / initialize_buffers / clean_buffers / get_buffer /
   partial_fit / fit and _partial_backward_default -- by tools/vlib/py2coq_fit.py into gen/Gen_fit.v (vocabulary base/FitPrelude.v: a computation is
   world -> world * outcome, Python list objects have identity, `try: B except Exception: H; raise`), proved in proofs/Gen_fit_eq.v.
   The modules are required WITHOUT import (their names would shadow TrainSem's): every name below is qualified.
   [view w n] reads node n of the world as a TrainSem node record (`_X is _Y` := the two references are equal, `_buffers` = {} := None);
   [wf]: the node object is consistent with its class; [accepts]: check_xy / _init_with_sequences accept the data, split it into
   [seqs] and leave the world alone; [i_binit / i_pb / i_bk]: the callbacks TrainSem assumes (a buffered rule rewrites `_buffers`;
   every other node has the GENERATED default rule; `_backward` sets the learned side or raises);
   [abs_out]: Ok = Done, TypeError = Rejected, ValueError = FailedPartial, an exception of the learning rule = FailedBackward. *)
From RV Require base.FitPrelude gen.Gen_fit proofs.Gen_fit_eq.

Section C11_generated.
Context {P0 L St Row BufT Dat KW : Type}.
Notation A' := ((nat * BufT) * list (nat * BufT))%type.
Notation wd := (FitPrelude.world (Gen_fit_eq.nparams P0 L St) Row BufT).
Variable acc0 : P0 -> A'.
Variable acc_step : P0 -> A' -> list Row -> option (list Row) -> A'.
Variable bk_buf : P0 -> A' -> option L.
Variable bk_def : P0 -> list (list Row) -> list (list Row) -> option L.
Variable cb_check_xy : nat -> Dat -> option Dat -> FitPrelude.M wd (Dat * option Dat).
Variable cb_init : nat -> Dat -> option Dat -> FitPrelude.M wd (list (list Row) * option (list (option (list Row)))).
Variable kw_empty : KW.
Notation view := Gen_fit_eq.view.
Notation wf := Gen_fit_eq.wf.
Notation abs_out := Gen_fit_eq.abs_out.
Notation accepts := (Gen_fit_eq.accepts cb_check_xy cb_init).
Notation g_clean := (@Gen_fit.GenFit.Node_clean_buffers (Gen_fit_eq.nparams P0 L St) Row BufT).
Notation g_init := (Gen_fit.GenFit.Node_initialize_buffers (Gen_fit_eq.i_binit acc0)).
Notation g_pbd := (@Gen_fit.GenFit.partial_backward_default (Gen_fit_eq.nparams P0 L St) Row BufT).
Notation g_partial_fit := (Gen_fit.GenFit.Node_partial_fit cb_check_xy cb_init (Gen_fit_eq.i_binit acc0) (Gen_fit_eq.i_pb acc_step)).
Notation g_fit := (Gen_fit.GenFit.Node_fit cb_check_xy cb_init (Gen_fit_eq.i_binit acc0) (Gen_fit_eq.i_pb acc_step)
                     (Gen_fit_eq.i_bk bk_buf bk_def) kw_empty).

(* ---- the generated clean_buffers is TrainSem's clean_buffers: `self._X = self._Y = []` makes the two attributes ONE list object *)
Theorem C11_generated_clean_buffers (n : nat) (w : wd) :
  exists w', g_clean n w = (w', FitPrelude.Ok tt) /\ view w' n = clean_buffers (view w n) /\ (wf w n -> wf w' n) /\
             FitPrelude.a_is_initialized (FitPrelude.w_obj w' n) = FitPrelude.a_is_initialized (FitPrelude.w_obj w n).
Proof. exact (Gen_fit_eq.gen_clean_buffers_view n w). Qed.

(* ---- the generated initialize_buffers is TrainSem's init_buffers: buffers are created only when there is none *)
Theorem C11_generated_initialize_buffers (n : nat) (w : wd) :
  wf w n -> exists w', g_init n w = (w', FitPrelude.Ok tt) /\ view w' n = init_buffers acc0 (view w n) /\ wf w' n.
Proof. exact (Gen_fit_eq.gen_initialize_buffers_view acc0 n w). Qed.

(* ---- the generated _partial_backward_default appends to the list OBJECTS: one list when `_X is _Y` (TrainSem's aliased branch) *)
Theorem C11_generated_partial_backward_default (n : nat) (x : list Row) (y : option (list Row)) (w : wd) :
  exists w', g_pbd n x y w = (w', FitPrelude.Ok tt) /\ FitPrelude.w_obj w' = FitPrelude.w_obj w /\
    view w' n = (if Nat.eqb (FitPrelude.a_X (FitPrelude.w_obj w n)) (FitPrelude.a_Y (FitPrelude.w_obj w n))
                 then let l := n_X (view w n) ++ [x] ++ opt_list y in set_xy l l true (view w n)
                 else set_xy (n_X (view w n) ++ [x]) (n_Y (view w n) ++ opt_list y) false (view w n)).
Proof. exact (Gen_fit_eq.gen_partial_backward_default_view n x y w). Qed.

(* ---- the generated partial_fit is TrainSem's partial_fit, outcome included: for all data, every warm-up, every index of a too
        short sequence (the earlier sequences have been accumulated, the later ones have not) *)
Theorem C11_generated_partial_fit (n : nat) (X : Dat) (Y : option Dat) (warmup : nat) (kw : KW) (seqs : list (list Row * option (list Row)))
        (w : wd) :
  wf w n -> accepts n X Y seqs ->
  let r := g_partial_fit n X Y warmup kw w in
  (view (fst r) n, abs_out (snd r)) = partial_fit acc0 acc_step warmup (view w n) seqs /\ wf (fst r) n.
Proof. exact (Gen_fit_eq.gen_partial_fit_eq acc0 acc_step cb_check_xy cb_init n X Y warmup kw seqs w). Qed.

(* ---- the generated fit is TrainSem's fit under HEAD's clean-ups, outcome included, at every failure point *)
Theorem C11_generated_fit (n : nat) (X : Dat) (Y : option Dat) (warmup : nat) (seqs : list (list Row * option (list Row))) (w : wd) :
  wf w n -> accepts n X Y seqs ->
  let r := g_fit n (Some X) Y warmup w in
  (view (fst r) n, abs_out (snd r)) = fit acc0 acc_step bk_buf bk_def HEAD warmup (view w n) (Some seqs) /\ wf (fst r) n.
Proof. exact (Gen_fit_eq.gen_fit_eq acc0 acc_step bk_buf bk_def cb_check_xy cb_init kw_empty n X Y warmup seqs w). Qed.

Theorem C11_generated_fit_without_data (n : nat) (Y : option Dat) (warmup : nat) (w : wd) :
  wf w n -> FitPrelude.a_is_initialized (FitPrelude.w_obj w n) = true ->
  let r := g_fit n None Y warmup w in
  (view (fst r) n, abs_out (snd r)) = fit acc0 acc_step bk_buf bk_def HEAD warmup (view w n) None /\ wf (fst r) n.
Proof. exact (Gen_fit_eq.gen_fit_nodata_eq acc0 acc_step bk_buf bk_def cb_check_xy cb_init kw_empty n Y warmup w). Qed.

(* ---- hence C11_fit_completed_clean / C11_fit_failed_clean hold of the generated fit ... *)
Theorem C11_generated_fit_session_clean (n : nat) (X : Dat) (Y : option Dat) (warmup : nat) (seqs : list (list Row * option (list Row)))
        (w : wd) :
  wf w n -> accepts n X Y seqs ->
  let r := g_fit n (Some X) Y warmup w in
  abs_out (snd r) <> Rejected ->
  session_clean (view (fst r) n) /\ n_aliased (view (fst r) n) = true /\
  (abs_out (snd r) = Done -> n_fitted (view (fst r) n) = true) /\
  (abs_out (snd r) <> Done -> n_learned (view (fst r) n) = n_learned (view w n)).
Proof. exact (Gen_fit_eq.gen_fit_session_clean acc0 acc_step bk_buf bk_def cb_check_xy cb_init kw_empty n X Y warmup seqs w). Qed.

(* ---- ... and so does C11_session_isolated: after ANY two fits (any worlds, any data, completed or failed anywhere) the next fit of the
        node on the same data ends the same way in both and, when it completes, yields the same learned parameters *)
Theorem C11_generated_session_isolated (n : nat) (wa wb : wd) (Xa : Dat) (Ya : option Dat) (seqsa : list (list Row * option (list Row)))
        (ua : nat) (Xb : Dat) (Yb : option Dat) (seqsb : list (list Row * option (list Row))) (ub : nat)
        (X : Dat) (Y : option Dat) (seqs : list (list Row * option (list Row))) (warmup : nat) :
  wf wa n -> wf wb n -> accepts n Xa Ya seqsa -> accepts n Xb Yb seqsb -> accepts n X Y seqs ->
  let ra := g_fit n (Some Xa) Ya ua wa in
  let rb := g_fit n (Some Xb) Yb ub wb in
  abs_out (snd ra) <> Rejected -> abs_out (snd rb) <> Rejected ->
  n_kind (view (fst ra) n) = n_kind (view (fst rb) n) -> n_fixed (view (fst ra) n) = n_fixed (view (fst rb) n) ->
  is_trained_offline (view (fst ra) n) = true -> is_trained_offline (view (fst rb) n) = true ->
  let sa := g_fit n (Some X) Y warmup (fst ra) in
  let sb := g_fit n (Some X) Y warmup (fst rb) in
  abs_out (snd sa) = abs_out (snd sb) /\
  (abs_out (snd sa) = Done -> n_learned (view (fst sa) n) = n_learned (view (fst sb) n)).
Proof.
  exact (Gen_fit_eq.gen_session_isolated acc0 acc_step bk_buf bk_def cb_check_xy cb_init kw_empty n wa wb Xa Ya seqsa ua Xb Yb seqsb ub
           X Y seqs warmup).
Qed.
End C11_generated.

(* ---- with NO assumption on the callbacks: whatever check_xy, _init_with_sequences, the buffers initialiser, `_partial_backward` and
        `_backward` do to the world and wherever any of them raises, a fit of an offline-trainable node (given data, or initialised)
        ends with `_buffers` empty and `_X`, `_Y` one empty list object *)
Theorem C11_generated_fit_ends_clean {P Row Buf Dat KW : Type}
        (cb_check_xy : nat -> Dat -> option Dat -> FitPrelude.M (FitPrelude.world P Row Buf) (Dat * option Dat))
        (cb_init : nat -> Dat -> option Dat -> FitPrelude.M (FitPrelude.world P Row Buf) (list (list Row) * option (list (option (list Row)))))
        (cb_binit : nat -> FitPrelude.M (FitPrelude.world P Row Buf) unit)
        (cb_pb : nat -> list Row -> option (list Row) -> KW -> FitPrelude.M (FitPrelude.world P Row Buf) unit)
        (cb_bk : nat -> nat -> nat -> FitPrelude.M (FitPrelude.world P Row Buf) unit) (kw_empty : KW)
        (n : nat) (X Y : option Dat) (warmup : nat) (w : FitPrelude.world P Row Buf) :
  FitPrelude.a_trainable (FitPrelude.w_obj w n) && FitPrelude.a_has_backward (FitPrelude.w_obj w n) = true ->
  (X = None -> FitPrelude.a_is_initialized (FitPrelude.w_obj w n) = true) ->
  Gen_fit_eq.session_clean_w n (fst (Gen_fit.GenFit.Node_fit cb_check_xy cb_init cb_binit cb_pb cb_bk kw_empty n X Y warmup w)).
Proof. exact (Gen_fit_eq.gen_fit_ends_clean cb_check_xy cb_init cb_binit cb_pb cb_bk kw_empty n X Y warmup w). Qed.

(* get_buffer: the stored array, AttributeError when the name is absent; nothing is written *)
Theorem C11_generated_get_buffer {P Row Buf : Type} (n name : nat) (w : FitPrelude.world P Row Buf) :
  Gen_fit.GenFit.Node_get_buffer n name w =
  match FitPrelude.dict_get (FitPrelude.a_buffers (FitPrelude.w_obj w n)) name with
  | Some v => (w, FitPrelude.Ok v)
  | None => (w, FitPrelude.Exc FitPrelude.AttributeError)
  end.
Proof. exact (Gen_fit_eq.gen_get_buffer n name w). Qed.

(* non-vacuity, by computation on the generated code: a default-buffer learner whose `_backward` returns the concatenation of the
   two lists it is handed.  Its first fit sees inputs and targets apart; the SECOND fit of the same data gets them mixed in one list
   under both names (the open finding refit:XY-aliased-default-buffers, reproduced on the translated code); a fit whose second
   sequence is not longer than the warm-up raises ValueError and leaves nothing behind. *)
Example C11_generated_refit_example :
  let r1 := Gen_fit_eq.ex_fit [([1; 2], Some [3; 4])] 0 Gen_fit_eq.ex_world in
  let r2 := Gen_fit_eq.ex_fit [([1; 2], Some [3; 4])] 0 (fst r1) in
  snd r1 = FitPrelude.Ok tt /\ Gen_fit_eq.np_learned (FitPrelude.a_params (FitPrelude.w_obj (fst r1) 0)) = [[1; 2]; [3; 4]] /\
  snd r2 = FitPrelude.Ok tt /\ Gen_fit_eq.np_learned (FitPrelude.a_params (FitPrelude.w_obj (fst r2) 0)) = [[1; 2]; [3; 4]; [1; 2]; [3; 4]] /\
  Gen_fit_eq.session_clean_w 0 (fst r2).
Proof. exact Gen_fit_eq.ex_refit_mixes. Qed.
Example C11_generated_failed_fit_example :
  let r := Gen_fit_eq.ex_fit [([1; 2; 3], Some [4; 5; 6]); ([7], Some [8])] 1 Gen_fit_eq.ex_world in
  snd r = FitPrelude.Exc FitPrelude.ValueError /\ Gen_fit_eq.session_clean_w 0 (fst r) /\
  FitPrelude.a_fitted (FitPrelude.w_obj (fst r) 0) = false.
Proof. exact Gen_fit_eq.ex_failed_fit_clean. Qed.
Example C11_generated_hypotheses_satisfiable :
  Gen_fit_eq.wf Gen_fit_eq.ex_world 0 /\
  forall X, Gen_fit_eq.accepts Gen_fit_eq.ex_check Gen_fit_eq.ex_split 0 X None X.
Proof. exact (conj Gen_fit_eq.ex_wf Gen_fit_eq.ex_accepts). Qed.

Print Assumptions C11_generated_clean_buffers.
Print Assumptions C11_generated_initialize_buffers.
Print Assumptions C11_generated_partial_backward_default.
Print Assumptions C11_generated_partial_fit.
Print Assumptions C11_generated_fit.
Print Assumptions C11_generated_fit_without_data.
Print Assumptions C11_generated_fit_session_clean.
Print Assumptions C11_generated_session_isolated.
Print Assumptions C11_generated_fit_ends_clean.
Print Assumptions C11_generated_get_buffer.

(* ---- the is_trainable setter (translated too) is TrainSem's set_trainable, the OFreeze operation: `_trainable` is written only when the
        node currently is trainable offline or online, so a node without a learning rule ignores it and a FROZEN node is never unfrozen
        (what C11_frozen_forever rests on); a value that is not exactly a bool is refused and nothing is written *)
Theorem C11_generated_set_is_trainable {P0 L St Row BufT : Type} (n : nat) (b : bool)
        (w : FitPrelude.world (Gen_fit_eq.nparams P0 L St) Row BufT) :
  Gen_fit_eq.wf w n -> Gen_fit_eq.wf_train w n ->
  let r := Gen_fit.GenFit.Node_set_is_trainable n (Some b) w in
  snd r = FitPrelude.Ok tt /\ Gen_fit_eq.view (fst r) n = set_trainable b (Gen_fit_eq.view w n) /\
  Gen_fit_eq.wf (fst r) n /\ Gen_fit_eq.wf_train (fst r) n.
Proof. exact (Gen_fit_eq.gen_set_is_trainable_view n b w). Qed.
Theorem C11_generated_set_is_trainable_not_bool {P0 L St Row BufT : Type} (n : nat)
        (w : FitPrelude.world (Gen_fit_eq.nparams P0 L St) Row BufT) :
  fst (Gen_fit.GenFit.Node_set_is_trainable n None w) = w.
Proof. exact (Gen_fit_eq.gen_set_is_trainable_not_bool n w). Qed.
Print Assumptions C11_generated_set_is_trainable.
Print Assumptions C11_generated_set_is_trainable_not_bool.
