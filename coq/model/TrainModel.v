(* Online training of a MODEL: Model.train(X, Y, force_teachers, learn_every, reset) of reservoirpy/model.py, on top of
   model/ModelSem.v (env, model, forward, proxies, clamps) and model/Online.v (rdo, RLS / LMS rules, the gate).
   Source facts mirrored here (all at /repo HEAD):
     model.py  Model.train  (since 7fe3c48): check_xy; dispatch(X_, Y_, return_targets=True, force_teachers); with_state(reset);
               _load_proxys(keep=True); taught := trainable nodes with a registered teacher node;
               if force_teachers: set_state_proxy(zero_state()) on every taught node;
               per step i:  forced_feedback := None unless force_teachers;
               with self.with_feedback(forced_feedback): self._call(x);   self._load_proxys();
               if force_teachers: set_state_proxy(node._teacher()) on every taught node (gated or not);
               if i % learn_every == 0 or seq_len == 1: self._train(self, x, y, force_teachers);   finally _clean_proxys().
     model.py  train(model, x, y, force_teachers) (l.224-239): DataDispatcher.load(X=x, Y=y); for node in model.nodes:
               if node.is_trained_online: _base.train(node, data[node].x, data[node].y, force_teachers, call_node=False).
     _base.py  train (l.547-589) on that ONE step (seq_len = 1, so its own gate is always open):
               y = node._teacher() if a teacher node was registered else Y[0];  s = node.state();
               if force_teachers: node.set_state_proxy(y);   node._train(node, x=x, y=y).
     _base.py  _check_node_io (l.210-307): an array Y is given to every trainable node; a Node given as target is registered
               as `_teacher` (register_teacher) and REMOVED from the target mapping (Y_ is None when all targets are nodes).
     utils/graphflow.py dispatch (l.150-191): step 0: zeros_like(Y[0]) for every key of Y_ when force_teachers (else None),
               step i > 0: Y[i-1];  y = Y[i].   DataDispatcher.get/load (l.237-280): parents' CURRENT states, then the data.
     node.py   set_state_proxy (l.484-500), state_proxy (l.453-466), with_feedback (l.775-831: a receiver is clamped,
               a sender gets the value as a temporary proxy).
     nodes/readouts/{rls,lms,base}.py: the rules of model/Online.v, prediction = node.state() (the output of this step's call).
   The learned parameters live in a separate map  nat -> rdo  next to the environment; the forward function of a readout
   node reads it ([with_params]).  No proofs here. *)
From Coq Require Import List Arith Bool.
From RV Require Import base.Num base.LA model.ModelSem model.Online.
Import ListNotations.

Section TrainModel.
Context {F : Type} `{Num F}.
Notation vec := (list F).
Notation env := (@env F).
Notation model := (@model F).
Notation ndesc := (@ndesc F).
Notation rdo := (@rdo F).

(* ---- static description of the online readouts of a model *)
Inductive rule := RuleRLS (has_bias : bool) | RuleLMS (sc : @sched F) (has_bias : bool).
(* where the targets of a readout come from: the array(s) passed as Y, or a teacher NODE of the model (Y = node or {readout: node}) *)
Inductive tsrc := TArr | TNode (t : nat).
Record rspec := mkRS { rid : nat; rrule : rule; rodim : nat; rtgt : tsrc }.
(* [base]: the graph (the nfwd of a readout node in it is irrelevant); [readouts]: its online-trained nodes *)
Record tmodel := mkTM { base : model; readouts : list rspec }.

Definition params := nat -> rdo.
Definition pupd (P : params) (n : nat) (s : rdo) : params := fun m => if Nat.eqb m n then s else P m.
Definition find_r (tm : tmodel) (n : nat) : option rspec := find (fun r => Nat.eqb (rid r) n) (readouts tm).

(* readout_forward with the CURRENT parameters *)
Definition rdo_nd (P : params) (d : ndesc) (r : rspec) : ndesc :=
  mkND (nid d) (fun _ h x _ => Some (readout_forward (rodim r) (P (rid r)) x, h)) (nfb d) (odim d).
Definition with_params (tm : tmodel) (P : params) : model :=
  mkModel (map (fun d => match find_r tm (nid d) with Some r => rdo_nd P d r | None => d end) (order (base tm)))
          (parents (base tm)) (outputs (base tm)).

(* ---- one timestep of data: external input per node id, array target per readout id (None for a readout taught by a node) *)
Record tstep := mkTS { sext : nat -> option vec; stgt : nat -> option vec }.

(* graphflow.dispatch + `if not force_teachers: forced_feedback = None`: the forced-feedback mapping of a step, given the
   previous step OF THE SAME CALL (None: first step of the call) *)
Definition zeros_like (t : nat -> option vec) : nat -> option vec :=
  fun n => match t n with Some v => Some (vzeros (length v)) | None => None end.
Definition forced_of (force : bool) (prev : option tstep) (cur : tstep) : nat -> option vec :=
  if force then match prev with None => zeros_like (stgt cur) | Some p => stgt p end else fun _ => None.

(* `_state_proxy`s that differ from the states when a step begins: set_state_proxy(y) of the previous step's learning *)
Definition pover := nat -> option vec.
Definition no_pov : pover := fun _ => None.
Definition ovr (pov : pover) (e : env) : env :=
  fun n => match pov n with Some v => mkNS v (hid (e n)) | None => e n end.

(* the proxies Model.train itself freezes on the readouts taught by a teacher NODE when force_teachers (7fe3c48):
   zero_state() before the first step, the teacher's (just reloaded) proxy after every step.
   [val r t]: the value for readout r taught by node t.  (Every rspec is a node of the model.) *)
Definition taught_pov (tm : tmodel) (force : bool) (val : rspec -> nat -> vec) : pover :=
  if force then
    (fun n => match find_r tm n with
              | Some r => match rtgt r with TNode t => Some (val r t) | TArr => None end
              | None => None
              end)
  else no_pov.
Definition init_pov (tm : tmodel) (force : bool) : pover := taught_pov tm force (fun r _ => vzeros (rodim r)).

(* the target of readout r at a step whose forward produced e1: Y[i], or the teacher node's (just reloaded) proxy *)
Definition target_of (s : tstep) (e1 : env) (r : rspec) : option vec :=
  match rtgt r with TArr => stgt s (rid r) | TNode t => Some (st (e1 t)) end.

Definition learn_rule (rl : rule) (s : rdo) (x y pred : vec) : rdo :=
  match rl with
  | RuleRLS hb => rls_update hb s x y pred
  | RuleLMS sc hb => lms_update sc hb s x y pred
  end.

(* _base.train(node, data[node].x, data[node].y, force_teachers, call_node=False) *)
Definition learn_node (tm : tmodel) (force : bool) (s : tstep) (e1 : env) (acc : params * pover) (r : rspec)
  : params * pover :=
  match target_of s e1 r with
  | Some y =>
      (pupd (fst acc) (rid r)
            (learn_rule (rrule r) (fst acc (rid r)) (gather (base tm) e1 (sext s) (rid r)) y (st (e1 (rid r)))),
       if force then (fun n => if Nat.eqb n (rid r) then Some y else snd acc n) else snd acc)
  | None => acc
  end.
(* model.train: every online node, in execution order *)
Definition learn_all (tm : tmodel) (force : bool) (s : tstep) (e1 : env) (acc : params * pover) : params * pover :=
  fold_left (fun a d => match find_r tm (nid d) with Some r => learn_node tm force s e1 a r | None => a end)
            (order (base tm)) acc.

Definition tstate := (env * params * pover)%type.
Definition all_states (m : model) (e : env) : list vec := map (fun d => st (e (nid d))) (order m).

(* one iteration of the loop of Model.train *)
Definition train_step (tm : tmodel) (k : nat) (single force : bool) (i : nat) (prev : option tstep) (s : tstep)
           (S : tstate) : tstate * bool :=
  let '(e, P, pov) := S in
  let m := with_params tm P in
  let forced := forced_of force prev s in
  let '(e1, ok) := forward m (proxies m forced (ovr pov e)) (clamps m forced) (sext s) e in
  if ok then
    let pov_t := taught_pov tm force (fun _ t => st (e1 t)) in
    let '(P1, pov1) := if gate k single i then learn_all tm force s e1 (P, pov_t) else (P, pov_t) in
    ((e1, P1, pov1), true)
  else ((e1, P, no_pov), false).

(* the loop, from step index i; outputs: the states of all nodes after each step (return_states="all") *)
Fixpoint train_from (tm : tmodel) (k : nat) (single force : bool) (i : nat) (prev : option tstep)
         (steps : list tstep) (S : tstate) : tstate * list (list vec) * bool :=
  match steps with
  | [] => (S, [], true)
  | s :: rest =>
      let '(S1, ok) := train_step tm k single force i prev s S in
      if ok then
        let '(S2, outs, ok2) := train_from tm k single force (Datatypes.S i) (Some s) rest S1 in
        (S2, all_states (base tm) (fst (fst S1)) :: outs, ok2)
      else (S1, [], false)
  end.

(* Model.train(X, Y, force_teachers, learn_every, reset) on one sequence, stateful: at rest before and after
   (`_load_proxys(keep=True)` finds no proxy; `_clean_proxys` drops them); teacher-taught readouts start with a zero proxy *)
Definition train_call (tm : tmodel) (k : nat) (force reset : bool) (steps : list tstep) (eP : env * params)
  : env * params * list (list vec) * bool :=
  let e0 := start_env (base tm) reset (fun _ => None) (fst eP) in
  let '(S1, outs, ok) := train_from tm k (length steps =? 1) force 0 None steps (e0, snd eP, init_pov tm force) in
  (fst (fst S1), snd (fst S1), outs, ok).

(* the state reached after the first j steps of a call, and the last step taken (the data [train_step] needs) *)
Fixpoint tstate_after (tm : tmodel) (k : nat) (single force : bool) (i : nat) (prev : option tstep)
         (steps : list tstep) (S : tstate) (j : nat) : tstate * option tstep :=
  match j, steps with
  | Datatypes.S j', s :: rest =>
      tstate_after tm k single force (Datatypes.S i) (Some s) rest (fst (train_step tm k single force i prev s S)) j'
  | _, _ => (S, prev)
  end.
(* the value handed to node d when it asks for its feedback during the step taken from state S *)
Definition fb_seen (tm : tmodel) (force : bool) (prev : option tstep) (s : tstep) (S : tstate) (d : ndesc) : option vec :=
  let '(e, P, pov) := S in
  let m := with_params tm P in
  let forced := forced_of force prev s in
  fbvalue d (proxies m forced (ovr pov e)) (clamps m forced).

End TrainModel.

Arguments mkRS {F} _ _ _ _.
Arguments mkTM {F} _ _.
Arguments mkTS {F} _ _.
