(* C04: executable model of offline ridge fitting.
   reservoirpy/nodes/readouts/ridge.py  (partial_backward, _accumulate, backward, _solve_ridge, initialize_buffers)
   reservoirpy/nodes/readouts/base.py   (_prepare_inputs_for_learning, readout_forward, _initialize_readout)
   reservoirpy/utils/validation.py      (add_bias)
   reservoirpy/node.py                  (Node.partial_fit: per-sequence warm-up; Node.fit)
   No proofs here. *)
From Coq Require Import List Arith Bool.
From RV Require Import base.Num base.LA.
Import ListNotations.

Section Ridge.
Context {F : Type} `{Num F}.
Notation vec := (list F).
Notation mat := (list (list F)).

(* scipy.linalg.solve(A, B, assume_a="sym"): an oracle (LAPACK); instantiated by Gauss-Jordan over Q in the runner *)
Variable solve : mat -> mat -> mat.

(* add_bias: np.hstack([ones((T,1)), X]) -- the constant column comes FIRST *)
Definition prep (bias : bool) (x : vec) : vec := if bias then n1 :: x else x.
(* initialize_buffers / backward: input_dim += 1 when input_bias *)
Definition aug_dim (bias : bool) (din : nat) : nat := if bias then S din else din.

(* partial_backward + _accumulate on one (already warm-up-stripped) sequence:
     X' = add_bias(X);  XXT += X'.T.dot(X');  YXT += Y.T.dot(X')                                  *)
Definition partial_backward (bias : bool) (din dout : nat) (acc : mat * mat) (X Y : mat) : mat * mat :=
  let d := aug_dim bias din in
  let X' := map (prep bias) X in
  (madd (fst acc) (mm (transpose X' d) X' d), madd (snd acc) (mm (transpose Y dout) X' d)).

(* initialize_buffers: XXT (d x d) and YXT (dout x d) start at zero *)
Definition buffers0 (bias : bool) (din dout : nat) : mat * mat :=
  (mzeros (aug_dim bias din) (aug_dim bias din), mzeros dout (aug_dim bias din)).

(* Node.partial_fit: for every sequence, ValueError if shape[0] <= warmup, else partial_backward(X[warmup:], Y[warmup:]) *)
Fixpoint partial_fit (bias : bool) (din dout w : nat) (acc : mat * mat) (Xs Ys : list mat) : option (mat * mat) :=
  match Xs, Ys with
  | X :: Xs', Y :: Ys' =>
      if length X <=? w then None
      else partial_fit bias din dout w (partial_backward bias din dout acc (skipn w X) (skipn w Y)) Xs' Ys'
  | _, _ => Some acc
  end.

(* backward: Wout_raw = solve(XXT + ridge * eye(d), YXT.T) *)
Definition ridge_system (bias : bool) (lam : F) (din : nat) (XXT : mat) : mat :=
  madd XXT (mscale lam (eye (aug_dim bias din))).
Definition backward_raw (bias : bool) (lam : F) (din : nat) (acc : mat * mat) : mat :=
  solve (ridge_system bias lam din (fst acc)) (transpose (snd acc) (aug_dim bias din)).
(* backward / _split_and_save_wout: bias = first row, Wout = the rest; without input_bias the bias stays at its
   initial value, zeros((1, dout)) (_initialize_readout) *)
Definition split_wo (bias : bool) (dout : nat) (Wo : mat) : mat * vec :=
  if bias then (tl Wo, hd (vzeros dout) Wo) else (Wo, vzeros dout).

(* Node.fit(X, Y, warmup) on a fresh node: (Wout, bias), or None when partial_fit raises *)
Definition fit (bias : bool) (lam : F) (w din dout : nat) (Xs Ys : list mat) : option (mat * vec) :=
  match partial_fit bias din dout w (buffers0 bias din dout) Xs Ys with
  | None => None
  | Some acc => Some (split_wo bias dout (backward_raw bias lam din acc))
  end.

(* readout_forward: (Wout.T @ x.reshape(-1,1) + bias.T).T *)
Definition forward (dout : nat) (Wout : mat) (b : vec) (x : vec) : vec :=
  vadd (mv (transpose Wout dout) x) b.
Definition run (dout : nat) (Wout : mat) (b : vec) (X : mat) : mat := map (forward dout Wout b) X.

End Ridge.
