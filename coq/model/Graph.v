(* C03 — executable model of reservoirpy's graph layer (definitions only; proofs in proofs/Graph_proofs.v).

   Sources modelled (as they are in /repo):
     reservoirpy/utils/graphflow.py : find_parents_and_children, find_entries_and_exits, topological_sort
     reservoirpy/ops.py             : concat_multi_inputs, _link_1to1, link, merge
     reservoirpy/model.py           : Model.__init__, Model.update_graph (&=)

   Nodes are abstract ids (nat) standing for Python object identity.  Python sets are lists here; wherever the
   implementation iterates over a set (entry list handed to Kahn's algorithm, order of the edge list) the model takes
   the order as it comes and the theorems are proved for EVERY order.  `type(node) is Concat` is the table [isc].
   The name given to an automatically inserted Concat is the function [nm : child -> fresh id]; the theorems hold for
   every fresh injective [nm] (Python: a new object with a name drawn from a global counter). *)
From Coq Require Import List Arith Bool.
Import ListNotations.

Definition node := nat.
Definition edge := (node * node)%type.

Definition edge_eqb (a b : edge) := Nat.eqb (fst a) (fst b) && Nat.eqb (snd a) (snd b).
Definition edge_eq_dec (a b : edge) : {a = b} + {a <> b}.
Proof. decide equality; apply Nat.eq_dec. Defined.

Definition mem (x : node) (l : list node) := existsb (Nat.eqb x) l.
Definition emem (e : edge) (l : list edge) := existsb (edge_eqb e) l.

Definition set_eqb (a b : list node) : bool := forallb (fun x => mem x b) a && forallb (fun x => mem x a) b.
Definition eset_eqb (a b : list edge) : bool := forallb (fun x => emem x b) a && forallb (fun x => emem x a) b.

(* ------------------------------------------------------------------ graphflow.find_parents_and_children
   [E] is the edge list in the order produced by `sorted(edges, key=parent.name+child.name)`; the lists below keep
   that order (parents[child] += [parent]; children[parent] += [child]).  Duplicated edges give duplicated entries. *)
Definition parents (E : list edge) (v : node) : list node := map fst (filter (fun e => Nat.eqb (snd e) v) E).
Definition children (E : list edge) (n : node) : list node := map snd (filter (fun e => Nat.eqb (fst e) n) E).

(* ------------------------------------------------------------------ graphflow.find_entries_and_exits
     lonely = nodes - senders - receivers ; entrypoints = senders - receivers | lonely ; endpoints = receivers - senders | lonely *)
Definition senders (E : list edge) := map fst E.
Definition receivers (E : list edge) := map snd E.
Definition lonely (V : list node) (E : list edge) :=
  filter (fun v => negb (mem v (senders E)) && negb (mem v (receivers E))) V.
Definition entries (V : list node) (E : list edge) : list node :=
  nodup Nat.eq_dec (filter (fun v => negb (mem v (receivers E))) (senders E) ++ lonely V E).
Definition exits (V : list node) (E : list edge) : list node :=
  nodup Nat.eq_dec (filter (fun v => negb (mem v (senders E))) (receivers E) ++ lonely V E).

(* ------------------------------------------------------------------ graphflow.topological_sort (Kahn)
   `inputs = deque(inputs)` used as a STACK: `n = inputs.pop()` takes the right end, `inputs.append(m)` pushes on the
   right end.  The stack is a list whose head is the right end of the deque.
   for m in children[n]:  edges.remove((n, m)); parents[m].remove(n); if len(parents[m]) < 1: inputs.append(m)
   (for a duplicate-free edge set, `parents[m]` is empty iff no remaining edge enters m: [has_in]). *)
Definition remove_edge (e : edge) (E : list edge) := filter (fun x => negb (edge_eqb e x)) E.
Definition has_in (m : node) (E : list edge) := existsb (fun e => Nat.eqb (snd e) m) E.

Fixpoint relax (n : node) (ms : list node) (E : list edge) (st : list node) : list edge * list node :=
  match ms with
  | [] => (E, st)
  | m :: ms' => let E' := remove_edge (n, m) E in
                if has_in m E' then relax n ms' E' st else relax n ms' E' (m :: st)
  end.

(* Sorted l : `return ordered_nodes` ; Cycle : `raise RuntimeError("Model has a cycle ...")` (edges remain when the
   stack is empty) ; OutOfFuel : artefact of the fuelled definition, proved unreachable (topo_total). *)
Inductive res := Sorted (l : list node) | Cycle | OutOfFuel.

Fixpoint kahn (fuel : nat) (E0 : list edge) (st : list node) (E : list edge) (acc : list node) : res :=
  match fuel with
  | 0 => OutOfFuel
  | S f => match st with
           | [] => match E with [] => Sorted (rev acc) | _ => Cycle end
           | n :: st' => let '(E', st'') := relax n (children E0 n) E st' in kahn f E0 st'' E' (n :: acc)
           end
  end.

(* [ents] is the `inputs` argument (Model passes self._inputs, a list made from a set: arbitrary order);
   `inputs.pop()` takes its LAST element first, hence [rev]. *)
Definition topo (ents V : list node) (E : list edge) : res :=
  kahn (S (length V + length E + length E)) E (rev ents) E [].

(* position of a node in an order, and the boolean "is a valid topological order of (V,E)" used by the runner *)
Fixpoint idx (x : node) (l : list node) : nat :=
  match l with [] => 0 | y :: l' => if Nat.eqb x y then 0 else S (idx x l') end.
Fixpoint nodupb (l : list node) : bool :=
  match l with [] => true | x :: l' => negb (mem x l') && nodupb l' end.
Definition is_topo (order : list node) (E : list edge) : bool :=
  nodupb order &&
  forallb (fun e => mem (fst e) order && mem (snd e) order && (idx (fst e) order <? idx (snd e) order)) E.

(* ------------------------------------------------------------------ ops.concat_multi_inputs
   for node in nodes:  indegree = len(parents[node])
     if indegree > 1 and type(node) not in (Concat,):  concat = Concat()
          new_nodes |= {concat, node}; new_edges |= {(p, concat) for p in parents[node]} | {(concat, node)}
     else new_nodes |= {node}; new_edges |= {(p, node) for p in parents[node]}
   Edges are rebuilt from the parents map: de-duplicated; an edge whose child is not in `nodes` disappears. *)
Definition indeg (E : list edge) (v : node) := length (parents E v).
Definition wrapped (isc : node -> bool) (E : list edge) (v : node) : bool := (1 <? indeg E v) && negb (isc v).

Definition cmi_nodes (isc : node -> bool) (nm : node -> node) (V : list node) (E : list edge) : list node :=
  flat_map (fun v => if wrapped isc E v then [nm v; v] else [v]) V.
Definition cmi_edges (isc : node -> bool) (nm : node -> node) (V : list node) (E : list edge) : list edge :=
  flat_map (fun v => if wrapped isc E v
                     then map (fun p => (p, nm v)) (parents E v) ++ [(nm v, v)]
                     else map (fun p => (p, v)) (parents E v)) V.
Definition cmi (isc : node -> bool) (nm : node -> node) (V : list node) (E : list edge) : list node * list edge :=
  (nodup Nat.eq_dec (cmi_nodes isc nm V E), nodup edge_eq_dec (cmi_edges isc nm V E)).

(* what a node finally receives: its predecessors, looking through the automatically inserted Concats ([auto]);
   used to state "receives each of its predecessors exactly once" *)
Fixpoint feeds (fuel : nat) (auto : node -> bool) (E : list edge) (v : node) : list node :=
  match fuel with
  | 0 => []
  | S f => flat_map (fun p => if auto p then feeds f auto E p else [p]) (parents E v)
  end.

(* ------------------------------------------------------------------ model.Model.__init__ / update_graph
   nodes, edges = concat_multi_inputs(nodes, edges); inputs, outputs = find_entries_and_exits(nodes, edges);
   self._nodes = topological_sort(nodes, edges, inputs)   (Model.nodes IS the sorted list) *)
Record model := { mNodes : list node; mEdges : list edge; mIn : list node; mOut : list node }.

Inductive result (A : Type) := Ok (a : A) | ErrCycle | ErrFuel.
Arguments Ok {A} a. Arguments ErrCycle {A}. Arguments ErrFuel {A}.

Definition mk_model (isc : node -> bool) (nm : node -> node) (V : list node) (E : list edge) : result model :=
  let '(V', E') := cmi isc nm V E in
  match V' with
  | [] => Ok {| mNodes := []; mEdges := E'; mIn := []; mOut := [] |}
  | _ => let ins := entries V' E' in
         match topo ins V' E' with
         | Sorted l => Ok {| mNodes := l; mEdges := E'; mIn := ins; mOut := exits V' E' |}
         | Cycle => ErrCycle
         | OutOfFuel => ErrFuel
         end
  end.

(* ------------------------------------------------------------------ ops._link_1to1 / link / merge
   An operand is a bare node or a (non-frozen) Model. *)
Inductive value := VNode (n : node) | VModel (m : model).
Definition v_nodes v := match v with VNode n => [n] | VModel m => mNodes m end.
Definition v_edges v := match v with VNode _ => [] | VModel m => mEdges m end.
Definition v_ins v := match v with VNode n => [n] | VModel m => mIn m end.     (* receivers: node2.input_nodes *)
Definition v_outs v := match v with VNode n => [n] | VModel m => mOut m end.   (* senders: node1.output_nodes *)

(* all_nodes = nodes(1) + nodes(2); all_edges = edges(1) + edges(2) + product(senders, receivers) *)
Definition link_1to1 (a b : value) : list node * list edge :=
  (v_nodes a ++ v_nodes b, v_edges a ++ v_edges b ++ list_prod (v_outs a) (v_ins b)).

(* for left in node1: for right in node2: nodes |= ...; edges |= ...   (a non-sequence operand is [operand]) *)
Definition link_graph (ls rs : list value) : list node * list edge :=
  (nodup Nat.eq_dec (flat_map (fun l => flat_map (fun r => fst (link_1to1 l r)) rs) ls),
   nodup edge_eq_dec (flat_map (fun l => flat_map (fun r => snd (link_1to1 l r)) rs) ls)).
Definition link isc nm (ls rs : list value) : result model :=
  let '(V, E) := link_graph ls rs in mk_model isc nm V E.

(* merge(model, m): all_nodes = set(m.nodes) | set(model.nodes) (a bare node contributes {node}); same for edges;
   Model(nodes, edges) — or model.update_graph(nodes(m), edges(m)) for `&=`, which computes the same union. *)
Definition merge_graph (a b : value) : list node * list edge :=
  (nodup Nat.eq_dec (v_nodes b ++ v_nodes a), nodup edge_eq_dec (v_edges b ++ v_edges a)).
Definition merge isc nm (a b : value) : result model :=
  let '(V, E) := merge_graph a b in mk_model isc nm V E.

(* merge(model, *models) with several operands, lists/tuples of nodes and models being flattened first
   (`x & [y, z]`, `m &= [y, z]`, `merge(x, y, [z, w])`): [bs] is the flattened operand list *)
Definition merge_graph_l (a : value) (bs : list value) : list node * list edge :=
  (nodup Nat.eq_dec (flat_map v_nodes bs ++ v_nodes a), nodup edge_eq_dec (flat_map v_edges bs ++ v_edges a)).
Definition merge_l isc nm (a : value) (bs : list value) : result model :=
  let '(V, E) := merge_graph_l a bs in mk_model isc nm V E.

(* Model.update_graph (`m &= b`): nodes/edges are united, Concats inserted, entries/exits computed and the graph
   sorted FIRST; only then is the model object modified.  Returns (what the expression evaluates to, the state of the
   object m afterwards): a rejected update leaves m as it was. *)
Definition update_graph isc nm (m : model) (bs : list value) : result model * model :=
  match merge_l isc nm (VModel m) bs with
  | Ok m' => (Ok m', m')
  | ErrCycle => (ErrCycle, m)
  | ErrFuel => (ErrFuel, m)
  end.

(* ------------------------------------------------------------------ expressions (scenario language of the harness)
   Every Model construction carries the table child |-> id of the Concat inserted in front of it (observed on the real
   objects); a child absent from the table gets the fallback id [fb + child] ([fb] above every id in use). *)
Definition table := list (node * node).
Fixpoint lookup (t : table) (v : node) : option node :=
  match t with [] => None | (k, c) :: t' => if Nat.eqb k v then Some c else lookup t' v end.
Definition naming (fb : nat) (t : table) : node -> node :=
  fun v => match lookup t v with Some c => c | None => fb + v end.

Inductive expr :=
| ENode (n : node)                                          (* a bare node *)
| EGraph (t : table) (V : list node) (E : list edge)        (* Model(nodes=V, edges=E) *)
| ELink (t : table) (ls rs : list expr)                     (* link(ls, rs): l >> r, [l..] >> r, l >> [r..] *)
| EMerge (t : table) (a b : expr)                           (* a & b   and   a &= b (a a Model) *)
| EMergeL (t : table) (a : expr) (bs : list expr).          (* a & [b..], a &= [b..], merge(a, b, [c, d]) flattened *)

Fixpoint sequence {A} (l : list (result A)) : result (list A) :=
  match l with
  | [] => Ok []
  | Ok a :: l' => match sequence l' with Ok r => Ok (a :: r) | ErrCycle => ErrCycle | ErrFuel => ErrFuel end
  | ErrCycle :: _ => ErrCycle
  | ErrFuel :: _ => ErrFuel
  end.

Definition lift (r : result model) : result value :=
  match r with Ok m => Ok (VModel m) | ErrCycle => ErrCycle | ErrFuel => ErrFuel end.

(* Python evaluates operands left to right; an operand that raises makes the whole expression raise *)
Fixpoint eval (isc : node -> bool) (fb : nat) (e : expr) : result value :=
  match e with
  | ENode n => Ok (VNode n)
  | EGraph t V E => lift (mk_model isc (naming fb t) V E)
  | ELink t ls rs =>
      match sequence (map (eval isc fb) ls) with
      | Ok vl => match sequence (map (eval isc fb) rs) with
                 | Ok vr => lift (link isc (naming fb t) vl vr)
                 | ErrCycle => ErrCycle | ErrFuel => ErrFuel end
      | ErrCycle => ErrCycle | ErrFuel => ErrFuel end
  | EMerge t a b =>
      match eval isc fb a with
      | Ok va => match eval isc fb b with
                 | Ok vb => lift (merge isc (naming fb t) va vb)
                 | ErrCycle => ErrCycle | ErrFuel => ErrFuel end
      | ErrCycle => ErrCycle | ErrFuel => ErrFuel end
  | EMergeL t a bs =>
      match eval isc fb a with
      | Ok va => match sequence (map (eval isc fb) bs) with
                 | Ok vb => lift (merge_l isc (naming fb t) va vb)
                 | ErrCycle => ErrCycle | ErrFuel => ErrFuel end
      | ErrCycle => ErrCycle | ErrFuel => ErrFuel end
  end.

(* two results denote the same model (nodes, edges, entries, exits compared as sets; both must be accepted or both
   rejected with the cycle error) *)
Definition same_model (x y : result value) : bool :=
  match x, y with
  | Ok u, Ok v => set_eqb (v_nodes u) (v_nodes v) && eset_eqb (v_edges u) (v_edges v)
                  && set_eqb (v_ins u) (v_ins v) && set_eqb (v_outs u) (v_outs v)
  | ErrCycle, ErrCycle => true
  | _, _ => false
  end.
