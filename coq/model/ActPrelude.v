(* C18 — prelude of the generated file gen/Gen_activations.v: the two numpy reductions used by
   reservoirpy/activationsfunc.py, on flattened arrays (list R).  No proofs here.
     lsum  = ndarray.sum() / np.sum      (over R the summation order is irrelevant)
     lmax  = np.max on a non-empty array (numpy raises on an empty one; the translator only emits lmax under a
             `.size == 0` guard, the value 0 chosen here for [] is never reached by generated code) *)
From Coq Require Import Reals List.
Import ListNotations.
Local Open Scope R_scope.

Fixpoint lsum (l : list R) : R :=
  match l with
  | [] => 0
  | a :: r => a + lsum r
  end.

Fixpoint lmax (l : list R) : R :=
  match l with
  | [] => 0
  | a :: r => match r with [] => a | _ :: _ => Rmax a (lmax r) end
  end.
