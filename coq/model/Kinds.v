(* Concrete node kinds used by the scenario language (run/RunModel.v): forward functions of real reservoirpy
   nodes (Reservoir both equations, Ridge/readout forward, Delay, NVAR, Concat/Input/Output) and of the custom
   nodes the harness defines (affine, accumulator, feedback adder, failing node). *)
From Coq Require Import List Arith Bool ZArith.
From RV Require Import base.Num base.LA model.Windows model.ModelSem.
Import ListNotations.

Section Kinds.
Context {F : Type} `{Num F}.
Notation vec := (list F).
Notation mat := (list (list F)).

Inductive actk := AId | ARelu | AHardTanh | AHalf.
Definition act1 (a : actk) (x : F) : F :=
  match a with
  | AId => x
  | ARelu => if nltb x n0 then n0 else x
  | AHardTanh => if nltb x (nopp n1) then nopp n1 else if nltb n1 x then n1 else x
  | AHalf => ndiv x (nadd n1 n1)
  end.
Definition act (a : actk) (v : vec) : vec := map (act1 a) v.

Inductive kind :=
| KFun (a b : F)                                       (* out = a*x + b, elementwise *)
| KAcc                                                 (* out = x + own state *)
| KId                                                  (* Input / Output / Concat: identity on the gathered input *)
| KRes (W Win : mat) (bias lr : vec) (f : actk)        (* Reservoir, equation='internal', no feedback *)
| KResExt (W Win : mat) (bias lr : vec) (f : actk)     (* equation='external'; hidden = [internal_state] *)
| KResFb (W Win : mat) (bias lr : vec) (f : actk) (Wfb : mat) (g : actk)
| KLin (Wout : mat) (bias : vec)                       (* readout_forward: Wout^T x + bias ; Wout is in x out *)
| KFbAdd (c : F)                                       (* out = x + c * feedback() *)
| KDelay                                               (* hidden = buffer *)
| KNvar (order strides : nat)                          (* hidden = store *)
| KBoom (k : nat).                                     (* out = x + state; raises at its k-th call; hidden = [[count]] *)

(* leaky integration with a per-unit leak vector *)
Definition leak (lr r fx : vec) : vec :=
  vadd (vmul (map (fun l => nsub n1 l) lr) r) (vmul lr fx).
Definition kernel (W Win : mat) (bias r u : vec) : vec := vadd (vadd (mv W r) (mv Win u)) bias.

Definition nat_to_F (n : nat) : F := nofZ (Z.of_nat n).

Definition kfwd (k : kind) (s : vec) (h : hidden) (x : vec) (fb : option vec) : option (vec * hidden) :=
  match k with
  | KFun a b => Some (map (fun v => nadd (nmul a v) b) x, h)
  | KAcc => Some (vadd x s, h)
  | KId => Some (x, h)
  | KRes W Win bias lr f => Some (leak lr s (act f (kernel W Win bias s x)), h)
  | KResExt W Win bias lr f =>
      let internal := match h with i :: _ => i | [] => vzeros (length s) end in
      let s_next := leak lr internal (kernel W Win bias s x) in
      Some (act f s_next, [s_next])
  | KResFb W Win bias lr f Wfb g =>
      match fb with
      | Some y => Some (leak lr s (act f (vadd (kernel W Win bias s x) (mv Wfb (act g y)))), h)
      | None => None
      end
  | KLin Wout bias => Some (vadd (vm x Wout (length bias)) bias, h)
  | KFbAdd c => match fb with
                | Some y => Some (vadd x (vscale c y), h)
                | None => None
                end
  | KDelay => let '(b, o) := delay_step h x in Some (o, b)
  | KNvar order strides => let '(st', o) := nvar_step order strides h x in Some (o, st')
  | KBoom kk =>
      let c := match h with (c0 :: _) :: _ => c0 | _ => n0 end in
      let c' := nadd c n1 in
      if nleb (nat_to_F kk) c' && nleb c' (nat_to_F kk) then None else Some (vadd x s, [[c']])
  end.

End Kinds.
