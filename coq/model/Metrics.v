(* C19: executable model of reservoirpy/observables.py
     _check_arrays, mse, rmse (through its square), nrmse (through its square and the sign of the norm),
     rsquare, the [dimensionwise] axis selection, and the matrix handed to spectral_radius by
     effective_spectral_radius.
   Arrays are nested lists: 1-D [list F], 2-D [list (list F)] (rows = timesteps), 3-D [list (list (list F))]
   (sequences x timesteps x features).  No proofs here. *)
From Coq Require Import List Arith Bool ZArith.
From RV Require Import base.Num base.LA.
Import ListNotations.

(* ---- shapes (no numbers involved) ---- *)
Fixpoint lnat_eqb (a b : list nat) : bool :=
  match a, b with
  | [], [] => true
  | x :: a', y :: b' => (x =? y) && lnat_eqb a' b'
  | _, _ => false
  end.

Inductive normk := Minmax | Var | Mean | Q1Q3.

Section Metrics.
Context {F : Type} `{Num F}.
Notation vec := (list F).
Notation mat := (list (list F)).

Inductive arr := A1 (v : vec) | A2 (m : mat) | A3 (t : list mat).
(* what a metric returns: a scalar (axis=None, or axis=0 of a 1-D array) or one value per feature *)
Inductive res := RS (x : F) | RV (v : vec).

(* np.asarray(..).shape of a rectangular nested list.  A list / tuple of equally shaped 2-D ndarrays is stacked by np.asarray into
   the 3-D array [A3]; integer and boolean arrays are cast to float64 first, i.e. they denote the same numbers. *)
Definition shape (a : arr) : list nat :=
  match a with
  | A1 v => [length v]
  | A2 m => [length m; length (hd [] m)]
  | A3 t => [length t; length (hd [] t); length (hd [] (hd [] t))]
  end.
(* _check_arrays: None stands for the ValueError *)
Definition check_arrays (y p : arr) : option (arr * arr) :=
  if lnat_eqb (shape y) (shape p) then Some (y, p) else None.

(* all the entries (axis=None) *)
Definition flat (a : arr) : vec :=
  match a with A1 v => v | A2 m => concat m | A3 t => concat (concat t) end.
(* number of features = last axis *)
Definition nfeat (a : arr) : nat := last (shape a) 0.

(* ---- 1-D reductions ---- *)
Definition nofnat (n : nat) : F := nofZ (Z.of_nat n).
Definition sq (x : F) : F := nmul x x.
Definition mean (v : vec) : F := ndiv (vsum v) (nofnat (length v)).         (* np.mean *)
Definition sqdiff (y p : vec) : vec := vzip (fun a b => sq (nsub a b)) y p.  (* (y - p) ** 2 *)
Definition center (v : vec) : vec := map (fun x => nsub x (mean v)) v.       (* y - y.mean() *)
Definition var1 (v : vec) : F := mean (map sq (center v)).                   (* y.var(), ddof = 0 *)
Definition nmax (a b : F) : F := if nltb a b then b else a.
Definition nmin (a b : F) : F := if nltb b a then b else a.
Definition vmax (v : vec) : F := match v with [] => n0 | x :: v' => fold_right nmax x v' end.
Definition vmin (v : vec) : F := match v with [] => n0 | x :: v' => fold_right nmin x v' end.
Definition ptp (v : vec) : F := nsub (vmax v) (vmin v).                      (* np.ptp *)

(* np.quantile(y, a/b), default method 'linear': position a(n-1)/b in the sorted data, linear interpolation *)
Fixpoint insert (x : F) (l : vec) : vec :=
  match l with
  | [] => [x]
  | y :: l' => if nleb x y then x :: l else y :: insert x l'
  end.
Definition isort (v : vec) : vec := fold_right insert [] v.
Definition quantile (a b : nat) (v : vec) : F :=
  let n := length v in
  let pos := a * (n - 1) in
  let lo := pos / b in
  let g := ndiv (nofnat (pos mod b)) (nofnat b) in
  let s := isort v in
  let xlo := nth lo s n0 in
  let xhi := nth (Nat.min (S lo) (n - 1)) s n0 in
  nadd xlo (nmul (nsub xhi xlo) g).
Definition q1q3 (v : vec) : F := nsub (quantile 3 4 v) (quantile 1 4 v).

Definition norm1 (k : normk) (v : vec) : F :=
  match k with Minmax => ptp v | Var => var1 v | Mean => mean v | Q1Q3 => q1q3 v end.

Definition mse1 (y p : vec) : F := mean (sqdiff y p).
Definition sstot (y : vec) : F := vsum (map sq (center y)).
Definition rsquare1 (y p : vec) : F := nsub n1 (ndiv (vsum (sqdiff y p)) (sstot y)).

(* ---- axis-0 reductions of a 2-D array, accumulated row by row as numpy does ---- *)
Definition sum0 (c : nat) (m : mat) : vec := fold_right vadd (vzeros c) m.         (* np.sum(m, axis=0) *)
Definition mean0 (c : nat) (m : mat) : vec := map (fun s => ndiv s (nofnat (length m))) (sum0 c m).
Definition msqdiff (y p : mat) : mat := map (fun r => sqdiff (fst r) (snd r)) (combine y p).
Definition subrow (m : mat) (mu : vec) : mat := map (fun r => vsub r mu) m.         (* broadcast m - mu *)
Definition msq (m : mat) : mat := map (map sq) m.
Definition var0 (c : nat) (m : mat) : vec := mean0 c (msq (subrow m (mean0 c m))).
Definition max0 (m : mat) : vec := match m with [] => [] | r :: m' => fold_right (vzip nmax) r m' end.
Definition min0 (m : mat) : vec := match m with [] => [] | r :: m' => fold_right (vzip nmin) r m' end.
Definition ptp0 (m : mat) : vec := vsub (max0 m) (min0 m).
Definition col (j : nat) (m : mat) : vec := map (fun r => nth j r n0) m.
Definition cols (c : nat) (m : mat) : mat := map (fun j => col j m) (seq 0 c).
Definition q1q3_0 (c : nat) (m : mat) : vec := map q1q3 (cols c m).

Definition norm0 (k : normk) (c : nat) (m : mat) : vec :=
  match k with Minmax => ptp0 m | Var => var0 c m | Mean => mean0 c m | Q1Q3 => q1q3_0 c m end.
Definition mse0 (c : nat) (y p : mat) : vec := mean0 c (msqdiff y p).
Definition rsquare0 (c : nat) (y p : mat) : vec :=
  vzip (fun d D => nsub n1 (ndiv d D)) (sum0 c (msqdiff y p)) (sum0 c (msq (subrow y (mean0 c y)))).

(* ---- the dimensionwise switch:  axis = (0,1) for 3-D, 0 otherwise, None when dimensionwise is False ---- *)
(* a 3-D array reduced over axes (0,1) is the 2-D array of all its rows reduced over axis 0 *)
Definition rows2 (a : arr) : option mat :=
  match a with A1 _ => None | A2 m => Some m | A3 t => Some (concat t) end.

Definition reduce {T} (dw : bool) (y p : arr) (f1 : vec -> vec -> T) (f0 : nat -> mat -> mat -> list T)
    : option (T + list T) :=
  match check_arrays y p with
  | None => None
  | Some _ =>
    Some (if dw then
            match rows2 y, rows2 p with
            | Some my, Some mp => inr (f0 (nfeat y) my mp)
            | _, _ => inl (f1 (flat y) (flat p))     (* 1-D, axis=0: a scalar *)
            end
          else inl (f1 (flat y) (flat p)))
  end.

Definition tores (r : option (F + vec)) : option res :=
  match r with None => None | Some (inl x) => Some (RS x) | Some (inr v) => Some (RV v) end.

Definition mse (dw : bool) (y p : arr) : option res := tores (reduce dw y p mse1 mse0).
Definition rsquare (dw : bool) (y p : arr) : option res := tores (reduce dw y p rsquare1 rsquare0).
(* numerator and denominator of the R^2 ratio per output entry (numpy returns nan / -inf when the denominator is 0) *)
Definition rsquare_parts (dw : bool) (y p : arr) : option ((F * F) + list (F * F)) :=
  reduce dw y p (fun a b => (vsum (sqdiff a b), sstot a))
                (fun c a b => combine (sum0 c (msqdiff a b)) (sum0 c (msq (subrow a (mean0 c a))))).
(* rmse = sqrt(mse): the model exposes its square *)
Definition rmse_sq := mse.
(* nrmse = rmse / norm(y_true): the model exposes (mse, norm) per output entry; nrmse^2 = mse / norm^2 and
   nrmse has the sign of the norm *)
Definition nrmse_parts (dw : bool) (k : normk) (y p : arr) : option ((F * F) + list (F * F)) :=
  reduce dw y p (fun a b => (mse1 a b, norm1 k a)) (fun c a b => combine (mse0 c a b) (norm0 k c a)).
(* with norm_value given, the same value divides every entry *)
Definition nrmse_parts_nv (dw : bool) (nv : F) (y p : arr) : option ((F * F) + list (F * F)) :=
  reduce dw y p (fun a b => (mse1 a b, nv)) (fun c a b => map (fun e => (e, nv)) (mse0 c a b)).

(* effective_spectral_radius: the matrix passed to spectral_radius, lr * W + (1 - lr) * np.eye(units) *)
Definition eff_matrix (lr : F) (W : mat) : mat :=
  madd (mscale lr W) (mscale (nsub n1 lr) (eye (length W))).

End Metrics.
Arguments arr F : clear implicits.
Arguments res F : clear implicits.
