(* C11: the kernels of model/TrainSem.v instantiated at Q, for the correspondence runs and for the vm_compute witnesses.
     KBuf   = Ridge                 (model/Ridge.v: buffers0, partial_backward, ridge_system; Gauss-Jordan for LAPACK,
                                     None = LinAlgError on an exactly singular system)
     KDef   = a default-buffer learner whose backward does  X_ = np.concatenate(_X); Y_ = np.concatenate(_Y)  (both raise
              on an empty list / on rows of different widths, exactly like sklearn_node.backward) and then stores
              [X_.sum(); Y_.sum(); len(X_); len(Y_)]  -- the harness' SumOffline node; for ScikitLearnNode only the
              raise / no-raise outcome of this function is compared (its estimator is opaque)
     KOnline = RLS / LMS            (model/Online.v: rls_train, lms_train with a constant rate)
   No proofs here. *)
From Coq Require Import List Arith Bool QArith.
From RV Require Import base.Num base.LA model.Ridge model.Online model.TrainSem.
Import ListNotations.
Close Scope Q_scope.

Notation qv := (list Q).
Notation qm := (list (list Q)).

(* hyper-parameters and dimensions of a readout (part of the FIXED side of a node) *)
Record hyp := mkHyp { h_bias : bool; h_lam : Q; h_din : nat; h_dout : nat; h_rls : bool; h_alpha : Q }.
(* fixed side: hypers + a version stamp standing for the arrays (W, Win, bias...) the harness observes by hash *)
Definition fixedQ := (hyp * nat)%type.
Definition learnedQ := rdo (F:=Q).
Definition accQ := (qm * qm)%type.

Definition acc0Q (p : fixedQ) : accQ := buffers0 (h_bias (fst p)) (h_din (fst p)) (h_dout (fst p)).
Definition acc_stepQ (p : fixedQ) (a : accQ) (x : qm) (y : option qm) : accQ :=
  Ridge.partial_backward (h_bias (fst p)) (h_din (fst p)) (h_dout (fst p)) a x (match y with Some y' => y' | None => [] end).
Definition bk_bufQ (p : fixedQ) (a : accQ) : option learnedQ :=
  let h := fst p in
  match qsolve (ridge_system (h_bias h) (h_lam h) (h_din h) (fst a)) (transpose (snd a) (aug_dim (h_bias h) (h_din h))) with
  | Some Wo => let '(W, b) := split_wo (h_bias h) (h_dout h) Wo in Some {| Wout := W; bias := b; Pm := []; cursor := 0 |}
  | None => None
  end.

(* np.concatenate(list of 2-D arrays, axis=0): None when the list is empty or the widths differ *)
Definition width (b : qm) : nat := length (hd [] b).
Definition np_concat (l : list qm) : option qm :=
  match l with
  | [] => None
  | b :: r => if forallb (fun b' => width b' =? width b) r then Some (concat l) else None
  end.
Definition msum (m : qm) : Q := vsum (map (vsum (F:=Q)) m).
Definition bk_defQ (p : fixedQ) (X Y : list qm) : option learnedQ :=
  match np_concat X, np_concat Y with
  | Some x, Some y =>
      Some {| Wout := []; bias := [msum x; msum y; inject_Z (Z.of_nat (length x)); inject_Z (Z.of_nat (length y))];
              Pm := []; cursor := 0 |}
  | _, _ => None
  end.

Definition train_fnQ (p : fixedQ) (l : learnedQ) (s : nat) (x : qm) (y : option qm) : learnedQ * nat :=
  let h := fst p in
  let xy := combine x (match y with Some y' => y' | None => [] end) in
  (if h_rls h then fst (rls_train (h_bias h) (h_dout h) 1 l xy)
   else fst (lms_train ([], h_alpha h) (h_bias h) (h_dout h) 1 l xy), s + length x).
Definition fwdQ (p : fixedQ) (l : learnedQ) (s : nat) (x : qm) : nat := s + length x.

Notation nodeQ := (node fixedQ learnedQ nat qv accQ).
Notation opQ := (op qv).
Definition stepQ (c : cfg) : list nodeQ -> opQ -> list nodeQ * outcome :=
  step acc0Q acc_stepQ bk_bufQ bk_defQ train_fnQ fwdQ c.
Definition fitQ (c : cfg) : nat -> nodeQ -> option (list (qm * option qm)) -> nodeQ * outcome :=
  fit acc0Q acc_stepQ bk_bufQ bk_defQ c.
Definition run_opsQ (c : cfg) : list nodeQ -> list opQ -> list nodeQ :=
  run_ops acc0Q acc_stepQ bk_bufQ bk_defQ train_fnQ fwdQ c.

(* initial learned parameters: zeros (Ridge / LMS / SumOffline after initialisation), P = I/alpha for RLS *)
Definition learned0 (k : kind) (h : hyp) : learnedQ :=
  match k with
  | KOnline => if h_rls h then rls_init (h_bias h) (h_din h) (h_dout h) (h_alpha h) else lms_init (h_din h) (h_dout h)
  | KDef => {| Wout := []; bias := []; Pm := []; cursor := 0 |}
  | _ => {| Wout := mzeros (h_din h) (h_dout h); bias := vzeros (h_dout h); Pm := []; cursor := 0 |}
  end.
Definition freshQ (k : kind) (h : hyp) : nodeQ := fresh k (h, 0) (learned0 k h) 0.
