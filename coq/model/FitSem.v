(* C06: executable model of the training layer of reservoirpy.
     utils/graphflow.py   get_offline_subgraphs, _get_required_nodes, _get_links, find_entries_and_exits,
                          find_parents_and_children, DataDispatcher.load/get
     utils/model_utils.py build_forward_sumodels, dist_states_to_next_subgraph, to_data_mapping, build_mapping
     model.py             Model.fit, run_and_partial_fit, run_submodel, Model.train, train (module level)
     _base.py             train (call_node=False path)
   Three parts:
     1. graph level (no numbers): the staging computed by get_offline_subgraphs, faithful to the `while` loop;
     2. Model.fit with ANY staging and the explicit node-by-node procedure, both generic in an abstract
        "value algebra" (what a forward node / an offline learner does to whole datasets), so that the same
        functions are run symbolically (free term algebra: the validity check), at Q (correspondence) and are
        proved about for every algebra;
     3. Model.train as the per-timestep loop, generic in the nodes.
   No proofs here. *)
From Coq Require Import List Arith Bool.
Import ListNotations.

(* ------------------------------------------------------------------------------------------------------------ *)
(* 1. graphs and get_offline_subgraphs                                                                          *)
(* ------------------------------------------------------------------------------------------------------------ *)
Definition mem (n : nat) (l : list nat) : bool := existsb (Nat.eqb n) l.
Definition subset (a b : list nat) : bool := forallb (fun x => mem x b) a.
Definition set_eqb (a b : list nat) : bool := subset a b && subset b a.

(* g_nodes: Model.nodes, i.e. a topological order.  g_edges: Model.edges in the order in which
   find_parents_and_children sorts them (key parent.name + child.name): this fixes the fan-in order of every node and
   the order of every children list.  g_offl: the nodes with is_trained_offline. *)
Record graph := mkG { g_nodes : list nat; g_edges : list (nat * nat); g_offl : list nat }.

Definition offline (g : graph) (n : nat) : bool := mem n (g_offl g).
Definition parents_in (es : list (nat * nat)) (n : nat) : list nat := map fst (filter (fun e => snd e =? n) es).
Definition children_in (es : list (nat * nat)) (n : nat) : list nat := map snd (filter (fun e => fst e =? n) es).
Definition parents (g : graph) := parents_in (g_edges g).
Definition children (g : graph) := children_in (g_edges g).
(* find_entries_and_exits: entry = not a receiver, exit = not a sender (lonely nodes are both) *)
Definition is_input (g : graph) (n : nat) : bool := negb (existsb (fun e => snd e =? n) (g_edges g)).
Definition is_output (g : graph) (n : nat) : bool := negb (existsb (fun e => fst e =? n) (g_edges g)).

(* one stage as zip(subgraphs, required) yields it: ((subnodes, subedges), relations).
   relations: links[n] = [children of n in the next group], as an association list in iteration order *)
Record stage := mkStage { s_nodes : list nat; s_edges : list (nat * nat); s_rel : list (nat * list nat) }.

(* body of `for node in _nodes:` -- state (subnodes, included, trained) *)
Definition scan_step (g : graph) (acc : list nat * list nat * list nat) (n : nat) : list nat * list nat * list nat :=
  let '(sub, incl, trn) := acc in
  if is_input g n || forallb (fun p => mem p incl) (parents g n) then
    if offline g n && negb (mem n trn) then (sub ++ [n], incl, n :: trn)
    else ((if is_output g n then sub else sub ++ [n]), n :: incl, trn)
  else acc.

(* `while trained != offlines:`  -- explicit fuel; None when it runs out (the Python loop would not terminate) *)
Fixpoint stages_loop (g : graph) (fuel : nat) (todo incl trn : list nat) (acc : list (list nat * list (nat * nat)))
  : option (list (list nat * list (nat * nat))) :=
  if set_eqb trn (filter (offline g) (g_nodes g)) then Some (rev acc) else
  match fuel with
  | O => None
  | S f =>
      let '(sub, incl', trn') := fold_left (scan_step g) todo ([], incl, trn) in
      let subedges := filter (fun e => mem (fst e) sub && mem (snd e) sub) (g_edges g) in
      stages_loop g f (filter (fun n => negb (mem n incl')) (g_nodes g)) incl' trn' ((sub, subedges) :: acc)
  end.

(* _get_links(previous, nexts, children).  `previous` is a Python set: the iteration order is unspecified; the model
   iterates in list order (the order only matters when one node of `nexts` is fed by two nodes of `previous`, a case
   in which dist_states below returns None whatever the order). *)
Definition get_links (g : graph) (previous nexts : list nat) : list (nat * list nat) :=
  flat_map (fun n => if mem n nexts then []
                     else match filter (fun c => mem c nexts) (children g n) with
                          | [] => []
                          | cs => [(n, cs)]
                          end) previous.

(* _get_required_nodes: links between consecutive groups; for the last group, links from its forward part to the
   offline nodes it trains.  [fitted] = offline nodes of all earlier groups. *)
Fixpoint required_from (g : graph) (fitted : list nat) (subs : list (list nat)) : list (list (nat * list nat)) :=
  match subs with
  | [] => []
  | [last] =>
      let nexts := filter (fun n => offline g n && negb (mem n fitted)) last in
      let currs := filter (fun n => negb (offline g n) || mem n fitted) last in
      [get_links g currs nexts]
  | cur :: ((nxt :: _) as rest) =>
      get_links g cur nxt :: required_from g (filter (offline g) cur ++ fitted) rest
  end.

(* get_offline_subgraphs(nodes, edges).  None: loop does not terminate, or no offline node at all (subgraphs[-1]
   raises IndexError; Model.fit refuses such a model before calling it). *)
Definition get_offline_subgraphs (g : graph) : option (list stage) :=
  match stages_loop g (S (length (g_nodes g))) (g_nodes g) [] [] [] with
  | None => None
  | Some [] => None
  | Some subs =>
      Some (map (fun p => mkStage (fst (fst p)) (snd (fst p)) (snd p))
                (combine subs (required_from g [] (map fst subs))))
  end.

(* ------------------------------------------------------------------------------------------------------------ *)
(* 2. Model.fit with a staging, and the explicit procedure, over an abstract value algebra                       *)
(* ------------------------------------------------------------------------------------------------------------ *)
Definition lookup {A} (m : list (nat * A)) (k : nat) : option A :=
  match find (fun p => fst p =? k) m with Some p => Some (snd p) | None => None end.
Definition has_key {A} (m : list (nat * A)) (k : nat) : bool :=
  match lookup m k with Some _ => true | None => false end.
Definition opt_list {A} (o : option A) : list A := match o with Some a => [a] | None => [] end.
(* all-or-nothing lookup of a list of keys *)
Fixpoint lookups {A} (m : list (nat * A)) (ks : list nat) : option (list A) :=
  match ks with
  | [] => Some []
  | k :: ks' => match lookup m k, lookups m ks' with
                | Some a, Some l => Some (a :: l)
                | _, _ => None
                end
  end.

Section Fit.
(* D: a whole dataset seen by / produced by one node: for every sequence of the dataset, the rows over time.
   P: the parameters learned by an offline node.
   a_run v ins   : the forward node v run over the dataset; `ins` are its sources in DataDispatcher.get order
                   (parents in fan-in order, then the external data addressed to v), concatenated column-wise per
                   timestep; covers the state carried from one sequence to the next (or its reset), which involves
                   v alone when there is no feedback.
   a_fit v ins y : partial_fit on every sequence then fit(): parameters of the offline node v from inputs, targets
                   (warm-up is part of the learner).
   a_pred v p ins: the fitted node v (parameters p) run over the dataset. *)
Variables D P : Type.
Variable a_run : nat -> list D -> D.
Variable a_fit : nat -> list D -> D -> P.
Variable a_pred : nat -> P -> list D -> D.

Variable g : graph.
(* to_data_mapping / build_mapping results: name-keyed input and target datasets *)
Variable X0 : list (nat * D).
Variable Y0 : list (nat * D).

(* --- the forward sub-model of one stage, evaluated node by node over the whole dataset ----------------------- *)
(* run_submodel -> Model._run(submodel=...) -> forward: every node of the sub-model is called on
   DataDispatcher.get = [states of its parents in the sub-model] + [X[node.name] if present].
   An offline node in a forward sub-model has been fitted in an earlier stage (it is in `trained`). *)
Definition run_node (ps : list (nat * P)) (v : nat) (ins : list D) : option D :=
  if offline g v then match lookup ps v with Some p => Some (a_pred v p ins) | None => None end
  else Some (a_run v ins).

Definition fwd_step (fedges : list (nat * nat)) (Xs : list (nat * D)) (ps : list (nat * P))
           (acc : option (list (nat * D))) (v : nat) : option (list (nat * D)) :=
  match acc with
  | None => None
  | Some tr =>
      match lookups tr (parents_in fedges v) with
      | None => None
      | Some pin =>
          match pin ++ opt_list (lookup Xs v) with
          | [] => None                                   (* _check_inputs: an entry node without data: KeyError *)
          | ins => match run_node ps v ins with
                   | Some d => Some ((v, d) :: tr)
                   | None => None
                   end
          end
      end
  end.
Definition run_fwd (fedges : list (nat * nat)) (Xs : list (nat * D)) (ps : list (nat * P)) (fwdn : list nat)
  : option (list (nat * D)) := fold_left (fwd_step fedges Xs ps) fwdn (Some []).

(* dist_states_to_next_subgraph(states, relations): dist[next] = states[curr].
   (With several next nodes the Python value is the one-element list [states[curr]], which every consumer treats
   like the array.)  A second write to the same key overwrites an array / appends to a list / raises, depending on
   the unspecified order of `relations`: modelled as a failure. *)
Definition dist_add (d : D) (acc : option (list (nat * D))) (nx : nat) : option (list (nat * D)) :=
  match acc with
  | None => None
  | Some m => if has_key m nx then None else Some ((nx, d) :: m)
  end.
Definition dist_step (tr : list (nat * D)) (acc : option (list (nat * D))) (r : nat * list nat) : option (list (nat * D)) :=
  match acc with
  | None => None
  | Some _ => match lookup tr (fst r) with
              | None => None                               (* submodel[name]: KeyError *)
              | Some d => fold_left (dist_add d) (snd r) acc
              end
  end.
Definition dist_states (tr : list (nat * D)) (rel : list (nat * list nat)) : option (list (nat * D)) :=
  fold_left (dist_step tr) rel (Some []).

(* partial_fit + fit of the offline nodes of the stage on dist_states.get(name) / y_seq.get(name) *)
Fixpoint fit_nodes (dist : list (nat * D)) (offl : list nat) : option (list (nat * P)) :=
  match offl with
  | [] => Some []
  | v :: rest =>
      match lookup dist v, lookup Y0 v, fit_nodes dist rest with
      | Some x, Some y, Some l => Some ((v, a_fit v [x] y) :: l)
      | _, _, _ => None
      end
  end.

(* state of Model.fit between stages: X (list of per-sequence mappings, here one mapping of datasets), the fitted
   parameters, the set `trained` *)
Definition fstate := (list (nat * D) * list (nat * P) * list nat)%type.

(* one iteration of `for i, ((nodes, edges), relations) in enumerate(subgraphs)` *)
Definition run_stage (st : option fstate) (s : stage) : option fstate :=
  match st with
  | None => None
  | Some (Xs, ps, trained) =>
      (* build_forward_sumodels *)
      let offl := filter (fun n => offline g n && negb (mem n trained)) (s_nodes s) in
      let fwdn := filter (fun n => negb (mem n offl)) (s_nodes s) in
      let fedges := filter (fun e => negb (mem (snd e) offl)) (s_edges s) in
      (* run_and_partial_fit: an empty sub-model passes X through *)
      let dist := match fwdn with
                  | [] => Some Xs
                  | _ => match run_fwd fedges Xs ps fwdn with
                         | Some tr => dist_states tr (s_rel s)
                         | None => None
                         end
                  end in
      match dist with
      | None => None
      | Some dm =>
          match fit_nodes dm offl with
          | None => None
          | Some newp => Some (dm ++ Xs, newp ++ ps, offl ++ trained)     (* X[j].update(next_X[j]); trained |= offlines *)
          end
      end
  end.

(* Model.fit: the parameters of every offline node, or None when an exception is raised *)
Definition fit_with_staging (stg : list stage) : option (list (nat * P)) :=
  match fold_left run_stage stg (Some (X0, [], [])) with
  | Some (_, ps, _) => Some ps
  | None => None
  end.

(* --- the explicit node-by-node procedure of the property statement ------------------------------------------- *)
(* Nodes in the topological order of the whole graph.  A forward node is run over the data on the outputs of its
   parents (and its external data); an offline node is fitted on them with its targets and its predictions over
   the data are what its children see. *)
Definition sources (tr : list (nat * D)) (v : nat) : list D :=
  flat_map (fun p => opt_list (lookup tr p)) (parents g v) ++ opt_list (lookup X0 v).
Definition explicit_step (acc : list (nat * D) * list (nat * P)) (v : nat) : list (nat * D) * list (nat * P) :=
  let '(tr, ps) := acc in
  let ins := sources tr v in
  if offline g v then
    match lookup Y0 v with
    | Some y => let p := a_fit v ins y in ((v, a_pred v p ins) :: tr, (v, p) :: ps)
    | None => acc
    end
  else ((v, a_run v ins) :: tr, ps).
Definition explicit_fit : list (nat * P) := snd (fold_left explicit_step (g_nodes g) ([], [])).

End Fit.

(* --- to_data_mapping / build_mapping: an array is the mapping that gives it to every input / trainable node --- *)
Inductive dataarg (D : Type) := DArray (d : D) | DMapping (m : list (nat * D)).
Arguments DArray {D} _.
Arguments DMapping {D} _.
Definition input_mapping {D} (g : graph) (x : dataarg D) : list (nat * D) :=
  match x with
  | DArray d => map (fun n => (n, d)) (filter (is_input g) (g_nodes g))
  | DMapping m => m
  end.
(* [trainable]: Model.trainable_nodes that are not unsupervised *)
Definition target_mapping {D} (trainable : list nat) (y : dataarg D) : list (nat * D) :=
  match y with
  | DArray d => map (fun n => (n, d)) trainable
  | DMapping m => m
  end.

(* ------------------------------------------------------------------------------------------------------------ *)
(* the free algebra: symbolic datasets / parameters (rose trees)                                                 *)
(* ------------------------------------------------------------------------------------------------------------ *)
Inductive tm := TLeaf (k v : nat) | TNode (k v : nat) (l : list tm).
Definition TExt (v : nat) : tm := TLeaf 0 v.              (* the external input data addressed to v *)
Definition TTgt (v : nat) : tm := TLeaf 1 v.              (* the targets of v *)
Definition s_run (v : nat) (ins : list tm) : tm := TNode 0 v ins.
Definition s_fit (v : nat) (ins : list tm) (y : tm) : tm := TNode 1 v (y :: ins).
Definition s_pred (v : nat) (p : tm) (ins : list tm) : tm := TNode 2 v (p :: ins).

Fixpoint tm_eqb (a b : tm) : bool :=
  match a, b with
  | TLeaf k v, TLeaf k' v' => (k =? k') && (v =? v')
  | TNode k v l, TNode k' v' l' =>
      (k =? k') && (v =? v') &&
      (fix go (l l' : list tm) : bool :=
         match l, l' with
         | [], [] => true
         | x :: xs, y :: ys => tm_eqb x y && go xs ys
         | _, _ => false
         end) l l'
  | _, _ => false
  end.

Definition otm_eqb (a b : option tm) : bool :=
  match a, b with
  | Some x, Some y => tm_eqb x y
  | _, _ => false
  end.

(* symbolic data: every node that has external data / targets gets its own leaf *)
Definition sym_X (xkeys : list nat) : list (nat * tm) := map (fun n => (n, TExt n)) xkeys.
Definition sym_Y (ykeys : list nat) : list (nat * tm) := map (fun n => (n, TTgt n)) ykeys.

(* valid_stagingb: executed symbolically, Model.fit with the staging [stg] raises nothing and gives every offline node
   literally the term the explicit procedure gives it: same sources in the same column order, each computed in the
   same way from the same data, same targets.  This implies in particular that every offline node is trained in
   exactly one stage, after all its offline ancestors, on a forward sub-graph containing its other ancestors. *)
Definition valid_stagingb (g : graph) (xkeys ykeys : list nat) (stg : list stage) : bool :=
  match fit_with_staging tm tm s_run s_fit s_pred g (sym_X xkeys) (sym_Y ykeys) stg with
  | None => false
  | Some ps =>
      let ex := explicit_fit tm tm s_run s_fit s_pred g (sym_X xkeys) (sym_Y ykeys) in
      forallb (fun v => negb (offline g v) || otm_eqb (lookup ps v) (lookup ex v)) (g_nodes g)
  end.
(* the default data of Model.fit(X_array, Y_array): inputs to the entry nodes, targets to the offline nodes *)
Definition default_valid (g : graph) : bool :=
  match get_offline_subgraphs g with
  | None => false
  | Some stg => valid_stagingb g (filter (is_input g) (g_nodes g)) (filter (offline g) (g_nodes g)) stg
  end.

(* ------------------------------------------------------------------------------------------------------------ *)
(* 3. Model.train                                                                                                 *)
(* ------------------------------------------------------------------------------------------------------------ *)
Section Train.
(* V: row vectors.  NS: everything one node carries (state, learned parameters, ...).
   ncall v s x : _base.call(node, x)            nout v s : node.state()
   nlearn v s x y : node._train(node, x=x, y=y) (the prediction used by the rule is the current state: call_node=False) *)
Variables V NS : Type.
Variable vcat : list V -> V.                                   (* Concat / single source *)
Variable ncall : nat -> NS -> V -> NS.
Variable nout : nat -> NS -> V.
Variable nlearn : nat -> NS -> V -> V -> NS.

Record tmodel := mkTM { t_order : list nat; t_parents : nat -> list nat; t_online : nat -> bool; t_outs : list nat }.
Definition tenv := nat -> NS.
Definition tupd (e : tenv) (n : nat) (s : NS) : tenv := fun m => if m =? n then s else e m.

(* DataDispatcher.get: parents' current states then the external data of the node *)
Definition tgather (m : tmodel) (e : tenv) (ext : nat -> option V) (v : nat) : V :=
  vcat (map (fun p => nout p (e p)) (t_parents m v) ++ opt_list (ext v)).
(* forward(model, x): every node called once in order *)
Definition tforward (m : tmodel) (ext : nat -> option V) (e : tenv) : tenv :=
  fold_left (fun e v => tupd e v (ncall v (e v) (tgather m e ext v))) (t_order m) e.
(* train(model, x, y): _base.train(node, data[node].x, data[node].y, call_node=False) for every online node; one row,
   so the inner gate `seq_len == 1` always fires: exactly one update *)
Definition ttrain_nodes (m : tmodel) (ext tgt : nat -> option V) (e : tenv) : tenv :=
  fold_left (fun e v => if t_online m v
                        then match tgt v with
                             | Some y => tupd e v (nlearn v (e v) (tgather m e ext v) y)
                             | None => e
                             end
                        else e) (t_order m) e.

Definition tgate (k : nat) (single : bool) (i : nat) : bool := (i mod k =? 0) || single.

(* Model.train, from step i on.  Per step: _call; states returned are those right after the call, i.e. computed with
   the parameters BEFORE this step's update; then the update iff the gate is open. *)
Fixpoint ttrain_from (m : tmodel) (k : nat) (single : bool) (i : nat) (e : tenv)
         (steps : list ((nat -> option V) * (nat -> option V))) : tenv * list (list V) :=
  match steps with
  | [] => (e, [])
  | (ext, tgt) :: rest =>
      let e1 := tforward m ext e in
      let outs := map (fun o => nout o (e1 o)) (t_outs m) in
      let e2 := if tgate k single i then ttrain_nodes m ext tgt e1 else e1 in
      let '(e3, os) := ttrain_from m k single (S i) e2 rest in (e3, outs :: os)
  end.
(* HEAD: `seq_len == 1` where seq_len is the number of timesteps *)
Definition model_train (m : tmodel) (k : nat) (e : tenv) steps := ttrain_from m k (length steps =? 1) 0 e steps.
(* before 8cad14c: `len(X) == 1` on the ARGUMENT X: the number of timesteps for an array, the number of KEYS for a
   name-keyed mapping *)
Definition model_train_prefix (m : tmodel) (k : nat) (len_of_X_arg : nat) (e : tenv) steps :=
  ttrain_from m k (len_of_X_arg =? 1) 0 e steps.

(* the explicit per-timestep loop for "upstream nodes then one readout r": call the upstream nodes, call the readout,
   then (when learn_every selects the step) readout.train(x_t, y_t, call=False) *)
Definition explicit_train_step (ups : list nat) (r : nat) (m : tmodel) (learn : bool)
           (ext tgt : nat -> option V) (e : tenv) : tenv * V :=
  let e1 := fold_left (fun e v => tupd e v (ncall v (e v) (tgather m e ext v))) ups e in
  let x := tgather m e1 ext r in
  let e2 := tupd e1 r (ncall r (e1 r) x) in
  let p := nout r (e2 r) in
  (if learn then match tgt r with Some y => tupd e2 r (nlearn r (e2 r) x y) | None => e2 end else e2, p).
Fixpoint explicit_train_from (ups : list nat) (r : nat) (m : tmodel) (k : nat) (single : bool) (i : nat) (e : tenv)
         (steps : list ((nat -> option V) * (nat -> option V))) : tenv * list V :=
  match steps with
  | [] => (e, [])
  | (ext, tgt) :: rest =>
      let '(e1, p) := explicit_train_step ups r m (tgate k single i) ext tgt e in
      let '(e2, ps) := explicit_train_from ups r m k single (S i) e1 rest in (e2, p :: ps)
  end.
Definition explicit_train (ups : list nat) (r : nat) (m : tmodel) (k : nat) (e : tenv) steps :=
  explicit_train_from ups r m k (length steps =? 1) 0 e steps.

End Train.

(* ------------------------------------------------------------------------------------------------------------ *)
(* 4. enumeration of small graphs (for the bounded theorem) and the structural class on which the staging works  *)
(* ------------------------------------------------------------------------------------------------------------ *)
Fixpoint inserts (x : nat) (l : list nat) : list (list nat) :=
  match l with [] => [[x]] | y :: l' => (x :: l) :: map (cons y) (inserts x l') end.
(* all ordered selections of distinct elements of l *)
Fixpoint subperms (l : list nat) : list (list nat) :=
  match l with [] => [[]] | x :: l' => let r := subperms l' in r ++ flat_map (inserts x) r end.
Fixpoint sublists (l : list nat) : list (list nat) :=
  match l with [] => [[]] | x :: l' => let r := sublists l' in r ++ map (cons x) r end.
(* every DAG on nodes 0..n-1 whose topological order is 0,1,..,n-1, with every fan-in order: node j picks an ordered
   list of parents among 0..j-1 *)
Fixpoint edge_lists (n : nat) : list (list (nat * nat)) :=
  match n with
  | O => [[]]
  | S j => flat_map (fun es => map (fun ps => es ++ map (fun p => (p, j)) ps) (subperms (seq 0 j))) (edge_lists j)
  end.
(* ... with every non-empty set of offline nodes *)
Definition all_graphs (n : nat) : list graph :=
  flat_map (fun es => map (fun off => mkG (seq 0 n) es off)
                          (filter (fun o => negb (length o =? 0)) (sublists (seq 0 n)))) (edge_lists n).

Fixpoint first_idx (v : nat) (i : nat) (stg : list stage) : option nat :=
  match stg with
  | [] => None
  | s :: r => if mem v (s_nodes s) then Some i else first_idx v (S i) r
  end.
Fixpoint last_idx (v : nat) (i : nat) (stg : list stage) : option nat :=
  match stg with
  | [] => None
  | s :: r => match last_idx v (S i) r with
              | Some j => Some j
              | None => if mem v (s_nodes s) then Some i else None
              end
  end.
Definition onat_eqb (a b : option nat) : bool :=
  match a, b with Some x, Some y => x =? y | _, _ => false end.

(* the class of models on which Model.fit's staging is claimed to work:
   S1  every offline node is fed by exactly one node (as in every Model: a fan-in goes through an inserted Concat);
   S2  an offline node without children (an output readout) is trained in the LAST stage;
   S3  a node with several parents (a Concat) runs in the stage in which each of its parents runs last. *)
Definition supportedb (g : graph) (stg : list stage) : bool :=
  forallb (fun v => length (parents g v) =? 1) (g_offl g)
  && forallb (fun s => forallb (fun v => negb (offline g v && is_output g v)) (s_nodes s)) (removelast stg)
  && forallb (fun v => (length (parents g v) <=? 1)
                       || forallb (fun p => onat_eqb (last_idx p 0 stg) (first_idx v 0 stg)) (parents g v)) (g_nodes g).

Definition staging_okb (g : graph) : bool :=
  match get_offline_subgraphs g with
  | None => false
  | Some stg => negb (supportedb g stg) || valid_stagingb g (filter (is_input g) (g_nodes g)) (filter (offline g) (g_nodes g)) stg
  end.
(* offline sets in which every offline node has exactly one parent (S1) *)
Definition labellings (n : nat) (es : list (nat * nat)) : list (list nat) :=
  filter (fun o => negb (length o =? 0)) (sublists (filter (fun v => length (parents_in es v) =? 1) (seq 0 n))).
Definition all_okb (n : nat) : bool :=
  forallb (fun es => forallb (fun off => staging_okb (mkG (seq 0 n) es off)) (labellings n es)) (edge_lists n).
