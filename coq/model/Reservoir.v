(* C01 / C15: executable model of reservoirpy/nodes/reservoirs/base.py
     reservoir_kernel, forward_internal, forward_external, initialize (Win / bias conventions),
   of reservoirpy/utils/random.py [noise] and of the state-carrying loop of Node.run / _base.call.
   Polymorphic over Num: run at Q by run/RunC01.v, proved about at R by proofs/Reservoir_proofs.v and proofs/ESP_proofs.v.
   No proofs here. *)
From Coq Require Import List Arith Bool ZArith.
From RV Require Import base.Num base.LA.
Import ListNotations.

Section Reservoir.
Context {F : Type} `{Num F}.
Notation vec := (list F).
Notation mat := (list (list F)).

(* ---- utils/random.py  noise(rng, dist, shape, gain):
        if abs(gain) > 0.0: gain * rng.<dist>(size=shape)   else: np.zeros(shape)
   [xi] stands for the draw of the generator (arbitrary), [n] for the shape. ---- *)
Definition gain_on (g : F) : bool := nltb n0 g || nltb g n0.
Definition noise (g : F) (xi : vec) (n : nat) : vec := if gain_on g then vscale g xi else vzeros n.

(* ---- leak rate: a python scalar or an array of shape (units,) ;
        np.multiply(lr, x.T).T on a (units,1) column is a scaling resp. a per-unit (Hadamard) product ---- *)
Inductive leak := LrS (a : F) | LrV (v : vec).
Definition lr_mul (l : leak) (x : vec) : vec :=
  match l with LrS a => vscale a x | LrV v => vmul v x end.
Definition lr_cmul (l : leak) (x : vec) : vec :=          (* (1 - lr) * x *)
  match l with LrS a => vscale (nsub n1 a) x | LrV v => vmul (map (nsub n1) v) x end.

(* ---- the parameters and hyper-parameters read by the forward functions ---- *)
Record rcfg := {
  rW : mat;  rWin : mat;  rbias : vec;
  rWfb : option mat;             (* None: has_feedback is False *)
  rlr : leak;
  ract : vec -> vec;             (* activation, applied to the whole (units,1) column *)
  rfbact : vec -> vec;           (* fb_activation *)
  g_in : F;  g_fb : F;  g_rc : F (* noise_in, noise_out (= noise_fb), noise_rc *)
}.
(* what one step consumes: the input row, the feedback vector returned by reservoir.feedback() (ignored without
   feedback) and the three generator draws (ignored when the gains are 0) *)
Record rin := { i_u : vec;  i_fb : vec;  xi_in : vec;  xi_fb : vec;  xi_rc : vec }.

(* reservoir_kernel:  W @ r + Win @ (u + noise_in) + bias  [ + Wfb @ (h(y) + noise_fb) ] *)
Definition kernel (c : rcfg) (r : vec) (x : rin) : vec :=
  let u := i_u x in
  let pre := vadd (vadd (mv (rW c) r) (mv (rWin c) (vadd u (noise (g_in c) (xi_in x) (length u))))) (rbias c) in
  match rWfb c with
  | None => pre
  | Some Wfb =>
      let y := i_fb x in
      vadd pre (mv Wfb (vadd (rfbact c y) (noise (g_fb c) (xi_fb x) (length y))))
  end.

(* The node carries (internal_state, state): params['internal_state'] and Node._state. *)
Definition rstate := (vec * vec)%type.

(* forward_internal: s_next = (1-lr)*r + lr*f(kernel(u, r)) + noise_rc ; internal_state is not touched *)
Definition step_internal (c : rcfg) (st : rstate) (x : rin) : rstate :=
  let '(s, r) := st in
  (s, vadd (vadd (lr_cmul (rlr c) r) (lr_mul (rlr c) (ract c (kernel c r x)))) (noise (g_rc c) (xi_rc x) (length r))).

(* forward_external: s_next = (1-lr)*s + lr*kernel(u, r) + noise_rc ; internal_state := s_next ; returns f(s_next)
   (the recurrent term uses the emitted state r = Node.state(), the leak uses the stored internal state s) *)
Definition step_external (c : rcfg) (st : rstate) (x : rin) : rstate :=
  let '(s, r) := st in
  let s' := vadd (vadd (lr_cmul (rlr c) s) (lr_mul (rlr c) (kernel c r x))) (noise (g_rc c) (xi_rc x) (length r)) in
  (s', ract c s').

Inductive equation := Internal | External.
Definition step (e : equation) : rcfg -> rstate -> rin -> rstate :=
  match e with Internal => step_internal | External => step_external end.

(* Node.run / _base.call: state := forward(x) for every row; the list of states after each step, and the last one *)
Fixpoint run_states (e : equation) (c : rcfg) (st : rstate) (xs : list rin) : list rstate :=
  match xs with
  | [] => []
  | x :: xs' => let st' := step e c st x in st' :: run_states e c st' xs'
  end.
Definition run_final (e : equation) (c : rcfg) (st : rstate) (xs : list rin) : rstate :=
  fold_left (step e c) xs st.
Definition run_outputs (e : equation) (c : rcfg) (st : rstate) (xs : list rin) : list vec :=
  map snd (run_states e c st xs).

(* ---- initialize(): Win / bias conventions.
   Win given as an array with in_dim+1 columns and input_bias=True: bias = Win[:, :1], Win = Win[:, 1:].
   Win with in_dim columns: bias = the bias array when input_bias else zeros(units).  Anything else: ValueError (None). ---- *)
Definition ncols (A : mat) : nat := match A with [] => 0 | row :: _ => length row end.
Definition init_win_bias (input_bias : bool) (Win : mat) (bias_arg : vec) (in_dim : nat) : option (mat * vec) :=
  if ncols Win =? S in_dim then
    if input_bias then Some (map (@tl F) Win, map (hd n0) Win) else None
  else if ncols Win =? in_dim then
    Some (Win, if input_bias then bias_arg else vzeros (length Win))
  else None.

(* ---- exactly computable element-wise activations (passed to reservoirpy as callables) ---- *)
Definition a_id (x : F) : F := x.
Definition a_relu (x : F) : F := if nltb x n0 then n0 else x.                    (* np.maximum(x, 0) *)
Definition a_hardtanh (x : F) : F :=                                             (* np.clip(x, -1, 1) *)
  if nltb x (nopp n1) then nopp n1 else if nltb n1 x then n1 else x.
Definition a_half (x : F) : F := ndiv x (nofZ 2).                                (* x / 2 *)

Definition vnorm2 (v : vec) : F := dot v v.                                      (* squared 2-norm *)
End Reservoir.

Arguments rcfg F : clear implicits.
Arguments rin F : clear implicits.
Arguments leak F : clear implicits.
Arguments rstate F : clear implicits.
