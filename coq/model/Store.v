(* C16 - object store model of copies, and the legacy (v0.2) ESN with its conversion to the v0.3 nodes.

   Part 1 (heap).  Python objects are cells of an explicit heap; a copy allocates fresh cells.  Mirrors
     reservoirpy/_base.py   _Node._registry (class-level list of names), _Node.__setstate__ (a restored object whose name is
                            registered for its class is renamed '<name>-(copy)'; the registry itself is NOT extended),
                            _Node._get_name (NameError when taken, else appended to the registry)
     reservoirpy/node.py    Node.copy (deepcopy with the feedback link detached and re-attached to the ORIGINAL
                            DistantFeedback object unless copy_feedback; then a fresh name)
     reservoirpy/model.py   Model.__init__ (_node_registry = {n.name: n}), Model.__setstate__ (HEAD: the name-keyed views are
                            rebuilt from the copied nodes; pre-fix: the old keys are kept), Model.get_node
     copy.deepcopy / pickle the memo table: every object reachable from the root is copied once, sharing inside the copied
                            graph is preserved; the objects reachable from a node are its own arrays and, through
                            _feedback (DistantFeedback._sender), its feedback sender(s).
   Part 2 (legacy).  reservoirpy/compat/_base.py _ESNBase._get_next_state / _compute_states / compute_outputs (noise gains 0),
     reservoirpy/compat/__init__.py load_compat (HEAD transposes W and Wout; the pre-fix tree passed W as is and let Ridge
     reshape Wout), reservoirpy/nodes/reservoirs/base.py forward_internal + initialize (bias column split off Win),
     reservoirpy/nodes/readouts/base.py (Wout array reshaped to (input_dim, output_dim); forward x @ Wout + bias).
   No proofs in this file. *)
From Coq Require Import List Arith Bool.
From Coq Require String.
From RV Require Import base.Num base.LA.
Import ListNotations.

Notation str := String.string.
Import String.StringSyntax.
Delimit Scope string_scope with string.
Definition copy_suffix : str := "-(copy)"%string.

(* ------------------------------------------------------------------------------------------------ Part 1: the heap *)
Section Heap.
Context {D : Type}.   (* private contents of a node: params, hypers, hidden memory (buffers), fitted flags ... *)
Context {V : Type}.   (* its state: the only part other nodes read (parents' states, feedback) *)

(* [ccls]: the Python class (each subclass of _Node has its own name registry); [cfb]: the node(s) behind _feedback *)
Record cell := mkCell { ccls : nat; cname : str; cdata : D; cstate : V; cfb : list nat }.
Definition heap := nat -> option cell.
(* [next]: allocation pointer (ids >= next are free); [reg]: the class-level registries, as (class, name) pairs *)
Record store := mkStore { hp : heap; next : nat; reg : list (nat * str) }.

Definition hupd (h : heap) (i : nat) (c : option cell) : heap := fun j => if Nat.eqb j i then c else h j.

Definition key_eqb (a b : nat * str) : bool := Nat.eqb (fst a) (fst b) && String.eqb (snd a) (snd b).
Definition registered (r : list (nat * str)) (k : nat) (n : str) : bool := existsb (key_eqb (k, n)) r.
(* _Node.__setstate__ *)
Definition setstate_name (r : list (nat * str)) (k : nat) (n : str) : str :=
  if registered r k n then String.append n copy_suffix else n.

Fixpoint index_of (j : nat) (l : list nat) : option nat :=
  match l with
  | [] => None
  | i :: l' => if Nat.eqb i j then Some 0 else match index_of j l' with Some k => Some (S k) | None => None end
  end.
(* the memo table of one deepcopy / pickle round-trip: the k-th copied object goes to the k-th fresh id; an object that is
   not among the copied ones keeps its identity *)
Definition ren_of (base : nat) (ids : list nat) (j : nat) : nat :=
  match index_of j ids with Some k => base + k | None => j end.

Definition copy_cell (r : list (nat * str)) (ren : nat -> nat) (c : cell) : cell :=
  mkCell (ccls c) (setstate_name r (ccls c) (cname c)) (cdata c) (cstate c) (map ren (cfb c)).

(* copy the cells [ids] (in this order) to fresh ids; returns the new store and the memo table *)
Definition deepcopy_cells (s : store) (ids : list nat) : store * (nat -> nat) :=
  let base := next s in
  let ren := ren_of base ids in
  (mkStore (fun j => if (base <=? j) && (j <? base + length ids)
                     then match nth_error ids (j - base) with
                          | Some i => option_map (copy_cell (reg s) ren) (hp s i)
                          | None => None
                          end
                     else hp s j)
           (base + length ids) (reg s), ren).

(* objects reachable from [todo] through the feedback links (depth first, each once) *)
Fixpoint reach_from (fuel : nat) (h : heap) (todo seen : list nat) : list nat :=
  match fuel with
  | O => seen
  | S f =>
    match todo with
    | [] => seen
    | i :: rest =>
      if existsb (Nat.eqb i) seen then reach_from f h rest seen
      else match h i with
           | Some c => reach_from f h (cfb c ++ rest) (seen ++ [i])
           | None => reach_from f h rest seen
           end
    end
  end.
Definition links (s : store) : nat :=
  fold_right (fun i acc => match hp s i with Some c => S (length (cfb c)) + acc | None => acc end) 0 (seq 0 (next s)).
Definition reach (s : store) (roots : list nat) : list nat := reach_from (length roots + links s + 1) (hp s) roots [].
(* [ids] is closed under the feedback links *)
Definition closedb (h : heap) (ids : list nat) : bool :=
  forallb (fun i => match h i with
                    | Some c => forallb (fun j => existsb (Nat.eqb j) ids) (cfb c)
                    | None => true
                    end) ids.

(* copy.deepcopy(obj) / pickle.loads(pickle.dumps(obj)) of a node, or of any object holding the nodes [roots] *)
Definition deepcopy (s : store) (roots : list nat) : store * (nat -> nat) := deepcopy_cells s (reach s roots).

(* Node.copy(name, copy_feedback): None = NameError (the name is taken).
   The feedback object is detached before the deep copy, so the copy keeps pointing to the ORIGINAL sender(s);
   with copy_feedback the feedback object is deep-copied on its own (everything reachable from the senders). *)
Definition node_copy (s : store) (i : nat) (newname : str) (copy_feedback : bool) : option (store * nat) :=
  match hp s i with
  | None => None
  | Some c =>
    if registered (reg s) (ccls c) newname then None
    else
      let n := next s in
      let s1 := mkStore (hupd (hp s) n (Some (mkCell (ccls c) newname (cdata c) (cstate c) (cfb c)))) (S n) (reg s) in
      let s2 := if copy_feedback
                then let '(s2, ren) := deepcopy s1 (cfb c) in
                     mkStore (hupd (hp s2) n (Some (mkCell (ccls c) newname (cdata c) (cstate c) (map ren (cfb c)))))
                             (next s2) (reg s2)
                else s1 in
      Some (mkStore (hp s2) (next s2) ((ccls c, newname) :: reg s2), n)
  end.

(* ---- models ---- *)
Record mdl := mkMdl { mcls : nat; mname : str; mnodes : list nat; mreg : list (str * nat); medges : list (nat * nat) }.
Definition name_of (h : heap) (i : nat) : str := match h i with Some c => cname c | None => ""%string end.
(* Model.__init__: _node_registry = {n.name: n for n in nodes} *)
Definition init_registry (h : heap) (nodes : list nat) : list (str * nat) := map (fun i => (name_of h i, i)) nodes.
(* a Python dict built from a list of pairs: the last pair with a given key wins *)
Definition dict_get (d : list (str * nat)) (k : str) : option nat :=
  option_map snd (find (fun p => String.eqb (fst p) k) (rev d)).
(* Model.get_node *)
Definition get_node (m : mdl) (n : str) : option nat := dict_get (mreg m) n.

(* HEAD: Model.__setstate__ rebuilds the registry from the copied nodes *)
Definition deepcopy_model (s : store) (m : mdl) : store * mdl * (nat -> nat) :=
  let '(s', ren) := deepcopy s (mnodes m) in
  (s', mkMdl (mcls m) (setstate_name (reg s) (mcls m) (mname m)) (map ren (mnodes m))
             (map (fun p => (name_of (hp s') (ren (snd p)), ren (snd p))) (mreg m))
             (map (fun e => (ren (fst e), ren (snd e))) (medges m)), ren).
(* pre-fix tree: the dict is copied verbatim, keys are the OLD names *)
Definition deepcopy_model_prefix (s : store) (m : mdl) : store * mdl * (nat -> nat) :=
  let '(s', ren) := deepcopy s (mnodes m) in
  (s', mkMdl (mcls m) (setstate_name (reg s) (mcls m) (mname m)) (map ren (mnodes m))
             (map (fun p => (fst p, ren (snd p))) (mreg m))
             (map (fun e => (ren (fst e), ren (snd e))) (medges m)), ren).

(* a seeded variant (not the code): the views are rebuilt only when the Model object itself was renamed on restore.
   Names are renamed PER OBJECT - the model by its class registry, each node by its own - so this is not enough. *)
Definition deepcopy_model_cond (s : store) (m : mdl) : store * mdl * (nat -> nat) :=
  if registered (reg s) (mcls m) (mname m) then deepcopy_model s m else deepcopy_model_prefix s m.

(* _Node.__del__: a collected object gives its name back to its class registry (list.remove: first occurrence) *)
Fixpoint remove_key (k : nat * str) (r : list (nat * str)) : list (nat * str) :=
  match r with [] => [] | x :: r' => if key_eqb k x then r' else x :: remove_key k r' end.
Definition release (s : store) (k : nat) (n : str) : store := mkStore (hp s) (next s) (remove_key (k, n) (reg s)).

(* every node of the model is found under its own current name: what reset / with_state / stateful=False /
   return_states / name-keyed inputs and targets need (they all go through get_node or the keys of _node_registry) *)
Definition named_ops_defined (h : heap) (m : mdl) : bool :=
  forallb (fun n => match get_node m (name_of h n) with Some n' => Nat.eqb n' n | None => false end) (mnodes m).

(* ---- writes: any in-place modification of one object ---- *)
Definition write := (nat * (cell -> cell))%type.
Definition apply_write (w : write) (h : heap) : heap :=
  match h (fst w) with Some c => hupd h (fst w) (Some (snd w c)) | None => h end.
Definition apply_writes (ws : list write) (h : heap) : heap := fold_left (fun acc w => apply_write w acc) ws h.

(* ---- running nodes that live in the heap ----
   One forward function for all nodes: it may depend on everything the node owns ([cdata], [cstate]), on the states of its
   parents (read from the current heap: nodes earlier in the order have already been updated), on the external input, and on
   the states of its feedback senders at the end of the previous step; it returns the node's new contents (so that training
   steps, buffers and counters are covered as well as plain runs). *)
Section Machine.
Context {X : Type}.
Variable fwd : D -> V -> list (option V) -> X -> list (option V) -> D * V.
Definition stof (h : heap) (j : nat) : option V := option_map cstate (h j).
(* [ord]: (node, parents) in execution order; [xs]: the external input of each of them *)
Fixpoint hforward (prev cur : heap) (ord : list (nat * list nat)) (xs : list X) : heap :=
  match ord, xs with
  | (i, ps) :: ord', x :: xs' =>
      match cur i with
      | Some c =>
          let '(d', v') := fwd (cdata c) (cstate c) (map (stof cur) ps) x (map (stof prev) (cfb c)) in
          hforward prev (hupd cur i (Some (mkCell (ccls c) (cname c) d' v' (cfb c)))) ord' xs'
      | None => cur
      end
  | _, _ => cur
  end.
Definition hstep (h : heap) ord xs : heap := hforward h h ord xs.
Fixpoint hrun (h : heap) (ord : list (nat * list nat)) (outs : list nat) (xss : list (list X))
  : heap * list (list (option V)) :=
  match xss with
  | [] => (h, [])
  | xs :: rest => let h1 := hstep h ord xs in
                  let '(h2, o) := hrun h1 ord outs rest in (h2, map (stof h1) outs :: o)
  end.
Definition rename_ord (ren : nat -> nat) (ord : list (nat * list nat)) : list (nat * list nat) :=
  map (fun p => (ren (fst p), map ren (snd p))) ord.
End Machine.
End Heap.

Arguments cell : clear implicits.
Arguments heap : clear implicits.
Arguments store : clear implicits.
Arguments write : clear implicits.

(* ------------------------------------------------------------------------------------------------ Part 2: legacy ESN *)
Section Legacy.
Context {F : Type} `{Num F}.
Notation vec := (list F).
Notation mat := (list (list F)).

(* a v0.2 ESN as saved: W is N x N (used as x @ W), Win is N x (dim_in [+1]) with the bias column FIRST,
   Wfb is N x dim_out, Wout is dim_out x (1 + N) with the bias column first *)
Record legacy := mkLegacy { lN : nat; lW : mat; lWin : mat; lbias : bool; lWfb : option mat; lWout : option mat; llr : F }.

Definition add_bias (u : vec) : vec := n1 :: u.
(* _get_next_state:  x1 = u @ Win.T + x @ W  (+ fbfunc(fb) @ Wfb.T) *)
Definition legacy_pre (L : legacy) (g : vec -> vec) (x u fb : vec) : vec :=
  let x1 := vadd (mv (lWin L) (if lbias L then add_bias u else u)) (vm x (lW L) (lN L)) in
  match lWfb L with Some Wfb => vadd x1 (mv Wfb (g fb)) | None => x1 end.
(* x' = (1 - lr) x + lr f(x1) *)
Definition legacy_step (L : legacy) (f g : vec -> vec) (x u fb : vec) : vec :=
  vadd (vscale (nsub n1 (llr L)) x) (vscale (llr L) (f (legacy_pre L g x u fb))).
(* compute_outputs: y = [1, x] @ Wout.T *)
Definition legacy_out (Wout : mat) (x : vec) : vec := mv Wout (add_bias x).
(* _compute_states + compute_outputs on one sequence; the feedback is the previous output *)
Fixpoint legacy_run (L : legacy) (f g : vec -> vec) (x fb : vec) (us : list vec) : list (vec * vec) :=
  match us with
  | [] => []
  | u :: rest =>
      let x' := legacy_step L f g x u fb in
      let y := match lWout L with Some Wo => legacy_out Wo x' | None => [] end in
      (x', y) :: legacy_run L f g x' (match lWfb L with Some _ => y | None => fb end) rest
  end.

(* the v0.3 ESN built by load_compat: Reservoir (W r + Win u + bias (+ Wfb g(y))) and Ridge (x @ Wout + bias) *)
Record v3esn := mkV3 { vW : mat; vWin : mat; vbias : vec; vWfb : option mat; vlr : F; vWout : option (mat * vec) }.
Definition v3_pre (E : v3esn) (g : vec -> vec) (r u y : vec) : vec :=
  let p := vadd (vadd (mv (vW E) r) (mv (vWin E) u)) (vbias E) in
  match vWfb E with Some Wfb => vadd p (mv Wfb (g y)) | None => p end.
Definition v3_step (E : v3esn) (f g : vec -> vec) (r u y : vec) : vec :=
  vadd (vscale (nsub n1 (vlr E)) r) (vscale (vlr E) (f (v3_pre E g r u y))).
Definition v3_out (Wb : mat * vec) (r : vec) : vec := vadd (vm r (fst Wb) (length (snd Wb))) (snd Wb).
Fixpoint v3_run (E : v3esn) (f g : vec -> vec) (r y : vec) (us : list vec) : list (vec * vec) :=
  match us with
  | [] => []
  | u :: rest =>
      let r' := v3_step E f g r u y in
      let o := match vWout E with Some Wb => v3_out Wb r' | None => [] end in
      (r', o) :: v3_run E f g r' (match vWfb E with Some _ => o | None => y end) rest
  end.

(* Reservoir initialize: Win with a bias column and input_bias=True -> bias = Win[:, :1], Win = Win[:, 1:];
   input_bias=False -> bias = zeros(units, 1) *)
Definition split_win (L : legacy) : mat * vec :=
  if lbias L then (map (@tl F) (lWin L), map (hd n0) (lWin L)) else (lWin L, vzeros (lN L)).
(* numpy reshape (row-major) to rows of length c *)
Fixpoint chunks (r c : nat) (l : vec) : mat :=
  match r with O => [] | S r' => firstn c l :: chunks r' c (skipn c l) end.

(* load_compat, HEAD: W.T ; Wout = W[:, 1:].T, bias = W[:, :1].T *)
Definition convert (L : legacy) : v3esn :=
  let '(Win, b) := split_win L in
  mkV3 (transpose (lW L) (lN L)) Win b (lWfb L) (llr L)
       (option_map (fun Wo => (transpose (map (@tl F) Wo) (lN L), map (hd n0) Wo)) (lWout L)).
(* load_compat, pre-fix: W as is; Wout = W[:, 1:] (dim_out x N) then reshaped by Ridge to (N, dim_out) *)
Definition convert_prefix (L : legacy) : v3esn :=
  let '(Win, b) := split_win L in
  mkV3 (lW L) Win b (lWfb L) (llr L)
       (option_map (fun Wo => (chunks (lN L) (length Wo) (concat (map (@tl F) Wo)), map (hd n0) Wo)) (lWout L)).

(* shapes of a saved model *)
Definition legacy_shaped (L : legacy) : Prop :=
  (forall row, In row (lW L) -> length row = lN L) /\ length (lWin L) = lN L /\
  match lWout L with Some Wo => forall row, In row Wo -> length row = S (lN L) | None => True end.
End Legacy.

Arguments mkLegacy {F} _ _ _ _ _ _ _.
Arguments mkV3 {F} _ _ _ _ _ _.
