(* LOW-LEVEL executable model of model execution in reservoirpy: the mechanism itself, not its intended meaning.
   Where model/ModelSem.v hands every node of a timestep a frozen environment, this file manages, node by node,
   exactly what the code manages:
     Node._state / params                         -> lst / lhid
     Node._state_proxy                            -> proxy   (None | Some frozen state)
     DistantFeedback._clamped / _clamped_value    -> clamp   (of the RECEIVER that owns the DistantFeedback)
   and performs the operations in the order the code performs them:
     Node.state_proxy                (node.py)   -> state_proxy
     Model._load_proxys(keep)        (model.py)  -> load_proxys
     Model._clean_proxys             (model.py)  -> clean_proxys
     DistantFeedback.call_distant_node (_base.py)-> fb_read        (a clamp is consumed by the read)
     Model.with_feedback / Node.with_feedback    -> with_feedback_ll (nested contexts, LIFO exit, exit also on a raise)
     _base.call                      (_base.py)  -> call_node_ll
     model.forward                   (model.py)  -> forward_ll
     Model._run loop body                        -> step_ll
     Model._run                                  -> run_ll
     Model.run (one sequence)                    -> run_op_ll
     Model.call                                  -> call_op_ll
     Model.reset                                 -> reset_op_ll
   proofs/Refine_proofs.v proves that this model refines ModelSem.  No proofs here.
   Reuses ndesc / model / fbsrc / hidden / forced_value / ids_of from ModelSem.v. *)
From Coq Require Import List Arith Bool.
From RV Require Import base.Num base.LA model.ModelSem.
Import ListNotations.

Section LowLevel.
Context {F : Type} `{Num F}.
Notation vec := (list F).
Notation ndesc := (@ndesc F).
Notation model := (@model F).

(* dynamic part of one node *)
Record lnode := mkLN { lst : vec; lhid : @hidden F; proxy : option vec; clamp : option vec }.
Definition lenv := nat -> lnode.
Definition lupd (e : lenv) (n : nat) (x : lnode) : lenv := fun k => if Nat.eqb k n then x else e k.

Definition with_lst (x : lnode) (v : vec) : lnode := mkLN v (lhid x) (proxy x) (clamp x).
Definition with_proxy (x : lnode) (p : option vec) : lnode := mkLN (lst x) (lhid x) p (clamp x).
Definition with_clamp (x : lnode) (c : option vec) : lnode := mkLN (lst x) (lhid x) (proxy x) c.
Definition set_lst (e : lenv) n v : lenv := lupd e n (with_lst (e n) v).
Definition set_proxy (e : lenv) n p : lenv := lupd e n (with_proxy (e n) p).
Definition set_clamp (e : lenv) n c : lenv := lupd e n (with_clamp (e n) c).

(* `for node in nodes: <update node>` *)
Definition map_nodes (t : ndesc -> lnode -> lnode) (ds : list ndesc) (e : lenv) : lenv :=
  fold_left (fun acc d => lupd acc (nid d) (t d (acc (nid d)))) ds e.

(* Node.state_proxy: `if self._state_proxy is None: return self._state ; return self._state_proxy` *)
Definition state_proxy (e : lenv) (n : nat) : vec :=
  match proxy (e n) with Some p => p | None => lst (e n) end.

(* Model._load_proxys(keep): `for node in self._nodes: if keep and node._state_proxy is not None: continue;
   node._state_proxy = node.state()` *)
Definition load_proxys (m : model) (keep : bool) (e : lenv) : lenv :=
  map_nodes (fun _ x => match proxy x with
                        | Some _ => if keep then x else with_proxy x (Some (lst x))
                        | None => with_proxy x (Some (lst x))
                        end) (order m) e.
(* Model._clean_proxys: `for node in self._nodes: node._state_proxy = None` *)
Definition clean_proxys (m : model) (e : lenv) : lenv := map_nodes (fun _ x => with_proxy x None) (order m) e.

(* DistantFeedback.call_distant_node for the DistantFeedback owned by receiver [d]:
   `if self._clamped: self._clamped = False; return self._clamped_value`  - the read CONSUMES the clamp -
   else a node sender's state_proxy(), or the state_proxy()s of a sub-model sender's output nodes (in-sync case:
   all `_fb_flag`s of the sub-model agree).  No feedback connection: nothing is read. *)
Definition fb_read (d : ndesc) (e : lenv) : option vec * lenv :=
  match nfb d with
  | None => (None, e)
  | Some src =>
    match clamp (e (nid d)) with
    | Some v => (Some v, set_clamp e (nid d) None)
    | None => (Some (match src with
                     | FbNode s => state_proxy e s
                     | FbModel outs => concat (map (state_proxy e) outs)
                     end), e)
    end
  end.

(* DataDispatcher.get: `parent.state()` of every parent - the CURRENT `_state`, never the proxy - then the external data *)
Definition gather_ll (m : model) (e : lenv) (ext : nat -> option vec) (n : nat) : vec :=
  concat (map (fun p => lst (e p)) (parents m n)) ++ match ext n with Some x => x | None => [] end.

(* _base.call(node, data[node].x): forward reads the node's own state / params, its gathered input and (through
   node.feedback()) the DistantFeedback; on success `_state` and params are written.  When forward raises the
   environment stays as it is at that point (the feedback read is modelled as already done; with_feedback's exit
   clears a clamp in either case). *)
Definition call_node_ll (m : model) (ext : nat -> option vec) (e : lenv) (d : ndesc) : lenv * bool :=
  let '(fb, e1) := fb_read d e in
  match nfwd d (lst (e1 (nid d))) (lhid (e1 (nid d))) (gather_ll m e1 ext (nid d)) fb with
  | Some (s', h') => (lupd e1 (nid d) (mkLN s' h' (proxy (e1 (nid d))) (clamp (e1 (nid d)))), true)
  | None => (e1, false)
  end.

(* model.forward: `for node in model.nodes: _base.call(node, data[node].x)` *)
Fixpoint forward_from_ll (m : model) (ext : nat -> option vec) (ds : list ndesc) (e : lenv) : lenv * bool :=
  match ds with
  | [] => (e, true)
  | d :: rest => let '(e1, ok) := call_node_ll m ext e d in
                 if ok then forward_from_ll m ext rest e1 else (e1, false)
  end.
Definition forward_ll (m : model) (ext : nat -> option vec) (e : lenv) : lenv * bool :=
  forward_from_ll m ext (order m) e.

(* Node.with_feedback(value, stateful): entering the context of one node.  Model.with_feedback looks the value up under
   the node's own name, and for a receiver also under its sender's name ([forced_value]).
   A receiver (`has_feedback`) clamps the value on its DistantFeedback; any other node stores it in its `_state_proxy`
   (a missing value re-stores the current proxy: nothing changes). *)
Definition fb_enter (forced : nat -> option vec) (e : lenv) (d : ndesc) : lenv :=
  match nfb d with
  | Some _ => match forced_value forced d with
              | Some v => set_clamp e (nid d) (Some v)
              | None => e
              end
  | None => match forced (nid d) with
            | Some v => set_proxy e (nid d) (Some v)
            | None => e
            end
  end.
(* ... and leaving it (the `finally` clauses): a receiver drops a clamp nobody read; another node gets the proxy it had
   on entry back, unless the context is stateful *)
Definition fb_exit (stateful_fb : bool) (saved : option vec) (e : lenv) (d : ndesc) : lenv :=
  match nfb d with
  | Some _ => set_clamp e (nid d) None
  | None => if stateful_fb then e else set_proxy e (nid d) saved
  end.
(* Model.with_feedback(mapping): an ExitStack of the nodes' contexts, entered in model.nodes order, left in reverse
   order, also when [body] failed *)
Fixpoint with_feedback_ll (forced : nat -> option vec) (stateful_fb : bool) (ds : list ndesc)
         (body : lenv -> lenv * bool) (e : lenv) : lenv * bool :=
  match ds with
  | [] => body e
  | d :: rest =>
    let saved := proxy (e (nid d)) in               (* current_state_proxy = self._state_proxy *)
    let '(e2, ok) := with_feedback_ll forced stateful_fb rest body (fb_enter forced e d) in
    (fb_exit stateful_fb saved e2 d, ok)
  end.
(* the environment the body runs in *)
Definition fb_enter_all (forced : nat -> option vec) (ds : list ndesc) (e : lenv) : lenv :=
  fold_left (fb_enter forced) ds e.

(* body of the loop of Model._run: `with self.with_feedback(forced_fb): state = submodel._call(x)` then
   `self._load_proxys()`; an exception leaves the loop before the reload.
   (Model._run passes stateful=False to with_feedback.  When no forced feedback is given at all the code does not even
   enter the nodes' contexts; with the all-None mapping used here entering and leaving changes nothing.) *)
Definition step_ll (m : model) (forced : nat -> option vec) (ext : nat -> option vec) (e : lenv) : lenv * bool :=
  let '(e1, ok) := with_feedback_ll forced false (order m) (forward_ll m ext) e in
  if ok then (load_proxys m false e1, true) else (e1, false).

Definition out_states_ll (m : model) (e : lenv) : list vec := map (fun o => lst (e o)) (outputs m).

Fixpoint run_steps_ll (m : model) (steps : list ((nat -> option vec) * (nat -> option vec))) (e : lenv)
  : lenv * list (list vec) * bool :=
  match steps with
  | [] => (e, [], true)
  | (ext, forced) :: rest =>
    let '(e1, ok) := step_ll m forced ext e in
    if ok then let '(e2, outs, ok2) := run_steps_ll m rest e1 in (e2, out_states_ll m e1 :: outs, ok2)
    else (e1, [], false)
  end.

(* Model._run:  `try: self._load_proxys(keep=True); for ...: <step> ; finally: self._clean_proxys()` *)
Definition run_ll (m : model) steps (e : lenv) : lenv * list (list vec) * bool :=
  let '(e1, outs, ok) := run_steps_ll m steps (load_proxys m true e) in
  (clean_proxys m e1, outs, ok).

(* Model.with_state(from_state, reset) on entry, node by node: the given state, else zero when reset, else unchanged *)
Definition start_env_ll (m : model) (reset : bool) (from_state : nat -> option vec) (e : lenv) : lenv :=
  map_nodes (fun d x => match from_state (nid d) with
                        | Some v => with_lst x v
                        | None => if reset then with_lst x (vzeros (odim d)) else x
                        end) (order m) e.
(* ... and on exit when not stateful: `_state` of every node of the model back to what it was; nothing else *)
Definition restore_lst (ids : list nat) (snap : lenv) (e : lenv) : lenv :=
  fold_left (fun acc n => set_lst acc n (lst (snap n))) ids e.

(* Model.run on one sequence: with_state(reset) { _run: with_state(from_state) { load; steps } ; clean } *)
Definition run_op_ll (m : model) (stateful reset : bool) (from_state : nat -> option vec)
           (steps : list ((nat -> option vec) * (nat -> option vec))) (e : lenv)
  : lenv * list (list vec) * bool :=
  let e0 := start_env_ll m reset from_state e in
  let '(e1, outs, ok) := run_ll m steps e0 in
  ((if stateful then e1 else restore_lst (ids_of m) e e1), outs, ok).

(* Model.call: `try: with self.with_state(from_state, stateful, reset): self._load_proxys(keep=True);
   with self.with_feedback(forced_feedback, stateful=stateful): state = self._call(x)  finally: self._clean_proxys()`.
   No reload of the proxies after the single step, and with_feedback inherits [stateful].
   NOT modelled (neither here nor in ModelSem): Model.call also passes `reset` to with_feedback, so that
   call(x, forced_feedback={...}, reset=True) clamps ZERO feedback on every receiver and ignores the forced values
   (observed on /repo: receiver x + 100 fb, forced 5: 502 with reset=False, 2 with reset=True).  The scenario
   generators never combine reset=True with a forced feedback in a call. *)
Definition call_op_ll (m : model) (stateful reset : bool) (from_state : nat -> option vec)
           (ext forced : nat -> option vec) (e : lenv) : lenv * list (list vec) * bool :=
  let e0 := load_proxys m true (start_env_ll m reset from_state e) in
  let '(e1, ok) := with_feedback_ll forced stateful (order m) (forward_ll m ext) e0 in
  let e2 := if stateful then e1 else restore_lst (ids_of m) e e1 in
  (clean_proxys m e2, (if ok then [out_states_ll m e1] else []), ok).

(* Model.reset: `node.reset()` for every node: zero `_state`; proxies, clamps, params untouched *)
Definition reset_op_ll (m : model) (e : lenv) : lenv :=
  map_nodes (fun d x => with_lst x (vzeros (odim d))) (order m) e.

(* ---- the low-level environment during a run, for stating the timing theorem ---- *)
(* environment at the start of step k of Model._run (after the first k steps; stops at a failing step) *)
Fixpoint lenv_after (m : model) (steps : list ((nat -> option vec) * (nat -> option vec))) (e : lenv) (k : nat) : lenv :=
  match k, steps with
  | S k', (ext, forced) :: rest =>
      let '(e1, ok) := step_ll m forced ext e in if ok then lenv_after m rest e1 k' else e1
  | _, _ => e
  end.
(* did the first k steps all succeed? *)
Fixpoint lsteps_ok (m : model) (steps : list ((nat -> option vec) * (nat -> option vec))) (e : lenv) (k : nat) : bool :=
  match k, steps with
  | S k', (ext, forced) :: rest =>
      let '(e1, ok) := step_ll m forced ext e in if ok then lsteps_ok m rest e1 k' else false
  | _, _ => true
  end.

(* forgetting the mechanism: the ModelSem environment a low-level environment stands for, and the embedding back *)
Definition abs (e : lenv) : @env F := fun n => mkNS (lst (e n)) (lhid (e n)).
Definition inject (e : @env F) : lenv := fun n => mkLN (st (e n)) (hid (e n)) None None.

End LowLevel.

Arguments mkLN {F} _ _ _ _.
