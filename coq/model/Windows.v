(* C17: executable models of nodes/delay.py, nodes/reservoirs/nvar.py, nodes/concat.py.
   No proofs here (the runners must keep compiling when a proof breaks). *)
From Coq Require Import List Arith Bool.
From Coq Require String.
From RV Require Import base.Num base.LA.
Import ListNotations.

Section Windows.
Context {F : Type} `{Num F}.
Notation vec := (list F).

(* ---------------- Delay: deque(initial_values, maxlen=delay+1); appendleft(x); pop() ---------------- *)
(* buffer listed left-to-right; it always holds [delay] rows between two steps *)
Definition delay_step (buf : list vec) (x : vec) : list vec * vec :=
  let b := x :: buf in (removelast b, last b x).
Fixpoint delay_run (buf : list vec) (xs : list vec) : list vec * list vec :=
  match xs with
  | [] => (buf, [])
  | x :: xs' => let '(b1, o) := delay_step buf x in
                let '(b2, os) := delay_run b1 xs' in (b2, o :: os)
  end.

(* ---------------- NVAR ---------------- *)
(* rows 0, s, 2s, ... of a list  ( numpy  a[::s] ) *)
Fixpoint every_from {A} (s k : nat) (l : list A) : list A :=
  (* k = distance to the next selected row *)
  match l with
  | [] => []
  | a :: l' => match k with
               | O => a :: every_from s (s - 1) l'
               | S k' => every_from s k' l'
               end
  end.
Definition stride {A} (s : nat) (l : list A) : list A := every_from s 0 l.

(* combinations with replacement of [0, n) of size k, lexicographic: itertools.combinations_with_replacement *)
Fixpoint cwr_from (k : nat) (n lo : nat) : list (list nat) :=
  match k with
  | O => [[]]
  | S k' => flat_map (fun i => map (cons i) (cwr_from k' n i)) (seq lo (n - lo))
  end.
Definition cwr (n k : nat) : list (list nat) := cwr_from k n 0.

Definition vprod (v : vec) : F := fold_right nmul n1 v.
Definition monomials (lin : vec) (idx : list (list nat)) : vec :=
  map (fun c => vprod (map (fun i => nth i lin n0) c)) idx.

(* store: delay*strides rows, newest first.  np.roll(store,1,axis=0); new_store[0] = x *)
Definition nvar_step (order strides : nat) (store : list vec) (x : vec) : list vec * vec :=
  let store' := x :: removelast store in
  let lin := concat (stride strides store') in
  (store', lin ++ monomials lin (cwr (length lin) order)).
Fixpoint nvar_run (order strides : nat) (store : list vec) (xs : list vec) : list vec * list vec :=
  match xs with
  | [] => (store, [])
  | x :: xs' => let '(s1, o) := nvar_step order strides store x in
                let '(s2, os) := nvar_run order strides s1 xs' in (s2, o :: os)
  end.
Definition nvar_init (delay strides dim : nat) : list vec := repeat (vzeros dim) (delay * strides).

(* ---------------- Concat: np.concatenate(data, axis=1) on single-row arrays ---------------- *)
Definition concat_forward (data : list vec) : vec := concat data.

(* fan-in order of utils/graphflow.find_parents_and_children: edges sorted by the string parent.name + child.name *)
Fixpoint insert_key {A} (k : String.string) (a : A) (l : list (String.string * A)) : list (String.string * A) :=
  match l with
  | [] => [(k, a)]
  | (k', a') :: l' => if String.ltb k k' then (k, a) :: l else (k', a') :: insert_key k a l'
  end.
Definition sort_keys {A} (l : list (String.string * A)) : list (String.string * A) :=
  fold_right (fun p acc => insert_key (fst p) (snd p) acc) [] l.
Definition fanin_concat (child : String.string) (parents : list (String.string * vec)) : vec :=
  concat_forward (map snd (sort_keys (map (fun p => (String.append (fst p) child, snd p)) parents))).

End Windows.
