(* C20: executable models of reservoirpy/datasets/__init__.py (to_forecasting), reservoirpy/datasets/_utils.py
   (one_hot_encode) and reservoirpy/datasets/_chaos.py (logistic_map, henon_map, narma).
   No proofs here (the runners must keep compiling when a proof breaks). *)
From Coq Require Import List Arith Bool ZArith QArith Qround.
From RV Require Import base.Num base.LA.
Import ListNotations.
Close Scope Q_scope.

(* ------------------------------------------------------------------ numpy slices with a negated bound *)
Section Slices.
Context {A : Type}.
(* a[:-k]   (k = 0 gives a[:0] = empty, as in numpy) *)
Definition upto_neg (k : nat) (l : list A) : list A := if k =? 0 then [] else firstn (length l - k) l.
(* a[-k:]   (k = 0 gives the whole array, as in numpy) *)
Definition from_neg (k : nat) (l : list A) : list A := skipn (length l - k) l.
End Slices.

(* ------------------------------------------------------------------ to_forecasting *)
(* test_size argument: None | int | float *)
Inductive test_size := TsNone | TsInt (k : Z) | TsRatio (r : Q).

(* Python round() on a float: round half to even, on the exact value *)
Definition round_half_even (x : Q) : Z :=
  let f := Qfloor x in
  let d := Qred (x - inject_Z f) in
  match Qcompare d (1 # 2) with
  | Lt => f
  | Gt => (f + 1)%Z
  | Eq => if Z.even f then f else (f + 1)%Z
  end.

(* to_forecasting: test_len; None = ValueError *)
Definition test_len_of (time_len : nat) (ts : test_size) : option Z :=
  match ts with
  | TsNone => Some 0%Z
  | TsInt k => Some k
  | TsRatio r => if Qle_bool 0 r && negb (Qle_bool 1 r)
                 then Some (round_half_even (Qred (inject_Z (Z.of_nat time_len) * r)))
                 else None
  end.

Section Forecast.
Context {A : Type}.   (* a "row": everything behind the time axis *)

(* body of to_forecasting after  series_ = np.moveaxis(timeseries, axis, 0): returns [X; y] or [X; X_t; y; y_t] *)
Definition forecast_rows (forecast : nat) (test_len : Z) (series : list A) : list (list A) :=
  let X := upto_neg forecast series in          (* series_[:-forecast] *)
  let y := skipn forecast series in             (* series_[forecast:]  *)
  if (0 <? test_len)%Z then
    let k := Z.to_nat test_len in
    [upto_neg k X; from_neg k X; upto_neg k y; from_neg k y]
  else [X; y].

Definition to_forecasting_rows (forecast : nat) (ts : test_size) (series : list A) : option (list (list A)) :=
  match test_len_of (length series) ts with
  | Some tl => Some (forecast_rows forecast tl series)
  | None => None
  end.
End Forecast.

Section Forecast2D.
Context {F : Type} `{Num F}.
(* 2-D series, time axis 0 or 1.  np.moveaxis(a, 1, 0) of a 2-D array is its transpose. *)
Definition to_forecasting_2d (axis : nat) (forecast : nat) (ts : test_size) (series : list (list F))
  : option (list (list (list F))) :=
  if axis =? 0 then to_forecasting_rows forecast ts series
  else
    let nrows := length series in
    let ncols := length (hd [] series) in
    match to_forecasting_rows forecast ts (transpose series ncols) with
    | Some parts => Some (map (fun p => transpose p nrows) parts)     (* np.moveaxis(., 0, axis) *)
    | None => None
    end.
End Forecast2D.

(* ------------------------------------------------------------------ one_hot_encode *)
Section OneHot.
Context {A : Type} (leb : A -> A -> bool).
Definition leqb (a b : A) : bool := leb a b && leb b a.
(* np.unique: sorted, duplicate-free *)
Fixpoint uinsert (a : A) (l : list A) : list A :=
  match l with
  | [] => [a]
  | b :: l' => if leb a b then (if leb b a then l else a :: l) else b :: uinsert a l'
  end.
Definition unique (l : list A) : list A := fold_right uinsert [] l.
(* return_inverse: position of each element in the unique array *)
Fixpoint index_of (a : A) (l : list A) : nat :=
  match l with
  | [] => 0
  | b :: l' => if leqb a b then 0 else S (index_of a l')
  end.

Context {F : Type} `{Num F}.
(* 1-D label array or list (ndim = 1: the trailing axis is never squeezed, `if y.ndim > 1 and y.shape[-1] == 1`):
   classes, idx = np.unique(y, return_inverse=True); encoder = np.eye(nb_classes); y_encoded = encoder[idx] *)
Definition encode_with (cls : list A) (a : A) : list F := nth (index_of a cls) (eye (length cls)) [].
Definition one_hot (labels : list A) : list (list F) * list A :=
  let cls := unique labels in (map (encode_with cls) labels, cls).

(* 2-D label array of shape (n, m): a trailing axis of length 1 is squeezed (result (n, k)); otherwise np.unique
   flattens, the inverse indices are reshaped to (n, m) and the result has shape (n, m, k) *)
Fixpoint reshape_rows {B} (nr m : nat) (l : list B) : list (list B) :=
  match nr with O => [] | S k => firstn m l :: reshape_rows k m (skipn m l) end.
Definition one_hot_2d (rows : list (list A)) : (list (list F) + list (list (list F))) * list A :=
  let m := length (hd [] rows) in
  let '(enc, cls) := one_hot (concat rows) in
  if m =? 1 then (inl enc, cls) else (inr (reshape_rows (length rows) m enc), cls).

(* np.cumsum *)
Fixpoint cumsum (acc : nat) (l : list nat) : list nat :=
  match l with [] => [] | x :: l' => (acc + x) :: cumsum (acc + x) l' end.
(* np.split(a, indices): pieces a[0:i1], a[i1:i2], ..., a[ik:] *)
Fixpoint np_split {B} (prev : nat) (idx : list nat) (l : list B) : list (list B) :=
  match idx with
  | [] => [l]
  | i :: idx' => firstn (i - prev) l :: np_split i idx' (skipn (i - prev) l)
  end.
(* multi-sequence branch: concatenate, encode, split back at cumsum(lengths)[:-1] *)
Definition one_hot_multi (seqs : list (list A)) : list (list (list F)) * list A :=
  let lens := map (@length A) seqs in
  let idx := removelast (cumsum 0 lens) in
  let '(enc, cls) := one_hot (concat seqs) in
  (np_split 0 idx enc, cls).
End OneHot.

(* ------------------------------------------------------------------ discrete maps *)
Section Maps.
Context {F : Type} `{Num F}.

(* s, step s, step (step s), ... : n items.  (array filled row by row, row i computed from row i-1) *)
Fixpoint orbit {S} (step : S -> S) (n : nat) (s : S) : list S :=
  match n with O => [] | S k => s :: orbit step k (step s) end.

(* logistic_map: X[i] = r * X[i-1] * (1 - X[i-1]); returns shape (n, 1).  None = exception
   (ValueError for r <= 0 or x0 outside ]0,1[; IndexError for n = 0) *)
Definition logistic_step (r x : F) : F := nmul (nmul r x) (nsub n1 x).
Definition logistic_map (n : nat) (r x0 : F) : option (list (list F)) :=
  if nltb n0 r && (nltb n0 x0 && nltb x0 n1) then
    match n with O => None | _ => Some (map (fun x => [x]) (orbit (logistic_step r) n x0)) end
  else None.

(* henon_map: states[i][0] = 1 - a*states[i-1][0]**2 + states[i-1][1]; states[i][1] = b*states[i-1][0] *)
Definition henon_step (a b : F) (s : F * F) : F * F :=
  let '(x, y) := s in (nadd (nsub n1 (nmul a (nmul x x))) y, nmul b x).
Definition henon_map (n : nat) (a b x0 y0 : F) : option (list (list F)) :=
  match n with O => None | _ => Some (map (fun s => [fst s; snd s]) (orbit (henon_step a b) n (x0, y0))) end.

(* array assignment  y[i] = v  (no effect out of bounds; never happens in the loops below) *)
Fixpoint upd (i : nat) (v : F) (l : list F) : list F :=
  match l with
  | [] => []
  | x :: l' => match i with O => v :: l' | S j => x :: upd j v l' end
  end.

(* narma, as in /repo now:
     y = zeros(n+order); y[:len(x0)] = x0
     for t in range(order, n+order-1):
        y[t+1] = a1*y[t] + a2*y[t]*sum(y[t-order+1 : t+1]) + b*u[t-order+1]*u[t] + c
     return y[order:]                                                                   *)
Definition narma_rhs (a1 a2 b c : F) (yt s u1 u2 : F) : F :=
  nadd (nadd (nadd (nmul a1 yt) (nmul (nmul a2 yt) s)) (nmul (nmul b u1) u2)) c.
Definition narma_body (order : nat) (a1 a2 b c : F) (u : list F) (y : list F) (t : nat) : list F :=
  let s := vsum (firstn order (skipn (t + 1 - order) y)) in
  upd (t + 1) (narma_rhs a1 a2 b c (nth t y n0) s (nth (t + 1 - order) u n0) (nth t u n0)) y.
Definition narma_init (n order : nat) (x0 : list F) : list F := x0 ++ vzeros (n + order - length x0).
Definition narma_array (n order : nat) (a1 a2 b c : F) (x0 u : list F) : list F :=
  fold_left (narma_body order a1 a2 b c u) (seq order (n - 1)) (narma_init n order x0).
Definition narma (n order : nat) (a1 a2 b c : F) (x0 u : list F) : list (list F) :=
  map (fun v => [v]) (skipn order (narma_array n order a1 a2 b c x0 u)).

(* narma before commit b06336b (history): window y[t-order : t], input u[t-order] *)
Definition narma_body_old (order : nat) (a1 a2 b c : F) (u : list F) (y : list F) (t : nat) : list F :=
  let s := vsum (firstn order (skipn (t - order) y)) in
  upd (t + 1) (narma_rhs a1 a2 b c (nth t y n0) s (nth (t - order) u n0) (nth t u n0)) y.
Definition narma_array_old (n order : nat) (a1 a2 b c : F) (x0 u : list F) : list F :=
  fold_left (narma_body_old order a1 a2 b c u) (seq order (n - 1)) (narma_init n order x0).
End Maps.
