(* C14: provenance semantics of the seed plumbing of reservoirpy.  Executable, no proofs (the only tactic-built
   objects are the decidable equalities at the end, which are computational: [Defined]).

   numpy's bit generators are an oracle: a produced array is represented by the symbolic term
        "the draw [d_req] made on the stream rooted at [d_root] after the draws [d_trace] were made on it".
   The *position* of a stream is the list of requests already served ([length] of it is the draw counter);
   keeping the requests and not only their number is what makes "same root /\ same position => same values" a
   faithful reading of numpy determinism (different distributions/shapes consume different amounts of bits).

   Sources modelled (file / function):
     utils/random.py      set_seed, rand_generator, noise
     mat_gen.py           _random_sparse: rg = rand_generator(seed); normal / bernoulli initialisers
     nodes/reservoirs/reservoir.py   Reservoir.__init__ : rng = rand_generator(seed) (noise generator),
                                     the same [seed] object is given to initialize and initialize_feedback
     nodes/reservoirs/base.py        initialize (W, Win, bias in this order), initialize_feedback (Wfb),
                                     reservoir_kernel / forward_internal (noise_in, noise_fb, noise_rc in this order)
     datasets/_seed.py, _chaos.py    mackey_glass / narma: seed None -> get_seed() (5555 unless datasets.set_seed)
     nodes/readouts/sklearn_node.py  random_state drawn from the global generator at construction *)
From Coq Require Import List Arith Bool.
Import ListNotations.

(* ------------------------------------------------------------------ streams and draws *)
(* a request served by a generator: distribution code, shape, and every argument that can change how many bits
   are consumed (connectivity, distribution keywords), interned to a number by the harness *)
Record req := mkReq { q_dist : nat; q_rows : nat; q_cols : nat; q_args : nat }.

(* distribution codes *)
Definition DNORM := 0.      (* mat_gen.normal            (W)            *)
Definition DBERN := 1.      (* mat_gen.bernoulli         (Win, bias, Wfb) *)
Definition DNOISE := 2.     (* getattr(rng, noise_type)  ; q_args = interned (noise_type, noise_kwargs) *)
Definition DRANDOM := 3.    (* Generator.random          (mackey_glass history) *)
Definition DUNIF := 4.      (* Generator.uniform(0,0.5)  (narma input) *)
Definition DINT := 5.       (* Generator.integers(1<<32) (ScikitLearnNode random_state) *)
Definition DUSER := 6.      (* a direct user draw  rand_generator().normal(size=...) *)

(* where a stream comes from: OS entropy (default_rng() at import, never reproducible: one name per process/history)
   or default_rng(s) *)
Inductive root := Entropy (k : nat) | Seeded (s : nat).
(* the state of a generator object: its root and the requests it has served so far *)
Definition gstate := (root * list req)%type.
Definition fresh (s : nat) : gstate := (Seeded s, []).
Definition position (g : gstate) : nat := length (snd g).

(* one produced random array; [d_post] = interned post-processing arguments (scaling, sr, gain, dataset parameters) *)
Record draw := mkDraw { d_root : root; d_trace : list req; d_req : req; d_post : nat }.
Definition draw_from (g : gstate) (r : req) (post : nat) : gstate * draw :=
  ((fst g, snd g ++ [r]), mkDraw (fst g) (snd g) r post).

(* an array held by a node: literal zeros, a user constant, or a draw *)
Inductive mat := MZero (r c : nat) | MConst (v : nat) | MDraw (d : draw).

(* generator *objects* (numpy Generators are stateful and shared by reference) *)
Inductive gid :=
| GGlob (e : nat)    (* the module-level __global_rg created by the e-th set_seed (0: at import) *)
| GUser (g : nat)    (* an object the user created with np.random.default_rng(s) *)
| GPriv (i : nat).   (* the object rand_generator(int seed) created in Reservoir.__init__ of node i *)

(* the [seed] argument *)
Inductive src := SNone | SInt (s : nat) | SGen (g : nat).

(* ------------------------------------------------------------------ reservoirs *)
Record rcfg := mkCfg {
  c_units : nat; c_src : src; c_fb : bool;
  c_gin : nat; c_gfb : nat; c_grc : nat;       (* interned gains; 0 <-> gain == 0.0 *)
  c_ndist : nat;                               (* interned (noise_type, noise_kwargs) *)
  c_bias : bool;                               (* input_bias *)
  c_W : nat * nat; c_Win : nat * nat; c_B : nat * nat; c_Fb : nat * nat;   (* (draw-affecting args, post-processing args) *)
  c_hyp : nat }.                               (* interned lr, activation, equation, ... (deterministic part) *)

(* a noise draw and the place it is added: 0 = noise_in, 1 = noise_fb, 2 = noise_rc *)
Record ndraw := mkND { nd_role : nat; nd_draw : draw }.
(* one call of run(): input id, number of steps, whether the feedback term Wfb.y was active, noise draws *)
Record runrec := mkRun { rr_x : nat; rr_T : nat; rr_fb : bool; rr_noise : list ndraw }.

Record rnode := mkNode {
  n_cfg : rcfg;
  n_rng : gid;                                  (* hypers["noise_generator"] = partial(noise, rng=rng) *)
  n_params : option (mat * mat * mat * nat);    (* W, Win, bias, input_dim *)
  n_wfb : option (mat * nat);                   (* Wfb, feedback_dim *)
  n_log : list runrec }.

Record sknode := mkSk { k_cfg : nat; k_rs : mat; k_fits : list nat }.

Inductive term :=
| TMat (m : mat)
| TRun (hyp : nat) (W Win b : mat) (Wfb : option mat) (log : list runrec)
| TSk (cfg : nat) (rs : mat) (fits : list nat).

(* tags of the produced arrays *)
Definition TAG_W := 0. Definition TAG_WIN := 1. Definition TAG_BIAS := 2. Definition TAG_WFB := 3.
Definition TAG_RUN := 4. Definition TAG_DATA := 5. Definition TAG_DRAW := 6. Definition TAG_SK := 7.
Record event := mkEv { e_node : option nat; e_tag : nat; e_term : term }.

(* ------------------------------------------------------------------ program state *)
Record state := mkState {
  epoch : nat;                       (* number of set_seed calls: __global_rg is the object GGlob epoch *)
  heap : gid -> gstate;
  nodes : nat -> option rnode;
  sks : nat -> option sknode;
  ds_default : nat }.                (* datasets._seed._DEFAULT_SEED *)

Definition gid_eqb (a b : gid) : bool :=
  match a, b with
  | GGlob x, GGlob y | GUser x, GUser y | GPriv x, GPriv y => x =? y
  | _, _ => false
  end.
Definition upd_heap (h : gid -> gstate) (k : gid) (v : gstate) : gid -> gstate :=
  fun k' => if gid_eqb k k' then v else h k'.
Definition upd {A} (f : nat -> option A) (k : nat) (v : A) : nat -> option A :=
  fun k' => if k =? k' then Some v else f k'.

Definition gptr (st : state) : gid := GGlob (epoch st).
Definition set_heap (st : state) (k : gid) (v : gstate) : state :=
  mkState (epoch st) (upd_heap (heap st) k v) (nodes st) (sks st) (ds_default st).
Definition set_node (st : state) (i : nat) (n : rnode) : state :=
  mkState (epoch st) (heap st) (upd (nodes st) i n) (sks st) (ds_default st).
Definition set_sk (st : state) (i : nat) (n : sknode) : state :=
  mkState (epoch st) (heap st) (nodes st) (upd (sks st) i n) (ds_default st).

(* a process that has not called set_seed: the global generator has an unknown (entropy) root named k *)
Definition init_state (k : nat) : state :=
  mkState 0 (fun g => match g with GGlob 0 => (Entropy (S k), []) | _ => (Entropy 0, []) end)   (* other objects: not allocated yet *)
          (fun _ => None) (fun _ => None) 5555.

(* utils/random.set_seed: rebinds __global_rg to a *new* object default_rng(s)
   (objects that captured the old one keep it) *)
Definition do_set_seed (st : state) (s : nat) : state :=
  mkState (S (epoch st)) (upd_heap (heap st) (GGlob (S (epoch st))) (fresh s)) (nodes st) (sks st) (ds_default st).

(* utils/random.rand_generator(seed) followed by one draw:
   None -> the global object (advanced), int -> a brand new default_rng(seed) (position 0, nothing shared),
   Generator -> that object (advanced) *)
Definition draw_src (st : state) (sd : src) (r : req) (post : nat) : state * draw :=
  match sd with
  | SInt s => (st, snd (draw_from (fresh s) r post))
  | SNone => let '(g, d) := draw_from (heap st (gptr st)) r post in (set_heap st (gptr st) g, d)
  | SGen u => let '(g, d) := draw_from (heap st (GUser u)) r post in (set_heap st (GUser u) g, d)
  end.

(* utils/random.noise: abs(gain) > 0 ? gain * rng.dist(size=shape) : np.zeros(shape)  -- the generator is not
   touched when the gain is zero *)
Definition noise (st : state) (p : gid) (gain : nat) (r : req) : state * option draw :=
  if gain =? 0 then (st, None)
  else let '(g, d) := draw_from (heap st p) r gain in (set_heap st p g, Some d).

(* Reservoir.__init__ *)
Definition construct (st : state) (i : nat) (c : rcfg) : state :=
  match c_src c with
  | SNone => set_node st i (mkNode c (gptr st) None None [])
  | SGen u => set_node st i (mkNode c (GUser u) None None [])
  | SInt s => set_node (set_heap st (GPriv i) (fresh s)) i (mkNode c (GPriv i) None None [])
  end.

(* nodes/reservoirs/base.initialize: W, then Win, then bias, each initialiser called with seed=seed *)
Definition do_init (st : state) (i : nat) (n : rnode) (din : nat) : state * list event :=
  let c := n_cfg n in
  let '(st1, dW) := draw_src st (c_src c) (mkReq DNORM (c_units c) (c_units c) (fst (c_W c))) (snd (c_W c)) in
  let '(st2, dWin) := draw_src st1 (c_src c) (mkReq DBERN (c_units c) din (fst (c_Win c))) (snd (c_Win c)) in
  let '(st3, b) := if c_bias c
                   then let '(s, d) := draw_src st2 (c_src c) (mkReq DBERN (c_units c) 1 (fst (c_B c))) (snd (c_B c)) in (s, MDraw d)
                   else (st2, MZero (c_units c) 1) in
  (set_node st3 i (mkNode c (n_rng n) (Some (MDraw dW, MDraw dWin, b, din)) (n_wfb n) (n_log n)),
   [mkEv (Some i) TAG_W (TMat (MDraw dW)); mkEv (Some i) TAG_WIN (TMat (MDraw dWin)); mkEv (Some i) TAG_BIAS (TMat b)]).

(* nodes/reservoirs/base.initialize_feedback (only when the node has a feedback connection) *)
Definition do_initfb (st : state) (i : nat) (n : rnode) (dfb : nat) : state * list event :=
  let c := n_cfg n in
  let '(st1, d) := draw_src st (c_src c) (mkReq DBERN (c_units c) dfb (fst (c_Fb c))) (snd (c_Fb c)) in
  (set_node st1 i (mkNode c (n_rng n) (n_params n) (Some (MDraw d, dfb)) (n_log n)),
   [mkEv (Some i) TAG_WFB (TMat (MDraw d))]).

Definition ocons (role : nat) (o : option draw) (l : list ndraw) : list ndraw :=
  match o with Some a => mkND role a :: l | None => l end.

(* one forward step: reservoir_kernel draws noise_in (shape of u), then noise_fb (shape of y) when the node has
   feedback, then forward_internal/external draws noise_rc (shape of r) *)
Definition step_noise (st : state) (n : rnode) (din : nat) : state * list ndraw :=
  let c := n_cfg n in
  let '(st1, a) := noise st (n_rng n) (c_gin c) (mkReq DNOISE din 1 (c_ndist c)) in
  let '(st2, b) := match n_wfb n with
                   | Some (_, dfb) => if c_fb c then noise st1 (n_rng n) (c_gfb c) (mkReq DNOISE dfb 1 (c_ndist c)) else (st1, None)
                   | None => (st1, None)
                   end in
  let '(st3, r) := noise st2 (n_rng n) (c_grc c) (mkReq DNOISE (c_units c) 1 (c_ndist c)) in
  (st3, ocons 0 a (ocons 1 b (ocons 2 r []))).
Fixpoint run_noise (T : nat) (st : state) (n : rnode) (din : nat) : state * list ndraw :=
  match T with
  | O => (st, [])
  | S T' => let '(st1, l1) := step_noise st n din in
            let '(st2, l2) := run_noise T' st1 n din in (st2, l1 ++ l2)
  end.

Definition wfb_mat (n : rnode) : option mat := match n_wfb n with Some (m, _) => Some m | None => None end.
(* reservoir_kernel adds Wfb.y only when the node has a feedback connection *)
Definition fb_active (n : rnode) : bool := match n_wfb n with Some _ => c_fb (n_cfg n) | None => false end.
(* res <<= readout on an existing node: has_feedback becomes True, nothing else changes *)
Definition set_fb (c : rcfg) : rcfg :=
  mkCfg (c_units c) (c_src c) true (c_gin c) (c_gfb c) (c_grc c) (c_ndist c) (c_bias c) (c_W c) (c_Win c) (c_B c) (c_Fb c) (c_hyp c).

Definition do_run (st : state) (i : nat) (n : rnode) (x T : nat) : state * list event :=
  match n_params n with
  | Some (W, Win, b, din) =>
      if c_fb (n_cfg n) && (match n_wfb n with None => true | _ => false end) then (st, [])   (* Wfb is None: run raises *)
      else
        let '(st1, l) := run_noise T st n din in
        let log := n_log n ++ [mkRun x T (fb_active n) l] in
        (set_node st1 i (mkNode (n_cfg n) (n_rng n) (n_params n) (n_wfb n) log),
         [mkEv (Some i) TAG_RUN (TRun (c_hyp (n_cfg n)) W Win b (wfb_mat n) log)])
  | None => (st, [])
  end.

(* ------------------------------------------------------------------ the history language *)
Inductive op :=
| OSetSeed (s : nat)                          (* rpy.set_seed(s) *)
| ONewGen (g s : nat)                         (* g = np.random.default_rng(s) *)
| OGlobalDraw (r : req)                       (* rand_generator().<dist>(size=...) : unrelated consumption *)
| OGenDraw (g : nat) (r : req)                (* g.<dist>(size=...) *)
| OConstruct (i : nat) (c : rcfg)             (* Reservoir(..., seed=c_src) *)
| OInit (i din : nat)                         (* node.initialize(x) *)
| OInitFb (i dfb : nat)                       (* node.initialize_feedback() *)
| ORun (i x din T : nat)                      (* node.run(X_x) with T rows (initialises first when needed) *)
| ODataset (sd : src) (r : req) (post : nat)  (* mackey_glass / narma (r built by mg_req / narma_req) *)
| ODsSetSeed (s : nat)                        (* reservoirpy.datasets.set_seed(s) *)
| OSkNode (i : nat) (rs : option nat) (has_rs : bool) (cfg : nat)   (* ScikitLearnNode(model, model_hypers) *)
| OSkFit (i data : nat)                       (* node.fit(X, Y) *)
| OAttachFb (i : nat).                        (* node <<= readout  (feedback attached after construction, possibly after runs) *)

Definition mg_req (history_length : nat) : req := mkReq DRANDOM history_length 1 0.   (* rs.random(history_length) *)
Definition narma_req (n_plus_order : nat) : req := mkReq DUNIF n_plus_order 1 0.      (* rs.uniform(0, 0.5, (n+order,1)) *)

Definition step (st : state) (o : op) : state * list event :=
  match o with
  | OSetSeed s => (do_set_seed st s, [])
  | ONewGen g s => (set_heap st (GUser g) (fresh s), [])
  | OGlobalDraw r => let '(st1, d) := draw_src st SNone r 0 in (st1, [mkEv None TAG_DRAW (TMat (MDraw d))])
  | OGenDraw g r => let '(st1, d) := draw_src st (SGen g) r 0 in (st1, [mkEv None TAG_DRAW (TMat (MDraw d))])
  | OConstruct i c => (construct st i c, [])
  | OInit i din =>
      match nodes st i with
      | Some n => match n_params n with None => do_init st i n din | Some _ => (st, []) end
      | None => (st, [])
      end
  | OInitFb i dfb =>
      match nodes st i with
      | Some n => if c_fb (n_cfg n) then match n_wfb n with None => do_initfb st i n dfb | Some _ => (st, []) end else (st, [])
      | None => (st, [])
      end
  | ORun i x din T =>
      match nodes st i with
      | Some n =>
          match n_params n with
          | Some _ => do_run st i n x T
          | None => let '(st1, ev1) := do_init st i n din in
                    match nodes st1 i with
                    | Some n1 => let '(st2, ev2) := do_run st1 i n1 x T in (st2, ev1 ++ ev2)
                    | None => (st1, ev1)
                    end
          end
      | None => (st, [])
      end
  | ODataset sd r post =>
      let sd' := match sd with SNone => SInt (ds_default st) | _ => sd end in   (* seed None -> get_seed(), never the global generator *)
      let '(st1, d) := draw_src st sd' r post in (st1, [mkEv None TAG_DATA (TMat (MDraw d))])
  | ODsSetSeed s => (mkState (epoch st) (heap st) (nodes st) (sks st) s, [])
  | OSkNode i rs has_rs cfg =>
      match rs with
      | Some v => (set_sk st i (mkSk cfg (MConst v) []), [])
      | None => if has_rs
                then let '(st1, d) := draw_src st SNone (mkReq DINT 1 1 0) 0 in (set_sk st1 i (mkSk cfg (MDraw d) []), [])
                else (set_sk st i (mkSk cfg (MZero 0 0) []), [])
      end
  | OSkFit i data =>
      match sks st i with
      | Some k => let f := k_fits k ++ [data] in
                  (set_sk st i (mkSk (k_cfg k) (k_rs k) f), [mkEv None TAG_SK (TSk (k_cfg k) (k_rs k) f)])
      | None => (st, [])
      end
  | OAttachFb i =>
      match nodes st i with
      | Some n => (set_node st i (mkNode (set_fb (n_cfg n)) (n_rng n) (n_params n) (n_wfb n) (n_log n)), [])
      | None => (st, [])
      end
  end.

Fixpoint exec (st : state) (h : list op) : state * list event :=
  match h with
  | [] => (st, [])
  | o :: h' => let '(st1, e1) := step st o in
               let '(st2, e2) := exec st1 h' in (st2, e1 ++ e2)
  end.

(* which reservoir an operation addresses *)
Definition touches (i : nat) (o : op) : bool :=
  match o with
  | OConstruct j _ | OInit j _ | OInitFb j _ | ORun j _ _ _ | OAttachFb j => i =? j
  | _ => false
  end.
Definition proj (i : nat) (evs : list event) : list event :=
  filter (fun e => match e_node e with Some j => i =? j | None => false end) evs.

(* ------------------------------------------------------------------ decidable equality of provenance terms *)
Definition req_eq_dec (a b : req) : {a = b} + {a <> b}.
Proof. decide equality; apply Nat.eq_dec. Defined.
Definition root_eq_dec (a b : root) : {a = b} + {a <> b}.
Proof. decide equality; apply Nat.eq_dec. Defined.
Definition draw_eq_dec (a b : draw) : {a = b} + {a <> b}.
Proof. decide equality; [apply Nat.eq_dec | apply req_eq_dec | apply (list_eq_dec req_eq_dec) | apply root_eq_dec]. Defined.
Definition mat_eq_dec (a b : mat) : {a = b} + {a <> b}.
Proof. decide equality; try apply Nat.eq_dec; apply draw_eq_dec. Defined.
Definition ndraw_eq_dec (a b : ndraw) : {a = b} + {a <> b}.
Proof. decide equality; [apply draw_eq_dec | apply Nat.eq_dec]. Defined.
Definition runrec_eq_dec (a b : runrec) : {a = b} + {a <> b}.
Proof. decide equality; try apply Nat.eq_dec; try apply Bool.bool_dec; apply (list_eq_dec ndraw_eq_dec). Defined.
Definition omat_eq_dec (a b : option mat) : {a = b} + {a <> b}.
Proof. decide equality; apply mat_eq_dec. Defined.
Definition term_eq_dec (a b : term) : {a = b} + {a <> b}.
Proof.
  decide equality; try apply Nat.eq_dec; try apply mat_eq_dec; try apply omat_eq_dec;
    try apply (list_eq_dec runrec_eq_dec); apply (list_eq_dec Nat.eq_dec).
Defined.
Definition term_eqb (a b : term) : bool := if term_eq_dec a b then true else false.

(* ------------------------------------------------------------------ "different seeds" predicate used by the runner *)
(* enough entropy for two different streams to collide only with negligible probability *)
Definition rich (r : req) : bool :=
  if q_dist r =? DBERN then 48 <=? q_rows r * q_cols r else 2 <=? q_rows r * q_cols r.
Definition draw_differs (a b : draw) : bool :=
  match d_root a, d_root b with
  | Seeded s1, Seeded s2 =>
      negb (s1 =? s2) && (if req_eq_dec (d_req a) (d_req b) then true else false) && (d_post a =? d_post b)
      && (match d_trace a, d_trace b with [], [] => true | _, _ => false end) && rich (d_req a)
  | _, _ => false
  end.
Definition total_steps (log : list runrec) : nat := fold_right (fun r a => rr_T r + a) 0 log.
Definition must_differ (a b : term) : bool :=
  match a, b with
  | TMat (MDraw x), TMat (MDraw y) => draw_differs x y
  | TRun h1 (MDraw w1) _ _ _ l1, TRun h2 (MDraw w2) _ _ _ l2 =>
      (h1 =? h2) && draw_differs w1 w2 && (3 <=? total_steps l1) && (3 <=? total_steps l2)
      && (if list_eq_dec Nat.eq_dec (map rr_x l1) (map rr_x l2) then true else false)
  | _, _ => false
  end.
