(* C13: executable model of the logic of reservoirpy/mat_gen.py around the numpy/scipy random generators.
   No proofs here (the runners must keep compiling when a proof breaks).

   Part 1  Initializer.__call__ / _filter_deprecated_kwargs / _func_post_process   (kwargs = ordered association list,
           exactly a Python dict: insertion order, assignment to an existing key keeps its position)
   Part 2  _scale_spectral_radius (HEAD) and the pre-fix formula, _scale_inputs
   Part 3  COO assembly (scipy.sparse.coo_matrix((data,(i,j))) : duplicates are summed), _ring, _line, _random_degree *)
From Coq Require Import List Arith Bool.
From Coq Require String.
From RV Require Import base.Num base.LA.
Import ListNotations.
Import String.StringSyntax.
Delimit Scope string_scope with string.
Local Open Scope string_scope.
Local Open Scope list_scope.

(* ------------------------------------------------------------------------------------------------ Part 1 *)
Section Kwargs.
Variable V : Type.                 (* Python values *)
Variable is_none : V -> bool.      (* v is None *)
Notation key := String.string.
Definition kwargs := list (key * V).

(* d[k] = v *)
Fixpoint kw_set (k : key) (v : V) (kw : kwargs) : kwargs :=
  match kw with
  | [] => [(k, v)]
  | (k', v') :: r => if String.eqb k k' then (k, v) :: r else (k', v') :: kw_set k v r
  end.
(* d.update(u) *)
Definition kw_update (kw upd : kwargs) : kwargs := fold_left (fun acc p => kw_set (fst p) (snd p) acc) upd kw.
(* d.get(k) *)
Fixpoint kw_get (k : key) (kw : kwargs) : option V :=
  match kw with
  | [] => None
  | (k', v') :: r => if String.eqb k k' then Some v' else kw_get k r
  end.
(* k in d *)
Definition kw_has (k : key) (kw : kwargs) : bool := match kw_get k kw with Some _ => true | None => false end.
(* d.pop(k, None) *)
Fixpoint kw_del (k : key) (kw : kwargs) : kwargs :=
  match kw with
  | [] => []
  | (k', v') :: r => if String.eqb k k' then kw_del k r else (k', v') :: kw_del k r
  end.
Definition keys (kw : kwargs) : list key := map fst kw.

(* mat_gen._filter_deprecated_kwargs: proba -> connectivity, typefloat -> dtype, N / dim_input -> positional shape *)
Definition deprecated_keys : list key := ["proba"; "typefloat"; "N"; "dim_input"]%string.
Definition filter_deprecated (kw : kwargs) : list V * kwargs :=
  let new1 := match kw_get "proba" kw with Some v => [("connectivity"%string, v)] | None => [] end in
  let kw1 := kw_del "proba" kw in
  let new2 := match kw_get "typefloat" kw1 with Some v => kw_set "dtype" v new1 | None => new1 end in
  let kw2 := kw_del "typefloat" kw1 in
  let a1 := match kw_get "N" kw2 with Some v => if is_none v then [] else [v] | None => [] end in
  let kw3 := kw_del "N" kw2 in
  let a2 := match kw_get "dim_input" kw3 with Some v => if is_none v then [] else [v] | None => [] end in
  let kw4 := kw_del "dim_input" kw3 in
  (a1 ++ a2, kw_update kw4 new2).

(* class Initializer: the wrapped function is an opaque identifier *)
Record initializer := mkInit {
  i_func : nat; i_kwargs : kwargs;
  i_autorize_sr : bool; i_autorize_is : bool; i_autorize_rescaling : bool }.

(* what a call with a shape evaluates: func( *shape, **kwargs) followed by the requested post-processing *)
Inductive post := PNone | PSr (sr : V) | PInputScaling (s : V).
Record descriptor := mkDesc { d_func : nat; d_shape : list V; d_post : post; d_kwargs : kwargs }.
Inductive error := ESrNotAuthorized | EInputScalingNotAuthorized | EBothScalings.
Inductive result := RErr (e : error) | RInit (i : initializer) | RMat (d : descriptor).

Definition not_none (o : option V) : option V :=
  match o with Some v => if is_none v then None else Some v | None => None end.

(* Initializer._func_post_process( *shape, sr=None, input_scaling=None, **kwargs) *)
Definition post_process (i : initializer) (shape : list V) : result :=
  let kw := i_kwargs i in
  let rest := kw_del "input_scaling" (kw_del "sr" kw) in
  match not_none (kw_get "sr" kw), not_none (kw_get "input_scaling" kw) with
  | Some _, Some _ => RErr EBothScalings
  | Some v, None => RMat (mkDesc (i_func i) shape (PSr v) rest)
  | None, Some v => RMat (mkDesc (i_func i) shape (PInputScaling v) rest)
  | None, None => RMat (mkDesc (i_func i) shape PNone rest)
  end.

(* "no seed" never erases the seed the initializer was partially applied with:
     curried_seed = init._kwargs.get("seed"); init._kwargs.update(kwargs)
     if init._kwargs.get("seed") is None and curried_seed is not None: init._kwargs["seed"] = curried_seed *)
Definition keep_seed (old new : kwargs) : kwargs :=
  match not_none (kw_get "seed" new), not_none (kw_get "seed" old) with
  | None, Some c => kw_set "seed" c new
  | _, _ => new
  end.

(* Initializer.__call__( *shape, **kwargs):   init = deepcopy(self); init._kwargs.update(kwargs) (+ keep_seed)  *)
Definition call (self : initializer) (shape : list V) (kw : kwargs) : result :=
  if kw_has "sr" kw && negb (i_autorize_sr self) then RErr ESrNotAuthorized
  else if kw_has "input_scaling" kw && negb (i_autorize_is self) then RErr EInputScalingNotAuthorized
  else
    let '(new_shape, kw') := filter_deprecated kw in
    let shape' := match new_shape with
                  | [] => shape
                  | [a] => [a; a]
                  | _ => new_shape
                  end in
    let init := mkInit (i_func self) (keep_seed (i_kwargs self) (kw_update (i_kwargs self) kw'))
                       (i_autorize_sr self) (i_autorize_is self) (i_autorize_rescaling self) in
    match shape' with
    | _ :: _ => if i_autorize_rescaling init then post_process init shape'
                else RMat (mkDesc (i_func init) shape' PNone (i_kwargs init))
    | [] => match kw' with
            | _ :: _ => RInit init
            | [] => RMat (mkDesc (i_func init) [] PNone (i_kwargs init))   (* func( **kwargs): "should raise" *)
            end
    end.

(* A Python heap of initializer objects: a call reads object [r]; a partial application allocates a new object.
   The original is never written (deepcopy). *)
Definition heap := list initializer.
Definition hcall (h : heap) (r : nat) (shape : list V) (kw : kwargs) : heap * option result :=
  match nth_error h r with
  | None => (h, None)
  | Some self => let res := call self shape kw in
                 (match res with RInit i => h ++ [i] | _ => h end, Some res)
  end.
Fixpoint hrun (h : heap) (ops : list (nat * list V * kwargs)) : heap * list (option result) :=
  match ops with
  | [] => (h, [])
  | (r, shape, kw) :: ops' => let '(h1, res) := hcall h r shape kw in
                              let '(h2, rs) := hrun h1 ops' in (h2, res :: rs)
  end.
End Kwargs.

Arguments kw_set {V}. Arguments kw_update {V}. Arguments kw_get {V}. Arguments kw_has {V}. Arguments kw_del {V}.
Arguments keys {V}. Arguments filter_deprecated {V}. Arguments mkInit {V}. Arguments i_func {V}. Arguments i_kwargs {V}.
Arguments i_autorize_sr {V}. Arguments i_autorize_is {V}. Arguments i_autorize_rescaling {V}.
Arguments PNone {V}. Arguments PSr {V}. Arguments PInputScaling {V}. Arguments mkDesc {V}.
Arguments d_func {V}. Arguments d_shape {V}. Arguments d_post {V}. Arguments d_kwargs {V}.
Arguments RErr {V}. Arguments RInit {V}. Arguments RMat {V}. Arguments not_none {V}.
Arguments keep_seed {V}. Arguments post_process {V}. Arguments call {V}. Arguments hcall {V}. Arguments hrun {V}.

(* ------------------------------------------------------------------------------------------------ Part 1b *)
(* A keyword VALUE that is a reference to a mutable object: a numpy Generator stored as [seed] in a partial application.
   A cell holds the position of the generator in its stream (number of draws already made; numpy determinism = a draw is a
   function of that position and of the request).  A partial is the address of the cell stored in its _kwargs["seed"].
   copy.deepcopy(self) copies the cell too: the call draws from the copy; a derived partial owns a copy.
   The shallow variant (copy.copy(self) + a fresh dict) shares the cell. *)
Inductive gop := GCall (r : nat) | GPartial (r : nat).   (* partial_r( *shape) ; partial_r( **more_kwargs) *)
Record gstate := mkG { g_store : list nat; g_partials : list nat }.
Fixpoint set_nth (a v : nat) (l : list nat) : list nat :=
  match l, a with
  | [], _ => []
  | _ :: l', O => v :: l'
  | x :: l', S a' => x :: set_nth a' v l'
  end.
(* returns the new state and, for a call, the stream position the matrix was drawn from *)
Definition gstep (deep : bool) (g : gstate) (o : gop) : gstate * option nat :=
  match o with
  | GCall r =>
      let a := nth r (g_partials g) 0 in
      let s := nth a (g_store g) 0 in
      if deep then (mkG (g_store g ++ [S s]) (g_partials g), Some s)
      else (mkG (set_nth a (S s) (g_store g)) (g_partials g), Some s)
  | GPartial r =>
      let a := nth r (g_partials g) 0 in
      if deep then (mkG (g_store g ++ [nth a (g_store g) 0]) (g_partials g ++ [length (g_store g)]), None)
      else (mkG (g_store g) (g_partials g ++ [a]), None)
  end.
Fixpoint grun (deep : bool) (g : gstate) (ops : list gop) : gstate * list (option nat) :=
  match ops with
  | [] => (g, [])
  | o :: ops' => let '(g1, r) := gstep deep g o in let '(g2, rs) := grun deep g1 ops' in (g2, r :: rs)
  end.
(* the user's Generator is cell 0, at position 0; init(seed=rng, ...) stores that very object *)
Definition g0 : gstate := mkG [0] [0].

(* ------------------------------------------------------------------------------------------------ Part 2 *)
Section Scale.
Context {F : Type} `{Num F}.
Notation vec := (list F).
Notation mat := (list (list F)).

(* -_epsilon < current_sr < _epsilon *)
Definition null_radius (eps rho : F) : bool := nltb (nopp eps) rho && nltb rho eps.

(* _scale_spectral_radius (HEAD): W0 = w_init( *shape, seed=seed, **kwargs), rho = spectral_radius(W0) (oracle value);
   a null radius leaves the draw as it is (with a warning), otherwise  w *= sr / rho *)
Definition scale_sr (eps : F) (W0 : mat) (rho sr : F) : mat :=
  if null_radius eps rho then W0 else mscale (ndiv sr rho) W0.

(* the pre-fix code: the null radius was floored at epsilon and the draw multiplied by sr / epsilon *)
Definition scale_sr_prefix (eps : F) (W0 : mat) (rho sr : F) : mat :=
  let r := if null_radius eps rho then eps else rho in mscale (ndiv sr r) W0.

(* _scale_inputs: w.multiply(s) / np.multiply(w, s) with a scalar, or a vector broadcast along the columns *)
Definition scale_inputs_scalar (s : F) (W0 : mat) : mat := map (map (fun x => nmul x s)) W0.
Definition scale_inputs_cols (s : vec) (W0 : mat) : mat := map (fun row => vmul row s) W0.

(* ---------------------------------------------------------------------------------------------- Part 3 *)
(* scipy.sparse.coo_matrix((data, (i, j)), shape=(m, n)): entry list; converting to any other format sums duplicates *)
Definition coo := list ((nat * nat) * F).
Definition coo_make (rows cols : list nat) (vals : vec) : coo := combine (combine rows cols) vals.
Definition coo_get (es : coo) (i j : nat) : F :=
  fold_right (fun e acc => if (fst (fst e) =? i) && (snd (fst e) =? j) then nadd (snd e) acc else acc) n0 es.
Definition coo_dense (m n : nat) (es : coo) : mat :=
  map (fun i => map (fun j => coo_get es i j) (seq 0 n)) (seq 0 m).

(* np.roll(l, shift=-1) *)
Definition roll_left (l : list nat) : list nat := tl l ++ firstn 1 l.

(* _ring: row = np.roll(np.arange(units), -1); col = np.arange(units) *)
Definition ring_coo (n : nat) (w : vec) : coo := coo_make (roll_left (seq 0 n)) (seq 0 n) w.
Definition ring (n : nat) (w : vec) : mat := coo_dense n n (ring_coo n w).
(* _line: row = np.arange(1, units); col = np.arange(units - 1) *)
Definition line_coo (n : nat) (w : vec) : coo := coo_make (seq 1 (n - 1)) (seq 0 (n - 1)) w.
Definition line (n : nat) (w : vec) : mat := coo_dense n n (line_coo n w).

(* _random_degree.  [choice k] is the k-th answer of random_state.choice(m or n, size=degree, replace=False).
   direction "out": for column in range(n): i[column*d:(column+1)*d] = ind ; j[...] = column *)
Definition degree_rows_out (choice : nat -> list nat) (n : nat) : list nat := flat_map choice (seq 0 n).
Definition degree_cols_out (n d : nat) : list nat := flat_map (fun c => repeat c d) (seq 0 n).
Definition degree_coo_out (choice : nat -> list nat) (n d : nat) (vals : vec) : coo :=
  coo_make (degree_rows_out choice n) (degree_cols_out n d) vals.
(* direction "in": for line in range(m): i[...] = line ; j[line*d:(line+1)*d] = ind *)
Definition degree_rows_in (m d : nat) : list nat := flat_map (fun r => repeat r d) (seq 0 m).
Definition degree_cols_in (choice : nat -> list nat) (m : nat) : list nat := flat_map choice (seq 0 m).
Definition degree_coo_in (choice : nat -> list nat) (m d : nat) (vals : vec) : coo :=
  coo_make (degree_rows_in m d) (degree_cols_in choice m) vals.
End Scale.

(* the property required of the numpy oracle  Generator.choice(bound, size=d, replace=False) *)
Definition choice_ok (bound d : nat) (l : list nat) : Prop :=
  NoDup l /\ (forall x, In x l -> x < bound) /\ length l = d.
